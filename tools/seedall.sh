#!/bin/bash
# seedall.sh [dir-with-seeds] : for every <dir>/<ID>/<x>/patch.diff run ALL registered checks on a scratch copy and
# print which properties report a violation. Evidence of the real tree is not touched.
root="${1:-/tmp/seed_out}"
/verif/run.sh setup >/dev/null 2>&1
bin=$(mktemp /tmp/cloakcheck.XXXXXX); cp /verif/bin/cloakcheck "$bin"; chmod +x "$bin"
trap 'rm -f "$bin"' EXIT
for pd in "$root"/C*/*/patch.diff; do
  [ -f "$pd" ] || continue
  name=$(echo "$pd" | sed -E 's#.*/(C[0-9]+)/([^/]+)/patch.diff#\1/\2#')
  d=$(mktemp -d /tmp/seedchk.XXXXXX)
  rsync -a --exclude .git /repo/ "$d"/
  if ! (cd "$d" && git apply --whitespace=nowarn "$pd" 2>/dev/null); then echo "$name PATCH-DOES-NOT-APPLY"; rm -rf "$d"; continue; fi
  out=$(CLOAKCHECK_EVIDENCE_DIR="$d/ev" "$bin" -prop all -tier quick -repo "$d" -verif /verif 2>&1)
  hits=$(echo "$out" | grep -E '^(VIOLATION|UNDECIDED) +C' | awk '{print $2}' | sort -u | tr '\n' ' ')
  echo "$name => ${hits:-MISSED}"
  rm -rf "$d"
done
