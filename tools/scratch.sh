#!/bin/bash
# scratch.sh new <dir>        : copy /repo (without .git) to <dir>
# scratch.sh diff <dir>       : print a -p1 patch of <dir> against /repo
# scratch.sh check <dir> <id> : run the checker on <dir>
# scratch.sh rm <dir>
set -e
case "$1" in
 new) rm -rf "$2"; mkdir -p "$2"; rsync -a --exclude .git /repo/ "$2"/ ;;
 diff) cd /; diff -ruN -x .git repo "${2#/}" | sed -e 's#^--- repo/#--- a/#' -e "s#^+++ ${2#/}/#+++ b/#" -e '/^diff -ruN/d' ;;
 check) CLOAK_REPO="$2" /verif/run.sh check "$3" "${4:-quick}" ;;
 rm) rm -rf "$2" ;;
esac
