#!/bin/bash
# seedcheck.sh <patch.diff> <property id>... : apply the patch to a scratch copy of /repo and run the given checks on it.
# Prints, per property, DETECTED (with the violated rule keys) or MISSED.
patch="$1"; shift
d=$(mktemp -d /tmp/seedchk.XXXXXX)
trap 'rm -rf "$d"' EXIT
rsync -a --exclude .git /repo/ "$d"/
if ! (cd "$d" && git apply --whitespace=nowarn "$patch" 2>/dev/null || patch -p1 -s < "$patch"); then echo "PATCH-DOES-NOT-APPLY $patch"; exit 3; fi
for id in "$@"; do
  out=$(CLOAKCHECK_EVIDENCE_DIR="$d/ev" CLOAK_REPO="$d" /verif/run.sh check "$id" quick 2>&1)
  if echo "$out" | grep -q '^VIOLATION property='; then
    echo "DETECTED $id: $(echo "$out" | grep -E '^(VIOLATION|UNDECIDED) ' | cut -c1-260 | head -4)"
  else
    echo "MISSED $id ($(echo "$out" | tail -1))"
  fi
done
# restore evidence of the real tree is the caller's job (evidence files were rewritten by these runs)
