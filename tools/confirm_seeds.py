#!/usr/bin/env python3
"""Confirms seeded changes delivered by independent sub-agents and files the confirmed ones under /verif/seeded/<ID>-<x>/.

For each /tmp/seed_out/<ID>/<x>/ (patch.diff + demo *_test.go + README.md):
  1. scratch worktree of /repo HEAD (outside /repo and /verif), removed afterwards
  2. demo on the unchanged tree must PASS
  3. patch must apply, `go build ./...` must succeed, the existing suite must pass exactly the baseline's 200 tests
  4. demo with the patch must FAIL
Only then is it kept (patch.diff, demo, meta.json).  Usage: confirm_seeds.py [ID/x ...]
"""
import json, os, re, shutil, subprocess, sys, glob, concurrent.futures

TC = "/root/go/pkg/mod/golang.org/toolchain@v0.0.1-go1.24.2.linux-amd64/bin"
ENV = dict(os.environ, PATH=TC + ":" + os.environ["PATH"], GOTOOLCHAIN="local", GOFLAGS="-mod=mod", GOPROXY="off", GOSUMDB="off")
ENV.pop("GOWORK", None)
BASE = set(json.load(open("/root/.vp/BASELINE.json"))["stable_pass"])
SRC = os.environ.get("SEED_SRC", "/tmp/seed_out")
DST = "/verif/seeded"


def sh(cmd, cwd, env=None, timeout=900):
    p = subprocess.run(cmd, cwd=cwd, env=env or ENV, shell=True, capture_output=True, text=True, timeout=timeout)
    return p.returncode, p.stdout + p.stderr


def demo_files(d):
    out = []
    for f in sorted(glob.glob(os.path.join(d, "*_test.go"))):
        head = open(f).read(2000)
        m = re.search(r"place (?:this file )?(?:at|in)\s+`?([\w./-]+)`?", head)
        dest = None
        if m:
            dest = m.group(1)
            if not dest.endswith(".go"):
                dest = os.path.join(dest, os.path.basename(f))
        else:
            pk = re.search(r"^package (\w+)", head, re.M).group(1)
            guess = {"multiplex": "internal/multiplex", "server": "internal/server", "client": "internal/client", "common": "internal/common",
                     "usermanager": "internal/server/usermanager", "ecdh": "internal/ecdh", "main": "cmd/ck-client"}.get(pk.replace("_test", ""))
            dest = os.path.join(guess, os.path.basename(f))
        out.append((f, dest))
    return out


def test_names(path):
    return re.findall(r"^func (Test\w+)\(", open(path).read(), re.M)


def suite(cwd):
    rc, out = sh("go test -vet=off -count=1 -json ./... 2>/dev/null", cwd, timeout=1500)
    res = {}
    for l in out.splitlines():
        try:
            e = json.loads(l)
        except Exception:
            continue
        if e.get("Test") and e.get("Action") in ("pass", "fail"):
            res[e["Package"] + "::" + e["Test"]] = e["Action"]
    missing = sorted(t for t in BASE if res.get(t) != "pass")
    return missing


def confirm(name):
    ident, x = name.split("/")
    d = os.path.join(SRC, ident, x)
    patch = os.path.join(d, "patch.diff")
    meta = {"seed": name, "breaks_property": ident, "source": "independent sub-agent given only the property text and a scratch worktree"}
    if not os.path.exists(patch):
        return name, "no patch", meta
    wt = f"/tmp/cs_{ident}{x}"
    subprocess.run(["git", "-C", "/repo", "worktree", "remove", "--force", wt], capture_output=True)
    shutil.rmtree(wt, ignore_errors=True)
    rc, out = sh(f"git -C /repo worktree add -q --detach {wt} HEAD", "/")
    if rc != 0:
        return name, "worktree failed: " + out[-200:], meta
    try:
        demos = demo_files(d)
        if not demos:
            return name, "no demo test file", meta
        env = dict(ENV)
        heads = "".join(open(f).read(3000) for f, _ in demos)
        if "goexperiment.synctest" in heads:
            env["GOEXPERIMENT"] = "synctest"
        pkgs = set()
        names = []
        for f, dest in demos:
            os.makedirs(os.path.join(wt, os.path.dirname(dest)), exist_ok=True)
            shutil.copy(f, os.path.join(wt, dest))
            pkgs.add("./" + os.path.dirname(dest))
            names += test_names(f)
        run = "^(" + "|".join(names) + ")$"
        cmd = f"go test -vet=off -count=1 -timeout 300s -run '{run}' " + " ".join(sorted(pkgs))
        meta["demo_cmd"] = cmd + (" (GOEXPERIMENT=synctest)" if "GOEXPERIMENT" in env else "")
        meta["demo_files"] = [dest for _, dest in demos]
        rc0, out0 = sh(cmd, wt, env)
        meta["demo_without_change"] = "PASS" if rc0 == 0 else "FAIL"
        if rc0 != 0 or "no tests to run" in out0 and "ok" not in out0:
            return name, "demo does not pass on the unchanged tree: " + out0[-300:], meta
        rc, out = sh(f"git apply --whitespace=nowarn {patch}", wt)
        if rc != 0:
            return name, "patch does not apply: " + out[-200:], meta
        rc, out = sh("go build ./...", wt)
        if rc != 0:
            return name, "does not compile: " + out[-300:], meta
        rc1, out1 = sh(cmd, wt, env)
        meta["demo_with_change"] = "PASS" if rc1 == 0 else "FAIL"
        if rc1 == 0:
            return name, "demo still passes with the change", meta
        fails = re.findall(r"^\s*(--- FAIL.*|panic:.*|.*timed out.*)$", out1, re.M)[:4]
        meta["demo_failure_excerpt"] = fails
        # existing suite with the change (demo files removed so that they do not count)
        for _, dest in demos:
            os.remove(os.path.join(wt, dest))
        missing = suite(wt)
        meta["baseline_tests_passing_with_change"] = len(BASE) - len(missing)
        if missing:
            # one retry for timing-sensitive tests under load
            missing = suite(wt)
            meta["baseline_tests_passing_with_change"] = len(BASE) - len(missing)
        if missing:
            meta["baseline_missing"] = missing[:5]
            return name, "existing suite no longer passes: " + ", ".join(missing[:3]), meta
        # keep
        out_dir = os.path.join(DST, f"{ident}-{x}")
        shutil.rmtree(out_dir, ignore_errors=True)
        os.makedirs(out_dir)
        shutil.copy(patch, os.path.join(out_dir, "patch.diff"))
        for f, dest in demos:
            shutil.copy(f, os.path.join(out_dir, os.path.basename(f)))
        readme = os.path.join(d, "README.md")
        needs = ""
        if os.path.exists(readme):
            txt = open(readme).read()
            shutil.copy(readme, os.path.join(out_dir, "AGENT_README.md"))
            m = re.search(r"(?is)(what it needs[^\n]*\n.*?)(?:\n#|\Z)", txt)
            needs = (m.group(1) if m else txt[:1200]).strip()[:1500]
        meta["needs_to_manifest"] = needs
        meta["what_i_ran"] = ["git worktree add (scratch, removed afterwards)", "demo on unchanged tree: PASS", "git apply patch.diff; go build ./...: ok",
                              "demo with change: FAIL", "go test -vet=off -count=1 ./... with change: all 200 baseline tests pass"]
        json.dump(meta, open(os.path.join(out_dir, "meta.json"), "w"), indent=1)
        return name, "CONFIRMED", meta
    finally:
        subprocess.run(["git", "-C", "/repo", "worktree", "remove", "--force", wt], capture_output=True)
        shutil.rmtree(wt, ignore_errors=True)


if __name__ == "__main__":
    names = sys.argv[1:] or sorted(os.path.relpath(os.path.dirname(p), SRC) for p in glob.glob(SRC + "/C*/*/patch.diff"))
    with concurrent.futures.ThreadPoolExecutor(max_workers=3) as ex:
        for name, verdict, meta in ex.map(confirm, names):
            print(f"{name}: {verdict}", flush=True)
