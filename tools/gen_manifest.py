#!/usr/bin/env python3
"""Regenerates /verif/MANIFEST.json from the table below (kept next to the checker so the two stay in step)."""
import json, os, subprocess, sys
V = os.path.dirname(os.path.dirname(os.path.abspath(__file__)))
props = [json.loads(l) for l in open(os.path.join(V, "properties.jsonl"))]
# claimed: id -> (technique, level text, note)
claimed = json.load(open(os.path.join(V, "tools", "claims.json")))
repo_head = subprocess.run(["git","-C","/repo","log","--format=%h %s"],capture_output=True,text=True).stdout.splitlines()
fixes = [l.split()[0] for l in repo_head if l.split(" ",1)[1].startswith("fix:")]
checks, na = [], []
for p in props:
    i = p["id"]
    if i in claimed:
        c = claimed[i]
        checks.append({
            "property_id": i,
            "quick_cmd": f"./run.sh check {i} quick",
            "thorough_cmd": f"./run.sh check {i} thorough",
            "evidence_file": f"evidence/{i}.json",
            "replay_cmd_template": "./run.sh explain {path}",
            "engine": "cloakcheck",
            "level_claimed": {"category": "other", "text": c["text"], "design_ref": f"DESIGN.md section 4 ({i})"},
            "level_note": c["note"],
            "technique": c["technique"],
        })
    else:
        na.append({"property_id": i, "reason": "static check for this property is not built yet in this commit (planned rules: DESIGN.md section 4); no other technique is substituted"})
m = {
    "version": 1,
    "setup_cmd": "./run.sh setup",
    "hooks": {"guard": "verif", "enable": "none needed: the checker reads /repo's source; no instrumentation is compiled into cbeuw/Cloak",
              "baseline_off_cmd": "cd /repo && PATH=/root/go/pkg/mod/golang.org/toolchain@v0.0.1-go1.24.2.linux-amd64/bin:$PATH GOTOOLCHAIN=local GOFLAGS=-mod=mod GOPROXY=off go test -json -vet=off -count=1 -timeout 25m ./...",
              "source_commits": [], "add_only": True},
    "engines": [{"name": "cloakcheck", "path": "checker/", "serves_properties": sorted(claimed.keys()),
                 "kind_free_text": "repository-specific static analyser on go/packages + go/ssa + VTA call graph: lockset/guarded-by, lock-order graph, dominance/must-pass, typestate with summaries, value-flow, affine bounds, byte-layout tables, cond-var discipline, panic-safety"}],
    "checks": checks,
    "not_applicable": na,
    "notes": "All claims are level 'other': each check decides named structural necessary conditions of its property from /repo's current source (nothing is executed) and says in its evidence which clauses are not decided. fix: commits in /repo: " + ", ".join(fixes) + ". Known findings: known_findings.json.",
}
json.dump(m, open(os.path.join(V, "MANIFEST.json"), "w"), indent=1)
print("claimed", len(checks), "n/a", len(na))
