#!/usr/bin/env python3
"""Generates the checker's self-validation corpus /verif/variants/<ID>/{break,keep}/<name>.patch from the table below.

break = a small source edit that violates one rule instance (must still type-check; the checker must report it)
keep  = a behaviour-preserving edit (rename, reordering, equivalent comparison, helper form); the checker must stay silent

Each entry: (property, kind, name, file, [(old, new), ...]).  Edits are exact string replacements on /repo's current files;
an entry whose `old` text is absent is reported and skipped (the corpus validates the checker, not the tree)."""
import os, subprocess, sys, tempfile, shutil

R = "/repo"
OUT = "/verif/variants"
MX = "internal/multiplex/"
SV = "internal/server/"
CM = "internal/common/"
CL = "internal/client/"
UM = "internal/server/usermanager/"

V = []


def add(prop, kind, name, file, *edits):
    V.append((prop, kind, name, file, list(edits)))


# ---------------------------------------------------------------- C01
add("C01", "break", "addconn-count-before-store", MX + "switchboard.go",
    ("""	connId := atomic.LoadUint32(&sb.connsCount)
	sb.conns.Store(connId, conn)
	// publish the slot only once it is filled: pickRandConn draws from [0, connsCount)
	atomic.AddUint32(&sb.connsCount, 1)
""", """	connId := atomic.AddUint32(&sb.connsCount, 1) - 1
	sb.conns.Store(connId, conn)
"""))
add("C01", "break", "addconn-no-mutex", MX + "switchboard.go",
    ("	sb.addConnM.Lock()\n", ""), ("	sb.addConnM.Unlock()\n", ""))
add("C01", "break", "copy-whole-buffer", CM + "copy.go", ("dst.Write(buf[0:nr])", "dst.Write(buf)"))
add("C01", "break", "routetcp-one-byte-short", CL + "piper.go",
    ("""			_, err = stream.Write(data[:i])
			if err != nil {
				log.Errorf("Failed to write to stream: %v", err)""", """			_, err = stream.Write(data[:i-1])
			if err != nil {
				log.Errorf("Failed to write to stream: %v", err)"""))
add("C01", "break", "one-relay-direction", SV + "dispatcher.go",
    ("""		go func() {
			if _, err := common.Copy(newStream, localConn); err != nil {
				log.Tracef("copying proxy server to stream: %v", err)
			}
		}()
""", ""))
add("C01", "break", "streams-outside-lock", MX + "session.go",
    ("""	sesh.streamsM.Lock()
	sesh.streams[s.id] = nil
	sesh.streamsM.Unlock()
""", """	sesh.streams[s.id] = nil
"""))
add("C01", "keep", "rename-connscount", MX + "switchboard.go", ("connsCount", "nConns"))
add("C01", "keep", "copy-rename-locals", CM + "copy.go", ("nr, er := src.Read(buf)", "got, er := src.Read(buf)"), ("if nr > 0 {", "if got > 0 {"),
    ("dst.Write(buf[0:nr])", "dst.Write(buf[0:got])"), ("if nr != nw {", "if got != nw {"))
add("C01", "keep", "addconn-defer-unlock", MX + "switchboard.go",
    ("	sb.addConnM.Lock()\n", "	sb.addConnM.Lock()\n	defer sb.addConnM.Unlock()\n"), ("	sb.addConnM.Unlock()\n", ""))

# ---------------------------------------------------------------- C02
add("C02", "break", "fastpath-ignores-parked", MX + "streamBuffer.go",
    ("if len(sb.sh) == 0 && f.Seq == sb.nextRecvSeq {", "if f.Seq == sb.nextRecvSeq {"))
add("C02", "break", "heap-less-reversed", MX + "streamBuffer.go", ("return sh[i].Seq < sh[j].Seq", "return sh[i].Seq > sh[j].Seq"))
add("C02", "break", "drain-no-increment", MX + "streamBuffer.go",
    ("""			sb.buf.Write(f.Payload)
			sb.nextRecvSeq += 1
		}
	}
	return false, nil""", """			sb.buf.Write(f.Payload)
		}
	}
	return false, nil"""))
add("C02", "break", "park-without-copy", MX + "streamBuffer.go",
    ("""	saved.Payload = make([]byte, len(f.Payload))
	copy(saved.Payload, f.Payload)
""", ""))
add("C02", "break", "stale-frame-parked", MX + "streamBuffer.go",
    ("""	if f.Seq < sb.nextRecvSeq {
		return false, fmt.Errorf("seq %v is smaller than nextRecvSeq %v", f.Seq, sb.nextRecvSeq)
	}
""", """	if f.Seq < sb.nextRecvSeq {
		log.Debugf("seq %v is smaller than nextRecvSeq %v", f.Seq, sb.nextRecvSeq)
	}
"""), ('	"fmt"\n', '	log "github.com/sirupsen/logrus"\n'))
add("C02", "break", "drain-if-instead-of-for", MX + "streamBuffer.go",
    ("	for len(sb.sh) > 0 && sb.sh[0].Seq == sb.nextRecvSeq {", "	if len(sb.sh) > 0 && sb.sh[0].Seq == sb.nextRecvSeq {"))
add("C02", "break", "closing-not-in-turn", MX + "streamBuffer.go",
    ("""	saved := *f
""", """	if f.Closing != closingNothing {
		return true, nil
	}
	saved := *f
"""))
add("C02", "keep", "conjuncts-swapped", MX + "streamBuffer.go",
    ("if len(sb.sh) == 0 && f.Seq == sb.nextRecvSeq {", "if f.Seq == sb.nextRecvSeq && len(sb.sh) == 0 {"))
add("C02", "keep", "len-ge-one", MX + "streamBuffer.go", ("for len(sb.sh) > 0 &&", "for len(sb.sh) >= 1 &&"))
add("C02", "keep", "rename-counter", MX + "streamBuffer.go", ("nextRecvSeq", "owedSeq"))
add("C02", "keep", "else-removed", MX + "streamBuffer.go",
    ("""		if f.Closing != closingNothing {
			return true, nil
		} else {
			sb.buf.Write(f.Payload)
			sb.nextRecvSeq += 1
		}
		return false, nil""", """		if f.Closing != closingNothing {
			return true, nil
		}
		sb.buf.Write(f.Payload)
		sb.nextRecvSeq++
		return false, nil"""))
add("C02", "keep", "pipe-shrinks-only-when-empty", MX + "streamBufferedPipe.go",
    ("""	n, err := p.buf.Read(target)
	// err will always be nil because we have already verified that buf.Len() != 0
""", """	n, err := p.buf.Read(target)
	// err will always be nil because we have already verified that buf.Len() != 0
	if p.buf.Len() == 0 && p.buf.Cap() > 1<<20 {
		p.buf = new(bytes.Buffer)
	}
"""))
add("C02", "break", "pipe-shrinks-with-backlog", MX + "streamBufferedPipe.go",
    ("""	n, err := p.buf.Read(target)
	// err will always be nil because we have already verified that buf.Len() != 0
""", """	n, err := p.buf.Read(target)
	// err will always be nil because we have already verified that buf.Len() != 0
	if p.buf.Cap() > 1<<20 {
		p.buf.Reset()
	}
"""))
add("C02", "break", "closing-padding-delivered", MX + "streamBuffer.go",
    ("""		f = heap.Pop(&sb.sh).(*Frame)
		if f.Closing != closingNothing {
			return true, nil
		} else {
			sb.buf.Write(f.Payload)
			sb.nextRecvSeq += 1
		}""", """		f = heap.Pop(&sb.sh).(*Frame)
		sb.buf.Write(f.Payload)
		sb.nextRecvSeq += 1
		if f.Closing != closingNothing {
			return true, nil
		}"""))
add("C04", "break", "decoder-ignores-extralen-late-frames", MX + "obfs.go",
    ("""	usefulPayloadLen := len(pldWithOverHead) - int(extraLen)
""", """	extra := int(extraLen)
	if seq >= padFirstNFrames && o.payloadCipher != nil {
		extra = o.payloadCipher.Overhead()
	}
	usefulPayloadLen := len(pldWithOverHead) - extra
"""))
add("C04", "keep", "decoder-extralen-named-int", MX + "obfs.go",
    ("""	usefulPayloadLen := len(pldWithOverHead) - int(extraLen)
""", """	extra := int(extraLen)
	usefulPayloadLen := len(pldWithOverHead) - extra
"""))
add("C05", "break", "ws-read-stops-at-full-buffer", CM + "websocket.go",
    ("""		n += read
	}
	return
}""", """		n += read
		if n == len(buf) {
			break
		}
	}
	return
}"""))
add("C10", "break", "regrown-buffer-without-prefix", CM + "tls.go",
    ("""	writeBuf := tls.writeBufPool.Get().(*[]byte)
""", """	writeBuf := tls.writeBufPool.Get().(*[]byte)
	if recordLayerLength+msgLen > cap(*writeBuf) {
		*writeBuf = make([]byte, 3, recordLayerLength+msgLen)
	}
"""))
add("C10", "keep", "regrown-buffer-keeps-prefix", CM + "tls.go",
    ("""	writeBuf := tls.writeBufPool.Get().(*[]byte)
""", """	writeBuf := tls.writeBufPool.Get().(*[]byte)
	if recordLayerLength+msgLen > cap(*writeBuf) {
		*writeBuf = append(make([]byte, 0, recordLayerLength+msgLen), (*writeBuf)[:3]...)
	}
"""))
add("C13", "break", "template-restored-after-close-frame", MX + "session.go",
    ("""		s.writingFrame.Closing = closingStream
		s.writingFrame.Payload = payload
""", """		tmpl := s.writingFrame
		defer func() { s.writingFrame = tmpl }()
		s.writingFrame.Closing = closingStream
		s.writingFrame.Payload = payload
"""))
add("C16", "break", "down-credit-skipped-when-up-exhausted", UM + "localmanager.go",
    ("""				responses = append(responses, resp)
			}
			err := bucket.Put([]byte("UpCredit"), i64ToB(newUp))
			if err != nil {
				log.Error(err)
			}
""", """				responses = append(responses, resp)
				_ = bucket.Put([]byte("UpCredit"), i64ToB(newUp))
				continue
			}
			err := bucket.Put([]byte("UpCredit"), i64ToB(newUp))
			if err != nil {
				log.Error(err)
			}
"""))
add("C17", "break", "terminate-remembered-record", SV + "userpanel.go",
    ("""			panel.activeUsersM.RLock()
			user := panel.activeUsers[arrUID]
			panel.activeUsersM.RUnlock()
			if user != nil {
				panel.TerminateActiveUser(user, resp.Message)
			}""", """			if user := seenUsers[arrUID]; user != nil {
				panel.TerminateActiveUser(user, resp.Message)
			}"""),
    ("""	statuses := make([]usermanager.StatusUpdate, 0, len(panel.usageUpdateQueue))
""", """	statuses := make([]usermanager.StatusUpdate, 0, len(panel.usageUpdateQueue))
	seenUsers := map[[16]byte]*ActiveUser{}
"""),
    ("""			numSession = user.NumSession()
""", """			numSession = user.NumSession()
			seenUsers[arrUID] = user
"""))
add("C20", "break", "altnames-only-single-blank-handled", CL + "state.go",
    ("""	var filteredAlternativeNames []string
	for _, alternativeName := range raw.AlternativeNames {
		if len(alternativeName) > 0 {
			filteredAlternativeNames = append(filteredAlternativeNames, alternativeName)
		}
	}
	raw.AlternativeNames = filteredAlternativeNames
""", """	if len(raw.AlternativeNames) == 1 && raw.AlternativeNames[0] == "" {
		raw.AlternativeNames = nil
	}
"""))
add("C20", "keep", "altnames-filter-by-string-compare", CL + "state.go",
    ("""		if len(alternativeName) > 0 {
			filteredAlternativeNames = append(filteredAlternativeNames, alternativeName)""", """		if alternativeName != "" {
			filteredAlternativeNames = append(filteredAlternativeNames, alternativeName)"""))
add("C07", "keep", "rename-function-decryptclientinfo", SV + "auth.go", ("decryptClientInfo", "openClientInfo"))
add("C06", "keep", "rename-function-decryptclientinfo", SV + "auth.go", ("decryptClientInfo", "openClientInfo"))
add("C12", "break", "close-skips-closeall-when-notice-fails", MX + "session.go",
    ("""	defer sesh.sb.closeAll()
	// we send a notice frame telling remote to close the session
""", """	// we send a notice frame telling remote to close the session
"""),
    ("""	log.Debugf("session %v closed gracefully", sesh.id)
	return nil
}

func (sesh *Session) IsClosed() bool {""", """	sesh.sb.closeAll()
	log.Debugf("session %v closed gracefully", sesh.id)
	return nil
}

func (sesh *Session) IsClosed() bool {"""))
add("C12", "keep", "close-explicit-closeall-on-every-exit", MX + "session.go",
    ("""	defer sesh.sb.closeAll()
	// we send a notice frame telling remote to close the session
""", """	// we send a notice frame telling remote to close the session
"""),
    ("""	i, err := sesh.obfuscate(f, *buf, frameHeaderLength)
	if err != nil {
		return err
	}
	_, err = sesh.sb.send((*buf)[:i], new(net.Conn))
	if err != nil {
		return err
	}
	log.Debugf("session %v closed gracefully", sesh.id)""", """	i, err := sesh.obfuscate(f, *buf, frameHeaderLength)
	if err != nil {
		sesh.sb.closeAll()
		return err
	}
	_, err = sesh.sb.send((*buf)[:i], new(net.Conn))
	sesh.sb.closeAll()
	if err != nil {
		return err
	}
	log.Debugf("session %v closed gracefully", sesh.id)"""))
add("C12", "break", "receive-backlog-bound-lowered", MX + "recvBuffer.go",
    ("const recvBufferSizeLimit = 1<<31 - 1", "const recvBufferSizeLimit = 1 << 24"))

# ---------------------------------------------------------------- C03
add("C03", "break", "closestream-no-buffer-close", MX + "session.go", ("	_ = s.recvBuf.Close() // recvBuf.Close should not return error\n", ""))
add("C03", "break", "pipe-close-no-broadcast", MX + "streamBufferedPipe.go",
    ("""	p.closed = true
	p.rwCond.Broadcast()
""", """	p.closed = true
"""))
add("C03", "break", "eof-on-closed-alone", MX + "streamBufferedPipe.go", ("if p.closed && p.buf.Len() == 0 {", "if p.closed {"))
add("C03", "break", "write-checks-closed-before-lock", MX + "stream.go",
    ("""	s.writingM.Lock()
	defer s.writingM.Unlock()
	if s.isClosed() {
		return 0, ErrBrokenStream
	}
""", """	if s.isClosed() {
		return 0, ErrBrokenStream
	}
	s.writingM.Lock()
	defer s.writingM.Unlock()
"""))
add("C03", "break", "close-frame-unsequenced", MX + "session.go",
    ("""		s.writingFrame.Closing = closingStream
		s.writingFrame.Payload = payload

		err := s.obfuscateAndSend(*tmpBuf, frameHeaderLength)
""", """		cf := &Frame{StreamID: s.id, Seq: s.writingFrame.Seq, Closing: closingStream, Payload: payload}
		n, err := sesh.obfuscate(cf, *tmpBuf, frameHeaderLength)
		if err == nil {
			_, err = sesh.sb.send((*tmpBuf)[:n], &s.assignedConn)
		}
"""))
add("C03", "break", "eof-not-mapped", MX + "stream.go",
    ("""	if err == io.EOF {
		return n, ErrBrokenStream
	}
	return""", """	return"""))
add("C03", "keep", "deferred-buffer-close", MX + "session.go",
    ("	_ = s.recvBuf.Close() // recvBuf.Close should not return error\n", "	defer s.recvBuf.Close() // recvBuf.Close should not return error\n"))
add("C03", "keep", "signal-then-broadcast", MX + "streamBufferedPipe.go",
    ("""	p.closed = true
	p.rwCond.Broadcast()
""", """	p.closed = true
	p.rwCond.Signal()
	p.rwCond.Broadcast()
"""))
add("C03", "keep", "eof-conjuncts-swapped", MX + "streamBufferedPipe.go", ("if p.closed && p.buf.Len() == 0 {", "if p.buf.Len() == 0 && p.closed {"))

# ---------------------------------------------------------------- C04
add("C04", "break", "padding-bound-wraps", MX + "obfs.go", ("common.RandInt(maxExtraLen - tagLen + 1)", "common.RandInt(maxExtraLen + 1)"))
add("C04", "break", "header-fields-swapped-both-sides", MX + "obfs.go",
    ("binary.BigEndian.PutUint32(header[0:4], f.StreamID)", "binary.BigEndian.PutUint32(header[8:12], f.StreamID)"),
    ("binary.BigEndian.PutUint64(header[4:12], f.Seq)", "binary.BigEndian.PutUint64(header[0:8], f.Seq)"),
    ("streamID := binary.BigEndian.Uint32(header[0:4])", "streamID := binary.BigEndian.Uint32(header[8:12])"),
    ("seq := binary.BigEndian.Uint64(header[4:12])", "seq := binary.BigEndian.Uint64(header[0:8])"))
add("C04", "break", "aes128-wrong-key-half", MX + "obfs.go", ("c, err = aes.NewCipher(sessionKey[:16])", "c, err = aes.NewCipher(sessionKey[16:])"))
add("C04", "break", "constant-nonce-both-sides", MX + "obfs.go",
    ("o.payloadCipher.Seal(payload[:0], header[:o.payloadCipher.NonceSize()], payload, nil)", "o.payloadCipher.Seal(payload[:0], make([]byte, o.payloadCipher.NonceSize()), payload, nil)"),
    ("o.payloadCipher.Open(pldWithOverHead[:0], header[:o.payloadCipher.NonceSize()], pldWithOverHead, nil)", "o.payloadCipher.Open(pldWithOverHead[:0], make([]byte, o.payloadCipher.NonceSize()), pldWithOverHead, nil)"))
add("C04", "break", "max-unit-off-by-one", MX + "session.go",
    ("sesh.maxStreamUnitWrite = sesh.MsgOnWireSizeLimit - frameHeaderLength - maxExtraLen", "sesh.maxStreamUnitWrite = sesh.MsgOnWireSizeLimit - frameHeaderLength - maxExtraLen + 1"))
add("C04", "break", "salsa-nonce-first-bytes", MX + "obfs.go", ("nonce := buf[usefulLen-salsa20NonceSize : usefulLen]", "nonce := buf[frameHeaderLength : frameHeaderLength+salsa20NonceSize]"))
add("C04", "break", "copy-branch-inverted", MX + "obfs.go", ("if payloadOffsetInBuf != frameHeaderLength {", "if payloadOffsetInBuf == frameHeaderLength {"))
add("C04", "keep", "rename-padlen", MX + "obfs.go", ("padLen", "nPad"))
add("C04", "keep", "header-writes-reordered", MX + "obfs.go",
    ("""	binary.BigEndian.PutUint32(header[0:4], f.StreamID)
	binary.BigEndian.PutUint64(header[4:12], f.Seq)
	header[12] = f.Closing
""", """	header[12] = f.Closing
	binary.BigEndian.PutUint64(header[4:12], f.Seq)
	binary.BigEndian.PutUint32(header[0:4], f.StreamID)
"""))
add("C04", "keep", "padding-arg-regrouped", MX + "obfs.go", ("common.RandInt(maxExtraLen - tagLen + 1)", "common.RandInt(1 + maxExtraLen - tagLen)"))

# ---------------------------------------------------------------- C05
add("C05", "break", "body-single-read", CM + "tls.go", ("return io.ReadFull(tls.Conn, buffer[:dataLength])", "return tls.Conn.Read(buffer[:dataLength])"))
add("C05", "break", "oversize-unchecked", CM + "tls.go",
    ("""	if dataLength > len(buffer) {
		err = io.ErrShortBuffer
		return
	}
""", ""))
add("C05", "break", "header-and-body-two-writes", CM + "tls.go",
    ("""	*writeBuf = append(*writeBuf, in...)
	n, err = tls.Conn.Write(*writeBuf)
""", """	_, err = tls.Conn.Write(*writeBuf)
	if err == nil {
		n, err = tls.Conn.Write(in)
		n += recordLayerLength
	}
"""))
add("C05", "break", "websocket-write-unlocked", CM + "websocket.go",
    ("""	ws.writeM.Lock()
	err := ws.WriteMessage(websocket.BinaryMessage, data)
	ws.writeM.Unlock()
""", """	err := ws.WriteMessage(websocket.BinaryMessage, data)
"""))
add("C05", "break", "body-sized-by-buffer", CM + "tls.go", ("return io.ReadFull(tls.Conn, buffer[:dataLength])", "return io.ReadFull(tls.Conn, buffer[:len(buffer)])"))
add("C05", "break", "no-reset-before-put", CM + "tls.go", ("	*writeBuf = (*writeBuf)[:3]\n", ""))
add("C05", "keep", "readatleast-form", CM + "tls.go",
    ("return io.ReadFull(tls.Conn, buffer[:dataLength])", "body := buffer[:dataLength]\n	return io.ReadAtLeast(tls.Conn, body, len(body))"))
add("C05", "keep", "websocket-defer-unlock", CM + "websocket.go",
    ("""	ws.writeM.Lock()
	err := ws.WriteMessage(websocket.BinaryMessage, data)
	ws.writeM.Unlock()
""", """	err := func() error {
		ws.writeM.Lock()
		defer ws.writeM.Unlock()
		return ws.WriteMessage(websocket.BinaryMessage, data)
	}()
"""))
add("C05", "keep", "rename-datalength", CM + "tls.go", ("dataLength", "bodyLen"))

# ---------------------------------------------------------------- C06
add("C06", "break", "client-reads-wrong-offset", CL + "TLS.go", ("encrypted := append(buf[6:38], buf[84:116]...)", "encrypted := append(buf[6:38], buf[80:112]...)"))
add("C06", "break", "client-swaps-carriers", CL + "TLS.go",
    ("""		sessionId:      payload.ciphertextWithTag[0:32],
		x25519KeyShare: payload.ciphertextWithTag[32:64],""", """		sessionId:      payload.ciphertextWithTag[32:64],
		x25519KeyShare: payload.ciphertextWithTag[0:32],"""))
add("C06", "break", "server-session-id-offset", SV + "auth.go", ("info.SessionId = binary.BigEndian.Uint32(plaintext[37:41])", "info.SessionId = binary.BigEndian.Uint32(plaintext[38:42])"))
add("C06", "break", "client-nonce-shifted", CL + "auth.go", ("common.AESGCMEncrypt(ret.randPubKey[:12], sharedSecret[:], plaintext)", "common.AESGCMEncrypt(ret.randPubKey[4:16], sharedSecret[:], plaintext)"))
add("C06", "break", "fresh-key-on-user-path", SV + "dispatcher.go",
    ("preparedConn, err := finishHandshake(conn, sesh.GetSessionKey(), sta.WorldState.Rand)", "preparedConn, err := finishHandshake(conn, sessionKey, sta.WorldState.Rand)"))
add("C06", "break", "cdn-header-renamed-one-side", CL + "websocket.go", ('header.Add("hidden",', 'header.Add("x-hidden",'))
add("C06", "keep", "server-reads-reordered", SV + "auth.go",
    ("""		EncryptionMethod: plaintext[28],
		Unordered:        plaintext[41]&UNORDERED_FLAG != 0,""", """		Unordered:        plaintext[41]&UNORDERED_FLAG != 0,
		EncryptionMethod: plaintext[28],"""))
add("C06", "keep", "client-rename-plaintext", CL + "auth.go", ("plaintext", "clear"))

# ---------------------------------------------------------------- C07
add("C07", "break", "window-upper-side-dropped", SV + "auth.go",
    ("if !(clientTime.After(serverTime.Add(-timestampTolerance)) && clientTime.Before(serverTime.Add(timestampTolerance))) {", "if !clientTime.After(serverTime.Add(-timestampTolerance)) {"))
add("C07", "break", "window-non-strict", SV + "auth.go",
    ("if !(clientTime.After(serverTime.Add(-timestampTolerance)) && clientTime.Before(serverTime.Add(timestampTolerance))) {",
     "if clientTime.Before(serverTime.Add(-timestampTolerance)) || clientTime.After(serverTime.Add(timestampTolerance)) {"))
add("C07", "break", "replay-result-ignored", SV + "auth.go",
    ("""	if sta.registerRandom(fragments.randPubKey) {
		err = ErrReplay
		return
	}
""", """	sta.registerRandom(fragments.randPubKey)
"""))
add("C07", "break", "admin-gate-without-session-id", SV + "dispatcher.go",
    ("if len(sta.AdminUID) != 0 && bytes.Equal(ci.UID, sta.AdminUID) && ci.SessionId == 0 {", "if len(sta.AdminUID) != 0 && bytes.Equal(ci.UID, sta.AdminUID) {"))
add("C07", "break", "decrypt-error-ignored", SV + "auth.go",
    ("""	plaintext, err = common.AESGCMDecrypt(fragments.randPubKey[0:12], fragments.sharedSecret[:], fragments.ciphertextWithTag[:])
	if err != nil {
		return
	}
""", """	plaintext, err = common.AESGCMDecrypt(fragments.randPubKey[0:12], fragments.sharedSecret[:], fragments.ciphertextWithTag[:])
	if plaintext == nil {
		return
	}
"""))
add("C07", "break", "expiry-check-dropped", UM + "localmanager.go",
    ("""	if expiryTime < manager.world.Now().Unix() {
		return 0, 0, ErrUserExpired
	}
""", """	_ = expiryTime
"""))
add("C07", "keep", "window-early-returns", SV + "auth.go",
    ("""	if !(clientTime.After(serverTime.Add(-timestampTolerance)) && clientTime.Before(serverTime.Add(timestampTolerance))) {
		err = fmt.Errorf("%v: received timestamp %v", ErrTimestampOutOfWindow, timestamp)
		return
	}
""", """	if !clientTime.After(serverTime.Add(-timestampTolerance)) {
		err = fmt.Errorf("%v: received timestamp %v", ErrTimestampOutOfWindow, timestamp)
		return
	}
	if !clientTime.Before(serverTime.Add(timestampTolerance)) {
		err = fmt.Errorf("%v: received timestamp %v", ErrTimestampOutOfWindow, timestamp)
		return
	}
"""))
add("C07", "keep", "admin-conjuncts-reordered", SV + "dispatcher.go",
    ("if len(sta.AdminUID) != 0 && bytes.Equal(ci.UID, sta.AdminUID) && ci.SessionId == 0 {", "if ci.SessionId == 0 && len(sta.AdminUID) != 0 && bytes.Equal(ci.UID, sta.AdminUID) {"))

# ---------------------------------------------------------------- C08
add("C08", "break", "register-under-rlock", SV + "state.go",
    ("""	sta.usedRandomM.Lock()
	_, used := sta.UsedRandom[r]
	sta.UsedRandom[r] = sta.WorldState.Now().Unix()
	sta.usedRandomM.Unlock()""", """	sta.usedRandomM.RLock()
	_, used := sta.UsedRandom[r]
	sta.UsedRandom[r] = sta.WorldState.Now().Unix()
	sta.usedRandomM.RUnlock()"""))
add("C08", "break", "threshold-one-tolerance", SV + "state.go", ("Add(-2 * timestampTolerance)", "Add(-timestampTolerance)"))
add("C08", "break", "cleaner-resets-map", SV + "state.go",
    ("""		for key, t := range sta.UsedRandom {
			// a random first seen at t stays presentable until t+2*timestampTolerance
			if time.Unix(t, 0).Before(sta.WorldState.Now().Add(-2 * timestampTolerance)) {
				delete(sta.UsedRandom, key)
			}
		}
""", """		sta.UsedRandom = map[[32]byte]int64{}
"""))
add("C08", "break", "mask-removed", SV + "state.go", ("	r[31] &= 0x7f\n", ""))
add("C08", "break", "register-after-decrypt", SV + "auth.go",
    ("""	if sta.registerRandom(fragments.randPubKey) {
		err = ErrReplay
		return
	}

	info, err = decryptClientInfo(fragments, sta.WorldState.Now().UTC())
	if err != nil {
		log.Debug(err)
		err = fmt.Errorf("%w: %v", ErrBadDecryption, err)
		return
	}
""", """	info, err = decryptClientInfo(fragments, sta.WorldState.Now().UTC())
	if err != nil {
		log.Debug(err)
		err = fmt.Errorf("%w: %v", ErrBadDecryption, err)
		return
	}
	if sta.registerRandom(fragments.randPubKey) {
		err = ErrReplay
		return
	}
"""))
add("C08", "keep", "threshold-as-sub", SV + "state.go",
    ("if time.Unix(t, 0).Before(sta.WorldState.Now().Add(-2 * timestampTolerance)) {", "if sta.WorldState.Now().Sub(time.Unix(t, 0)) > 2*timestampTolerance {"))
add("C08", "keep", "register-defer-unlock", SV + "state.go",
    ("""	sta.usedRandomM.Lock()
	_, used := sta.UsedRandom[r]
	sta.UsedRandom[r] = sta.WorldState.Now().Unix()
	sta.usedRandomM.Unlock()
	return used""", """	sta.usedRandomM.Lock()
	defer sta.usedRandomM.Unlock()
	_, used := sta.UsedRandom[r]
	sta.UsedRandom[r] = sta.WorldState.Now().Unix()
	return used"""))
add("C08", "keep", "older-threshold", SV + "state.go", ("Add(-2 * timestampTolerance)", "Add(-3 * timestampTolerance)"))

# ---------------------------------------------------------------- C09
add("C09", "break", "replay-one-byte-short", SV + "dispatcher.go", ("	data := buf[:i]\n", "	data := buf[:i-1]\n"))
add("C09", "break", "offset-not-advanced", SV + "dispatcher.go",
    ("""		i, err = io.ReadFull(conn, buf[recordLayerLength:dataLength+recordLayerLength])
		bufOffset += i
""", """		i, err = io.ReadFull(conn, buf[recordLayerLength:dataLength+recordLayerLength])
"""))
add("C09", "break", "close-on-bad-proxy-method", SV + "dispatcher.go",
    ("""		}).Error(ErrBadProxyMethod)
		goWeb()
		return""", """		}).Error(ErrBadProxyMethod)
		conn.Close()
		return"""))
add("C09", "break", "recover-removed-from-keyshare-parser", SV + "TLSAux.go",
    ("""func parseKeyShare(input []byte) (ret []byte, err error) {
	defer func() {
		if r := recover(); r != nil {
			err = errors.New("malformed key_share")
		}
	}()
""", """func parseKeyShare(input []byte) (ret []byte, err error) {
"""))
add("C09", "keep", "recover-only-in-calling-parser", SV + "TLSAux.go",
    ("""func parseExtensions(input []byte) (ret map[[2]byte][]byte, err error) {
	defer func() {
		if r := recover(); r != nil {
			err = errors.New("Malformed Extensions")
		}
	}()
""", """func parseExtensions(input []byte) (ret map[[2]byte][]byte, err error) {
"""))
add("C09", "break", "banner-before-verdict", SV + "dispatcher.go",
    ("	ci, finishHandshake, err := AuthFirstPacket(data, transport, sta)\n", "	conn.Write([]byte{0x15, 0x03, 0x03, 0x00, 0x02, 0x02, 0x28})\n	ci, finishHandshake, err := AuthFirstPacket(data, transport, sta)\n"))
add("C09", "break", "record-length-check-forgets-header", SV + "dispatcher.go",
    ("if dataLength+recordLayerLength > len(buf) {", "if dataLength > len(buf) {"))
add("C09", "break", "no-deadline", SV + "dispatcher.go",
    ("	conn.SetReadDeadline(time.Now().Add(timeout))\n	defer conn.SetReadDeadline(time.Time{})\n", "	_ = timeout\n"))
add("C09", "keep", "reject-helper", SV + "dispatcher.go",
    ("""		}).Error(ErrBadProxyMethod)
		goWeb()
		return""", """		}).Error(ErrBadProxyMethod)
		func() { goWeb() }()
		return"""))
add("C09", "keep", "data-slice-with-zero", SV + "dispatcher.go", ("	data := buf[:i]\n", "	data := buf[0:i]\n"))

# ---------------------------------------------------------------- C10
add("C10", "break", "no-session-id-echo", SV + "TLSAux.go", ("serverHello[5] = sessionId ", "serverHello[5] = make([]byte, 32)"))
add("C10", "break", "appdata-version-0301", CM + "tls.go",
    ("b = append(b, ApplicationData, byte(VersionTLS13>>8), byte(VersionTLS13&0xFF))", "b = append(b, ApplicationData, byte(VersionTLS11>>8), byte(VersionTLS11&0xFF))"))
add("C10", "break", "limit-one-over", CM + "tls.go", ("if msgLen > 1<<14+256 {", "if msgLen > 1<<14+257 {"))
add("C10", "break", "server-limit-differs", SV + "TLS.go", ("const appDataMaxLength = 16401", "const appDataMaxLength = 16641"))
add("C10", "break", "length-field-includes-header", CM + "tls.go",
    ("*writeBuf = append(*writeBuf, byte(msgLen>>8), byte(msgLen&0xFF))", "*writeBuf = append(*writeBuf, byte((msgLen+5)>>8), byte((msgLen+5)&0xFF))"))
add("C10", "break", "raw-write-after-wrap", CM + "tls.go",
    ("""func (tls *TLSConn) Close() error {
	return tls.Conn.Close()""", """func (tls *TLSConn) Close() error {
	tls.Conn.Write([]byte{0x15, 0x03, 0x03, 0x00, 0x02, 0x01, 0x00})
	return tls.Conn.Close()"""))
add("C10", "break", "serverhello-length-stale", SV + "TLSAux.go", ("serverHello[1] = []byte{0x00, 0x00, 0x76}", "serverHello[1] = []byte{0x00, 0x00, 0x77}"))
add("C10", "keep", "rename-msglen", CM + "tls.go", ("msgLen", "n0"))
add("C10", "keep", "tls12-const-inlined", SV + "TLSAux.go",
    ("	ccsBytes := addRecordLayer([]byte{0x01}, []byte{0x14}, TLS12)", "	ccsBytes := addRecordLayer([]byte{0x01}, []byte{0x14}, []byte{0x03, 0x03})"))

# ---------------------------------------------------------------- C11
add("C11", "break", "open-error-ignored", MX + "obfs.go",
    ("""		_, err := o.payloadCipher.Open(pldWithOverHead[:0], header[:o.payloadCipher.NonceSize()], pldWithOverHead, nil)
		if err != nil {
			return err
		}
""", """		_, _ = o.payloadCipher.Open(pldWithOverHead[:0], header[:o.payloadCipher.NonceSize()], pldWithOverHead, nil)
"""))
add("C11", "break", "nonce-eight-bytes", MX + "obfs.go",
    ("o.payloadCipher.Open(pldWithOverHead[:0], header[:o.payloadCipher.NonceSize()], pldWithOverHead, nil)", "o.payloadCipher.Open(pldWithOverHead[:0], append(header[:8:8], 0, 0, 0, 0), pldWithOverHead, nil)"))
add("C11", "break", "min-length-check-removed", MX + "obfs.go",
    ("""	if len(in) < frameHeaderLength+salsa20NonceSize {
		return fmt.Errorf("input size %v, but it cannot be shorter than %v bytes", len(in), frameHeaderLength+salsa20NonceSize)
	}
""", ""))
add("C11", "break", "deplex-returns-on-bad-frame", MX + "switchboard.go",
    ("""		if err != nil {
			log.Error(err)
		}
	}""", """		if err != nil {
			log.Error(err)
			return
		}
	}"""))
add("C11", "break", "state-touched-before-decode", MX + "session.go",
    ("""	err := sesh.deobfuscate(frame, data)
	if err != nil {""", """	sesh.SetTerminalMsg("frame received")
	err := sesh.deobfuscate(frame, data)
	if err != nil {"""))
add("C11", "keep", "open-err-renamed", MX + "obfs.go",
    ("""		_, err := o.payloadCipher.Open(pldWithOverHead[:0], header[:o.payloadCipher.NonceSize()], pldWithOverHead, nil)
		if err != nil {
			return err
		}
""", """		if _, authErr := o.payloadCipher.Open(pldWithOverHead[:0], header[:o.payloadCipher.NonceSize()], pldWithOverHead, nil); authErr != nil {
			return authErr
		}
"""))

# ---------------------------------------------------------------- C12
add("C12", "break", "passiveclose-leaves-conns-open", MX + "session.go",
    ("""	err := sesh.closeSession()
	if err != nil {
		return err
	}
	sesh.sb.closeAll()
	log.Debugf("session %v closed gracefully", sesh.id)
	return nil
}

func (sesh *Session) Close() error {""", """	err := sesh.closeSession()
	if err != nil {
		return err
	}
	log.Debugf("session %v closed gracefully", sesh.id)
	return nil
}

func (sesh *Session) Close() error {"""))
add("C12", "break", "acceptch-closed-outside-lock", MX + "session.go",
    ("""	sesh.streamsM.Lock()
	close(sesh.acceptCh)
""", """	close(sesh.acceptCh)
	sesh.streamsM.Lock()
"""))
add("C12", "break", "openstream-check-outside-lock", MX + "session.go",
    ("""	if sesh.IsClosed() {
		sesh.streamsM.Unlock()
		return nil, ErrBrokenSession
	}
	sesh.streams[id] = stream""", """	sesh.streams[id] = stream"""))
add("C12", "break", "send-after-unlock", MX + "session.go",
    ("""		sesh.streams[frame.StreamID] = newStream
		sesh.acceptCh <- newStream
		sesh.streamsM.Unlock()
""", """		sesh.streams[frame.StreamID] = newStream
		sesh.streamsM.Unlock()
		sesh.acceptCh <- newStream
"""))
add("C12", "break", "decrement-without-cas", MX + "session.go",
    ("""		if stream != nil && atomic.CompareAndSwapUint32(&stream.closed, 0, 1) {""", """		if stream != nil {
			atomic.StoreUint32(&stream.closed, 1)"""))
add("C12", "break", "timeout-ignores-count", MX + "session.go", ("if sesh.streamCount() == 0 && !sesh.IsClosed() {", "if !sesh.IsClosed() {"))
add("C12", "break", "accepted-stream-not-counted", MX + "session.go",
    ("""		// new stream
		sesh.streamCountIncr()
""", """		// new stream
"""))
add("C12", "break", "datagram-close-no-broadcast", MX + "datagramBufferedPipe.go",
    ("""func (d *datagramBufferedPipe) Close() error {
	d.rwCond.L.Lock()
	defer d.rwCond.L.Unlock()

	d.closed = true
	d.rwCond.Broadcast()""", """func (d *datagramBufferedPipe) Close() error {
	d.rwCond.L.Lock()
	defer d.rwCond.L.Unlock()

	d.closed = true"""))
add("C12", "keep", "closesession-defer-unlock", MX + "session.go",
    ("""	sesh.streamsM.Lock()
	close(sesh.acceptCh)
	for id, stream := range sesh.streams {
		if stream != nil && atomic.CompareAndSwapUint32(&stream.closed, 0, 1) {
			_ = stream.recvBuf.Close() // will not block
			delete(sesh.streams, id)
			sesh.streamCountDecr()
		}
	}
	sesh.streamsM.Unlock()
	return nil""", """	sesh.streamsM.Lock()
	defer sesh.streamsM.Unlock()
	close(sesh.acceptCh)
	for id, stream := range sesh.streams {
		if stream != nil && atomic.CompareAndSwapUint32(&stream.closed, 0, 1) {
			_ = stream.recvBuf.Close() // will not block
			delete(sesh.streams, id)
			sesh.streamCountDecr()
		}
	}
	return nil"""))
add("C12", "keep", "timeout-conjuncts-swapped", MX + "session.go", ("if sesh.streamCount() == 0 && !sesh.IsClosed() {", "if !sesh.IsClosed() && sesh.streamCount() == 0 {"))
add("C12", "keep", "rename-streamsm", MX + "session.go", ("streamsM", "tableM"))

# ---------------------------------------------------------------- C13
add("C13", "break", "readfrom-sends-unlocked", MX + "stream.go",
    ("""		s.writingM.Lock()
		s.writingFrame.Payload = (*buf)[frameHeaderLength : frameHeaderLength+read]
		err = s.obfuscateAndSend(*buf, frameHeaderLength)
		s.writingM.Unlock()
""", """		s.writingFrame.Payload = (*buf)[frameHeaderLength : frameHeaderLength+read]
		err = s.obfuscateAndSend(*buf, frameHeaderLength)
"""))
add("C13", "break", "seq-incremented-only-on-success", MX + "stream.go",
    ("""	cipherTextLen, err := s.session.obfuscate(&s.writingFrame, buf, payloadOffsetInBuf)
	s.writingFrame.Seq++
	if err != nil {
		return err
	}

	_, err = s.session.sb.send(buf[:cipherTextLen], &s.assignedConn)
	if err != nil {""", """	cipherTextLen, err := s.session.obfuscate(&s.writingFrame, buf, payloadOffsetInBuf)
	if err != nil {
		return err
	}

	_, err = s.session.sb.send(buf[:cipherTextLen], &s.assignedConn)
	if err == nil {
		s.writingFrame.Seq++
	}
	if err != nil {"""))
add("C13", "break", "seq-reset-on-close", MX + "session.go",
    ("		s.writingFrame.Closing = closingStream\n", "		s.writingFrame.Closing = closingStream\n		s.writingFrame.Seq = 0\n"))
add("C13", "break", "keepalive-with-handmade-frame", MX + "session.go",
    ("""func (sesh *Session) IsClosed() bool {""", """func (sesh *Session) keepAlive() {
	buf := sesh.streamObfsBufPool.Get().(*[]byte)
	f := &Frame{StreamID: 1, Seq: 0, Closing: closingNothing, Payload: (*buf)[frameHeaderLength : frameHeaderLength+1]}
	if i, err := sesh.obfuscate(f, *buf, frameHeaderLength); err == nil {
		sesh.sb.send((*buf)[:i], new(net.Conn))
	}
	sesh.streamObfsBufPool.Put(buf)
}

func (sesh *Session) IsClosed() bool {"""), ("	time.AfterFunc(sesh.InactivityTimeout, sesh.checkTimeout)\n	return sesh", "	time.AfterFunc(sesh.InactivityTimeout, sesh.checkTimeout)\n	time.AfterFunc(sesh.InactivityTimeout/2, sesh.keepAlive)\n	return sesh"))
add("C13", "break", "stream-ids-step-two-reused", MX + "session.go",
    ("	id := atomic.AddUint32(&sesh.nextStreamID, 1) - 1\n", "	id := atomic.LoadUint32(&sesh.nextStreamID)\n	atomic.StoreUint32(&sesh.nextStreamID, id+1)\n"))
add("C13", "keep", "write-explicit-unlock-free", MX + "stream.go",
    ("""func (s *Stream) Close() error {
	s.writingM.Lock()
	defer s.writingM.Unlock()

	return s.session.closeStream(s, true)""", """func (s *Stream) Close() error {
	s.writingM.Lock()
	err := s.session.closeStream(s, true)
	s.writingM.Unlock()
	return err"""))
add("C13", "keep", "rename-writingm", MX + "stream.go", ("writingM", "wm"))
add("C13", "keep", "seq-incr-before-error-check-reworded", MX + "stream.go", ("	s.writingFrame.Seq++\n", "	s.writingFrame.Seq += 1\n"))

# ---------------------------------------------------------------- C14
add("C14", "break", "pop-before-short-buffer-check", MX + "datagramBufferedPipe.go",
    ("""	dataLen := d.pLens[0]
	if len(target) < dataLen {
		return 0, io.ErrShortBuffer
	}
	d.pLens = d.pLens[1:]
""", """	dataLen := d.pLens[0]
	d.pLens = d.pLens[1:]
	if len(target) < dataLen {
		return 0, io.ErrShortBuffer
	}
"""))
add("C14", "break", "unordered-split-allowed", MX + "stream.go",
    ("""			if s.session.Unordered {
				// but we are not allowed to
				err = io.ErrShortBuffer
				return
			}
""", ""))
add("C14", "break", "map-delete-outside-mutex", CL + "piper.go",
    ("""				streamsMutex.Lock()
				delete(streams, addr.String())
				streamsMutex.Unlock()
				stream.Close()
				return""", """				delete(streams, addr.String())
				stream.Close()
				return"""))
add("C14", "break", "length-of-other-slice", MX + "datagramBufferedPipe.go", ("	dataLen := len(f.Payload)\n	d.pLens = append(d.pLens, dataLen)", "	dataLen := cap(f.Payload)\n	d.pLens = append(d.pLens, dataLen)"))
add("C14", "break", "read-returns-buffer-len", MX + "datagramBufferedPipe.go", ("	return dataLen, nil\n}", "	return len(target), nil\n}"))
add("C14", "keep", "short-buffer-compare-flipped", MX + "datagramBufferedPipe.go", ("if len(target) < dataLen {", "if dataLen > len(target) {"))
add("C14", "keep", "rename-plens", MX + "datagramBufferedPipe.go", ("pLens", "sizes"))

# ---------------------------------------------------------------- C15
add("C15", "break", "sessions-lock-removed", SV + "activeuser.go",
    ("""func (u *ActiveUser) GetSession(sessionID uint32, config mux.SessionConfig) (sesh *mux.Session, existing bool, err error) {
	u.sessionsM.Lock()
	defer u.sessionsM.Unlock()
""", """func (u *ActiveUser) GetSession(sessionID uint32, config mux.SessionConfig) (sesh *mux.Session, existing bool, err error) {
"""))
add("C15", "break", "sessions-rlock", SV + "activeuser.go",
    ("""func (u *ActiveUser) GetSession(sessionID uint32, config mux.SessionConfig) (sesh *mux.Session, existing bool, err error) {
	u.sessionsM.Lock()
	defer u.sessionsM.Unlock()
""", """func (u *ActiveUser) GetSession(sessionID uint32, config mux.SessionConfig) (sesh *mux.Session, existing bool, err error) {
	u.sessionsM.RLock()
	defer u.sessionsM.RUnlock()
"""))
add("C15", "break", "cap-plus-one", UM + "localmanager.go", ("if ainfo.NumExistingSessions >= sessionsCap {", "if ainfo.NumExistingSessions > sessionsCap {"))
add("C15", "break", "authorisation-error-ignored", SV + "activeuser.go",
    ("""			err := u.panel.Manager.AuthoriseNewSession(u.arrUID[:], ainfo)
			if err != nil {
				return nil, false, err
			}
""", """			_ = u.panel.Manager.AuthoriseNewSession(u.arrUID[:], ainfo)
"""))
add("C15", "break", "session-without-valve", SV + "activeuser.go", ("		config.Valve = u.valve\n", ""))
add("C15", "keep", "explicit-unlocks", SV + "activeuser.go",
    ("""	u.sessionsM.Lock()
	defer u.sessionsM.Unlock()
	if sesh = u.sessions[sessionID]; sesh != nil {
		return sesh, true, nil
	} else {""", """	u.sessionsM.Lock()
	defer func() { u.sessionsM.Unlock() }()
	if sesh = u.sessions[sessionID]; sesh != nil {
		return sesh, true, nil
	} else {"""))
add("C15", "keep", "cap-compare-flipped", UM + "localmanager.go", ("if ainfo.NumExistingSessions >= sessionsCap {", "if sessionsCap <= ainfo.NumExistingSessions {"))

# ---------------------------------------------------------------- C16
add("C16", "break", "received-bytes-not-metered", MX + "switchboard.go", ("		sb.valve.AddRx(int64(n))\n", ""))
add("C16", "break", "nullify-load-then-store", MX + "qos.go",
    ("""	rx := atomic.SwapInt64(v.rx, 0)
	tx := atomic.SwapInt64(v.tx, 0)""", """	rx := atomic.LoadInt64(v.rx)
	atomic.StoreInt64(v.rx, 0)
	tx := atomic.LoadInt64(v.tx)
	atomic.StoreInt64(v.tx, 0)"""))
add("C16", "break", "queue-reset-outside-lock", SV + "userpanel.go",
    ("""	panel.usageUpdateQueue = make(map[[16]byte]*usagePair)
	panel.usageUpdateQueueM.Unlock()
""", """	panel.usageUpdateQueueM.Unlock()
	panel.usageUpdateQueue = make(map[[16]byte]*usagePair)
"""))
add("C16", "break", "up-and-down-swapped-in-status", SV + "userpanel.go",
    ("""			UpUsage:    *usage.up,
			DownUsage:  *usage.down,""", """			UpUsage:    *usage.down,
			DownUsage:  *usage.up,"""))
add("C16", "break", "terminate-verdict-ignored", SV + "userpanel.go",
    ("""			if user != nil {
				panel.TerminateActiveUser(user, resp.Message)
			}""", """			if user != nil && user.NumSession() == 0 {
				panel.TerminateActiveUser(user, resp.Message)
			}"""))
add("C16", "break", "sent-bytes-metered-before-write", MX + "switchboard.go",
    ("	sb.valve.txWait(len(data))\n", "	sb.valve.txWait(len(data))\n	sb.valve.AddTx(int64(len(data)))\n"), ("	sb.valve.AddTx(int64(n))\n	return n, nil", "	return n, nil"))
add("C16", "break", "down-credit-charged-with-up-usage", UM + "localmanager.go", ("newDown := oldDown - status.DownUsage", "newDown := oldDown - status.UpUsage"))
add("C16", "keep", "rename-usage-locals", SV + "userpanel.go", ("upIncured", "upBytes"), ("downIncured", "downBytes"))
add("C16", "keep", "commit-defer-free-reorder", SV + "userpanel.go",
    ("""			Timestamp:  time.Now().Unix(),
		}""", """			Timestamp:  time.Now().UTC().Unix(),
		}"""))

# ---------------------------------------------------------------- C17
add("C17", "break", "abba-reintroduced", SV + "userpanel.go",
    ("""	panel.usageUpdateQueueM.Lock()
	panel.activeUsersM.Lock()
	for _, user := range panel.activeUsers {""", """	panel.activeUsersM.Lock()
	panel.usageUpdateQueueM.Lock()
	for _, user := range panel.activeUsers {"""))
add("C17", "break", "nested-read-lock", SV + "activeuser.go",
    ("""func (u *ActiveUser) NumSession() int {
	u.sessionsM.RLock()
	defer u.sessionsM.RUnlock()
	return len(u.sessions)""", """func (u *ActiveUser) NumSession() int {
	u.sessionsM.RLock()
	defer u.sessionsM.RUnlock()
	return u.countLocked()
}

func (u *ActiveUser) countLocked() int {
	u.sessionsM.RLock()
	defer u.sessionsM.RUnlock()
	return len(u.sessions)"""))
add("C17", "break", "close-sessions-under-panel-lock", SV + "userpanel.go",
    ("""	user.closeAllSessions(reason)
	panel.activeUsersM.Lock()
	delete(panel.activeUsers, user.arrUID)
	panel.activeUsersM.Unlock()""", """	panel.activeUsersM.Lock()
	user.closeAllSessions(reason)
	delete(panel.activeUsers, user.arrUID)
	panel.activeUsersM.Unlock()"""))
add("C17", "keep", "rename-queue-lock", SV + "userpanel.go", ("usageUpdateQueueM", "queueM"))
add("C17", "keep", "isactive-defer", SV + "userpanel.go",
    ("""	panel.activeUsersM.RLock()
	_, ok := panel.activeUsers[arrUID]
	panel.activeUsersM.RUnlock()
	return ok""", """	panel.activeUsersM.RLock()
	defer panel.activeUsersM.RUnlock()
	_, ok := panel.activeUsers[arrUID]
	return ok"""))

# ---------------------------------------------------------------- C18
add("C18", "break", "mismatch-still-writes", UM + "api_router.go",
    ("""		http.Error(w, "UID mismatch", http.StatusBadRequest)
		return
	}""", """		http.Error(w, "UID mismatch", http.StatusBadRequest)
	}"""))
add("C18", "break", "sessionscap-read-as-u64", UM + "localmanager.go",
    ("		sessionsCap = int(u32(bucket.Get([]byte(\"SessionsCap\"))))", "		sessionsCap = int(u64(bucket.Get([]byte(\"SessionsCap\"))))"))
add("C18", "break", "put-unconditional", UM + "localmanager.go",
    ("""		if u.UpRate != nil {
			if err = bucket.Put([]byte("UpRate"), i64ToB(*u.UpRate)); err != nil {
				return err
			}
		}""", """		if u.UpRate != nil || u.DownRate != nil {
			var v int64
			if u.UpRate != nil {
				v = *u.UpRate
			}
			if err = bucket.Put([]byte("UpRate"), i64ToB(v)); err != nil {
				return err
			}
		}"""))
add("C18", "break", "decoder-length-check-removed", UM + "localmanager.go",
    ("""func u64(b []byte) uint64 {
	if len(b) < 8 {
		return 0
	}
	return binary.BigEndian.Uint64(b)""", """func u64(b []byte) uint64 {
	return binary.BigEndian.Uint64(b)"""))
add("C18", "break", "rate-guard-removed", SV + "userpanel.go",
    ("""	if upRate <= 0 || downRate <= 0 {
		// a rate limiter cannot be built from a non-positive rate (ratelimit panics)
		return nil, ErrNonPositiveRate
	}
""", ""))
add("C18", "break", "delete-after-bad-uid", UM + "api_router.go",
    ("""	UID, err := base64.URLEncoding.DecodeString(b64UID)
	if err != nil {
		http.Error(w, err.Error(), http.StatusBadRequest)
		return
	}

	err = ar.manager.DeleteUser(UID)""", """	UID, err := base64.URLEncoding.DecodeString(b64UID)
	if err != nil {
		http.Error(w, err.Error(), http.StatusBadRequest)
	}

	err = ar.manager.DeleteUser(UID)"""))
add("C18", "keep", "rate-guard-split", SV + "userpanel.go",
    ("""	if upRate <= 0 || downRate <= 0 {
		// a rate limiter cannot be built from a non-positive rate (ratelimit panics)
		return nil, ErrNonPositiveRate
	}
""", """	if upRate < 1 {
		return nil, ErrNonPositiveRate
	}
	if downRate < 1 {
		return nil, ErrNonPositiveRate
	}
"""))
add("C18", "keep", "decoder-compare-flipped", UM + "localmanager.go",
    ("""func u64(b []byte) uint64 {
	if len(b) < 8 {
		return 0
	}""", """func u64(b []byte) uint64 {
	if 8 > len(b) {
		return 0
	}"""))

# ---------------------------------------------------------------- C19
add("C19", "break", "send-does-not-wait", MX + "switchboard.go", ("	sb.valve.txWait(len(data))\n", ""))
add("C19", "break", "wait-for-constant", MX + "switchboard.go", ("	sb.valve.txWait(len(data))\n", "	sb.valve.txWait(1)\n"))
add("C19", "break", "per-session-valve", SV + "activeuser.go",
    ("		config.Valve = u.valve\n", "		if lv, ok := u.valve.(*mux.LimitedValve); ok && lv != nil {\n			config.Valve = mux.MakeValve(1<<20, 1<<20)\n		} else {\n			config.Valve = u.valve\n		}\n"))
add("C19", "break", "rates-swapped", SV + "userpanel.go", ("valve := mux.MakeValve(upRate, downRate)", "valve := mux.MakeValve(downRate, upRate)"))
add("C19", "break", "capacity-twice-rate", MX + "qos.go", ("rxtb: ratelimit.NewBucketWithRate(float64(rxRate), rxRate),", "rxtb: ratelimit.NewBucketWithRate(float64(rxRate), 2*rxRate),"))
add("C19", "break", "rxwait-after-processing", MX + "switchboard.go",
    ("""		n, err := conn.Read(buf)
		sb.valve.rxWait(n)
		sb.valve.AddRx(int64(n))""", """		n, err := conn.Read(buf)
		sb.valve.AddRx(int64(n))"""), ("""		err = sb.session.recvDataFromRemote(buf[:n])
		if err != nil {
			log.Error(err)
		}""", """		err = sb.session.recvDataFromRemote(buf[:n])
		if err != nil {
			log.Error(err)
		}
		sb.valve.rxWait(n)"""))
add("C19", "keep", "rename-valve-field", MX + "switchboard.go", ("sb.valve", "sb.qos"), ("	valve    Valve\n", "	qos      Valve\n"), ("		valve:    sesh.Valve,\n", "		qos:      sesh.Valve,\n"))

# ---------------------------------------------------------------- C20
add("C20", "break", "stream-timeout-default-30", CL + "state.go", ("local.Timeout = 300 * time.Second", "local.Timeout = 30 * time.Second"))
add("C20", "break", "browser-default-firefox", CL + "state.go",
    ("""		case "chrome":
			fallthrough
		default:
			browser = chrome""", """		case "chrome":
			browser = chrome
		default:
			browser = firefox"""))
add("C20", "break", "keepalive-units-dropped", CL + "state.go", ("remote.KeepAlive = time.Duration(raw.KeepAlive) * time.Second", "remote.KeepAlive = time.Duration(raw.KeepAlive)"))
add("C20", "break", "keepalive-result-field-reused", CL + "state.go", ("remote.KeepAlive = time.Duration(raw.KeepAlive) * time.Second", "remote.KeepAlive = remote.KeepAlive * time.Second"))
add("C20", "break", "encryption-name-case-sensitive", CL + "state.go", ("switch strings.ToLower(raw.EncryptionMethod) {", "switch raw.EncryptionMethod {"))
add("C20", "break", "new-int-option-not-unquoted", CL + "state.go",
    ("	KeepAlive     int    // nullable\n}", "	KeepAlive     int    // nullable\n	DialTimeout   int    // nullable\n}"))
add("C20", "break", "numconn-negative-not-singleplex", CL + "state.go", ("	if raw.NumConn <= 0 {", "	if raw.NumConn == 0 {"))
add("C20", "break", "missing-remotehost-accepted", CL + "state.go",
    ("""	if raw.RemoteHost == "" {
		return nullErr("RemoteHost")
	}
""", ""))
add("C20", "break", "keepalive-not-handed-to-dialer", "cmd/ck-client/ck-client.go", ("d := &net.Dialer{Control: protector, KeepAlive: remoteConfig.KeepAlive}", "d := &net.Dialer{Control: protector}"))
add("C20", "keep", "numconn-less-than-one", CL + "state.go", ("	if raw.NumConn <= 0 {", "	if raw.NumConn < 1 {"))
add("C20", "keep", "timeout-default-as-minutes", CL + "state.go", ("local.Timeout = 300 * time.Second", "local.Timeout = 5 * time.Minute"))
add("C20", "keep", "keepalive-branches-swapped", CL + "state.go",
    ("""	if raw.KeepAlive <= 0 {
		remote.KeepAlive = -1
	} else {
		remote.KeepAlive = time.Duration(raw.KeepAlive) * time.Second
	}""", """	if raw.KeepAlive > 0 {
		remote.KeepAlive = time.Duration(raw.KeepAlive) * time.Second
	} else {
		remote.KeepAlive = -1
	}"""))


def main():
    shutil.rmtree(OUT, ignore_errors=True)
    made, skipped = 0, []
    for prop, kind, name, file, edits in V:
        src = open(os.path.join(R, file)).read()
        new = src
        ok = True
        for old, rep in edits:
            if old not in new:
                ok = False
                break
            if name.startswith("rename-") or old.isidentifier() or (len(old) < 24 and "\n" not in old and kind == "keep" and old.replace(".", "").isidentifier()):
                new = new.replace(old, rep)
            else:
                new = new.replace(old, rep, 1)
        if not ok:
            skipped.append(f"{prop}/{kind}/{name}")
            continue
        d = os.path.join(OUT, prop, kind)
        os.makedirs(d, exist_ok=True)
        with tempfile.TemporaryDirectory() as td:
            a = os.path.join(td, "a", file)
            b = os.path.join(td, "b", file)
            os.makedirs(os.path.dirname(a))
            os.makedirs(os.path.dirname(b))
            open(a, "w").write(src)
            open(b, "w").write(new)
            p = subprocess.run(["diff", "-u", os.path.join("a", file), os.path.join("b", file)], cwd=td, capture_output=True, text=True)
            open(os.path.join(d, name + ".patch"), "w").write(p.stdout)
        made += 1
    print("variants written:", made, "skipped (text not found):", skipped)


if __name__ == "__main__":
    main()
