#!/bin/bash
# refactorall.sh [name-glob] : apply every /verif/refactors/<name>/patch.diff (behaviour-preserving refactors written by
# independent sub-agents, each confirmed to keep the 200 baseline tests green) to a scratch copy of /repo and run ALL
# registered checks on it. Any VIOLATION/UNDECIDED is a false alarm of the checker. Evidence of the real tree is untouched.
glob="${1:-*}"
# CHECKER_BIN=<path>: use that binary instead of rebuilding (e.g. while the sources are being edited)
if [ -n "$CHECKER_BIN" ]; then src="$CHECKER_BIN"; else /verif/run.sh setup >/dev/null 2>&1; src=/verif/bin/cloakcheck; fi
bin=$(mktemp /tmp/cloakcheck.XXXXXX); cp "$src" "$bin"; chmod +x "$bin"
trap 'rm -f "$bin"' EXIT
one() {
  n=$1; pd=/verif/refactors/$n/patch.diff
  d=$(mktemp -d /tmp/refchk.XXXXXX)
  rsync -a --exclude .git /repo/ "$d"/
  if ! (cd "$d" && git apply --whitespace=nowarn "$pd" 2>/dev/null); then echo "$n PATCH-DOES-NOT-APPLY"; rm -rf "$d"; return; fi
  out=$(CLOAKCHECK_EVIDENCE_DIR="$d/ev" "$BIN" -prop all -tier quick -repo "$d" -verif /verif 2>&1)
  hits=$(echo "$out" | grep -E '^(VIOLATION|UNDECIDED) +C' | sed -E 's/ +/ /g' | cut -c1-${WIDTH:-300} | sort -u)
  if [ -z "$hits" ]; then echo "$n => silent"; else echo "$n => ALARM"; echo "$hits" | sed 's/^/      /'; fi
  rm -rf "$d"
}
export -f one; export BIN="$bin"
ls -d /verif/refactors/$glob 2>/dev/null | xargs -n1 basename | xargs -P "${JOBS:-5}" -I{} bash -c 'one {}'
