package main

import (
	"bufio"
	"bytes"
	"fmt"
	"os/exec"
	"path/filepath"
	"sort"
	"strconv"
	"strings"

	"golang.org/x/tools/go/ssa"
)

// E11 PANICSAFE (part 1) — the compiler's own list of bounds checks it could not eliminate, obtained from the
// prove pass (`-d=ssa/check_bce/debug=1`). Purely static: the repository is compiled, never run. The build
// cache replays the compiler's diagnostics, so repeated runs cost under a second.

type bceSite struct {
	file string
	line int
	col  int
	kind string // IsInBounds | IsSliceInBounds
}

type BCE struct {
	sites []bceSite
	byPos map[string][]bceSite // "file:line"
	err   error
}

func (p *Prog) BCE() *BCE {
	if p.bce != nil {
		return p.bce
	}
	b := &BCE{byPos: map[string][]bceSite{}}
	p.bce = b
	pat := modPath + "/...=-d=ssa/check_bce/debug=1"
	args := []string{"build", "-gcflags=" + pat}
	if p.Cfg.Tags != "" {
		args = append(args, "-tags="+p.Cfg.Tags)
	}
	args = append(args, "./...")
	cmd := exec.Command("go", args...)
	cmd.Dir = p.Repo
	cmd.Env = loadEnv(p.Cfg)
	var out bytes.Buffer
	cmd.Stdout = &out
	cmd.Stderr = &out
	runErr := cmd.Run()
	sc := bufio.NewScanner(&out)
	n := 0
	for sc.Scan() {
		ln := sc.Text()
		idx := strings.Index(ln, ": Found ")
		if idx < 0 {
			continue
		}
		pos := strings.Split(ln[:idx], ":")
		if len(pos) < 3 {
			continue
		}
		line, _ := strconv.Atoi(pos[len(pos)-2])
		col, _ := strconv.Atoi(pos[len(pos)-1])
		file := strings.Join(pos[:len(pos)-2], ":")
		file = strings.TrimPrefix(filepath.ToSlash(file), "./")
		s := bceSite{file: file, line: line, col: col, kind: strings.TrimSpace(ln[idx+len(": Found "):])}
		b.sites = append(b.sites, s)
		k := fmt.Sprintf("%s:%d", file, line)
		b.byPos[k] = append(b.byPos[k], s)
		n++
	}
	if runErr != nil && n == 0 {
		b.err = fmt.Errorf("go build for the bounds-check list failed: %v: %s", runErr, firstLines(out.String(), 5))
	}
	return b
}

func firstLines(s string, n int) string {
	ls := strings.Split(s, "\n")
	if len(ls) > n {
		ls = ls[:n]
	}
	return strings.Join(ls, " | ")
}

// Unproven reports whether the compiler kept a bounds check for this SSA instruction.
func (b *BCE) Unproven(p *Prog, i ssa.Instruction) bool {
	if !i.Pos().IsValid() {
		return false
	}
	ps := p.Fset.Position(i.Pos())
	rel, err := filepath.Rel(p.Repo, ps.Filename)
	if err != nil {
		return false
	}
	want := ""
	switch i.(type) {
	case *ssa.Slice:
		want = "IsSliceInBounds"
	case *ssa.IndexAddr, *ssa.Index:
		want = "IsInBounds"
	default:
		return false
	}
	for _, s := range b.byPos[fmt.Sprintf("%s:%d", filepath.ToSlash(rel), ps.Line)] {
		if s.kind != want {
			continue
		}
		// slices are reported at the bracket, index operations at the index expression: accept a small window
		if d := s.col - ps.Column; d >= -1 && d <= 2 {
			return true
		}
	}
	return false
}

// panicCapable enumerates the instructions of f that can panic at run time and are not proven safe by the compiler.
type panicSite struct {
	at   ssa.Instruction
	what string
}

func panicCapable(p *Prog, b *BCE, f *ssa.Function) []panicSite {
	var out []panicSite
	allInstrs(f, func(i ssa.Instruction) {
		switch x := i.(type) {
		case *ssa.Slice:
			if b.Unproven(p, i) {
				out = append(out, panicSite{i, "slice " + Expr(x)})
			}
		case *ssa.IndexAddr:
			if b.Unproven(p, i) {
				out = append(out, panicSite{i, "index " + strings.TrimPrefix(Expr(x), "&")})
			}
		case *ssa.Index:
			if b.Unproven(p, i) {
				out = append(out, panicSite{i, "index " + Expr(x)})
			}
		case *ssa.TypeAssert:
			if !x.CommaOk {
				out = append(out, panicSite{i, "type assertion " + Expr(x)})
			}
		case *ssa.Panic:
			out = append(out, panicSite{i, "explicit panic"})
		case *ssa.Call:
			if isNoReturnCall(i) {
				out = append(out, panicSite{i, "fatal/panic call " + calleeName(&x.Call)})
			}
		case *ssa.BinOp:
			if x.Op.String() == "/" || x.Op.String() == "%" {
				if _, isK := intConst(x.Y); !isK {
					if bt, ok := x.Type().Underlying().(interface{ Info() int }); ok {
						_ = bt
					}
					out = append(out, panicSite{i, "division " + Expr(x)})
				}
			}
		}
	})
	return out
}

// hasRecoverFrame: f defers a closure that calls recover().
func hasRecoverFrame(f *ssa.Function) bool {
	found := false
	allInstrs(f, func(i ssa.Instruction) {
		d, ok := i.(*ssa.Defer)
		if !ok {
			return
		}
		var fn *ssa.Function
		switch v := d.Call.Value.(type) {
		case *ssa.MakeClosure:
			fn, _ = v.Fn.(*ssa.Function)
		case *ssa.Function:
			fn = v
		}
		if fn == nil {
			return
		}
		allInstrs(fn, func(j ssa.Instruction) {
			if cc := callCommon(j); cc != nil && calleeName(cc) == "builtin.recover" {
				found = true
			}
		})
	})
	return found
}

// reachableRepo: in-repo functions reachable from the entries through synchronous calls (go statements included
// when followGo), stopping at cut functions.
func reachableRepo(p *Prog, entries []*ssa.Function, cut func(*ssa.Function) bool, followGo bool) []*ssa.Function {
	lo := p.LockOrder()
	seen := map[*ssa.Function]bool{}
	var order []*ssa.Function
	var work []*ssa.Function
	for _, e := range entries {
		if e != nil && !seen[e] {
			seen[e] = true
			work = append(work, e)
		}
	}
	for len(work) > 0 {
		f := work[0]
		work = work[1:]
		order = append(order, f)
		if cut != nil && cut(f) {
			continue
		}
		add := func(g *ssa.Function) {
			if g != nil && p.InRepo(g) && len(g.Blocks) > 0 && !seen[g] {
				seen[g] = true
				work = append(work, g)
			}
		}
		allInstrs(f, func(i ssa.Instruction) {
			switch c := i.(type) {
			case *ssa.Go:
				if followGo {
					for _, g := range lo.repoCallees(c) {
						add(g)
					}
				}
			case ssa.CallInstruction:
				for _, g := range lo.repoCallees(c) {
					add(g)
				}
			case *ssa.MakeClosure:
				if fn, ok := c.Fn.(*ssa.Function); ok {
					add(fn)
				}
			}
		})
	}
	sort.Slice(order, func(i, j int) bool { return order[i].String() < order[j].String() })
	return order
}
