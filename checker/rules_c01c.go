package main

import (
	"sort"
	"strings"

	"golang.org/x/tools/go/ssa"
)

// C01.R6 — the first-packet timeout does not outlive the first packet. RouteTCP arms a deadline on the accepted local
// connection while it waits for the first bytes and clears it before the two relay directions start. What is armed must
// be cleared *in kind*: arming read and write (SetDeadline) but clearing only the read half leaves an absolute write
// deadline on the connection for good — once it passes, the first write of the stream→local relay fails, the relay
// tears the stream down, and bytes the far end wrote are lost although nothing was closed.
func c01R6(c *Ctx, rule string) {
	c.Rule(rule, "deadlines armed on the proxied local connection (net.Conn) in RouteTCP are cleared in kind before relaying: armed ⊆ cleared, SetDeadline counting as read+write", 1)
	p := c.P
	rt := c.need(rule, "internal/client", "RouteTCP")
	if rt == nil {
		return
	}
	n := 0
	for f := range p.unitOf(rt) {
		var nows []ssa.Value
		allInstrs(f, func(i ssa.Instruction) {
			if call, ok := i.(*ssa.Call); ok && calleeName(&call.Call) == "time.Now" {
				nows = append(nows, call)
			}
		})
		armed, cleared := map[string]ssa.Instruction{}, map[string]bool{}
		allInstrs(f, func(i ssa.Instruction) {
			call, ok := i.(*ssa.Call)
			if !ok || !call.Call.IsInvoke() || !strings.HasSuffix(typeStr(call.Call.Value.Type()), "net.Conn") || len(call.Call.Args) != 1 {
				return
			}
			kind := ""
			switch call.Call.Method.Name() {
			case "SetDeadline":
				kind = "rw"
			case "SetReadDeadline":
				kind = "r"
			case "SetWriteDeadline":
				kind = "w"
			default:
				return
			}
			arming := false
			for _, nw := range nows {
				if valueDependsOn(call.Call.Args[0], nw, 0) {
					arming = true
				}
			}
			for _, ch := range kind {
				if arming {
					if _, seen := armed[string(ch)]; !seen {
						armed[string(ch)] = i
					}
				} else {
					cleared[string(ch)] = true
				}
			}
		})
		var kinds []string
		for k := range armed {
			kinds = append(kinds, k)
		}
		sort.Strings(kinds)
		for _, k := range kinds {
			n++
			what := map[string]string{"r": "read", "w": "write"}[k]
			c.Check(cleared[k], rule, what+" deadline armed on the local connection in "+shortFn(p.ownerAnchor(f))+" is cleared", c.at(armed[k]), "a call with a time not derived from time.Now() clears the "+what+" deadline",
				"a "+what+" deadline (now+timeout) is armed on the accepted connection and never cleared: after it passes every "+what+" of the relay fails with a timeout on a healthy connection, the relay tears the stream down and bytes in flight are lost")
		}
	}
	if n == 0 {
		c.Undecided(rule, "deadline armed on the local connection in RouteTCP", c.atFn(rt), "no SetDeadline/SetReadDeadline/SetWriteDeadline(now+…) on a net.Conn found")
	}
}
