package main

import (
	"fmt"
	"go/token"
	"go/types"
	"strings"

	"golang.org/x/tools/go/ssa"
)

func init() {
	register(&PropDef{
		ID: "C13", Title: "unique, gap-free sequence numbers in write order",
		Run:       runC13,
		Technique: "static analysis: interprocedural lockset (guarded-by), typestate with summaries (encode/increment alternation), who-may-write enumeration on go/ssa",
		Decided: "(a) every access to the per-stream outgoing frame (sequence number, closing flag, payload) and every encoder call on it holds the stream's write mutex on all call chains (lockset, constant-parameter specialisation for closeStream); " +
			"(b) on every path of every write-mutex critical section encode and Seq+=1 strictly alternate and the section never ends after an encode without an increment, error returns included (a number may be skipped, never reused); the send of the encoded bytes is in the same section; " +
			"(c) the only stores to the sequence number are the constructor's 0 and old+1, stream ids come from an atomic +1 counter and are never re-stored; " +
			"(d) every encoder call site is either a sequenced one or the once-per-session closing notice with constant (0xffffffff, 0).",
		NotDecided:  "what the peer does with skipped numbers; nonce pairs across the two endpoints (outside the statement); that wrap-around after 2^64 frames never happens.",
		Assumptions: []string{"sync.Mutex provides mutual exclusion", "call graph resolves every caller of the frame-sending helpers (no reflection)"},
	})
}

// anchors of the multiplex package shared by several properties
type muxAnchors struct {
	Stream, Session, Frame, Obfuscator *types.Named
	writingFrame, writingM             *types.Var
	seq, streamID, closing, payload    *types.Var
	obfuscate, deobfuscate             *ssa.Function
}

func getMuxAnchors(c *Ctx, rule string) *muxAnchors {
	p := c.P
	a := &muxAnchors{}
	const rel = "internal/multiplex"
	a.Stream, a.Session, a.Frame, a.Obfuscator = p.Named(rel, "Stream"), p.Named(rel, "Session"), p.Named(rel, "Frame"), p.Named(rel, "Obfuscator")
	if a.Stream == nil || a.Session == nil || a.Frame == nil || a.Obfuscator == nil {
		c.Undecided(rule, "anchor types multiplex.{Stream,Session,Frame,Obfuscator}", "-", "anchor type missing")
		return nil
	}
	// role-based: the only Frame-typed field of Stream, the only sync.Mutex field of Stream
	a.writingFrame = p.Field(rel, "Stream", "writingFrame", modPath+"/internal/multiplex.Frame")
	a.writingM = p.Field(rel, "Stream", "writingM", "sync.Mutex")
	a.seq = p.Field(rel, "Frame", "Seq", "uint64")
	a.streamID = p.Field(rel, "Frame", "StreamID", "uint32")
	a.closing = p.Field(rel, "Frame", "Closing", "uint8")
	a.payload = p.Field(rel, "Frame", "Payload", "[]byte")
	if a.writingFrame == nil || a.writingM == nil || a.seq == nil || a.streamID == nil || a.closing == nil || a.payload == nil {
		c.Undecided(rule, "anchor fields Stream.{writingFrame,writingM} Frame.{Seq,StreamID,Closing,Payload}", "-", "anchor field missing")
		return nil
	}
	a.obfuscate = findEncoder(p)
	a.deobfuscate = findDecoder(p)
	if a.obfuscate == nil || a.deobfuscate == nil {
		c.Undecided(rule, "anchor encoder/decoder of multiplex.Obfuscator", "-", "no method of Obfuscator calling AEAD.Seal / AEAD.Open found")
		return nil
	}
	return a
}

// findEncoder: the method of Obfuscator that calls cipher.AEAD.Seal (role-based; name first).
func findEncoder(p *Prog) *ssa.Function {
	if f := p.Func("internal/multiplex", "Obfuscator.obfuscate"); f != nil {
		return f
	}
	return findObfMethodCalling(p, "(crypto/cipher.AEAD).Seal")
}
func findDecoder(p *Prog) *ssa.Function {
	if f := p.Func("internal/multiplex", "Obfuscator.deobfuscate"); f != nil {
		return f
	}
	return findObfMethodCalling(p, "(crypto/cipher.AEAD).Open")
}
func findObfMethodCalling(p *Prog, callee string) *ssa.Function {
	var hit *ssa.Function
	for _, f := range p.FuncsOfPkg("internal/multiplex") {
		if f.Signature.Recv() == nil || !strings.Contains(f.Signature.Recv().Type().String(), "Obfuscator") {
			continue
		}
		if len(callsIn(f, callee)) > 0 {
			if hit != nil {
				return nil
			}
			hit = f
		}
	}
	return hit
}

// rootedAtField reports whether the address/value v is reached through field fv (e.g. &s.writingFrame.Seq).
func rootedAtField(v ssa.Value, fv *types.Var) bool {
	_, chain := fieldChain(v)
	for _, f := range chain {
		if f == fv {
			return true
		}
	}
	return false
}

func runC13(c *Ctx) {
	c13R1(c, "C13.R1")
	c13R2(c, "C13.R2")
	c13R3(c, "C13.R3")
	c13R4(c, "C13.R4")
}

func c13R1(c *Ctx, rule string) {
	c.Rule(rule, "guarded-by: Stream.writingFrame (all sub-fields, and its address passed to the encoder) only with Stream.writingM held", 2)
	if getMuxAnchors(c, rule) == nil {
		return
	}
	ls := c.P.Locksets()
	CheckGuardedBy(c, ls, GuardSpec{Rule: rule, Rel: "internal/multiplex", Type: "Stream", Fields: []string{"writingFrame"},
		LockChain: []string{"writingM"}, LockTypes: []string{"sync.Mutex"}, Reason: "sequence number, closing flag and payload of the outgoing frame"})
}

// c13R2: encode/increment alternation inside writingM sections.
func c13R2(c *Ctx, rule string) {
	c.Rule(rule, "typestate: within a write-mutex section encode(E) and Seq+=1(I) alternate; no section ends after E without I; send of encoded bytes in the same section", 3)
	a := getMuxAnchors(c, rule)
	if a == nil {
		return
	}
	p := c.P
	const evE, evI = 0, 1
	isSeqIncr := func(i ssa.Instruction) bool {
		st, ok := i.(*ssa.Store)
		if !ok {
			return false
		}
		fv, _ := fieldVar(st.Addr)
		if fv != a.seq || !rootedAtField(st.Addr, a.writingFrame) {
			return false
		}
		return isOldPlusOne(st)
	}
	isEncode := func(i ssa.Instruction) bool {
		call, ok := i.(*ssa.Call)
		if !ok || call.Call.StaticCallee() != a.obfuscate {
			return false
		}
		return len(call.Call.Args) >= 2 && rootedAtField(call.Call.Args[1], a.writingFrame)
	}
	ts := &Typestate{P: p, NStates: 3,
		Event: func(i ssa.Instruction) int {
			if isEncode(i) {
				return evE
			}
			if isSeqIncr(i) {
				return evI
			}
			return -1
		},
		// states: 0 balanced, 1 encoded-awaiting-increment, 2 error (two encodes under one number)
		Delta: [][]int{{1, 0}, {2, 0}, {2, 2}},
	}
	ls := p.Locksets()
	// roots: functions that lock Stream.writingM locally
	nroots := 0
	for _, f := range p.FuncsOfPkg("internal/multiplex") {
		var lockInstrs []ssa.Instruction
		allInstrs(f, func(i ssa.Instruction) {
			if k, path, ok := lockOp(i); ok && k == "lock" && len(path.Chain) > 0 && path.Chain[len(path.Chain)-1] == a.writingM {
				lockInstrs = append(lockInstrs, i)
			}
		})
		if len(lockInstrs) == 0 {
			continue
		}
		nroots++
		before := ts.StatesBefore(f, 0)
		construct := "write-mutex section(s) of " + shortFn(f)
		bad := ""
		var badAt ssa.Instruction
		allInstrs(f, func(i ssa.Instruction) {
			if bad != "" {
				return
			}
			m := before[i]
			end := false
			if _, ok := i.(*ssa.Return); ok {
				end = true
			}
			if k, path, ok := lockOp(i); ok && k == "unlock" && len(path.Chain) > 0 && path.Chain[len(path.Chain)-1] == a.writingM {
				end = true
			}
			if end && m&(1<<1) != 0 {
				bad = "section can end after an encode without Seq+=1 (the next frame would reuse the number)"
				badAt = i
			}
			if m&(1<<2) != 0 || (isEncode(i) && m&(1<<1) != 0) {
				bad = "two encodes under one sequence number on some path"
				badAt = i
			}
		})
		// events reached outside any writingM section are R1's job; here also require E and send share the section
		if bad != "" {
			c.Bad(rule, construct, c.at(badAt), bad)
		} else {
			c.OK(rule, construct, c.at(lockInstrs[0]), "every path: E/I alternate and balance at unlock/return (callee summaries applied)")
		}
	}
	if nroots == 0 {
		c.Undecided(rule, "write-mutex sections", "-", "no function locks Stream.writingM")
	}
	// E and the send of buf[:n] are in the same section: in every function that encodes, the send call is reachable
	// only with the lock still held (same must-hold set at both sites).
	for _, f := range p.FuncsOfPkg("internal/multiplex") {
		allInstrs(f, func(i ssa.Instruction) {
			if !isEncode(i) {
				return
			}
			enc := i.(*ssa.Call)
			// the send: a call taking buf[:n] with n the encoder's first result
			var send ssa.Instruction
			allInstrs(f, func(j ssa.Instruction) {
				cj, ok := j.(*ssa.Call)
				if !ok || send != nil {
					return
				}
				for _, arg := range cj.Call.Args {
					if sl, ok := arg.(*ssa.Slice); ok && sl.High != nil {
						if ex, ok := sl.High.(*ssa.Extract); ok && ex.Tuple == ssa.Value(enc) && ex.Index == 0 {
							send = j
						}
					}
				}
			})
			construct := "encode and send share the section in " + shortFn(f)
			if send == nil {
				c.Undecided(rule, construct, c.at(i), "no send of buf[:n] (n = encoder result) found after the encode")
				return
			}
			hE, hS := ls.MustHeld(i), ls.MustHeld(send)
			okE, _ := lockHeldByClass(hE, a.writingM)
			okS, _ := lockHeldByClass(hS, a.writingM)
			// no unlock of writingM between them
			unl := onPathBetween(i, send, func(x ssa.Instruction) bool {
				k, path, ok := lockOp(x)
				return ok && k == "unlock" && len(path.Chain) > 0 && path.Chain[len(path.Chain)-1] == a.writingM
			})
			c.Check(okE && okS && unl == nil, rule, construct, c.at(send),
				"writingM held at encode and at send, no unlock in between", fmt.Sprintf("write mutex not held across encode→send (held at encode=%v, at send=%v, unlock between=%v)", okE, okS, unl != nil))
		})
	}
}

func lockHeldByClass(held lockSet, lockField *types.Var) (bool, LockEnt) {
	for _, e := range held {
		if n := len(e.Path.Chain); n > 0 && e.Path.Chain[n-1] == lockField {
			return true, e
		}
	}
	return false, LockEnt{}
}

// isOldPlusOne: store of (load same address) + 1
func isOldPlusOne(st *ssa.Store) bool {
	bo, ok := st.Val.(*ssa.BinOp)
	if !ok || bo.Op != token.ADD {
		return false
	}
	one, other := bo.Y, bo.X
	if k, ok := intConst(one); !ok || k != 1 {
		one, other = bo.X, bo.Y
		if k, ok := intConst(one); !ok || k != 1 {
			return false
		}
	}
	ld, ok := other.(*ssa.UnOp)
	if !ok || ld.Op != token.MUL {
		return false
	}
	return sameAddr(ld.X, st.Addr)
}

// sameAddr: two address expressions denote the same location (same instruction or same root+field chain).
func sameAddr(a, b ssa.Value) bool {
	if a == b {
		return true
	}
	ra, ca := fieldChain(a)
	rb, cb := fieldChain(b)
	if ra != rb || len(ca) != len(cb) || len(ca) == 0 {
		return false
	}
	for i := range ca {
		if ca[i] != cb[i] {
			return false
		}
	}
	_, aIsAddr := a.(*ssa.FieldAddr)
	_, bIsAddr := b.(*ssa.FieldAddr)
	return aIsAddr && bIsAddr
}

func c13R3(c *Ctx, rule string) {
	c.Rule(rule, "monotone counters: stores to writingFrame.Seq are const 0 (constructor) or old+1; nextStreamID only atomic +1, id = pre-increment value; StreamID never re-stored", 4)
	a := getMuxAnchors(c, rule)
	if a == nil {
		return
	}
	p := c.P
	nextID := p.Field("internal/multiplex", "Session", "nextStreamID")
	if nextID == nil {
		c.Undecided(rule, "anchor Session.nextStreamID", "-", "field not found")
		return
	}
	for _, f := range p.RepoFuncs {
		allInstrs(f, func(i ssa.Instruction) {
			switch x := i.(type) {
			case *ssa.Store:
				fv, _ := fieldVar(x.Addr)
				if fv == a.writingFrame {
					// a whole-struct assignment overwrites Seq (and StreamID) as well
					root, _ := fieldChain(x.Addr)
					_, ctor := root.(*ssa.Alloc)
					c.Check(ctor, rule, "whole-struct store to Stream.writingFrame in "+shortFn(f), c.at(i), "constructor initialisation",
						"the frame template is overwritten as a whole with "+Expr(x.Val)+": its Seq is set to whatever that copy holds (e.g. a snapshot taken before the last frame was sent), so a sequence number is reused or skipped")
				}
				if fv == a.seq && rootedAtField(x.Addr, a.writingFrame) {
					construct := "store to writingFrame.Seq in " + shortFn(f)
					root, _ := fieldChain(x.Addr)
					_, ctor := root.(*ssa.Alloc)
					if k, ok := intConst(x.Val); ok && k == 0 && ctor {
						c.OK(rule, construct+" (constructor)", c.at(i), "constant 0 into a freshly allocated Stream")
					} else if isOldPlusOne(x) {
						c.OK(rule, construct, c.at(i), "old+1")
					} else {
						c.Bad(rule, construct, c.at(i), "sequence number stored from "+Expr(x.Val)+" (neither constructor 0 nor old+1): numbers may repeat or jump back")
					}
				}
				if fv == a.streamID && rootedAtField(x.Addr, a.writingFrame) {
					root, _ := fieldChain(x.Addr)
					_, ctor := root.(*ssa.Alloc)
					c.Check(ctor, rule, "store to writingFrame.StreamID in "+shortFn(f), c.at(i), "only in the constructor, value "+Expr(x.Val), "stream id of an existing stream re-stored")
				}
				if fv == nextID {
					root, _ := fieldChain(x.Addr)
					_, ctor := root.(*ssa.Alloc)
					c.Check(ctor, rule, "plain store to Session.nextStreamID in "+shortFn(f), c.at(i), "constructor initialisation "+Expr(x.Val), "non-atomic store to the stream id counter")
				}
			case *ssa.Call:
				for _, arg := range x.Call.Args {
					fv, _ := fieldVar(arg)
					if fv != nextID {
						continue
					}
					construct := "atomic op on Session.nextStreamID in " + shortFn(f)
					n := calleeName(&x.Call)
					if n == "sync/atomic.AddUint32" {
						k, ok := intConst(x.Call.Args[1])
						// the id used must be result-1
						// (an increment whose result is thrown away allocates nothing: the id then comes from somewhere else)
						usedOK := false
						for _, r := range *x.Referrers() {
							if _, isDbg := r.(*ssa.DebugRef); !isDbg {
								usedOK = true
							}
						}
						for _, r := range *x.Referrers() {
							if _, isDbg := r.(*ssa.DebugRef); isDbg {
								continue
							}
							bo, isB := r.(*ssa.BinOp)
							if !isB || bo.Op != token.SUB {
								usedOK = false
								continue
							}
							if kk, ok := intConst(bo.Y); !ok || kk != 1 {
								usedOK = false
							}
						}
						c.Check(ok && k == 1 && usedOK, rule, construct, c.at(i), "AddUint32(&nextStreamID, 1), id = result-1", "stream id counter changed by something other than +1 or id not the pre-increment value")
					} else if n == "sync/atomic.LoadUint32" {
						// a load may be compared or logged, but an id must never be taken from it: read and increment would be
						// two steps, and two concurrent OpenStream calls would get the same id (same nonce for different frames)
						feeds := ""
						allInstrs(f, func(j ssa.Instruction) {
							switch y := j.(type) {
							case *ssa.Call:
								if g := y.Call.StaticCallee(); g != nil && p.InRepo(g) && g != f {
									for _, a := range y.Call.Args {
										if isIntValue(a) && valueDependsOn(a, x, 0) {
											feeds = "argument of " + shortFn(g)
										}
									}
								}
							case *ssa.MapUpdate:
								if valueDependsOn(y.Key, x, 0) {
									feeds = "key of a map insert"
								}
							case *ssa.Store:
								if fv2, _ := fieldVar(y.Addr); fv2 != nil && fv2.Name() == "StreamID" && valueDependsOn(y.Val, x, 0) {
									feeds = "Frame.StreamID"
								}
							}
						})
						c.Check(feeds == "", rule, construct+" (load)", c.at(i), "read only (compared / logged)", "a stream id is taken from a plain load of the counter ("+feeds+"): allocation is no longer one atomic step, concurrent OpenStream calls can return the same id")
					} else if n == "sync/atomic.StoreUint32" {
						root, _ := fieldChain(arg)
						_, ctor := root.(*ssa.Alloc)
						c.Check(ctor, rule, construct+" (initialising store)", c.at(i), "constructor initialisation of a freshly allocated session", "the stream id counter is overwritten outside the constructor")
					} else {
						c.Bad(rule, construct, c.at(i), "unexpected operation "+n+" on the stream id counter")
					}
				}
			}
		})
	}
	// a stream id is never forgotten while the session lives: closing a stream leaves a tombstone (nil entry);
	// entries are only deleted by the session teardown (after the session's closed flag was won)
	streamsF := p.Field("internal/multiplex", "Session", "streams")
	sClosed := p.Field("internal/multiplex", "Session", "closed")
	if streamsF != nil && sClosed != nil {
		for _, acc := range FieldAccesses(p, map[*types.Var]bool{streamsF: true}) {
			if acc.Kind != "delete" {
				continue
			}
			won := false
			for _, at := range AtomsAt(acc.Instr) {
				if at.Kind == "call" && at.Pol && calleeName(&at.Call.Call) == "sync/atomic.CompareAndSwapUint32" {
					if fv, _ := fieldVar(at.Call.Call.Args[0]); fv == sClosed {
						won = true
					}
				}
			}
			c.Check(won, rule, "delete from Session.streams in "+shortFn(acc.Fn), c.at(acc.Instr), "only during session teardown (after winning the session's closed flag)",
				"a stream id is forgotten while the session is alive: a late frame for that id re-creates the stream with sequence numbers starting again at 0, so (stream id, seq) pairs — and AEAD nonces — repeat under the same key")
		}
		// closeStream leaves a tombstone
		if cs := p.Func("internal/multiplex", "Session.closeStream"); cs != nil {
			tomb := false
			p.unitInstrs(cs, func(i ssa.Instruction) {
				if mu, ok := i.(*ssa.MapUpdate); ok && isNilConst(mu.Value) {
					if fv, _ := loadedField(mu.Map); fv == streamsF {
						tomb = true
					}
				}
			})
			c.Check(tomb, rule, "closeStream leaves a tombstone for the id", c.atFn(cs), "streams[id] = nil", "a closed stream's id is not remembered: late frames re-create it with sequence numbers restarting at 0")
		}
	}
	// makeStream copies id into both Stream.id and writingFrame.StreamID
	if mk := c.need(rule, "internal/multiplex", "makeStream"); mk != nil {
		idField := p.Field("internal/multiplex", "Stream", "id")
		var vID, vFrameID ssa.Value
		allInstrs(mk, func(i ssa.Instruction) {
			if st, ok := i.(*ssa.Store); ok {
				fv, _ := fieldVar(st.Addr)
				if fv == idField {
					vID = st.Val
				}
				if fv == a.streamID {
					vFrameID = st.Val
				}
			}
		})
		c.Check(vID != nil && vFrameID != nil && vID == vFrameID && len(mk.Params) >= 2 && vID == ssa.Value(mk.Params[1]), rule, "makeStream: Stream.id and writingFrame.StreamID both = id parameter", c.atFn(mk),
			"both stores take the id parameter", "stream id and frame stream id are initialised from different values")
	}
}

func c13R4(c *Ctx, rule string) {
	c.Rule(rule, "every call of the frame encoder is a sequenced one (frame = &stream.writingFrame) or the once-per-session closing notice (constant id 0xffffffff, seq 0, dominated by closeSession()==nil)", 2)
	a := getMuxAnchors(c, rule)
	if a == nil {
		return
	}
	p := c.P
	closeSession := p.Func("internal/multiplex", "Session.closeSession")
	for _, cs := range p.CallersOf(a.obfuscate) {
		f := cs.Parent()
		if !p.InRepo(f) {
			continue
		}
		if strings.HasSuffix(p.Pos(cs.Pos()), "_fuzz.go") {
			continue
		}
		args := cs.Common().Args
		if len(args) < 2 {
			continue
		}
		frame := args[1]
		construct := "encoder call in " + shortFn(f) + " frame=" + Expr(frame)
		if f.Synthetic != "" {
			continue // promoted-method wrapper
		}
		if rootedAtField(frame, a.writingFrame) {
			c.OK(rule, construct, c.at(cs), "sequenced frame of the stream (covered by R1/R2)")
			continue
		}
		// a function that forwards its own frame parameter: every caller must pass the stream's sequenced frame
		if prm, isParam := frame.(*ssa.Parameter); isParam {
			bad := paramFrameSources(p, a, prm, 0)
			c.Check(len(bad) == 0, rule, construct, c.at(cs), "every caller passes &stream.writingFrame", "the encoder is reached with a frame that is not the stream's sequenced frame: "+strings.Join(bad, "; ")+" — its sequence number is not the stream's counter (numbers can repeat)")
			continue
		}
		al, isAlloc := frame.(*ssa.Alloc)
		if !isAlloc {
			c.Bad(rule, construct, c.at(cs), "frame is neither the stream's sequenced frame nor a fresh constant notice")
			continue
		}
		vals := map[*types.Var]ssa.Value{}
		for _, r := range *al.Referrers() {
			if fa, ok := r.(*ssa.FieldAddr); ok {
				fv, _ := fieldVar(fa)
				for _, rr := range *fa.Referrers() {
					if st, ok := rr.(*ssa.Store); ok && st.Addr == ssa.Value(fa) {
						vals[fv] = st.Val
					}
				}
			}
		}
		id, okID := intConst(orNil(vals[a.streamID]))
		sq, okSq := intConst(orNil(vals[a.seq]))
		cl, okCl := intConst(orNil(vals[a.closing]))
		closingSession, _ := p.Const("internal/multiplex", "closingSession")
		constOK := okID && uint32(id) == 0xffffffff && okSq && sq == 0 && okCl && cl == closingSession
		// dominated by closeSession() == nil
		dom := false
		if closeSession != nil {
			for _, cc := range callsIn(f, fnName(closeSession)) {
				if !instrDominates(cc, cs) {
					continue
				}
				for _, at := range AtomsAt(cs) {
					if at.Kind == "cmp" && at.Op == token.EQL && ((at.X == cc.Value() && isNilConst(at.Y)) || (at.Y == cc.Value() && isNilConst(at.X))) {
						dom = true
					}
				}
			}
		}
		c.Check(constOK && dom, rule, construct, c.at(cs), "constant notice frame (0xffffffff, 0, closingSession) sent at most once per session (after closeSession()==nil)",
			fmt.Sprintf("unsequenced encoder call: constants ok=%v, once-per-session guard=%v", constOK, dom))
	}
}

// paramFrameSources follows a frame parameter to the actual arguments of all callers and returns the
// ones that are not rooted at Stream.writingFrame.
func paramFrameSources(p *Prog, a *muxAnchors, prm *ssa.Parameter, depth int) []string {
	f := prm.Parent()
	idx := -1
	for k, q := range f.Params {
		if q == prm {
			idx = k
		}
	}
	var bad []string
	callers := p.CallersOf(f)
	if depth > 3 || idx < 0 {
		return []string{"unresolved parameter " + prm.Name() + " of " + shortFn(f)}
	}
	n := 0
	for _, cs := range callers {
		if !p.InRepo(cs.Parent()) || strings.HasSuffix(p.Pos(cs.Pos()), "_test.go") || strings.HasSuffix(p.Pos(cs.Pos()), "_fuzz.go") {
			continue
		}
		args := callArgs(cs.Common())
		if len(args) != len(f.Params) {
			continue
		}
		if cs.Parent().Synthetic != "" {
			// wrapper: its own callers
			if q, ok := args[idx].(*ssa.Parameter); ok {
				bad = append(bad, paramFrameSources(p, a, q, depth+1)...)
				n++
			}
			continue
		}
		n++
		arg := args[idx]
		if rootedAtField(arg, a.writingFrame) {
			continue
		}
		if q, ok := arg.(*ssa.Parameter); ok {
			bad = append(bad, paramFrameSources(p, a, q, depth+1)...)
			continue
		}
		bad = append(bad, shortFn(cs.Parent())+" passes "+Expr(arg)+" at "+p.InstrPos(cs))
	}
	if n == 0 && f.Synthetic == "" {
		// no caller: dead code, nothing to sequence
		return nil
	}
	return bad
}

func orNil(v ssa.Value) ssa.Value {
	if v == nil {
		return ssa.NewConst(nil, types.Typ[types.UntypedNil])
	}
	return v
}
