package main

import (
	"fmt"
	"sort"
	"strings"

	"golang.org/x/tools/go/ssa"
)

// E3b NESTED MONITOR — a goroutine that parks in sync.Cond.Wait releases only the condition's own lock. Every other
// lock it holds stays held for as long as the wait lasts, i.e. until some *other* goroutine changes the predicate.
// If that lock is also needed by the code that would end the wait or tear the object down, the wait never ends.
// The rule reports every (held lock class, wait site) pair where the held class is not the condition's own lock,
// with the constant bound of the wait's guard in the construct (the bound decides how much traffic arms the wait).

type waitSite struct {
	site     ssa.Instruction
	fn       *ssa.Function
	ownClass string
	guard    string
	via      string
}

func waitGuard(i ssa.Instruction) string {
	var parts []string
	for _, at := range AtomsAt(i) {
		if at.Kind != "cmp" {
			continue
		}
		// only the constant bound and the direction go into the construct key (names of fields/receivers do not)
		if k, ok := intConst(at.X); ok {
			parts = append(parts, fmt.Sprintf("armed when %d %s x", k, at.Op))
		} else if k, ok := intConst(at.Y); ok {
			parts = append(parts, fmt.Sprintf("armed when x %s %d", at.Op, k))
		}
	}
	sort.Strings(parts)
	if len(parts) == 0 {
		return "unconditional"
	}
	return strings.Join(parts, " ∧ ")
}

func directWaits(f *ssa.Function) []waitSite {
	var out []waitSite
	allInstrs(f, func(i ssa.Instruction) {
		call, ok := i.(*ssa.Call)
		if !ok || calleeName(&call.Call) != "(*sync.Cond).Wait" {
			return
		}
		root, chain := fieldChain(call.Call.Args[0])
		own := LockPath{Root: root, Chain: chain}.Class() + ".L"
		out = append(out, waitSite{site: i, fn: f, ownClass: own, guard: waitGuard(i), via: shortFn(f)})
	})
	return out
}

func nestedMonitorRules(c *Ctx, rule string, restrict func(class string) bool) {
	c.Rule(rule, "no nested monitor: no sync.Cond.Wait is reachable (through synchronous calls) while a lock other than the condition's own is held", 1)
	p := c.P
	ls := p.Locksets()
	lo := p.LockOrder()
	waits := map[*ssa.Function][]waitSite{}
	calls := map[*ssa.Function][]*ssa.Function{}
	nWaits := 0
	for _, f := range p.RepoFuncs {
		if w := directWaits(f); len(w) > 0 {
			waits[f] = w
			nWaits += len(w)
		}
		allInstrs(f, func(i ssa.Instruction) {
			switch x := i.(type) {
			case *ssa.Call:
				calls[f] = append(calls[f], lo.calleesCtx(f, x)...)
			case *ssa.Defer:
				calls[f] = append(calls[f], lo.calleesCtx(f, x)...)
			}
		})
	}
	for changed := true; changed; {
		changed = false
		for _, f := range p.RepoFuncs {
			for _, g := range calls[f] {
				for _, w := range waits[g] {
					dup := false
					for _, e := range waits[f] {
						if e.site == w.site {
							dup = true
						}
					}
					if !dup {
						nw := w
						nw.via = shortFn(f) + " → " + w.via
						waits[f] = append(waits[f], nw)
						changed = true
					}
				}
			}
		}
	}
	type hit struct {
		construct, pos, detail string
	}
	hits := map[string]hit{}
	for _, f := range p.RepoFuncs {
		if strings.HasSuffix(p.Pos(f.Pos()), "_test.go") {
			continue
		}
		allInstrs(f, func(i ssa.Instruction) {
			held := ls.MayHeldLocal(i)
			if len(held) == 0 {
				return
			}
			var reach []waitSite
			switch x := i.(type) {
			case *ssa.Call:
				if calleeName(&x.Call) == "(*sync.Cond).Wait" {
					for _, w := range directWaits(f) {
						if w.site == i {
							reach = append(reach, w)
						}
					}
				} else {
					for _, g := range lo.calleesCtx(f, x) {
						reach = append(reach, waits[g]...)
					}
				}
			default:
				return
			}
			for _, w := range reach {
				for _, h := range held {
					cl := h.Path.Class()
					if cl == w.ownClass || c.P.condAliasClasses()[cl] == w.ownClass {
						continue // the condition's own lock (also when it is a mutex the struct owns: NewCond(&p.mu))
					}
					if restrict != nil && !restrict(cl) {
						continue
					}
					// keyed by the condition variable, the guard's constant and the held lock class — not by the names
					// of the functions involved, which helper extraction changes
					construct := fmt.Sprintf("wait on %s [%s] while %s is held", strings.TrimSuffix(w.ownClass, ".L"), w.guard, cl)
					if _, dup := hits[construct]; !dup {
						hits[construct] = hit{construct, c.at(i), fmt.Sprintf("%s holds %s at %s and reaches the wait at %s via %s; Wait releases only %s, so %s stays held until another goroutine satisfies the wait — every function that needs %s (teardown included) blocks behind it",
							shortFn(topFn(f)), cl, c.at(i), c.at(w.site), w.via, w.ownClass, cl, cl)}
					}
				}
			}
		})
	}
	var keys []string
	for k := range hits {
		keys = append(keys, k)
	}
	sort.Strings(keys)
	for _, k := range keys {
		h := hits[k]
		c.Bad(rule, h.construct, h.pos, h.detail)
	}
	if nWaits == 0 {
		c.Undecided(rule, "sync.Cond.Wait sites", "-", "no wait site found in the repository: the rule has nothing to judge")
		return
	}
	c.OK(rule, fmt.Sprintf("%d wait sites enumerated; all other (held lock, wait) pairs", nWaits), "-", "no further wait is reachable with a foreign lock held")
}
