package main

import (
	"go/types"

	"golang.org/x/tools/go/ssa"
)

// condLockAliases: mutex fields M of the struct that owns condition field condF such that some function stores
// sync.NewCond(&x.M) into x.condF — then x.M and x.condF.L are one and the same lock.
func condLockAliases(p *Prog, rel string, condF *types.Var) map[*types.Var]bool {
	out := map[*types.Var]bool{}
	for _, f := range p.FuncsOfPkg(rel) {
		allInstrs(f, func(i ssa.Instruction) {
			st, ok := i.(*ssa.Store)
			if !ok {
				return
			}
			fv, base := fieldVar(st.Addr)
			// a sync.Cond held by value whose L is set directly: x.cond.L = &x.M
			if fv != nil && fv.Name() == "L" {
				if cf, cbase := fieldVar(base); cf == condF {
					if mf, mbase := fieldVar(stripConv(st.Val)); mf != nil {
						rb, _ := fieldChain(cbase)
						rm, _ := fieldChain(mbase)
						if rb == rm && rb != nil {
							out[mf] = true
						}
					}
				}
				return
			}
			if fv != condF {
				return
			}
			call, ok := stripConv(st.Val).(*ssa.Call)
			if !ok || calleeName(&call.Call) != "sync.NewCond" || len(call.Call.Args) != 1 {
				return
			}
			arg := stripConv(call.Call.Args[0])
			mf, mbase := fieldVar(arg)
			if mf == nil {
				return
			}
			rb, _ := fieldChain(base)
			rm, _ := fieldChain(mbase)
			if rb == rm && rb != nil {
				out[mf] = true
			}
		})
	}
	return out
}

// condAliasClasses: lock class "pkg.T.M" → the class of the condition lock it is, "pkg.T.cond.L", for the whole program.
func (p *Prog) condAliasClasses() map[string]string {
	if p.condAlias != nil {
		return p.condAlias
	}
	p.condAlias = map[string]string{}
	for _, f := range p.RepoFuncs {
		allInstrs(f, func(i ssa.Instruction) {
			st, ok := i.(*ssa.Store)
			if !ok {
				return
			}
			// x.cond.L = &x.M (a sync.Cond held by value)
			if lf, lbase := fieldVar(st.Addr); lf != nil && lf.Name() == "L" && typeStr(lf.Type()) == "sync.Locker" {
				croot, cchain := fieldChain(lbase)
				mroot, mchain := fieldChain(stripConv(st.Val))
				if croot != nil && croot == mroot && len(cchain) > 0 && len(mchain) > 0 {
					p.condAlias[LockPath{Root: mroot, Chain: mchain}.Class()] = LockPath{Root: croot, Chain: cchain}.Class() + ".L"
				}
				return
			}
			call, ok := stripConv(st.Val).(*ssa.Call)
			if !ok || calleeName(&call.Call) != "sync.NewCond" || len(call.Call.Args) != 1 {
				return
			}
			croot, cchain := fieldChain(st.Addr)
			mroot, mchain := fieldChain(stripConv(call.Call.Args[0]))
			if croot == nil || croot != mroot || len(cchain) == 0 || len(mchain) == 0 {
				return
			}
			p.condAlias[LockPath{Root: mroot, Chain: mchain}.Class()] = LockPath{Root: croot, Chain: cchain}.Class() + ".L"
		})
	}
	return p.condAlias
}
