package main

import (
	"crypto/sha1"
	"encoding/hex"
	"encoding/json"
	"fmt"
	"os"
	"path/filepath"
	"sort"
	"strings"

	"golang.org/x/tools/go/ssa"
)

// Ob is one obligation: a rule instance evaluated on one construct.
type Ob struct {
	Rule      string `json:"rule"`
	Construct string `json:"construct"`
	Pos       string `json:"pos"`
	Status    string `json:"status"` // OK | VIOLATION | UNDECIDED
	Detail    string `json:"detail"`
	Config    string `json:"config,omitempty"`
	Imported  string `json:"imported_from,omitempty"`
}

func (o Ob) Key() string { return o.Rule + " " + o.Construct }

// Ctx collects obligations for one property on one program.
type Ctx struct {
	P      *Prog
	Prop   string
	Obs    []Ob
	floors map[string]int
	desc   map[string]string
	// Imported marks obligations produced by rule groups of another property.
	importing string
}

func newCtx(p *Prog, prop string) *Ctx {
	return &Ctx{P: p, Prop: prop, floors: map[string]int{}, desc: map[string]string{}}
}

func (c *Ctx) add(rule, construct, pos, status, detail string) {
	c.Obs = append(c.Obs, Ob{Rule: rule, Construct: construct, Pos: pos, Status: status, Detail: detail, Imported: c.importing})
}

func (c *Ctx) OK(rule, construct, pos, detail string) { c.add(rule, construct, pos, "OK", detail) }
func (c *Ctx) Bad(rule, construct, pos, detail string) {
	c.add(rule, construct, pos, "VIOLATION", detail)
}
func (c *Ctx) Undecided(rule, construct, pos, detail string) {
	c.add(rule, construct, pos, "UNDECIDED", detail)
}

// Check records OK or VIOLATION depending on cond.
func (c *Ctx) Check(cond bool, rule, construct, pos, okDetail, badDetail string) bool {
	if cond {
		c.OK(rule, construct, pos, okDetail)
	} else {
		c.Bad(rule, construct, pos, badDetail)
	}
	return cond
}

// Rule declares a rule with its description and the minimum number of instances it must find.
func (c *Ctx) Rule(rule, desc string, floor int) {
	c.desc[rule] = desc
	c.floors[rule] = floor
}

func (c *Ctx) at(i ssa.Instruction) string { return c.P.InstrPos(i) }
func (c *Ctx) atFn(f *ssa.Function) string {
	if f == nil {
		return "-"
	}
	return c.P.Pos(f.Pos())
}

// need resolves an anchor function; when missing it records an UNDECIDED obligation.
func (c *Ctx) need(rule, rel, name string) *ssa.Function {
	f := c.P.Func(rel, name)
	if f == nil || len(f.Blocks) == 0 {
		c.Undecided(rule, "anchor "+rel+"."+name, "-", "anchor function not found (renamed or removed): the rule cannot be evaluated")
		return nil
	}
	return f
}

func (c *Ctx) finishFloors() {
	counts := map[string]int{}
	for _, o := range c.Obs {
		counts[o.Rule]++
	}
	var rules []string
	for r := range c.floors {
		rules = append(rules, r)
	}
	sort.Strings(rules)
	for _, r := range rules {
		if counts[r] < c.floors[r] {
			c.Undecided(r, "instance-floor", "-", fmt.Sprintf("rule enumerated %d instance(s), fewer than its floor %d: would pass vacuously", counts[r], c.floors[r]))
		}
	}
}

// ---------- known findings ----------

type Finding struct {
	Property string `json:"property"`
	Key      string `json:"key"`
	Status   string `json:"status"` // known | fixed
	Commit   string `json:"commit,omitempty"`
	What     string `json:"what"`
	Record   string `json:"record,omitempty"`
}

type FindingsFile struct {
	Comment  string    `json:"_comment"`
	Findings []Finding `json:"findings"`
}

func loadFindings(verif string) (map[string]Finding, error) {
	m := map[string]Finding{}
	b, err := os.ReadFile(filepath.Join(verif, "known_findings.json"))
	if err != nil {
		if os.IsNotExist(err) {
			return m, nil
		}
		return nil, err
	}
	var ff FindingsFile
	if err := json.Unmarshal(b, &ff); err != nil {
		return nil, fmt.Errorf("known_findings.json: %v", err)
	}
	for _, f := range ff.Findings {
		if f.Status == "known" {
			m[f.Property+"|"+f.Key] = f
		}
	}
	return m, nil
}

// ---------- evidence ----------

type RuleStat struct {
	Rule        string `json:"rule"`
	Description string `json:"description"`
	Instances   int    `json:"instances"`
	Discharged  int    `json:"discharged"`
	Known       int    `json:"known"`
	Violated    int    `json:"violated"`
	Undecided   int    `json:"undecided"`
	Imported    string `json:"imported_from,omitempty"`
}

type Evidence struct {
	PropertyID  string                 `json:"property_id"`
	Tier        string                 `json:"tier"`
	Seed        int                    `json:"seed"`
	Level       string                 `json:"level"`
	Coverage    map[string]interface{} `json:"coverage"`
	Assumptions []string               `json:"assumptions"`
	WallS       float64                `json:"wall_s"`
	Violations  int                    `json:"violations"`
}

func keyHash(s string) string {
	h := sha1.Sum([]byte(s))
	return hex.EncodeToString(h[:])[:10]
}

type ViolationReport struct {
	Property  string `json:"property"`
	Rule      string `json:"rule"`
	Construct string `json:"construct"`
	Key       string `json:"key"`
	Status    string `json:"status"`
	Pos       string `json:"pos"`
	Detail    string `json:"detail"`
	Config    string `json:"config"`
	RuleDesc  string `json:"rule_description"`
	Replay    string `json:"replay"`
}

func writeJSON(path string, v interface{}) error {
	b, err := json.MarshalIndent(v, "", " ")
	if err != nil {
		return err
	}
	if err := os.MkdirAll(filepath.Dir(path), 0o755); err != nil {
		return err
	}
	return os.WriteFile(path, append(b, '\n'), 0o644)
}

func sortObs(obs []Ob) {
	sort.SliceStable(obs, func(i, j int) bool {
		if obs[i].Rule != obs[j].Rule {
			return ruleLess(obs[i].Rule, obs[j].Rule)
		}
		if obs[i].Construct != obs[j].Construct {
			return obs[i].Construct < obs[j].Construct
		}
		return obs[i].Config < obs[j].Config
	})
}

func ruleLess(a, b string) bool {
	// "C13.R2" < "C13.R10"
	pa, pb := strings.SplitN(a, ".R", 2), strings.SplitN(b, ".R", 2)
	if pa[0] != pb[0] {
		return pa[0] < pb[0]
	}
	if len(pa) == 2 && len(pb) == 2 {
		var x, y int
		fmt.Sscanf(pa[1], "%d", &x)
		fmt.Sscanf(pb[1], "%d", &y)
		if x != y {
			return x < y
		}
	}
	return a < b
}
