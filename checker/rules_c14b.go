package main

import (
	"strings"

	"golang.org/x/tools/go/ssa"
)

// c14R7: a receive buffer that a loop refills on every iteration is never handed — whole or as a slice — to a goroutine
// started in that loop (as an argument of the go statement or through a captured variable): the goroutine may read it
// only after the next read has overwritten it, and the datagram the peer gets is not the one that was received.
func c14R7(c *Ctx, rule string) {
	c.Rule(rule, "the UDP relay loop does not hand its reused receive buffer to a goroutine: what a goroutine started per datagram reads is a private copy", 1)
	ru := c.need(rule, "internal/client", "RouteUDP")
	if ru == nil {
		return
	}
	funcs := []*ssa.Function{ru}
	var nest func(g *ssa.Function)
	nest = func(g *ssa.Function) {
		for _, a := range g.AnonFuncs {
			funcs = append(funcs, a)
			nest(a)
		}
	}
	nest(ru)
	n := 0
	for _, f := range funcs {
		allInstrs(f, func(i ssa.Instruction) {
			call, ok := i.(*ssa.Call)
			if !ok {
				return
			}
			name := calleeName(&call.Call)
			if !(strings.HasSuffix(name, ".ReadFrom") || strings.HasSuffix(name, ".Read") || strings.HasSuffix(name, ".ReadFromUDP")) {
				return
			}
			args := callArgs(&call.Call)
			if len(args) < 2 {
				return
			}
			// the buffer: the value read into, looking through re-slices
			buf := args[1]
			for d := 0; d < 4; d++ {
				if sl, isSl := buf.(*ssa.Slice); isSl {
					buf = sl.X
					continue
				}
				break
			}
			def, isI := buf.(ssa.Instruction)
			loop := loopBlocks(call.Block())
			if len(loop) <= 1 {
				return // not in a loop
			}
			if isI && def.Parent() == f && loop[def.Block()] {
				return // allocated anew in every iteration: private
			}
			n++
			construct := "receive buffer of the read in " + shortFn(f) + " stays with the loop"
			bad := ""
			aliases := func(v ssa.Value) bool {
				for d := 0; d < 4; d++ {
					if v == buf {
						return true
					}
					sl, isSl := v.(*ssa.Slice)
					if !isSl {
						return false
					}
					v = sl.X
				}
				return v == buf
			}
			for b := range loop {
				for _, in := range b.Instrs {
					g, isGo := in.(*ssa.Go)
					if !isGo {
						continue
					}
					for _, a := range g.Call.Args {
						if aliases(a) {
							bad = c.at(g)
						}
					}
					if mc, isMC := g.Call.Value.(*ssa.MakeClosure); isMC {
						for _, bnd := range mc.Bindings {
							if aliases(bnd) {
								bad = c.at(g)
							}
							// a captured variable that holds a slice of the buffer
							if al, isAl := bnd.(*ssa.Alloc); isAl && al.Referrers() != nil {
								for _, r := range *al.Referrers() {
									if st, isSt := r.(*ssa.Store); isSt && st.Addr == ssa.Value(al) && aliases(st.Val) {
										bad = c.at(g)
									}
								}
							}
						}
					}
				}
			}
			c.Check(bad == "", rule, construct, c.at(call), "no go statement of the loop receives the buffer or a slice of it",
				"the goroutine started at "+bad+" is handed (a slice of) the buffer that the next iteration's read overwrites: it can forward the bytes of a later datagram in place of its own")
		})
	}
	if n == 0 {
		c.Undecided(rule, "reads into a loop-invariant buffer in RouteUDP", c.atFn(ru), "none found")
	}
}
