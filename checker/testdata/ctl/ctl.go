// Package ctl holds tiny positive controls for the checker's engines: each construct below MUST be reported by the
// engine named in its comment; setup fails if an engine stops seeing it (so that zero-violation rules cannot pass vacuously).
package ctl

import (
	"sync"
)

type box struct {
	mu   sync.Mutex
	n    int // guarded by mu
	a, b sync.Mutex
}

// lockset: write of n with mu held (OK)
func (x *box) good() {
	x.mu.Lock()
	x.n++
	x.mu.Unlock()
}

// lockset: write of n without mu (must be reported by guarded-by)
func (x *box) bad() {
	x.n++
}

// lockset interprocedural: helper requires the caller's lock (OK: every caller holds it)
func (x *box) helper() { x.n = 0 }
func (x *box) caller() {
	x.mu.Lock()
	defer x.mu.Unlock()
	x.helper()
}

// lock order: a→b here, b→a below (must be reported as a cycle)
func (x *box) ab() {
	x.a.Lock()
	x.b.Lock()
	x.b.Unlock()
	x.a.Unlock()
}
func (x *box) ba() {
	x.b.Lock()
	x.takeA()
	x.b.Unlock()
}
func (x *box) takeA() {
	x.a.Lock()
	x.a.Unlock()
}

// typestate: open/close alternation; leak() returns in the open state on one path
var opened int

func open_()  { opened++ }
func close_() { opened-- }
func paired(c bool) {
	open_()
	if c {
		close_()
		return
	}
	close_()
}
func leak(c bool) {
	open_()
	if c {
		return
	}
	close_()
}

// sccp: under the assumption k == 3 the store is 30, under k == 0 it is 7
type cfg struct{ out int }

func decide(k int, c *cfg) {
	if k <= 0 {
		c.out = 7
	} else {
		c.out = k * 10
	}
}

// bounds: pad ∈ [0, 255-tag], pad+tag ≤ 255
func randInt(n int) int { return n - 1 }
func sum(tag int) int {
	pad := 0
	if tag > 3 {
		pad = 200
	}
	return pad + tag
}

// must-pass: every return of must() is preceded by mark(); skip() has a path without it
func mark() {}
func must(c bool) int {
	if c {
		mark()
		return 1
	}
	mark()
	return 2
}
func skip(c bool) int {
	if c {
		return 1
	}
	mark()
	return 2
}

// Use makes the methods above reachable for the whole-program SSA builder.
func Use(x *box) {
	x.good()
	x.bad()
	x.caller()
	x.ab()
	x.ba()
}
