module ctl

go 1.24
