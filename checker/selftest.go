package main

import (
	"fmt"
	"go/constant"
	"os"
	"path/filepath"
	"strings"

	"golang.org/x/tools/go/ssa"
)

// runSelfTest exercises every engine on the positive-control module checker/testdata/ctl: each construct that an
// engine must report is reported, each that it must accept is accepted. Run by setup_cmd; a failing control means
// an engine regression that could let a zero-violation rule pass vacuously.
func runSelfTest(verif string) int {
	saved := modPath
	modPath = "ctl"
	defer func() { modPath = saved }()
	dir := filepath.Join(verif, "checker", "testdata", "ctl")
	p, err := Load(dir, Config{GOOS: "linux", GOARCH: "amd64", Ctl: true})
	if err != nil {
		fmt.Println("selftest: cannot load the positive controls:", err)
		return 1
	}
	fails := 0
	expect := func(name string, ok bool, detail string) {
		st := "ok  "
		if !ok {
			st = "FAIL"
			fails++
		}
		fmt.Printf("selftest %s %-52s %s\n", st, name, detail)
	}
	fn := func(name string) *ssa.Function { return p.Func("", name) }
	// E1/E2 lockset + guarded-by
	c := newCtx(p, "SELF")
	CheckGuardedBy(c, p.Locksets(), GuardSpec{Rule: "S.guard", Rel: "", Type: "box", Fields: []string{"n"}, LockChain: []string{"mu"}})
	got := map[string]string{}
	for _, o := range c.Obs {
		got[o.Construct] = o.Status
	}
	if len(got) == 0 || os.Getenv("CLOAKCHECK_DUMP") != "" {
		for _, o := range c.Obs {
			fmt.Println("  selftest-debug:", o.Status, o.Rule, o.Construct, o.Detail)
		}
	}
	okGood, okBad, okHelper := false, false, false
	for k, v := range got {
		switch {
		case strings.Contains(k, "write in (*ctl.box).good") && v == "OK":
			okGood = true
		case strings.Contains(k, "write in (*ctl.box).bad") && v == "VIOLATION":
			okBad = true
		case strings.Contains(k, "write in (*ctl.box).helper") && v == "OK":
			okHelper = true
		}
	}
	expect("lockset: locked write accepted", okGood, "")
	expect("lockset: unlocked write reported", okBad, "")
	expect("lockset: callee inherits the caller's lock", okHelper, "")
	// E3 lock order
	lo := p.LockOrder()
	sccs, _ := lo.Cycles()
	cyc := false
	for _, comp := range sccs {
		if len(comp) == 2 && strings.Contains(comp[0], "box.a") && strings.Contains(comp[1], "box.b") {
			cyc = true
		}
	}
	expect("lock order: a→b / b→(call)→a cycle reported", cyc, fmt.Sprint(sccs))
	// E5 typestate
	openF, closeF := fn("open_"), fn("close_")
	ts := &Typestate{P: p, NStates: 3, Event: func(i ssa.Instruction) int {
		if cc := callCommon(i); cc != nil {
			if cc.StaticCallee() == openF {
				return 0
			}
			if cc.StaticCallee() == closeF {
				return 1
			}
		}
		return -1
	}, Delta: [][]int{{1, 2}, {2, 0}, {2, 2}}}
	sp, sl := ts.Summary(fn("paired")), ts.Summary(fn("leak"))
	expect("typestate: balanced function summarised as 0→{0}", sp[0] == 1, fmt.Sprintf("%03b", sp[0]))
	expect("typestate: leaking path reported (0→{0,1})", sl[0] == 0b011, fmt.Sprintf("%03b", sl[0]))
	// E13 sccp
	dec := fn("decide")
	outF := p.Field("", "cfg", "out")
	val := func(k int64) string {
		s := &SCCP{F: dec, AssumeValue: map[ssa.Value]constant.Value{dec.Params[0]: constant.MakeInt64(k)}}
		s.Run()
		var vs []string
		for _, st := range s.StoresTo(outF) {
			vs = append(vs, latString(st.Val))
		}
		return strings.Join(vs, ",")
	}
	expect("sccp: k=3 ⇒ out=30 only", val(3) == "30", val(3))
	expect("sccp: k=0 ⇒ out=7 only", val(0) == "7", val(0))
	// E4 must-pass
	markF := fn("mark")
	passes := func(f *ssa.Function) bool {
		return entrySearch(f, func(i ssa.Instruction) bool { cc := callCommon(i); return cc != nil && cc.StaticCallee() == markF },
			func(i ssa.Instruction) bool { _, ok := i.(*ssa.Return); return ok }) == nil
	}
	expect("must-pass: every return preceded by mark()", passes(fn("must")), "")
	expect("must-pass: skipping path reported", !passes(fn("skip")), "")
	// E7 bounds: φ(0,200) + tag is not bounded without a contract on tag (must NOT claim a bound)
	var ret *ssa.Return
	for _, r := range returnsOf(fn("sum")) {
		ret = r
	}
	_, _, okB := (&Bounds{}).UpperConst(ret.Results[0])
	expect("bounds: no constant bound claimed for an unconstrained symbol", !okB, "")
	// E8 comparison normaliser
	var atoms []string
	allInstrs(fn("decide"), func(i ssa.Instruction) {
		if iff, ok := i.(*ssa.If); ok {
			atoms = append(atoms, NormCond(iff.Cond, false).String())
		}
	})
	expect("cmp: ¬(k <= 0) normalised to 0 < k", len(atoms) == 1 && atoms[0] == "0 < k", fmt.Sprint(atoms))
	if fails > 0 {
		fmt.Printf("selftest: %d control(s) failed\n", fails)
		return 1
	}
	fmt.Println("selftest: all positive controls behave as expected")
	return 0
}
