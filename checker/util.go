package main

import (
	"fmt"
	"go/constant"
	"go/token"
	"go/types"
	"sort"
	"strings"

	"golang.org/x/tools/go/ssa"
)

func constInt64(v constant.Value) (int64, bool) {
	if v == nil {
		return 0, false
	}
	if v.Kind() == constant.Int {
		if i, ok := constant.Int64Val(v); ok {
			return i, true
		}
		if u, ok := constant.Uint64Val(v); ok {
			return int64(u), true
		}
	}
	if v.Kind() == constant.Float {
		f, _ := constant.Float64Val(v)
		if f == float64(int64(f)) {
			return int64(f), true
		}
	}
	return 0, false
}

// intConst returns the integer value of an SSA constant (looking through conversions).
func intConst(v ssa.Value) (int64, bool) {
	v = stripConv(v)
	c, ok := v.(*ssa.Const)
	if !ok || c.Value == nil {
		return 0, false
	}
	return constInt64(c.Value)
}

func isNilConst(v ssa.Value) bool {
	c, ok := v.(*ssa.Const)
	return ok && c.Value == nil
}

func boolConst(v ssa.Value) (bool, bool) {
	c, ok := v.(*ssa.Const)
	if !ok || c.Value == nil || c.Value.Kind() != constant.Bool {
		return false, false
	}
	return constant.BoolVal(c.Value), true
}

func strConst(v ssa.Value) (string, bool) {
	v = stripConv(v)
	c, ok := v.(*ssa.Const)
	if !ok || c.Value == nil || c.Value.Kind() != constant.String {
		return "", false
	}
	return constant.StringVal(c.Value), true
}

// stripConv looks through value-preserving wrappers.
func stripConv(v ssa.Value) ssa.Value {
	for {
		switch x := v.(type) {
		case *ssa.Convert:
			v = x.X
		case *ssa.ChangeType:
			v = x.X
		case *ssa.MakeInterface:
			v = x.X
		case *ssa.ChangeInterface:
			v = x.X
		case *ssa.Field:
			// a field of a struct value that was just built as a literal is the value stored into that field
			if fwd := fieldOfLiteral(x); fwd != nil {
				v = fwd
				continue
			}
			return v
		case *ssa.UnOp:
			// h.f where h is a local struct variable that was assigned once as a whole (h := lit / h := g-expanded):
			// the value of field f of what was assigned
			if x.Op == token.MUL {
				if fa, ok := x.X.(*ssa.FieldAddr); ok {
					if a, isA := fa.X.(*ssa.Alloc); isA && !a.Heap {
						if fwd := localStructField(a, fa.Field, x, 0); fwd != nil {
							v = fwd
							continue
						}
					}
				}
				// a variable kept in a cell (named result of a function with defer): a load that follows a store in
				// the same block, nothing in between writing the cell, is the stored value
				if a, ok := x.X.(*ssa.Alloc); ok && x.Block() != nil && plainCell(a) {
					var fwd ssa.Value
					for _, in := range x.Block().Instrs {
						if in == ssa.Instruction(x) {
							break
						}
						if st, isSt := in.(*ssa.Store); isSt && st.Addr == ssa.Value(a) && !isSelfStore(st) {
							fwd = st.Val
						}
					}
					if fwd != nil {
						v = fwd
						continue
					}
				}
			}
			return v
		default:
			return v
		}
	}
}

// localStructField: the value of field k of the local (stack) struct cell a at instruction at, when it is determined:
// a was assigned exactly once as a whole, before at, from another such cell or from a literal built field by field, and
// field k is never written or its address taken afterwards.
func localStructField(a *ssa.Alloc, k int, at ssa.Instruction, depth int) ssa.Value {
	if depth > 4 || a.Referrers() == nil {
		return nil
	}
	var whole []*ssa.Store
	var fieldStores []*ssa.Store
	for _, r := range *a.Referrers() {
		switch y := r.(type) {
		case *ssa.Store:
			if y.Addr != ssa.Value(a) {
				return nil // the cell's address is stored somewhere
			}
			whole = append(whole, y)
		case *ssa.FieldAddr:
			if y.Field != k {
				continue
			}
			if y.Referrers() == nil {
				continue
			}
			for _, r2 := range *y.Referrers() {
				switch z := r2.(type) {
				case *ssa.Store:
					if z.Addr != ssa.Value(y) {
						return nil
					}
					fieldStores = append(fieldStores, z)
				case *ssa.UnOp:
					if z.Op != token.MUL {
						return nil
					}
				case *ssa.DebugRef:
				default:
					return nil // address of the field escapes
				}
			}
		case *ssa.UnOp:
			if y.Op != token.MUL {
				return nil
			}
		case *ssa.DebugRef:
		default:
			return nil // the cell's address escapes (call argument, closure, …)
		}
	}
	switch {
	case len(whole) == 1 && len(fieldStores) == 0:
		st := whole[0]
		if !instrDominates(st, at) {
			return nil
		}
		src := st.Val
		if ld, ok := src.(*ssa.UnOp); ok && ld.Op == token.MUL {
			if b, isA := ld.X.(*ssa.Alloc); isA {
				return localStructField(b, k, ld, depth+1)
			}
		}
		return nil
	case len(whole) == 0 && len(fieldStores) == 1:
		if !instrDominates(fieldStores[0], at) {
			return nil
		}
		return fieldStores[0].Val
	}
	return nil
}

// fieldOfLiteral: x = (*a).f where a is a local struct cell that is only ever filled field by field (one store per
// field) and read as a whole; returns the value stored into f when that store precedes the read.
func fieldOfLiteral(x *ssa.Field) ssa.Value {
	ld, ok := x.X.(*ssa.UnOp)
	if !ok || ld.Op != token.MUL {
		return nil
	}
	a, ok := ld.X.(*ssa.Alloc)
	if !ok || a.Referrers() == nil {
		return nil
	}
	var val ssa.Value
	var st0 *ssa.Store
	for _, r := range *a.Referrers() {
		switch y := r.(type) {
		case *ssa.FieldAddr:
			if y.Referrers() == nil {
				return nil
			}
			n := 0
			for _, r2 := range *y.Referrers() {
				st, isSt := r2.(*ssa.Store)
				if !isSt || st.Addr != ssa.Value(y) {
					return nil // the field's address is used for something else than one initialising store
				}
				n++
				if y.Field == x.Field {
					val, st0 = st.Val, st
				}
			}
			if n != 1 {
				return nil
			}
		case *ssa.UnOp:
			if y.Op != token.MUL {
				return nil
			}
		case *ssa.DebugRef:
		default:
			return nil
		}
	}
	if val == nil || st0 == nil || !instrDominates(st0, ld) {
		return nil
	}
	return val
}

// fieldVar returns the field object selected by a FieldAddr / Field instruction.
func fieldVar(v ssa.Value) (*types.Var, ssa.Value) {
	switch x := v.(type) {
	case *ssa.FieldAddr:
		st := derefStruct(x.X.Type())
		if st == nil {
			return nil, nil
		}
		return st.Field(x.Field), x.X
	case *ssa.Field:
		st, _ := x.X.Type().Underlying().(*types.Struct)
		if st == nil {
			return nil, nil
		}
		return st.Field(x.Field), x.X
	}
	return nil, nil
}

func derefStruct(t types.Type) *types.Struct {
	if p, ok := t.Underlying().(*types.Pointer); ok {
		t = p.Elem()
	}
	st, _ := t.Underlying().(*types.Struct)
	return st
}

// loadedField: v is a load (*&x.f) or a Field read; returns field and base.
func loadedField(v ssa.Value) (*types.Var, ssa.Value) {
	v = stripConv(v)
	switch x := v.(type) {
	case *ssa.UnOp:
		if x.Op == token.MUL {
			if fa, ok := x.X.(*ssa.FieldAddr); ok {
				return fieldVar(fa)
			}
		}
	case *ssa.Field:
		return fieldVar(x)
	}
	return nil, nil
}

// fieldChain: for an address or loaded value, the chain of fields from a root value, e.g. recv.rwCond.L
func fieldChain(v ssa.Value) (root ssa.Value, chain []*types.Var) {
	for {
		v = stripConv(v)
		switch x := v.(type) {
		case *ssa.FieldAddr:
			f, b := fieldVar(x)
			chain = append([]*types.Var{f}, chain...)
			v = b
		case *ssa.Field:
			f, b := fieldVar(x)
			chain = append([]*types.Var{f}, chain...)
			v = b
		case *ssa.UnOp:
			if x.Op == token.MUL {
				if a, ok := x.X.(*ssa.Alloc); ok {
					if sv := cellValue(a, x); sv != nil {
						v = sv
						continue
					}
				}
				v = x.X
				continue
			}
			return v, chain
		default:
			return v, chain
		}
	}
}

// cellValue: a local variable that a closure captures (or whose address is taken) lives in an Alloc cell and every
// use is a load from it. When the cell is assigned exactly once — in its own function, never by a closure, never
// through an escaped address — and that store dominates the use, the load IS the stored value; returns it, else nil.
// This makes `s.f` mean the same access path whether or not some closure happens to capture s.
func cellValue(a *ssa.Alloc, use ssa.Instruction) ssa.Value {
	if a.Referrers() == nil {
		return nil
	}
	var st *ssa.Store
	for _, r := range *a.Referrers() {
		switch y := r.(type) {
		case *ssa.Store:
			if y.Addr != ssa.Value(a) {
				return nil // the address itself is stored somewhere
			}
			if st != nil {
				return nil
			}
			st = y
		case *ssa.UnOp:
			if y.Op != token.MUL {
				return nil
			}
		case *ssa.MakeClosure:
			// the closure must only read the cell
			fn, _ := y.Fn.(*ssa.Function)
			if fn == nil {
				return nil
			}
			for i, b := range y.Bindings {
				if b != ssa.Value(a) || i >= len(fn.FreeVars) {
					continue
				}
				if !freeVarReadOnly(fn.FreeVars[i], 0) {
					return nil
				}
			}
		case *ssa.DebugRef:
		default:
			return nil
		}
	}
	if st == nil || st.Parent() != a.Parent() {
		return nil
	}
	if use != nil && (use.Parent() != st.Parent() || !instrDominates(st, use)) {
		return nil
	}
	return st.Val
}

func freeVarReadOnly(fv *ssa.FreeVar, depth int) bool {
	if fv.Referrers() == nil {
		return true
	}
	if depth > 4 {
		return false
	}
	for _, r := range *fv.Referrers() {
		switch y := r.(type) {
		case *ssa.UnOp:
			if y.Op != token.MUL {
				return false
			}
		case *ssa.MakeClosure:
			fn, _ := y.Fn.(*ssa.Function)
			if fn == nil {
				return false
			}
			for i, b := range y.Bindings {
				if b == ssa.Value(fv) && i < len(fn.FreeVars) && !freeVarReadOnly(fn.FreeVars[i], depth+1) {
					return false
				}
			}
		case *ssa.DebugRef:
		default:
			return false
		}
	}
	return true
}

// callCommon extracts the CallCommon of call-like instructions.
func callCommon(i ssa.Instruction) *ssa.CallCommon {
	if c, ok := i.(ssa.CallInstruction); ok {
		return c.Common()
	}
	return nil
}

// calleeName: canonical name of the static callee or interface method; "" for dynamic calls.
func calleeName(c *ssa.CallCommon) string {
	if c == nil {
		return ""
	}
	if c.IsInvoke() {
		return c.Method.FullName()
	}
	if f := c.StaticCallee(); f != nil {
		return normAtomic(fnName(f))
	}
	if b, ok := c.Value.(*ssa.Builtin); ok {
		return "builtin." + b.Name()
	}
	return ""
}

// normAtomic maps the method form of the typed atomics onto the function form of the same operation:
// (*sync/atomic.Uint32).CompareAndSwap → sync/atomic.CompareAndSwapUint32. The receiver is argument 0 in SSA, exactly
// where the function form has the address, so rules written for either form see the same call shape.
func normAtomic(n string) string {
	const pre = "(*sync/atomic."
	if !strings.HasPrefix(n, pre) {
		return n
	}
	rest := n[len(pre):] // "Uint32).CompareAndSwap"
	i := strings.Index(rest, ").")
	if i < 0 {
		return n
	}
	typ, op := rest[:i], rest[i+2:]
	switch typ {
	case "Uint32", "Int32", "Uint64", "Int64", "Uintptr":
		switch op {
		case "Load", "Store", "Add", "Swap", "CompareAndSwap", "And", "Or":
			return "sync/atomic." + op + typ
		}
	case "Bool":
		// a flag kept in an atomic.Bool is the 0/1 word it replaces: Load ↔ LoadUint32(&x) == 1,
		// CompareAndSwap(false, true) ↔ CompareAndSwapUint32(&x, 0, 1)
		switch op {
		case "Load", "Store", "Swap", "CompareAndSwap":
			return "sync/atomic." + op + "Uint32"
		}
	}
	return n
}

// fnName is a stable function name without the module prefix.
func fnName(f *ssa.Function) string {
	if f == nil {
		return "<nil>"
	}
	s := f.String()
	s = strings.ReplaceAll(s, modPath+"/", "")
	return s
}

func isCall(i ssa.Instruction, names ...string) bool {
	n := calleeName(callCommon(i))
	if n == "" {
		return false
	}
	n = strings.ReplaceAll(n, modPath+"/", "")
	for _, w := range names {
		if n == w {
			return true
		}
	}
	return false
}

// callArgs returns the arguments including the receiver (invoke: receiver first).
func callArgs(c *ssa.CallCommon) []ssa.Value {
	if c.IsInvoke() {
		return append([]ssa.Value{c.Value}, c.Args...)
	}
	return c.Args
}

// ---------- expression printer (for reports and for structural comparison of small expressions) ----------

type exprPrinter struct {
	seen  map[ssa.Value]bool
	depth int
}

// Expr renders an SSA value as a canonical source-like expression.
func Expr(v ssa.Value) string {
	p := &exprPrinter{seen: map[ssa.Value]bool{}}
	return p.expr(v)
}

func (p *exprPrinter) expr(v ssa.Value) string {
	if v == nil {
		return "<nil>"
	}
	p.depth++
	defer func() { p.depth-- }()
	if p.depth > 14 {
		return "…"
	}
	switch x := v.(type) {
	case *ssa.Const:
		if x.Value == nil {
			return "nil"
		}
		return x.Value.ExactString()
	case *ssa.Parameter:
		return x.Name()
	case *ssa.FreeVar:
		return "^" + x.Name()
	case *ssa.Global:
		return x.Pkg.Pkg.Name() + "." + x.Name()
	case *ssa.Function:
		return fnName(x)
	case *ssa.Builtin:
		return x.Name()
	case *ssa.Alloc:
		if x.Comment != "" {
			return "&" + x.Comment
		}
		return "&" + x.Name()
	case *ssa.FieldAddr:
		f, _ := fieldVar(x)
		return "&" + strings.TrimPrefix(p.expr(x.X), "&") + "." + f.Name()
	case *ssa.Field:
		f, _ := fieldVar(x)
		return p.expr(x.X) + "." + f.Name()
	case *ssa.UnOp:
		s := p.expr(x.X)
		switch x.Op {
		case token.MUL:
			if strings.HasPrefix(s, "&") {
				return s[1:]
			}
			return "*" + s
		case token.NOT:
			return "!" + s
		case token.SUB:
			return "-" + s
		case token.ARROW:
			return "<-" + s
		case token.XOR:
			return "^" + s
		}
		return x.Op.String() + s
	case *ssa.BinOp:
		return "(" + p.expr(x.X) + " " + x.Op.String() + " " + p.expr(x.Y) + ")"
	case *ssa.Call:
		name := calleeName(&x.Call)
		if name == "" {
			name = p.expr(x.Call.Value)
		}
		name = strings.ReplaceAll(name, modPath+"/", "")
		var as []string
		for _, a := range callArgs(&x.Call) {
			as = append(as, p.expr(a))
		}
		return name + "(" + strings.Join(as, ", ") + ")"
	case *ssa.Slice:
		lo, hi := "", ""
		if x.Low != nil {
			lo = p.expr(x.Low)
		}
		if x.High != nil {
			hi = p.expr(x.High)
		}
		return strings.TrimPrefix(p.expr(x.X), "&") + "[" + lo + ":" + hi + "]"
	case *ssa.IndexAddr:
		return "&" + strings.TrimPrefix(p.expr(x.X), "&") + "[" + p.expr(x.Index) + "]"
	case *ssa.Index:
		return p.expr(x.X) + "[" + p.expr(x.Index) + "]"
	case *ssa.Lookup:
		return p.expr(x.X) + "[" + p.expr(x.Index) + "]"
	case *ssa.Convert:
		return p.expr(x.X)
	case *ssa.ChangeType:
		return p.expr(x.X)
	case *ssa.MakeInterface:
		return p.expr(x.X)
	case *ssa.ChangeInterface:
		return p.expr(x.X)
	case *ssa.SliceToArrayPointer:
		return p.expr(x.X)
	case *ssa.Extract:
		return p.expr(x.Tuple) + "#" + fmt.Sprint(x.Index)
	case *ssa.TypeAssert:
		return p.expr(x.X) + ".(" + types.TypeString(x.AssertedType, shortQual) + ")"
	case *ssa.MakeSlice:
		return "make(" + types.TypeString(x.Type(), shortQual) + ", " + p.expr(x.Len) + ")"
	case *ssa.MakeMap:
		return "make(" + types.TypeString(x.Type(), shortQual) + ")"
	case *ssa.MakeChan:
		return "make(" + types.TypeString(x.Type(), shortQual) + ")"
	case *ssa.MakeClosure:
		return "closure(" + fnName(x.Fn.(*ssa.Function)) + ")"
	case *ssa.Phi:
		if p.seen[x] {
			return "φ" + x.Name()
		}
		p.seen[x] = true
		var es []string
		for _, e := range x.Edges {
			es = append(es, p.expr(e))
		}
		sort.Strings(es)
		es = dedupStrings(es)
		if len(es) == 1 {
			return es[0]
		}
		return "φ(" + strings.Join(es, " | ") + ")"
	case *ssa.Next:
		return "next(" + p.expr(x.Iter) + ")"
	case *ssa.Range:
		return "range(" + p.expr(x.X) + ")"
	}
	return v.Name()
}

func shortQual(p *types.Package) string { return p.Name() }

func dedupStrings(s []string) []string {
	var out []string
	for i, x := range s {
		if i == 0 || x != s[i-1] {
			out = append(out, x)
		}
	}
	return out
}

// ---------- CFG helpers (E4) ----------

func instrIndex(i ssa.Instruction) int {
	for k, x := range i.Block().Instrs {
		if x == i {
			return k
		}
	}
	return -1
}

// instrDominates: a is executed before b on every path reaching b.
func instrDominates(a, b ssa.Instruction) bool {
	if a.Parent() != b.Parent() {
		return false
	}
	if a.Block() == b.Block() {
		return instrIndex(a) < instrIndex(b)
	}
	return a.Block().Dominates(b.Block())
}

// valueDominates: definition of value v dominates instruction b (params/consts dominate everything).
func valueDominates(v ssa.Value, b ssa.Instruction) bool {
	if i, ok := v.(ssa.Instruction); ok {
		return instrDominates(i, b)
	}
	return true
}

func isRecoverBlock(b *ssa.BasicBlock) bool {
	return b.Parent().Recover == b
}

// returnsOf lists the Return instructions of f (excluding the synthetic recover block).
func returnsOf(f *ssa.Function) []*ssa.Return {
	var out []*ssa.Return
	for _, b := range f.Blocks {
		if isRecoverBlock(b) {
			continue
		}
		if len(b.Instrs) == 0 {
			continue
		}
		if r, ok := b.Instrs[len(b.Instrs)-1].(*ssa.Return); ok {
			out = append(out, r)
		}
	}
	return out
}

// isNoReturnCall: calls that end the path (log.Fatal*, log.Panic*, os.Exit, logrus equivalents).
func isNoReturnCall(i ssa.Instruction) bool {
	n := calleeName(callCommon(i))
	switch {
	case n == "os.Exit", n == "runtime.Goexit":
		return true
	case strings.HasPrefix(n, "log.Fatal"), strings.HasPrefix(n, "log.Panic"):
		return true
	case strings.HasPrefix(n, "github.com/sirupsen/logrus.Fatal"), strings.HasPrefix(n, "github.com/sirupsen/logrus.Panic"):
		return true
	case strings.HasPrefix(n, "(*github.com/sirupsen/logrus.Logger).Fatal"), strings.HasPrefix(n, "(*github.com/sirupsen/logrus.Entry).Fatal"):
		return true
	case strings.HasPrefix(n, "(*github.com/sirupsen/logrus.Logger).Panic"), strings.HasPrefix(n, "(*github.com/sirupsen/logrus.Entry).Panic"):
		return true
	}
	return false
}

// forwardSearch explores instruction-level paths starting right after `from`. stop(i)=true cuts the path at i
// (i is not traversed). It returns the first instruction satisfying target that is reachable, or nil.
func forwardSearch(from ssa.Instruction, stop func(ssa.Instruction) bool, target func(ssa.Instruction) bool) ssa.Instruction {
	// Path-sensitive for flag variables: a branch on a φ of constants (`done := false; … done = true; … if done`) or on
	// `e != nil` with e a φ of nil / definitely-non-nil errors is followed only along the edge that the way into the φ's
	// block selects. The state of a path is the predecessor through which each block holding such a φ was last entered.
	f := from.Parent()
	flagBlocks := map[*ssa.BasicBlock]bool{}
	if f != nil {
		for _, b := range f.Blocks {
			if len(b.Instrs) == 0 {
				continue
			}
			if iff, ok := b.Instrs[len(b.Instrs)-1].(*ssa.If); ok {
				for _, ph := range flagPhisOf(iff.Cond, 0) {
					flagBlocks[ph.Block()] = true
				}
			}
		}
	}
	type state struct {
		b   *ssa.BasicBlock
		env string
	}
	seen := map[state]bool{}
	budget := 20000
	envKey := func(env map[*ssa.BasicBlock]*ssa.BasicBlock) string {
		if len(env) == 0 {
			return ""
		}
		var ks []int
		for b := range env {
			ks = append(ks, b.Index)
		}
		sort.Ints(ks)
		s := ""
		for _, k := range ks {
			s += fmt.Sprintf("%d<%d;", k, env[f.Blocks[k]].Index)
		}
		return s
	}
	var walk func(b *ssa.BasicBlock, idx int, env map[*ssa.BasicBlock]*ssa.BasicBlock) ssa.Instruction
	walk = func(b *ssa.BasicBlock, idx int, env map[*ssa.BasicBlock]*ssa.BasicBlock) ssa.Instruction {
		for k := idx; k < len(b.Instrs); k++ {
			in := b.Instrs[k]
			if stop != nil && stop(in) {
				return nil
			}
			if target(in) {
				return in
			}
			if isNoReturnCall(in) {
				return nil
			}
		}
		succs := b.Succs
		if iff, ok := b.Instrs[len(b.Instrs)-1].(*ssa.If); ok && len(succs) == 2 && budget > 0 {
			if v, known := flagValue(iff.Cond, env, 0); known {
				if v {
					succs = succs[:1]
				} else {
					succs = succs[1:2]
				}
			}
		}
		for _, s := range succs {
			if isRecoverBlock(s) {
				continue
			}
			env2 := env
			if flagBlocks[s] && budget > 0 {
				env2 = map[*ssa.BasicBlock]*ssa.BasicBlock{}
				for k, v := range env {
					env2[k] = v
				}
				env2[s] = b
			}
			st := state{s, envKey(env2)}
			if budget <= 0 {
				st.env = ""
			}
			if seen[st] {
				continue
			}
			seen[st] = true
			budget--
			if r := walk(s, 0, env2); r != nil {
				return r
			}
		}
		return nil
	}
	return walk(from.Block(), instrIndex(from)+1, nil)
}

// flagPhisOf: the φ-nodes whose incoming edge decides the condition (through !, ==/!= nil, ==/!= constant).
func flagPhisOf(cond ssa.Value, depth int) []*ssa.Phi {
	if depth > 4 {
		return nil
	}
	switch x := cond.(type) {
	case *ssa.UnOp:
		if x.Op == token.NOT {
			return flagPhisOf(x.X, depth+1)
		}
	case *ssa.Phi:
		out := []*ssa.Phi{x}
		for _, e := range x.Edges {
			if ph, ok := e.(*ssa.Phi); ok {
				out = append(out, flagPhisOf(ph, depth+1)...)
			}
		}
		return out
	case *ssa.BinOp:
		if x.Op == token.EQL || x.Op == token.NEQ {
			for _, side := range []ssa.Value{x.X, x.Y} {
				if ph, ok := stripConv(side).(*ssa.Phi); ok {
					if _, isK := otherOperand(x, side).(*ssa.Const); isK {
						return flagPhisOf(ph, depth+1)
					}
				}
			}
		}
	}
	return nil
}

func otherOperand(b *ssa.BinOp, side ssa.Value) ssa.Value {
	if b.X == side {
		return b.Y
	}
	return b.X
}

// flagValue: the truth value of cond on a path described by env (block → predecessor it was entered from), when the
// path decides it.
func flagValue(cond ssa.Value, env map[*ssa.BasicBlock]*ssa.BasicBlock, depth int) (val, known bool) {
	if depth > 6 || env == nil {
		return false, false
	}
	pick := func(ph *ssa.Phi) ssa.Value {
		pred, ok := env[ph.Block()]
		if !ok {
			return nil
		}
		for k, pb := range ph.Block().Preds {
			if pb == pred {
				return ph.Edges[k]
			}
		}
		return nil
	}
	switch x := cond.(type) {
	case *ssa.Const:
		if b, ok := boolConst(x); ok {
			return b, true
		}
	case *ssa.UnOp:
		if x.Op == token.NOT {
			v, k := flagValue(x.X, env, depth+1)
			return !v, k
		}
	case *ssa.Phi:
		if e := pick(x); e != nil {
			return flagValue(e, env, depth+1)
		}
	case *ssa.BinOp:
		if x.Op != token.EQL && x.Op != token.NEQ {
			return false, false
		}
		for _, side := range []ssa.Value{x.X, x.Y} {
			ph, ok := stripConv(side).(*ssa.Phi)
			if !ok {
				continue
			}
			other := otherOperand(x, side)
			e := pick(ph)
			for d := 0; e != nil && d < 4; d++ {
				if p2, isPhi := stripConv(e).(*ssa.Phi); isPhi {
					e = pick(p2)
					continue
				}
				break
			}
			if e == nil {
				continue
			}
			if isNilConst(other) {
				switch {
				case isNilConst(e):
					return x.Op == token.EQL, true
				case definitelyNonNilError(e):
					return x.Op == token.NEQ, true
				}
				continue
			}
			if ko, isK := other.(*ssa.Const); isK {
				if ke, isK2 := stripConv(e).(*ssa.Const); isK2 && ko.Value != nil && ke.Value != nil {
					eq := constant.Compare(ke.Value, token.EQL, ko.Value)
					if x.Op == token.EQL {
						return eq, true
					}
					return !eq, true
				}
			}
		}
	}
	return false, false
}

// reachesReturnAvoiding: is some Return reachable from just after `from` without executing an instruction
// satisfying pass? Returns the offending return.
func reachesReturnAvoiding(from ssa.Instruction, pass func(ssa.Instruction) bool) *ssa.Return {
	r := forwardSearch(from, pass, func(i ssa.Instruction) bool { _, ok := i.(*ssa.Return); return ok })
	if r == nil {
		return nil
	}
	return r.(*ssa.Return)
}

// entrySearch: same as forwardSearch but from function entry.
func entrySearch(f *ssa.Function, stop func(ssa.Instruction) bool, target func(ssa.Instruction) bool) ssa.Instruction {
	if len(f.Blocks) == 0 {
		return nil
	}
	seenBlk := map[*ssa.BasicBlock]bool{f.Blocks[0]: true}
	var walk func(b *ssa.BasicBlock) ssa.Instruction
	walk = func(b *ssa.BasicBlock) ssa.Instruction {
		for _, in := range b.Instrs {
			if stop != nil && stop(in) {
				return nil
			}
			if target(in) {
				return in
			}
			if isNoReturnCall(in) {
				return nil
			}
		}
		for _, s := range b.Succs {
			if seenBlk[s] || isRecoverBlock(s) {
				continue
			}
			seenBlk[s] = true
			if r := walk(s); r != nil {
				return r
			}
		}
		return nil
	}
	return walk(f.Blocks[0])
}

// ---------- guards and atoms (E4 guard sets, E8 comparison normaliser) ----------

// Guard: the branch condition Cond holds with polarity Pol at the guarded block.
type Guard struct {
	Cond ssa.Value
	Pol  bool
	If   *ssa.If
}

func edgeControls(d *ssa.BasicBlock, s *ssa.BasicBlock, b *ssa.BasicBlock) bool {
	if !s.Dominates(b) {
		return false
	}
	for _, p := range s.Preds {
		if p == d {
			continue
		}
		if !s.Dominates(p) {
			return false
		}
	}
	return true
}

// GuardsOf returns the branch conditions that must hold for control to reach block b.
func GuardsOf(b *ssa.BasicBlock) []Guard {
	var gs []Guard
	for d := b.Idom(); d != nil; d = d.Idom() {
		if len(d.Instrs) == 0 {
			continue
		}
		iff, ok := d.Instrs[len(d.Instrs)-1].(*ssa.If)
		if !ok || len(d.Succs) != 2 || d.Succs[0] == d.Succs[1] {
			continue
		}
		t, f := edgeControls(d, d.Succs[0], b), edgeControls(d, d.Succs[1], b)
		if t && !f {
			gs = append(gs, Guard{iff.Cond, true, iff})
			gs = append(gs, shortCircuitGuards(iff.Cond, true, iff, 0)...)
		} else if f && !t {
			gs = append(gs, Guard{iff.Cond, false, iff})
			gs = append(gs, shortCircuitGuards(iff.Cond, false, iff, 0)...)
		}
	}
	return gs
}

func containsBlock(bs []*ssa.BasicBlock, b *ssa.BasicBlock) bool {
	for _, x := range bs {
		if x == b {
			return true
		}
	}
	return false
}

// shortCircuitGuards: when a && / || expression is materialised as a value, go/ssa builds φ(c, false) (resp. φ(true, c)).
// If that φ is known to be `pol` and every constant edge carries !pol, control came through the single non-constant
// edge with c == pol, so c's own condition and the guards of the block that evaluated it hold as well.
func shortCircuitGuards(cond ssa.Value, pol bool, iff *ssa.If, depth int) []Guard {
	for {
		if u, ok := cond.(*ssa.UnOp); ok && u.Op == token.NOT {
			cond, pol = u.X, !pol
			continue
		}
		break
	}
	ph, ok := cond.(*ssa.Phi)
	if !ok || depth > 4 {
		return nil
	}
	idx := -1
	for k, e := range ph.Edges {
		if b, isB := boolConst(e); isB {
			if b == pol {
				return nil // a constant edge can produce pol: nothing follows
			}
			continue
		}
		if idx >= 0 {
			return nil
		}
		idx = k
	}
	if idx < 0 {
		return nil
	}
	e := ph.Edges[idx]
	out := []Guard{{e, pol, iff}}
	out = append(out, shortCircuitGuards(e, pol, iff, depth+1)...)
	pred := ph.Block().Preds[idx]
	out = append(out, GuardsOf(pred)...)
	if pi, ok := pred.Instrs[len(pred.Instrs)-1].(*ssa.If); ok && len(pred.Succs) == 2 && pred.Succs[0] != pred.Succs[1] {
		out = append(out, Guard{pi.Cond, pred.Succs[0] == ph.Block(), pi})
	}
	return out
}

// Atom is a normalised condition.
// Kind "cmp": X Op Y with Op in {==, !=, <, <=}; Kind "call": Call returned Pol; Kind "bool": X has truth value Pol;
// Kind "ok": comma-ok result of X is Pol.
type Atom struct {
	Kind string
	Op   token.Token
	X, Y ssa.Value
	Call *ssa.Call
	Pol  bool
}

func (a Atom) String() string {
	switch a.Kind {
	case "cmp":
		return Expr(a.X) + " " + a.Op.String() + " " + Expr(a.Y)
	case "call":
		if a.Pol {
			return Expr(a.Call)
		}
		return "!" + Expr(a.Call)
	case "ok":
		if a.Pol {
			return "ok(" + Expr(a.X) + ")"
		}
		return "!ok(" + Expr(a.X) + ")"
	}
	if a.Pol {
		return Expr(a.X)
	}
	return "!" + Expr(a.X)
}

// cellFwd: a load of a plain local cell that follows a store to it in the same block is the stored value.
func cellFwd(v ssa.Value) ssa.Value {
	x, ok := v.(*ssa.UnOp)
	if !ok || x.Op != token.MUL || x.Block() == nil {
		return v
	}
	a, ok := x.X.(*ssa.Alloc)
	if !ok || !plainCell(a) {
		return v
	}
	var fwd ssa.Value
	for _, in := range x.Block().Instrs {
		if in == ssa.Instruction(x) {
			break
		}
		if st, isSt := in.(*ssa.Store); isSt && st.Addr == ssa.Value(a) && !isSelfStore(st) {
			fwd = st.Val
		}
	}
	if fwd != nil {
		return fwd
	}
	return v
}

// NormCond normalises (cond, polarity) to an atom.
func NormCond(v ssa.Value, pol bool) Atom {
	for {
		if u, ok := v.(*ssa.UnOp); ok && u.Op == token.NOT {
			v = u.X
			pol = !pol
			continue
		}
		break
	}
	switch x := v.(type) {
	case *ssa.BinOp:
		op := x.Op
		a, b := x.X, x.Y
		switch op {
		case token.EQL, token.NEQ, token.LSS, token.LEQ, token.GTR, token.GEQ:
		default:
			return Atom{Kind: "bool", X: v, Pol: pol}
		}
		if !pol {
			switch op {
			case token.EQL:
				op = token.NEQ
			case token.NEQ:
				op = token.EQL
			case token.LSS:
				op = token.GEQ
			case token.LEQ:
				op = token.GTR
			case token.GTR:
				op = token.LEQ
			case token.GEQ:
				op = token.LSS
			}
		}
		switch op {
		case token.GTR:
			op, a, b = token.LSS, b, a
		case token.GEQ:
			op, a, b = token.LEQ, b, a
		}
		return Atom{Kind: "cmp", Op: op, X: cellFwd(a), Y: cellFwd(b), Pol: true}
	case *ssa.Call:
		return Atom{Kind: "call", Call: x, Pol: pol}
	case *ssa.Extract:
		// comma-ok of lookup / type assert / recv, or a tuple element of a call
		switch t := x.Tuple.(type) {
		case *ssa.Lookup, *ssa.TypeAssert:
			if x.Index == 1 {
				return Atom{Kind: "ok", X: t, Pol: pol}
			}
		case *ssa.UnOp:
			if t.CommaOk && x.Index == 1 {
				return Atom{Kind: "ok", X: t, Pol: pol}
			}
		}
	}
	return Atom{Kind: "bool", X: v, Pol: pol}
}

// AtomsAt returns all atoms that hold whenever instruction i executes.
func AtomsAt(i ssa.Instruction) []Atom {
	var out []Atom
	for _, g := range GuardsOf(i.Block()) {
		out = append(out, NormCond(g.Cond, g.Pol))
	}
	return out
}

// sameValue: structural equality of two SSA values (same instruction, or equal pure expressions).
func sameValue(a, b ssa.Value) bool {
	a, b = stripConv(a), stripConv(b)
	if a == b {
		return true
	}
	if ca, ok := a.(*ssa.Const); ok {
		if cb, ok := b.(*ssa.Const); ok {
			if ca.Value == nil || cb.Value == nil {
				return ca.Value == nil && cb.Value == nil
			}
			return constant.Compare(ca.Value, token.EQL, cb.Value)
		}
	}
	return false
}

// expandBoolCalls: a guard of the form "helper(args) returned true" implies whatever must hold on every way the helper
// can return true. For each such atom (callee in the repository, single bool result) the conditions common to all
// true-capable returns are added; bind maps the helper's parameters to the caller's arguments so that value predicates
// can look through them.
func expandBoolCalls(p *Prog, atoms []Atom) (out []Atom, bind map[ssa.Value]ssa.Value) {
	bind = map[ssa.Value]ssa.Value{}
	out = append(out, atoms...)
	for _, a := range atoms {
		if a.Kind != "call" || !a.Pol || a.Call == nil {
			continue
		}
		g := a.Call.Call.StaticCallee()
		if g == nil || !p.InRepo(g) || len(g.Blocks) == 0 || g.Signature.Results().Len() != 1 || typeStr(g.Signature.Results().At(0).Type()) != "bool" {
			continue
		}
		args := callArgs(&a.Call.Call)
		if len(args) == len(g.Params) {
			for k, prm := range g.Params {
				bind[prm] = args[k]
			}
		}
		var common map[string]Atom
		for _, r := range returnsOf(g) {
			if len(r.Results) != 1 {
				continue
			}
			v := r.Results[0]
			if b, isB := boolConst(v); isB && !b {
				continue
			}
			var conds []Atom
			for _, gd := range GuardsOf(r.Block()) {
				conds = append(conds, NormCond(gd.Cond, gd.Pol))
			}
			if _, isB := boolConst(v); !isB {
				conds = append(conds, NormCond(v, true))
				for _, gd := range shortCircuitGuards(v, true, nil, 0) {
					conds = append(conds, NormCond(gd.Cond, gd.Pol))
				}
			}
			set := map[string]Atom{}
			for _, cnd := range conds {
				set[cnd.String()] = cnd
			}
			if common == nil {
				common = set
			} else {
				for k := range common {
					if _, ok := set[k]; !ok {
						delete(common, k)
					}
				}
			}
		}
		for _, cnd := range common {
			out = append(out, cnd)
		}
	}
	return out, bind
}

// mentions: does the expression tree of v (operands, bounded depth, through φ) contain a value satisfying pred?
func mentions(v ssa.Value, pred func(ssa.Value) bool) bool {
	seen := map[ssa.Value]bool{}
	var walk func(x ssa.Value, d int) bool
	walk = func(x ssa.Value, d int) bool {
		if x == nil || d > 10 || seen[x] {
			return false
		}
		seen[x] = true
		if pred(x) {
			return true
		}
		in, ok := x.(ssa.Instruction)
		if !ok {
			return false
		}
		for _, op := range in.Operands(nil) {
			if op != nil && *op != nil && walk(*op, d+1) {
				return true
			}
		}
		// varargs / composite temporaries: what was stored into the allocation the slice is taken from
		if al, isAl := x.(*ssa.Alloc); isAl {
			for _, r := range *al.Referrers() {
				switch y := r.(type) {
				case *ssa.Store:
					if y.Addr == ssa.Value(al) && walk(y.Val, d+1) {
						return true
					}
				case *ssa.IndexAddr:
					for _, rr := range *y.Referrers() {
						if st, isSt := rr.(*ssa.Store); isSt && st.Addr == ssa.Value(y) && walk(st.Val, d+1) {
							return true
						}
					}
				case *ssa.Slice:
					// copy(alloc[:], src) fills the allocation from src
					for _, rr := range *y.Referrers() {
						if cc, isC := rr.(*ssa.Call); isC && calleeName(&cc.Call) == "builtin.copy" && cc.Call.Args[0] == ssa.Value(y) && walk(cc.Call.Args[1], d+1) {
							return true
						}
					}
				}
			}
		}
		return false
	}
	return walk(v, 0)
}

// mentionsField: the expression reads or addresses struct field fv somewhere.
func mentionsField(v ssa.Value, fv *types.Var) bool {
	if fv == nil {
		return false
	}
	return mentions(v, func(x ssa.Value) bool { f, _ := fieldVar(x); return f == fv })
}

// mentionsCallTo: the expression contains a call whose callee name ends in suffix.
func mentionsCallTo(v ssa.Value, suffix string) bool {
	return mentions(v, func(x ssa.Value) bool {
		c, ok := x.(*ssa.Call)
		return ok && strings.HasSuffix(calleeName(&c.Call), suffix)
	})
}

// sameExpr: structural equality of two side-effect-free expressions — the same value, equal constants, loads of the same
// place (same root, same field/index path; intervening stores are NOT considered, callers use it only where the place is
// not written in between), len() of the same slice, and the same operator applied to equal operands.
func sameExpr(a, b ssa.Value) bool { return sameExprD(a, b, 0) }

func sameExprD(a, b ssa.Value, d int) bool {
	if sameValue(a, b) {
		return true
	}
	if d > 6 || a == nil || b == nil {
		return false
	}
	switch x := a.(type) {
	case *ssa.UnOp:
		y, ok := b.(*ssa.UnOp)
		if !ok || x.Op != y.Op {
			return false
		}
		if x.Op == token.MUL {
			return sameAddrExpr(x.X, y.X, d+1)
		}
		return sameExprD(x.X, y.X, d+1)
	case *ssa.BinOp:
		y, ok := b.(*ssa.BinOp)
		return ok && x.Op == y.Op && sameExprD(x.X, y.X, d+1) && sameExprD(x.Y, y.Y, d+1)
	case *ssa.Convert:
		y, ok := b.(*ssa.Convert)
		return ok && types.Identical(x.Type(), y.Type()) && sameExprD(x.X, y.X, d+1)
	case *ssa.Call:
		y, ok := b.(*ssa.Call)
		if !ok || calleeName(&x.Call) != "builtin.len" || calleeName(&y.Call) != "builtin.len" {
			return false
		}
		return sameExprD(x.Call.Args[0], y.Call.Args[0], d+1)
	case *ssa.Slice:
		y, ok := b.(*ssa.Slice)
		if !ok || !sameExprD(x.X, y.X, d+1) {
			return false
		}
		eq := func(p, q ssa.Value) bool {
			if p == nil || q == nil {
				return p == nil && q == nil
			}
			return sameExprD(p, q, d+1)
		}
		return eq(x.Low, y.Low) && eq(x.High, y.High) && eq(x.Max, y.Max)
	}
	return false
}

func sameAddrExpr(a, b ssa.Value, d int) bool {
	if a == b {
		return true
	}
	if d > 6 {
		return false
	}
	switch x := a.(type) {
	case *ssa.FieldAddr:
		y, ok := b.(*ssa.FieldAddr)
		return ok && x.Field == y.Field && types.Identical(x.X.Type(), y.X.Type()) && sameExprD(x.X, y.X, d+1)
	case *ssa.IndexAddr:
		y, ok := b.(*ssa.IndexAddr)
		return ok && sameExprD(x.X, y.X, d+1) && sameExprD(x.Index, y.Index, d+1)
	}
	return false
}

// errIsNilAt classifies an error-typed value at a program point: "nil", "nonnil", "maybe".
func errIsNilAt(v ssa.Value, at ssa.Instruction) string {
	return errState(v, at, map[ssa.Value]bool{})
}

func errState(v ssa.Value, at ssa.Instruction, seen map[ssa.Value]bool) string {
	if isNilConst(v) {
		return "nil"
	}
	if seen[v] {
		return "maybe"
	}
	seen[v] = true
	// dominating guards on this very value
	for _, a := range AtomsAt(at) {
		if a.Kind == "cmp" && (a.Op == token.EQL || a.Op == token.NEQ) {
			var other ssa.Value
			if a.X == v {
				other = a.Y
			} else if a.Y == v {
				other = a.X
			}
			if other != nil && isNilConst(other) {
				if a.Op == token.EQL {
					return "nil"
				}
				return "nonnil"
			}
		}
	}
	switch x := v.(type) {
	case *ssa.MakeInterface:
		return "nonnil"
	case *ssa.Call:
		n := calleeName(&x.Call)
		if n == "errors.New" || n == "fmt.Errorf" {
			return "nonnil"
		}
	case *ssa.Extract:
		// result of an in-repo function all of whose returns give a definite answer at that index
		if call, ok := x.Tuple.(*ssa.Call); ok {
			if f := call.Call.StaticCallee(); f != nil && len(f.Blocks) > 0 && (f.Parent() != nil || (f.Pkg != nil && strings.HasPrefix(f.Pkg.Pkg.Path(), modPath))) {
				res := ""
				for _, r := range returnsOf(f) {
					rv := resultValue(r, x.Index)
					if rv == nil {
						return "maybe"
					}
					s := errState(rv, r, seen)
					if res == "" {
						res = s
					} else if res != s {
						return "maybe"
					}
				}
				if res != "" {
					return res
				}
			}
		}
	case *ssa.UnOp:
		if x.Op == token.MUL {
			if g, ok := x.X.(*ssa.Global); ok && (strings.HasPrefix(g.Name(), "Err") || strings.HasPrefix(g.Name(), "err")) {
				return "nonnil"
			}
			if g, ok := x.X.(*ssa.Global); ok && g.Pkg != nil && g.Pkg.Pkg.Path() == "io" {
				return "nonnil"
			}
		}
	case *ssa.Phi:
		res := ""
		for k, e := range x.Edges {
			// evaluate the edge value at the end of the predecessor block
			pred := x.Block().Preds[k]
			s := errState(e, pred.Instrs[len(pred.Instrs)-1], seen)
			if res == "" {
				res = s
			} else if res != s {
				return "maybe"
			}
		}
		if res == "" {
			return "maybe"
		}
		return res
	}
	return "maybe"
}

// resultValue returns the value returned at index idx by a Return, resolving the defer-spill shape
// (named results stored in an Alloc and loaded after rundefers).
func resultValue(r *ssa.Return, idx int) ssa.Value {
	if idx >= len(r.Results) {
		return nil
	}
	v := r.Results[idx]
	if u, ok := v.(*ssa.UnOp); ok && u.Op == token.MUL {
		if al, ok := u.X.(*ssa.Alloc); ok {
			if s := lastStoreBefore(al, u); s != nil {
				return s.Val
			}
		}
	}
	return v
}

// lastStoreBefore finds the unique store to addr that reaches `at` along the dominator chain with no
// other store in between on any path (conservative: nearest dominating store; nil if another store may intervene).
func lastStoreBefore(addr ssa.Value, at ssa.Instruction) *ssa.Store {
	var stores []*ssa.Store
	for _, r := range *addr.Referrers() {
		if s, ok := r.(*ssa.Store); ok && s.Addr == addr {
			stores = append(stores, s)
		}
	}
	var best *ssa.Store
	for _, s := range stores {
		if instrDominates(s, at) {
			if best == nil || instrDominates(best, s) {
				best = s
			}
		}
	}
	if best == nil {
		return nil
	}
	// any other store that can execute between best and at?
	for _, s := range stores {
		if s == best {
			continue
		}
		if instrDominates(s, best) {
			continue // before best
		}
		// s may lie between best and at
		if forwardSearch(best, func(i ssa.Instruction) bool { return i == at }, func(i ssa.Instruction) bool { return i == ssa.Instruction(s) }) != nil {
			// s reachable from best without passing at; can s then reach at?
			if forwardSearch(s, nil, func(i ssa.Instruction) bool { return i == at }) != nil {
				return nil
			}
		}
	}
	return best
}

// allInstrs iterates over the instructions of f.
func allInstrs(f *ssa.Function, fn func(ssa.Instruction)) {
	for _, b := range f.Blocks {
		if isRecoverBlock(b) {
			continue
		}
		for _, in := range b.Instrs {
			fn(in)
		}
	}
}

// callsIn returns the call instructions in f whose callee name matches one of names.
func callsIn(f *ssa.Function, names ...string) []ssa.CallInstruction {
	var out []ssa.CallInstruction
	allInstrs(f, func(i ssa.Instruction) {
		if c, ok := i.(ssa.CallInstruction); ok && isCall(i, names...) {
			out = append(out, c)
		}
	})
	return out
}

func typeStr(t types.Type) string {
	return strings.ReplaceAll(types.TypeString(t, nil), modPath+"/", "")
}

// shortFn gives a compact name for keys: pkg.Func or pkg.(*T).M
func shortFn(f *ssa.Function) string {
	s := fnName(f)
	s = strings.ReplaceAll(s, "internal/", "")
	return s
}

// edgeSearch explores paths from `from` (nil: function entry of f) and reports whether target is reachable when
// the CFG edges selected by cut are removed and paths stop at instructions selected by stop.
// cut(ifInstr, atom-of-the-edge): called for both out-edges of every If with the normalised condition of that edge.
func edgeSearch(f *ssa.Function, from ssa.Instruction, cut func(a Atom) bool, stop func(ssa.Instruction) bool, target func(ssa.Instruction) bool) ssa.Instruction {
	seenBlk := map[*ssa.BasicBlock]bool{}
	var walk func(b *ssa.BasicBlock, idx int) ssa.Instruction
	walk = func(b *ssa.BasicBlock, idx int) ssa.Instruction {
		for k := idx; k < len(b.Instrs); k++ {
			in := b.Instrs[k]
			if stop != nil && stop(in) {
				return nil
			}
			if target(in) {
				return in
			}
			if isNoReturnCall(in) {
				return nil
			}
		}
		var iff *ssa.If
		if len(b.Instrs) > 0 {
			iff, _ = b.Instrs[len(b.Instrs)-1].(*ssa.If)
		}
		for k, s := range b.Succs {
			if iff != nil && cut != nil && len(b.Succs) == 2 && cut(NormCond(iff.Cond, k == 0)) {
				continue
			}
			if seenBlk[s] || isRecoverBlock(s) {
				continue
			}
			seenBlk[s] = true
			if r := walk(s, 0); r != nil {
				return r
			}
		}
		return nil
	}
	if from == nil {
		seenBlk[f.Blocks[0]] = true
		return walk(f.Blocks[0], 0)
	}
	return walk(from.Block(), instrIndex(from)+1)
}

// onPathBetween returns an instruction satisfying pred that lies on some path from a (exclusive) to b (exclusive).
func onPathBetween(a, b ssa.Instruction, pred func(ssa.Instruction) bool) ssa.Instruction {
	var hits []ssa.Instruction
	seenBlk := map[*ssa.BasicBlock]bool{}
	var walk func(blk *ssa.BasicBlock, idx int)
	walk = func(blk *ssa.BasicBlock, idx int) {
		for k := idx; k < len(blk.Instrs); k++ {
			in := blk.Instrs[k]
			if in == b {
				return
			}
			if pred(in) {
				hits = append(hits, in)
			}
			if isNoReturnCall(in) {
				return
			}
		}
		for _, s := range blk.Succs {
			if seenBlk[s] || isRecoverBlock(s) {
				continue
			}
			seenBlk[s] = true
			walk(s, 0)
		}
	}
	walk(a.Block(), instrIndex(a)+1)
	for _, h := range hits {
		if forwardSearch(h, nil, func(i ssa.Instruction) bool { return i == b }) != nil {
			return h
		}
	}
	return nil
}
