package main

import (
	"fmt"
	"go/ast"
	"go/constant"
	"go/token"
	"go/types"
	"sort"
	"strings"

	"golang.org/x/tools/go/packages"
)

// NORMALISATION BY UNROLLING — a loop over a small table written down right there,
//
//	rows := []struct{ key string; v int64 }{{"UpCredit", s.Up}, {"DownCredit", s.Down}}
//	for _, r := range rows { …r.key…r.v… }
//
// is the straight-line code it abbreviates. The field-based engines (value flow, constant keys) would merge the rows into
// one variable; so, like novel helpers (inline.go), such loops are expanded at the source level before the rules run:
// one copy of the body per row, every `r.f` replaced by the row's expression for f (converted to the field's type).
// Conditions, so that the expansion is exact: the table is a local composite literal of at most 16 rows that is used by
// this one range statement only; rows are struct literals (or scalars) whose entries are constants or field paths of
// variables that the body neither assigns nor takes the address of; the range variable is used only as r.f (or, for
// scalars, read); the body has no labels and no break that would leave the loop (a `continue` becomes a break out of
// the copy). Everything else is left as it is.

type unrollSite struct {
	rs    *ast.RangeStmt
	decl  ast.Stmt // the statement that declares the table (nil when the literal is ranged over directly)
	lit   *ast.CompositeLit
	vObj  types.Object
	elemT types.Type
}

func planUnroll(p *Prog, prev map[string][]byte, round int) (map[string][]byte, []inlineNote) {
	in := &inliner{p: p, overlay: prev, src: map[string][]byte{}, novel: map[*types.Func]*ast.FuncDecl{}, declPkg: map[*types.Func]*packages.Package{}, counter: round*1000 + 500, addImports: map[string]map[string]string{}}
	packages.Visit(p.Roots, nil, func(pk *packages.Package) {
		if pk.PkgPath == modPath || strings.HasPrefix(pk.PkgPath, modPath+"/") {
			in.pkgs = append(in.pkgs, pk)
		}
	})
	sort.Slice(in.pkgs, func(i, j int) bool { return in.pkgs[i].PkgPath < in.pkgs[j].PkgPath })
	fileEdits := map[string][]srcEdit{}
	var notes []inlineNote
	for _, pk := range in.pkgs {
		for _, file := range pk.Syntax {
			fname := in.file(file.Pos())
			if strings.HasSuffix(fname, "_test.go") {
				continue
			}
			var lastEnd token.Pos
			for _, s := range in.findTables(pk, file) {
				start := s.rs.Pos()
				if s.decl != nil {
					start = s.decl.Pos()
				}
				if start < lastEnd {
					continue
				}
				eds, ok := in.unroll(pk, file, s)
				if !ok {
					continue
				}
				trial := map[string][]byte{}
				for _, f2 := range pk.Syntax {
					n2 := in.file(f2.Pos())
					es := append([]srcEdit{}, fileEdits[n2]...)
					if n2 == fname {
						es = append(es, eds...)
					}
					if len(es) > 0 {
						trial[n2] = in.render(n2, f2, es, nil)
					}
				}
				if err := in.checkPkg(pk, trial); err != nil {
					p.InlineRejected = append(p.InlineRejected, fmt.Sprintf("table loop at %s: %v", p.Pos(s.rs.Pos()), err))
					continue
				}
				fileEdits[fname] = append(fileEdits[fname], eds...)
				lastEnd = s.rs.End()
				notes = append(notes, inlineNote{Helper: "table loop (unrolled)", Site: p.Pos(s.rs.Pos())})
			}
			if len(fileEdits[fname]) > 0 {
				continue // look-ups of this file in the next round (positions inside unrolled loops have moved)
			}
			for _, s := range in.findMapLookups(pk, file) {
				eds, ok := in.expandMapLookup(pk, file, s)
				if !ok {
					continue
				}
				trial := map[string][]byte{}
				for _, f2 := range pk.Syntax {
					n2 := in.file(f2.Pos())
					es := append([]srcEdit{}, fileEdits[n2]...)
					if n2 == fname {
						es = append(es, eds...)
					}
					if len(es) > 0 {
						trial[n2] = in.render(n2, f2, es, nil)
					}
				}
				if err := in.checkPkg(pk, trial); err != nil {
					p.InlineRejected = append(p.InlineRejected, fmt.Sprintf("table look-up at %s: %v", p.Pos(s.stmt.Pos()), err))
					continue
				}
				fileEdits[fname] = append(fileEdits[fname], eds...)
				notes = append(notes, inlineNote{Helper: "table look-up (as a switch)", Site: p.Pos(s.stmt.Pos())})
			}
		}
	}
	if len(fileEdits) == 0 {
		return nil, nil
	}
	out := map[string][]byte{}
	for k, v := range prev {
		out[k] = v
	}
	for f, es := range fileEdits {
		out[f] = in.render(f, in.fileAST(f), es, nil)
	}
	return out, notes
}

// findTables: range statements over a local table literal.
func (in *inliner) findTables(pk *packages.Package, file *ast.File) []unrollSite {
	var out []unrollSite
	info := pk.TypesInfo
	// statement lists, to find the declaration of the table variable
	ast.Inspect(file, func(n ast.Node) bool {
		var list []ast.Stmt
		switch b := n.(type) {
		case *ast.BlockStmt:
			list = b.List
		case *ast.CaseClause:
			list = b.Body
		case *ast.CommClause:
			list = b.Body
		default:
			return true
		}
		for i, st := range list {
			rs, ok := st.(*ast.RangeStmt)
			if !ok || rs.Tok != token.DEFINE || rs.Value == nil {
				continue
			}
			if k, isId := rs.Key.(*ast.Ident); rs.Key != nil && (!isId || k.Name != "_") {
				continue
			}
			v, isId := rs.Value.(*ast.Ident)
			if !isId || v.Name == "_" {
				continue
			}
			site := unrollSite{rs: rs, vObj: info.Defs[v]}
			switch x := rs.X.(type) {
			case *ast.CompositeLit:
				site.lit = x
			case *ast.Ident:
				tobj := info.Uses[x]
				if tobj == nil {
					continue
				}
				// a package-level table that nothing ever assigns, indexes or takes the address of (every use is the
				// operand of a range statement): its rows are the rows of the literal it is declared with
				if tobj.Parent() == pk.Types.Scope() {
					lit := in.pkgTableLit(pk, tobj)
					if lit == nil {
						continue
					}
					site.lit = lit
					break
				}
				// declared by the statement just before, used nowhere else
				if i == 0 {
					continue
				}
				var lit *ast.CompositeLit
				// the declaration: the statement just before, or further up with only plain variable declarations
				// (no initialiser that could observe or disturb anything) in between
				di := i - 1
				for di > 0 {
					ds, isDecl := list[di].(*ast.DeclStmt)
					if !isDecl {
						break
					}
					gd, isGen := ds.Decl.(*ast.GenDecl)
					plain := isGen && gd.Tok == token.VAR
					if plain {
						for _, sp := range gd.Specs {
							if vs, ok := sp.(*ast.ValueSpec); !ok || len(vs.Values) != 0 {
								plain = false
							} else {
								for _, nm := range vs.Names {
									if info.Defs[nm] == tobj {
										plain = false
									}
								}
							}
						}
					}
					if !plain {
						break
					}
					di--
				}
				switch d := list[di].(type) {
				case *ast.AssignStmt:
					if d.Tok == token.DEFINE && len(d.Lhs) == 1 && len(d.Rhs) == 1 {
						if id, ok := d.Lhs[0].(*ast.Ident); ok && info.Defs[id] == tobj {
							lit, _ = d.Rhs[0].(*ast.CompositeLit)
						}
					}
				case *ast.DeclStmt:
					if gd, ok := d.Decl.(*ast.GenDecl); ok && gd.Tok == token.VAR && len(gd.Specs) == 1 {
						if vs, ok := gd.Specs[0].(*ast.ValueSpec); ok && len(vs.Names) == 1 && len(vs.Values) == 1 && info.Defs[vs.Names[0]] == tobj {
							lit, _ = vs.Values[0].(*ast.CompositeLit)
						}
					}
				}
				if lit == nil {
					continue
				}
				uses := 0
				for _, o := range info.Uses {
					if o == tobj {
						uses++
					}
				}
				if uses != 1 {
					continue
				}
				site.lit, site.decl = lit, list[di]
			default:
				continue
			}
			t := info.TypeOf(site.lit)
			if t == nil {
				continue
			}
			switch u := t.Underlying().(type) {
			case *types.Slice:
				site.elemT = u.Elem()
			case *types.Array:
				site.elemT = u.Elem()
			default:
				continue
			}
			if len(site.lit.Elts) == 0 || len(site.lit.Elts) > 16 {
				continue
			}
			out = append(out, site)
		}
		return true
	})
	sort.Slice(out, func(i, j int) bool { return out[i].rs.Pos() < out[j].rs.Pos() })
	return out
}

// pkgTableLit: the composite literal a package-level variable is declared with, when every use of the variable in the
// package is the operand of a range statement (so that nothing can change or alias the table) and the variable is not
// exported (other packages cannot touch it either).
func (in *inliner) pkgTableLit(pk *packages.Package, tobj types.Object) *ast.CompositeLit {
	if tobj.Exported() {
		return nil
	}
	rangeOperands := map[*ast.Ident]bool{}
	var lit *ast.CompositeLit
	for _, f := range pk.Syntax {
		ast.Inspect(f, func(n ast.Node) bool {
			switch x := n.(type) {
			case *ast.RangeStmt:
				if id, ok := x.X.(*ast.Ident); ok {
					rangeOperands[id] = true
				}
			case *ast.ValueSpec:
				for i, nm := range x.Names {
					if pk.TypesInfo.Defs[nm] == tobj && i < len(x.Values) && len(x.Names) == len(x.Values) {
						lit, _ = x.Values[i].(*ast.CompositeLit)
					}
				}
			}
			return true
		})
	}
	if lit == nil {
		return nil
	}
	for id, o := range pk.TypesInfo.Uses {
		if o == tobj && !rangeOperands[id] {
			return nil
		}
	}
	return lit
}

// pureStable: constants, and field paths of variables not in modified.
func pureStable(info *types.Info, e ast.Expr, modified map[types.Object]bool) bool {
	switch x := e.(type) {
	case *ast.BasicLit:
		return true
	case *ast.Ident:
		o := info.Uses[x]
		switch o.(type) {
		case *types.Const, *types.Nil:
			return true
		case *types.Var:
			return !modified[o]
		}
		return false
	case *ast.SelectorExpr:
		if s := info.Selections[x]; s != nil {
			return s.Kind() == types.FieldVal && pureStable(info, x.X, modified)
		}
		// package-qualified constant or variable
		if _, isConst := info.Uses[x.Sel].(*types.Const); isConst {
			return true
		}
		return false
	case *ast.ParenExpr:
		return pureStable(info, x.X, modified)
	case *ast.UnaryExpr:
		return (x.Op == token.SUB || x.Op == token.ADD || x.Op == token.NOT) && pureStable(info, x.X, modified)
	case *ast.BinaryExpr:
		return pureStable(info, x.X, modified) && pureStable(info, x.Y, modified)
	}
	return false
}

func (in *inliner) unroll(pk *packages.Package, file *ast.File, s unrollSite) ([]srcEdit, bool) {
	info := pk.TypesInfo
	rs := s.rs
	in.curPos = rs.Pos()
	if hasFreeBreak(rs.Body) || s.vObj == nil {
		return nil, false
	}
	// labels defined inside the body are renamed per copy
	type labelRef struct{ start, end int }
	var labelRefs []labelRef
	labelDefs := map[string]bool{}
	ast.Inspect(rs.Body, func(n ast.Node) bool {
		if ls, ok := n.(*ast.LabeledStmt); ok {
			labelDefs[ls.Label.Name] = true
			labelRefs = append(labelRefs, labelRef{in.off(ls.Label.Pos()), in.off(ls.Label.End())})
		}
		return true
	})
	okLabels := true
	ast.Inspect(rs.Body, func(n ast.Node) bool {
		if br, ok := n.(*ast.BranchStmt); ok && br.Label != nil {
			if !labelDefs[br.Label.Name] {
				okLabels = false // jumps to a label outside the loop body
			}
			labelRefs = append(labelRefs, labelRef{in.off(br.Label.Pos()), in.off(br.Label.End())})
		}
		return true
	})
	if !okLabels {
		return nil, false
	}
	// what the body modifies
	modified := map[types.Object]bool{}
	rootOf := func(e ast.Expr) types.Object {
		for {
			switch x := e.(type) {
			case *ast.Ident:
				if o := info.Uses[x]; o != nil {
					return o
				}
				return info.Defs[x]
			case *ast.SelectorExpr:
				e = x.X
			case *ast.IndexExpr:
				e = x.X
			case *ast.StarExpr:
				e = x.X
			case *ast.ParenExpr:
				e = x.X
			default:
				return nil
			}
		}
	}
	ast.Inspect(rs.Body, func(n ast.Node) bool {
		switch x := n.(type) {
		case *ast.AssignStmt:
			for _, l := range x.Lhs {
				if o := rootOf(l); o != nil {
					modified[o] = true
				}
			}
		case *ast.IncDecStmt:
			if o := rootOf(x.X); o != nil {
				modified[o] = true
			}
		case *ast.UnaryExpr:
			if x.Op == token.AND {
				if o := rootOf(x.X); o != nil {
					modified[o] = true
				}
			}
		}
		return true
	})
	if modified[s.vObj] {
		return nil, false
	}
	st, isStruct := s.elemT.Underlying().(*types.Struct)
	arrT, isArr := s.elemT.Underlying().(*types.Array)
	// rows: field name → expression text (struct) or "" → text (scalar)
	type row map[string]string
	var rows []row
	prelude := ""
	for _, el := range s.lit.Elts {
		r := row{}
		if isStruct {
			cl, ok := el.(*ast.CompositeLit)
			if !ok {
				return nil, false
			}
			for i, fe := range cl.Elts {
				name := ""
				val := fe
				if kv, isKV := fe.(*ast.KeyValueExpr); isKV {
					id, isId := kv.Key.(*ast.Ident)
					if !isId {
						return nil, false
					}
					name, val = id.Name, kv.Value
				} else {
					if i >= st.NumFields() {
						return nil, false
					}
					name = st.Field(i).Name()
				}
				var ft types.Type
				for k := 0; k < st.NumFields(); k++ {
					if st.Field(k).Name() == name {
						ft = st.Field(k).Type()
					}
				}
				if ft == nil {
					return nil, false
				}
				ts, okT := in.typeString(ft, pk, file)
				if !okT {
					return nil, false
				}
				if !pureStable(info, val, modified) {
					// evaluated once, where the table was built: a temporary declared in front of the copies, in row order
					in.counter++
					tmp := fmt.Sprintf("uˑ%d", in.counter)
					prelude += fmt.Sprintf("var %s %s = %s; _ = %s; ", tmp, ts, in.text(val), tmp)
					r[name] = tmp
					continue
				}
				r[name] = ts + "(" + in.text(val) + ")"
			}
			// fields left out of a keyed literal are zero values: not handled
			if len(r) != st.NumFields() {
				return nil, false
			}
		} else if isArr {
			// rows that are small arrays ({`\\`, `\`}): entry k is r[k]
			cl, ok := el.(*ast.CompositeLit)
			if !ok || int64(len(cl.Elts)) != arrT.Len() {
				return nil, false
			}
			ts, okT := in.typeString(arrT.Elem(), pk, file)
			if !okT {
				return nil, false
			}
			for i, fe := range cl.Elts {
				if _, isKV := fe.(*ast.KeyValueExpr); isKV || !pureStable(info, fe, modified) {
					return nil, false
				}
				r[fmt.Sprintf("[%d]", i)] = ts + "(" + in.text(fe) + ")"
			}
		} else {
			if _, isCL := el.(*ast.CompositeLit); isCL || !pureStable(info, el, modified) {
				return nil, false
			}
			ts, okT := in.typeString(s.elemT, pk, file)
			if !okT {
				return nil, false
			}
			r[""] = ts + "(" + in.text(el) + ")"
		}
		rows = append(rows, r)
	}
	// uses of the range variable in the body
	type use struct {
		start, end int
		field      string
	}
	var uses []use
	okUses := true
	covered := map[*ast.Ident]bool{}
	ast.Inspect(rs.Body, func(n ast.Node) bool {
		if sel, ok := n.(*ast.SelectorExpr); ok && isStruct {
			if id, isId := sel.X.(*ast.Ident); isId && info.Uses[id] == s.vObj {
				uses = append(uses, use{in.off(sel.Pos()), in.off(sel.End()), sel.Sel.Name})
				covered[id] = true
			}
		}
		if ix, ok := n.(*ast.IndexExpr); ok && isArr {
			if id, isId := ix.X.(*ast.Ident); isId && info.Uses[id] == s.vObj {
				if tv, okV := info.Types[ix.Index]; okV && tv.Value != nil {
					if k, exact := constant.Int64Val(tv.Value); exact {
						uses = append(uses, use{in.off(ix.Pos()), in.off(ix.End()), fmt.Sprintf("[%d]", k)})
						covered[id] = true
					}
				}
			}
		}
		return true
	})
	ast.Inspect(rs.Body, func(n ast.Node) bool {
		if id, ok := n.(*ast.Ident); ok && info.Uses[id] == s.vObj && !covered[id] {
			if isStruct || isArr {
				okUses = false
			} else {
				uses = append(uses, use{in.off(id.Pos()), in.off(id.End()), ""})
			}
		}
		return true
	})
	if !okUses {
		return nil, false
	}
	// free continues
	var conts []*ast.BranchStmt
	var walk func(n ast.Node)
	walk = func(n ast.Node) {
		ast.Inspect(n, func(m ast.Node) bool {
			switch x := m.(type) {
			case *ast.FuncLit:
				return false
			case *ast.ForStmt, *ast.RangeStmt:
				return m == n
			case *ast.BranchStmt:
				if x.Tok == token.CONTINUE && x.Label == nil {
					conts = append(conts, x)
				}
			}
			return true
		})
	}
	walk(rs.Body)
	fname := in.file(rs.Pos())
	src := in.content(fname)
	bodyStart, bodyEnd := in.off(rs.Body.Lbrace)+1, in.off(rs.Body.Rbrace)
	var b strings.Builder
	b.WriteString("{ " + prelude)
	for k, r := range rows {
		in.counter++
		label := fmt.Sprintf("Uˑ%d", in.counter)
		var es []srcEdit
		for _, u := range uses {
			txt, ok := r[u.field]
			if !ok {
				return nil, false
			}
			es = append(es, srcEdit{u.start, u.end, txt})
		}
		for _, c := range conts {
			es = append(es, srcEdit{in.off(c.Pos()), in.off(c.End()), "break " + label})
		}
		for _, lr := range labelRefs {
			es = append(es, srcEdit{lr.end, lr.end, fmt.Sprintf("ˑu%d", k)})
		}
		body := applyEdits(src, bodyStart, es)
		last := bodyStart
		for _, e := range es {
			if e.end > last {
				last = e.end
			}
		}
		body += string(src[last:bodyEnd])
		if len(conts) > 0 {
			b.WriteString(label + ": switch { default: ")
		} else {
			b.WriteString("{ ")
		}
		b.WriteString(in.lineDirective(rs.Body.Lbrace))
		b.WriteString(body)
		b.WriteString("\n}; ")
		_ = k
	}
	b.WriteString("}")
	b.WriteString(in.lineDirective(rs.End()))
	eds := []srcEdit{{in.off(rs.Pos()), in.off(rs.End()), b.String()}}
	if s.decl != nil {
		old := src[in.off(s.decl.Pos()):in.off(s.decl.End())]
		eds = append(eds, srcEdit{in.off(s.decl.Pos()), in.off(s.decl.End()), strings.Repeat("\n", strings.Count(string(old), "\n"))})
	}
	return eds, true
}
