package main

import (
	"fmt"
	"go/token"
	"go/types"
	"strings"

	"golang.org/x/tools/go/ssa"
)

func init() {
	register(&PropDef{
		ID: "C14", Title: "datagram mode preserves message boundaries and stream isolation",
		Run:       runC14,
		Technique: "static analysis: paired-update check of the length queue and byte buffer (dominance + value identity), failure-atomicity (no state change on paths to error returns), guard extraction for the oversize refusal with affine comparison against the per-frame maximum, guarded-by for the client's per-address map",
		Decided: "(b) the length queue and the byte buffer of the datagram pipe change together under one lock: a write appends len(p) and p, a read pops pLens[0] and reads exactly that many bytes and returns that count; " +
			"(c) the short-buffer, EOF and timeout returns are reached without any change to the queue or the buffer, and the length test dominates the pop; (d) in unordered mode a datagram larger than the per-frame maximum is refused before anything is sent, and the refusal threshold is the same maximum the splitter uses; " +
			"(e) nothing splits in unordered mode; (f) the client's per-source-address stream map is only touched under its mutex with the same key expression everywhere; (g) a stream's pipe is written only by its own recvFrame and the stream table is indexed by the decoded stream id.",
		NotDecided:  "(a)/(g') delivery and exactly-once while healthy (run-time, network); UDP socket behaviour; bytes.Buffer returning short (contract assumed).",
		Assumptions: []string{"bytes.Buffer.Read(p) returns len(p) bytes when at least that many are buffered"},
	})
}

func runC14(c *Ctx) {
	c14R1(c, "C14.R1")
	c14R2(c, "C14.R2")
	c14R3(c, "C14.R3")
	c14R4(c, "C14.R4")
	c14R5(c, "C14.R5")
	c14R6(c, "C14.R6")
	c14R7(c, "C14.R7")
	c14R8(c, "C14.R8")
	c.importing = "C02"
	c02R6(c, "C02.R6")
	c.importing = ""
	// a datagram keeps its content only if the bytes forwarded are exactly what its own read delivered, from a buffer no
	// other goroutine reuses meanwhile (the UDP relay loop of RouteUDP is one of the relay sites of this rule)
	c.importing = "C01"
	c01R4(c, "C01.R4")
	// a datagram is one frame on both write paths: the window ReadFrom reads an upstream datagram into and the payload
	// Write accepts are the same per-frame maximum (a shorter window silently truncates datagrams the frame could carry),
	// placed where the encoder is told the payload is
	c.importing = "C04"
	c04R4(c, "C04.R4")
	c04R5(c, "C04.R5")
	c.importing = ""
}

type c14Anchors struct {
	read, write *ssa.Function
	pLens, buf  *types.Var
}

func getC14(c *Ctx, rule string) *c14Anchors {
	p := c.P
	a := &c14Anchors{read: p.Func("internal/multiplex", "datagramBufferedPipe.Read"), write: p.Func("internal/multiplex", "datagramBufferedPipe.Write"),
		pLens: p.Field("internal/multiplex", "datagramBufferedPipe", "pLens", "[]int"), buf: p.Field("internal/multiplex", "datagramBufferedPipe", "buf", "*bytes.Buffer")}
	if a.read == nil || a.write == nil || a.pLens == nil || a.buf == nil {
		c.Undecided(rule, "anchors datagramBufferedPipe.{Read,Write,pLens,buf}", "-", "anchor missing")
		return nil
	}
	return a
}

// bufCalls: method calls on the loaded d.buf
func (a *c14Anchors) bufCall(i ssa.Instruction, method string) *ssa.Call {
	call, ok := i.(*ssa.Call)
	if !ok || call.Call.IsInvoke() || call.Call.StaticCallee() == nil || len(call.Call.Args) == 0 {
		return nil
	}
	if call.Call.StaticCallee().Name() != method {
		return nil
	}
	if fv, _ := loadedField(call.Call.Args[0]); fv != a.buf {
		return nil
	}
	return call
}

func (a *c14Anchors) isPLensStore(i ssa.Instruction) *ssa.Store {
	st, ok := i.(*ssa.Store)
	if !ok {
		return nil
	}
	if fv, _ := fieldVar(st.Addr); fv != a.pLens {
		return nil
	}
	return st
}

func c14R1(c *Ctx, rule string) {
	c.Rule(rule, "pairing: Write appends len(f.Payload) to pLens and f.Payload to buf together; Read pops pLens[0] and reads exactly target[:pLens[0]] together, returning that count", 2)
	a := getC14(c, rule)
	if a == nil {
		return
	}
	// Write
	{
		var app *ssa.Store
		var bw *ssa.Call
		allInstrs(a.write, func(i ssa.Instruction) {
			if st := a.isPLensStore(i); st != nil {
				app = st
			}
			if call := a.bufCall(i, "Write"); call != nil {
				bw = call
			}
		})
		ok := app != nil && bw != nil
		why := "length append or buffer write missing"
		if ok {
			// appended value = len(X), written bytes = X, same X
			appCall, isApp := app.Val.(*ssa.Call)
			var lenArg ssa.Value
			if isApp && calleeName(&appCall.Call) == "builtin.append" {
				// varargs slice holding one element: find the stored element
				lenArg = singleVarargElement(appCall.Call.Args[1])
			}
			var lenOf ssa.Value
			if lc, isLen := stripConv(lenArg).(*ssa.Call); lenArg != nil && isLen && calleeName(&lc.Call) == "builtin.len" {
				lenOf = lc.Call.Args[0]
			}
			written := bw.Call.Args[1]
			same := lenOf != nil && sameValueOrLoad(lenOf, written)
			// both on every path together: each dominates/post-dominates the other within the function's success path
			together := (instrDominates(app, bw) && reachesReturnAvoiding(app, func(i ssa.Instruction) bool { return i == ssa.Instruction(bw) }) == nil) ||
				(instrDominates(bw, app) && reachesReturnAvoiding(bw, func(i ssa.Instruction) bool { return i == ssa.Instruction(app) }) == nil)
			ok = same && together
			why = fmt.Sprintf("recorded length is len(%s), bytes written are %s, paired on every path=%v", Expr(lenOf), Expr(written), together)
		}
		c.Check(ok, rule, "datagram Write records len(p) and appends p together", c.atFn(a.write), "pLens = append(pLens, len(f.Payload)); buf.Write(f.Payload)", "length queue and byte buffer drift on write: "+why)
	}
	// Read
	{
		var pop *ssa.Store
		var br *ssa.Call
		viaNext := false
		allInstrs(a.read, func(i ssa.Instruction) {
			if st := a.isPLensStore(i); st != nil {
				pop = st
			}
			if call := a.bufCall(i, "Read"); call != nil {
				br = call
			}
			// the same consumption spelled copy(target, buf.Next(n))
			if call := a.bufCall(i, "Next"); call != nil && br == nil && deliveredByCopy(call, a.read) {
				br, viaNext = call, true
			}
		})
		ok := pop != nil && br != nil
		why := "pop or buffer read missing"
		if ok {
			// pop value = pLens[1:]
			sl, isSl := pop.Val.(*ssa.Slice)
			popOK := isSl && sl.Low != nil && sl.High == nil
			if popOK {
				k, isK := intConst(sl.Low)
				fv, _ := loadedField(sl.X)
				popOK = isK && k == 1 && fv == a.pLens
			}
			// read slice = target[:dataLen], dataLen = pLens[0] loaded before the pop
			rs, isRs := br.Call.Args[1].(*ssa.Slice)
			dataLen := ssa.Value(nil)
			if isRs && rs.High != nil && rs.Low == nil {
				dataLen = rs.High
			}
			if viaNext {
				dataLen = br.Call.Args[1]
			}
			headOK := false
			if ld, isLd := stripConv(dataLen).(*ssa.UnOp); dataLen != nil && isLd && ld.Op == token.MUL {
				if ia, isIa := ld.X.(*ssa.IndexAddr); isIa {
					k, isK := intConst(ia.Index)
					fv, _ := loadedField(ia.X)
					headOK = isK && k == 0 && fv == a.pLens && instrDominates(ld, pop)
				}
			}
			// returned count = dataLen on the success return(s) after the read
			retOK := true
			for _, r := range returnsOf(a.read) {
				if instrDominates(br, r) {
					if stripConv(resultValue(r, 0)) != stripConv(dataLen) {
						retOK = false
					}
				}
			}
			together := (instrDominates(pop, br) && reachesReturnAvoiding(pop, func(i ssa.Instruction) bool { return i == ssa.Instruction(br) }) == nil) ||
				(instrDominates(br, pop) && reachesReturnAvoiding(br, func(i ssa.Instruction) bool { return i == ssa.Instruction(pop) }) == nil)
			ok = popOK && headOK && retOK && together
			why = fmt.Sprintf("pop is pLens[1:]=%v, read length is pLens[0] loaded before the pop=%v, returned count is that length=%v, paired on every path=%v", popOK, headOK, retOK, together)
		}
		c.Check(ok, rule, "datagram Read pops one length and reads exactly that many bytes", c.atFn(a.read), "dataLen := pLens[0]; pLens = pLens[1:]; buf.Read(target[:dataLen]); return dataLen", "boundaries drift on read: "+why)
	}
}

func singleVarargElement(v ssa.Value) ssa.Value {
	sl, ok := v.(*ssa.Slice)
	if !ok {
		return nil
	}
	al, ok := sl.X.(*ssa.Alloc)
	if !ok {
		return nil
	}
	var el ssa.Value
	for _, r := range *al.Referrers() {
		if ia, ok := r.(*ssa.IndexAddr); ok {
			for _, rr := range *ia.Referrers() {
				if st, ok := rr.(*ssa.Store); ok {
					el = st.Val
				}
			}
		}
	}
	return el
}

func c14R2(c *Ctx, rule string) {
	c.Rule(rule, "failure atomicity: every error/EOF/timeout return of the datagram pipe's Read is reached without a store to pLens or a mutating call on buf; the length test dominates the pop", 2)
	a := getC14(c, rule)
	if a == nil {
		return
	}
	mutates := func(i ssa.Instruction) bool {
		if a.isPLensStore(i) != nil {
			return true
		}
		for _, m := range []string{"Read", "Write", "Next", "Reset", "Truncate", "ReadByte", "WriteByte"} {
			if a.bufCall(i, m) != nil {
				return true
			}
		}
		return false
	}
	n := 0
	for _, r := range returnsOf(a.read) {
		if errIsNilAt(resultValue(r, 1), r) != "nonnil" {
			continue
		}
		n++
		ret := r
		// is there a path entry → (mutation) → this return?
		var hit ssa.Instruction
		allInstrs(a.read, func(i ssa.Instruction) {
			if hit == nil && mutates(i) && forwardSearch(i, nil, func(x ssa.Instruction) bool { return x == ssa.Instruction(ret) }) != nil {
				hit = i
			}
		})
		c.Check(hit == nil, rule, "error return at "+strings.TrimPrefix(c.at(r), "internal/multiplex/")+" leaves queue and buffer untouched", c.at(r), "no pop / buffer read on any path to this return ("+Expr(resultValue(r, 1))+")",
			"the pipe is modified at "+c.P.InstrPos(hit)+" on a path to this error return: the datagram is consumed or truncated although the read reports failure")
	}
	if n == 0 {
		c.Undecided(rule, "error returns of datagramBufferedPipe.Read", c.atFn(a.read), "none found")
	}
	// short-buffer test dominates the pop
	var pop *ssa.Store
	allInstrs(a.read, func(i ssa.Instruction) {
		if st := a.isPLensStore(i); st != nil {
			pop = st
		}
	})
	if pop != nil {
		guard := false
		for _, at := range AtomsAt(pop) {
			// dataLen <= len(target)
			if at.Kind == "cmp" && at.Op == token.LEQ {
				if lc, ok := stripConv(at.Y).(*ssa.Call); ok && calleeName(&lc.Call) == "builtin.len" {
					if _, isParam := lc.Call.Args[0].(*ssa.Parameter); isParam {
						guard = true
					}
				}
			}
		}
		c.Check(guard, rule, "length test dominates the pop", c.at(pop), "pop only when dataLen <= len(target)", "the head length is popped before (or without) checking that the caller's buffer can hold the datagram")
	}
}

func c14R3(c *Ctx, rule string) {
	c.Rule(rule, "oversize refused, never split: in Stream.Write the splitting slice is only reachable when Unordered is false; under Unordered an over-length write returns io.ErrShortBuffer before any send; the threshold is maxStreamUnitWrite", 3)
	p := c.P
	wr := c.need(rule, "internal/multiplex", "Stream.Write")
	if wr == nil {
		return
	}
	unordered := p.Field("internal/multiplex", "SessionConfig", "Unordered")
	maxF := p.Field("internal/multiplex", "Session", "maxStreamUnitWrite")
	if unordered == nil || maxF == nil {
		c.Undecided(rule, "anchor SessionConfig.Unordered / Session.maxStreamUnitWrite", "-", "not found")
		return
	}
	// the fits-in-one-frame test: len(in)-n <= maxStreamUnitWrite
	var fitIf *ssa.If
	allInstrs(wr, func(i ssa.Instruction) {
		if iff, ok := i.(*ssa.If); ok {
			at := NormCond(iff.Cond, true)
			if at.Kind == "cmp" && (at.Op == token.LEQ || at.Op == token.LSS) {
				if fv, _ := loadedField(at.Y); fv == maxF {
					fitIf = iff
				}
				if fv, _ := loadedField(at.X); fv == maxF {
					fitIf = iff
				}
			}
		}
	})
	c.Check(fitIf != nil, rule, "fits-in-one-frame test uses the per-frame maximum", c.atFn(wr), "len(in)-n <= session.maxStreamUnitWrite", "Stream.Write does not compare the remaining length with maxStreamUnitWrite (the encoder's limit minus header and padding): oversize datagrams are not recognised")
	// every send must be guarded by: fits (≤ max) OR ¬Unordered. Equivalently: no path from entry to a send that takes
	// the "does not fit" edge and the "Unordered is true" edge.
	var sends []ssa.Instruction
	allInstrs(wr, func(i ssa.Instruction) {
		if call, ok := i.(*ssa.Call); ok {
			if g := call.Call.StaticCallee(); isFn(g, "internal/multiplex", "Stream.obfuscateAndSend") {
				sends = append(sends, i)
			}
		}
	})
	if fitIf != nil {
		// "fits" is the polarity of the test under which the per-frame maximum is the upper side
		fitAtom := NormCond(fitIf.Cond, true)
		if fv, _ := loadedField(fitAtom.Y); fv != maxF {
			fitAtom = NormCond(fitIf.Cond, false)
		}
		// cut: the edge where the data fits; the edge where Unordered is false. What remains: oversize ∧ unordered.
		cut := func(at Atom) bool {
			if at.Kind == "cmp" && at.Op == fitAtom.Op && at.X == fitAtom.X && at.Y == fitAtom.Y {
				return true
			}
			if at.Kind == "bool" && !at.Pol {
				if fv, _ := loadedField(at.X); fv == unordered {
					return true
				}
			}
			return false
		}
		// start right after the fits test (so that the search is about *this* iteration's frame)
		hit := edgeSearch(wr, fitIf, cut, nil, func(i ssa.Instruction) bool {
			for _, s := range sends {
				if s == i {
					return true
				}
			}
			return false
		})
		c.Check(hit == nil && len(sends) > 0, rule, "an over-length unordered write never reaches a send", c.atFn(wr), "on the path oversize ∧ Unordered no frame is sent (io.ErrShortBuffer is returned first)",
			"an unordered datagram larger than one frame can reach obfuscateAndSend: it is split into several frames, i.e. several datagrams for the peer")
		// the refusal returns ErrShortBuffer with n == 0 on the first iteration
		refusal := false
		for _, r := range returnsOf(wr) {
			under := false
			for _, at := range AtomsAt(r) {
				if at.Kind == "bool" && at.Pol {
					if fv, _ := loadedField(at.X); fv == unordered {
						under = true
					}
				}
			}
			if under && strings.Contains(Expr(resultValue(r, 1)), "ErrShortBuffer") {
				refusal = true
			}
		}
		// the same through a merge: io.ErrShortBuffer is loaded under the Unordered guard and flows (φ only) into the
		// error result of a return
		allInstrs(wr, func(i ssa.Instruction) {
			ld, ok := i.(*ssa.UnOp)
			if !ok || ld.Op != token.MUL {
				return
			}
			g, isG := ld.X.(*ssa.Global)
			if !isG || g.Name() != "ErrShortBuffer" || g.Pkg == nil || g.Pkg.Pkg.Path() != "io" {
				return
			}
			under := false
			for _, at := range AtomsAt(ld) {
				if at.Kind == "bool" && at.Pol {
					if fv, _ := loadedField(at.X); fv == unordered {
						under = true
					}
				}
			}
			if !under {
				return
			}
			seen := map[ssa.Value]bool{}
			work := []ssa.Value{ld}
			for len(work) > 0 {
				v := work[0]
				work = work[1:]
				if seen[v] || v.Referrers() == nil {
					continue
				}
				seen[v] = true
				for _, r := range *v.Referrers() {
					switch x := r.(type) {
					case *ssa.Phi:
						work = append(work, x)
					case *ssa.Return:
						if len(x.Results) == 2 && x.Results[1] == v {
							refusal = true
						}
					}
				}
			}
		})
		c.Check(refusal, rule, "refusal reports io.ErrShortBuffer", c.atFn(wr), "return …, io.ErrShortBuffer under Unordered", "the oversize unordered write is not reported as an error")
	}
	checkMaxUnit(c, rule)
}

// checkMaxUnit: every store to Session.maxStreamUnitWrite is (MsgOnWireSizeLimit − frameHeaderLength − maxExtraLen),
// compared as an affine form so that regrouping does not matter.
func checkMaxUnit(c *Ctx, rule string) {
	p := c.P
	maxF := p.Field("internal/multiplex", "Session", "maxStreamUnitWrite")
	if maxF == nil {
		c.Undecided(rule, "anchor Session.maxStreamUnitWrite", "-", "not found")
		return
	}
	hdr, _ := p.Const("internal/multiplex", "frameHeaderLength")
	ext, _ := p.Const("internal/multiplex", "maxExtraLen")
	n := 0
	for _, st := range FieldStores(p, maxF) {
		if strings.HasSuffix(p.Pos(st.Pos()), "_test.go") || strings.HasSuffix(p.Pos(st.Pos()), "_fuzz.go") {
			continue
		}
		n++
		b := &Bounds{}
		up, ok1 := b.Upper(st.Val)
		lo, ok2 := b.Lower(st.Val)
		ok := ok1 && ok2 && up.C == -(hdr+ext) && lo.C == up.C && len(up.Terms) == 1 && len(lo.Terms) == 1
		if ok {
			for sym, k := range up.Terms {
				fv, _ := loadedField(sym)
				if k != 1 || fv == nil || fv.Name() != "MsgOnWireSizeLimit" || lo.Terms[sym] != 1 {
					ok = false
				}
			}
		}
		if !ok {
			// symbolic form: value = S − (header + max extra) where S is the on-wire limit — loaded from the field, or the
			// very value this function stores into the field
			a := symAff(st.Val, 0)
			if a.C == -(hdr+ext) && len(a.Terms) == 1 {
				for sym, k := range a.Terms {
					if k != 1 {
						continue
					}
					if fv, _ := loadedField(sym); fv != nil && isField(fv, "internal/multiplex", "SessionConfig", "MsgOnWireSizeLimit") {
						ok = true
					}
					allInstrs(st.Parent(), func(i ssa.Instruction) {
						if s2, isSt := i.(*ssa.Store); isSt && stripConv(s2.Val) == stripConv(sym) {
							if fv, _ := fieldVar(s2.Addr); fv != nil && isField(fv, "internal/multiplex", "SessionConfig", "MsgOnWireSizeLimit") {
								ok = true
							}
						}
					})
				}
			}
		}
		c.Check(ok, rule, "per-frame maximum = on-wire limit − header − max extra in "+shortFn(st.Parent()), c.at(st), up.String(),
			"maxStreamUnitWrite is "+Expr(st.Val)+", not MsgOnWireSizeLimit − "+fmt.Sprint(hdr+ext)+": a maximal frame plus padding and tag can exceed the configured on-wire limit (or the oversize-refusal window shifts)")
	}
	if n == 0 {
		c.Undecided(rule, "stores to Session.maxStreamUnitWrite", "-", "none found")
	}
}

func c14R4(c *Ctx, rule string) {
	c.Rule(rule, "closing rules of the datagram pipe: a closing frame sets closed, broadcasts and reports toBeClosed without queueing data", 1)
	a := getC14(c, rule)
	if a == nil {
		return
	}
	p := c.P
	closedF := p.Field("internal/multiplex", "datagramBufferedPipe", "closed")
	closingF := p.Field("internal/multiplex", "Frame", "Closing")
	ok := false
	for _, r := range returnsOf(a.write) {
		b, isB := boolConst(resultValue(r, 0))
		if !isB || !b || errIsNilAt(resultValue(r, 1), r) == "nonnil" {
			continue
		}
		// guarded by f.Closing != 0, dominated by store closed=true
		flag := false
		for _, at := range AtomsAt(r) {
			if at.Kind == "cmp" && at.Op == token.NEQ {
				for _, s := range []ssa.Value{at.X, at.Y} {
					if fv, _ := loadedField(s); fv == closingF {
						flag = true
					}
				}
			}
		}
		set := false
		allInstrs(a.write, func(i ssa.Instruction) {
			if st, isSt := i.(*ssa.Store); isSt && instrDominates(i, r) {
				if fv, _ := fieldVar(st.Addr); fv == closedF {
					set = true
				}
			}
		})
		if flag && set {
			ok = true
		}
	}
	c.Check(ok, rule, "closing frame closes the datagram pipe", c.atFn(a.write), "Closing != closingNothing ⇒ closed = true; return true", "a closing frame is not turned into a close of the pipe")
}

func c14R5(c *Ctx, rule string) {
	c.Rule(rule, "client map: RouteUDP's per-address stream map is only accessed under streamsMutex, keyed by addr.String() at every site", 3)
	p := c.P
	ru := c.need(rule, "internal/client", "RouteUDP")
	if ru == nil {
		return
	}
	// stream isolation on the way back: what a per-stream goroutine captures is fixed when it starts. A captured
	// variable that the listener loop assigns again afterwards (one `addr` declared outside the loop) makes every
	// stream's replies go to whoever sent last.
	allInstrs(ru, func(i ssa.Instruction) {
		g, ok := i.(*ssa.Go)
		if !ok {
			return
		}
		mc, ok := g.Call.Value.(*ssa.MakeClosure)
		if !ok {
			return
		}
		for k, b := range mc.Bindings {
			al, isAl := b.(*ssa.Alloc)
			if !isAl {
				continue
			}
			cell := al
			hit := forwardSearch(i, func(j ssa.Instruction) bool { return j == ssa.Instruction(cell) }, func(j ssa.Instruction) bool {
				st, isSt := j.(*ssa.Store)
				return isSt && st.Addr == ssa.Value(cell)
			})
			name := al.Comment
			if fn, isFn := mc.Fn.(*ssa.Function); isFn && k < len(fn.FreeVars) {
				name = fn.FreeVars[k].Name()
			}
			if t := typeStr(al.Type().(*types.Pointer).Elem()); t == "sync.Mutex" || strings.HasPrefix(t, "map[") {
				continue // the shared table and its lock are meant to be shared
			}
			where := ""
			if hit != nil {
				where = p.InstrPos(hit)
			}
			c.Check(hit == nil, rule, "variable "+name+" captured by the per-stream goroutine is not reassigned after it starts", c.at(i), "per-iteration variable (or never written again)",
				"the listener loop writes "+name+" again (at "+where+") while the goroutine started here still reads it: a stream's replies are addressed with another client's value")
		}
	})
	ls := p.Locksets()
	// find the map alloc and the mutex alloc (locals captured by the reader goroutine)
	var mapAlloc, muAlloc *ssa.Alloc
	allInstrs(ru, func(i ssa.Instruction) {
		if al, ok := i.(*ssa.Alloc); ok {
			t := typeStr(al.Type().(*types.Pointer).Elem())
			if strings.HasPrefix(t, "map[string]*") && strings.HasSuffix(t, "multiplex.Stream") {
				mapAlloc = al
			}
			if t == "sync.Mutex" {
				muAlloc = al
			}
		}
	})
	if mapAlloc == nil || muAlloc == nil {
		c.Undecided(rule, "anchor RouteUDP streams map / mutex", c.atFn(ru), "locals not found (map[string]*Stream and sync.Mutex captured by the reader goroutine)")
		return
	}
	funcs := append([]*ssa.Function{ru}, ru.AnonFuncs...)
	n := 0
	for _, f := range funcs {
		// the map as seen in f: loads of mapAlloc (in ru) or of the free variable bound to it
		var roots []ssa.Value
		if f == ru {
			roots = append(roots, mapAlloc)
		} else {
			for _, fvv := range f.FreeVars {
				if fvv.Name() == mapAlloc.Comment {
					roots = append(roots, fvv)
				}
			}
		}
		for _, root := range roots {
			for _, r := range *root.Referrers() {
				ld, ok := r.(*ssa.UnOp)
				if !ok || ld.Op != token.MUL {
					continue
				}
				for _, use := range *ld.Referrers() {
					var key ssa.Value
					kind := ""
					switch x := use.(type) {
					case *ssa.Lookup:
						key, kind = x.Index, "lookup"
					case *ssa.MapUpdate:
						key, kind = x.Key, "insert"
					case *ssa.Call:
						if calleeName(&x.Call) == "builtin.delete" {
							key, kind = x.Call.Args[1], "delete"
						}
					}
					if kind == "" {
						continue
					}
					n++
					held := ls.MustHeld(use)
					okLock := false
					for _, e := range held {
						if len(e.Path.Chain) == 0 {
							if e.Path.Root == ssa.Value(muAlloc) {
								okLock = true
							}
							if fvv, isFV := e.Path.Root.(*ssa.FreeVar); isFV && fvv.Name() == muAlloc.Comment {
								okLock = true
							}
						}
					}
					okKey := strings.Contains(Expr(key), "String(")
					if !okKey {
						// the key may travel through a variable, a captured variable or a small closure's parameter
						okKey = allSourcesSatisfy(p, key, func(v ssa.Value) bool {
							call, isC := v.(*ssa.Call)
							return isC && strings.HasSuffix(calleeName(&call.Call), ".String") && strings.Contains(calleeName(&call.Call), "net.")
						}, 0, map[ssa.Value]bool{})
					}
					c.Check(okLock && okKey, rule, fmt.Sprintf("%s on the address map in %s (%s)", kind, shortFn(f), strings.TrimPrefix(c.at(use), "internal/client/")), c.at(use), "under streamsMutex, key addr.String()",
						fmt.Sprintf("mutex held=%v, key is addr.String()=%v (%s)", okLock, okKey, Expr(key)))
				}
			}
		}
	}
	if n == 0 {
		c.Undecided(rule, "accesses of RouteUDP's stream map", c.atFn(ru), "none found")
	}
}

func c14R6(c *Ctx, rule string) {
	c.Rule(rule, "isolation: Session.streams is indexed by the decoded frame.StreamID at lookup and insert; recvBuf.Write is only called by the stream's own recvFrame", 2)
	a := getMuxAnchors(c, rule)
	if a == nil {
		return
	}
	p := c.P
	streamsF := p.Field("internal/multiplex", "Session", "streams")
	rd := c.need(rule, "internal/multiplex", "Session.recvDataFromRemote")
	if rd == nil || streamsF == nil {
		return
	}
	okIdx := true
	n := 0
	allInstrs(rd, func(i ssa.Instruction) {
		var key ssa.Value
		switch x := i.(type) {
		case *ssa.Lookup:
			if fv, _ := loadedField(x.X); fv == streamsF {
				key = x.Index
			}
		case *ssa.MapUpdate:
			if fv, _ := loadedField(x.Map); fv == streamsF {
				key = x.Key
			}
		}
		if key == nil {
			return
		}
		n++
		if fv, _ := loadedField(key); fv != a.streamID {
			okIdx = false
		}
	})
	c.Check(okIdx && n >= 2, rule, "stream table indexed by the decoded stream id", c.atFn(rd), "streams[frame.StreamID] at lookup and insert", "frames are demultiplexed by something other than their decoded stream id")
	// callers of recvBuffer.Write
	var who []string
	for _, f := range p.FuncsOfPkg("internal/multiplex") {
		if strings.HasSuffix(p.Pos(f.Pos()), "_test.go") {
			continue
		}
		allInstrs(f, func(i ssa.Instruction) {
			if call, ok := i.(*ssa.Call); ok && call.Call.IsInvoke() && call.Call.Method.Name() == "Write" && strings.HasSuffix(typeStr(call.Call.Value.Type()), "recvBuffer") {
				who = append(who, shortFn(f))
			}
		})
	}
	c.Check(len(who) == 1 && strings.HasSuffix(who[0], "Stream).recvFrame"), rule, "a stream's pipe is written only by its own recvFrame", c.atFn(rd), strings.Join(who, ", "), "recvBuf.Write is called from "+strings.Join(who, ", ")+": another stream's data can be appended")
}
