package main

// runVariants is filled in by variants_impl.go (thorough tier self-validation).
func runVariants(id, repo, verif string, baseClean bool) map[string]interface{} {
	return variantsImpl(id, repo, verif, baseClean)
}
