package main

import (
	"fmt"
	"go/token"

	"golang.org/x/tools/go/ssa"
)

// connReadLineAffine: the line reader's contract in symbolic affine form, independent of how the loop is spelled
// (`for i := 0; i < len(buf); i++`, `for i := range buf`, a while-loop with a separate counter):
//   - the single-byte read fills buf[I : I+1];
//   - I is an induction value: I = φ + c with φ = φ(k0, φ+1) and k0 + c = 0 (starts at 0, advances by one per iteration);
//   - a return with a nil error reports I+1 (the byte just read is consumed);
//   - a return with a non-nil error reports I when it is taken because this read failed, and otherwise (the loop ran
//     out of buffer) I itself or len(X) under the negated loop test len(X) <= I.
func connReadLineAffine(f *ssa.Function, rd *ssa.Call) (bool, string) {
	sl, ok := rd.Call.Args[1].(*ssa.Slice)
	if !ok || sl.Low == nil || sl.High == nil {
		return false, "the read does not fill a two-sided slice"
	}
	lowA, highA := symAff(sl.Low, 0), symAff(sl.High, 0)
	if d := highA.add(lowA, -1); !d.isConst() || d.C != 1 {
		return false, "the read does not fill exactly one byte: " + Expr(sl)
	}
	// induction
	ind := false
	for s, k := range lowA.Terms {
		ph, isPhi := s.(*ssa.Phi)
		if !isPhi || k != 1 || len(lowA.Terms) != 1 {
			continue
		}
		start, step := false, false
		for _, e := range ph.Edges {
			if k0, isK := intConst(e); isK {
				if k0+lowA.C == 0 {
					start = true
				}
				continue
			}
			if d := symAff(e, 0).add(affSym(ph), -1); d.isConst() && d.C == 1 {
				step = true
			}
		}
		ind = start && step && len(ph.Edges) == 2
	}
	if !ind {
		return false, "the offset of the read is not an induction value that starts at 0 and advances by 1"
	}
	errV := extractOf(rd, 1)
	for _, rp := range retPointsOfFunc(f) {
		if len(rp.Vals) < 2 {
			return false, "unexpected result arity"
		}
		rA := symAff(rp.Vals[0], 0)
		if errIsNilAt(rp.Vals[1], rp.At) != "nonnil" {
			if d := rA.add(lowA, -1); !d.isConst() || d.C != 1 {
				return false, fmt.Sprintf("a success return reports %s, not offset+1", Expr(rp.Vals[0]))
			}
			continue
		}
		// failing read: guarded by err != nil of this read
		failing := false
		for _, a := range rp.Atoms {
			if a.Kind == "cmp" && a.Op == token.NEQ && errV != nil && (a.X == errV || a.Y == errV) && (isNilConst(a.X) || isNilConst(a.Y)) {
				failing = true
			}
		}
		if affSame(rA, lowA) {
			continue
		}
		if failing {
			return false, fmt.Sprintf("the return after a failed read reports %s, not the offset", Expr(rp.Vals[0]))
		}
		// ran out of buffer: len(X) under len(X) <= I
		okExit := false
		for _, a := range rp.Atoms {
			if a.Kind == "cmp" && a.Op == token.LEQ && affSame(symAff(a.X, 0), rA) && affSame(symAff(a.Y, 0), lowA) {
				if lc, isC := stripConv(a.X).(*ssa.Call); isC && calleeName(&lc.Call) == "builtin.len" {
					okExit = true
				}
			}
		}
		if !okExit {
			return false, fmt.Sprintf("the return when the buffer is full reports %s, which is not the number of bytes read", Expr(rp.Vals[0]))
		}
	}
	return true, "read fills buf[I:I+1], I = 0,1,2,…; returns I+1 on success, I (or len(buf) at exhaustion) on error"
}

func retPointsOfFunc(f *ssa.Function) []retPoint {
	var out []retPoint
	for _, r := range returnsOf(f) {
		out = append(out, retPointsOf(r)...)
	}
	return out
}
