package main

import (
	"strings"

	"golang.org/x/tools/go/ssa"
)

// C14.R8 — the two write paths carry the same datagrams. Stream.Write accepts a message of up to maxStreamUnitWrite
// bytes as one frame; Stream.ReadFrom (the path the server relays an upstream's datagrams through) reads each datagram
// into a window of the pooled buffer. A datagram socket silently drops what does not fit the slice it is given, so
// the window must be exactly the per-frame maximum: a shorter one truncates datagrams that a frame could carry and
// that Write would have accepted whole (a longer one is C04.R4's subject).
func c14R8(c *Ctx, rule string) {
	c.Rule(rule, "ReadFrom's read window is exactly maxStreamUnitWrite bytes long (len = high − low as an affine form with that one symbol)", 1)
	p := c.P
	rf := c.need(rule, "internal/multiplex", "Stream.ReadFrom")
	maxF := p.Field("internal/multiplex", "Session", "maxStreamUnitWrite")
	if rf == nil || maxF == nil {
		c.Undecided(rule, "anchors Stream.ReadFrom / Session.maxStreamUnitWrite", "-", "not found")
		return
	}
	n := 0
	p.unitInstrs(rf, func(i ssa.Instruction) {
		call, ok := i.(*ssa.Call)
		if !ok || !call.Call.IsInvoke() || call.Call.Method.Name() != "Read" || !strings.HasSuffix(typeStr(call.Call.Value.Type()), "io.Reader") || len(call.Call.Args) != 1 {
			return
		}
		n++
		construct := "window handed to the reader in " + shortFn(p.ownerAnchor(call.Parent()))
		sl, isSl := stripConv(call.Call.Args[0]).(*ssa.Slice)
		if !isSl {
			c.Undecided(rule, construct, c.at(call), "the read buffer is not a slice expression: "+Expr(call.Call.Args[0]))
			return
		}
		la, okL := sliceLenAff(sl)
		exact := false
		if okL && la.C == 0 && len(la.Terms) == 1 {
			for s, k := range la.Terms {
				if fv, _ := loadedField(stripConv(s)); fv == maxF && k == 1 {
					exact = true
				}
			}
		}
		form := "?"
		if okL {
			form = la.String()
		}
		c.Check(exact, rule, construct, c.at(call), "len(window) = maxStreamUnitWrite", "the window is "+form+" bytes long, not maxStreamUnitWrite: an upstream datagram longer than the window is cut to it without an error, although a frame carries (and Stream.Write accepts) up to maxStreamUnitWrite bytes")
	})
	if n == 0 {
		c.Undecided(rule, "read of the upstream in Stream.ReadFrom", c.atFn(rf), "no io.Reader.Read call found")
	}
}
