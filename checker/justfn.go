package main

import (
	"strings"

	"golang.org/x/tools/go/ssa"
)

// justFnIs: does the function named in a justification table ("(*multiplex.switchboard).closeAll$1", "common.backoff")
// denote f? By name, or — when the function was renamed — by the anchor resolution every rule uses (p.Func: same
// receiver and frozen signature).
func justFnIs(p *Prog, tableFn string, f *ssa.Function) bool {
	if tableFn == shortFn(f) {
		return true
	}
	s := tableFn
	recv := ""
	if strings.HasPrefix(s, "(") {
		i := strings.Index(s, ").")
		if i < 0 {
			return false
		}
		recv = strings.TrimPrefix(s[1:i], "*")
		s = s[i+2:]
	}
	pkg, name := "", s
	if recv != "" {
		j := strings.IndexByte(recv, '.')
		if j < 0 {
			return false
		}
		pkg, name = recv[:j], recv[j+1:]+"."+s
	} else {
		j := strings.IndexByte(s, '.')
		if j < 0 {
			return false
		}
		pkg, name = s[:j], s[j+1:]
	}
	for rel := range p.pkgByRel {
		if rel == pkg || strings.HasSuffix(rel, "/"+pkg) {
			if g := p.Func(rel, name); g != nil && g == f {
				return true
			}
		}
	}
	return false
}
