package main

import (
	"go/types"
	"sort"
	"strings"

	"golang.org/x/tools/go/ssa"
)

// C12.R10 — a table that is written is never dropped: a struct field of map type that some function inserts into
// (`m[k] = v`) is never assigned nil. Teardown code that "releases" such a table by `s.m = nil` turns every later insert
// — a stream close that won its own flag before the session teardown walked the table and writes its tombstone
// afterwards — into "assignment to entry in nil map", a panic on a goroutine nobody recovers: the process dies instead
// of the session being torn down.
func c12R10(c *Ctx, rule string) {
	c.Rule(rule, "tables stay allocated: no map-typed field of the multiplexer that is inserted into anywhere is ever assigned nil (a late insert would panic)", 1)
	p := c.P
	inserted := map[*types.Var][]ssa.Instruction{}
	nilled := map[*types.Var][]ssa.Instruction{}
	for _, f := range p.FuncsOfPkg("internal/multiplex") {
		if strings.HasSuffix(p.Pos(f.Pos()), "_test.go") {
			continue
		}
		allInstrs(f, func(i ssa.Instruction) {
			switch x := i.(type) {
			case *ssa.MapUpdate:
				if fv, _ := loadedField(x.Map); fv != nil {
					inserted[fv] = append(inserted[fv], i)
				}
			case *ssa.Store:
				fv, _ := fieldVar(x.Addr)
				if fv == nil {
					return
				}
				if _, isMap := fv.Type().Underlying().(*types.Map); isMap && isNilConst(x.Val) {
					nilled[fv] = append(nilled[fv], i)
				}
			}
		})
	}
	var fields []*types.Var
	for fv := range inserted {
		fields = append(fields, fv)
	}
	sort.Slice(fields, func(i, j int) bool { return fields[i].Name() < fields[j].Name() })
	for _, fv := range fields {
		construct := "map field " + fv.Name() + " (inserted into at " + c.at(inserted[fv][0]) + ")"
		if bad := nilled[fv]; len(bad) > 0 {
			c.Bad(rule, construct, c.at(bad[0]), "the table is assigned nil in "+shortFn(bad[0].Parent())+" while "+shortFn(inserted[fv][0].Parent())+" still inserts into it: an insert that runs after this assignment panics (assignment to entry in nil map) on a goroutine without recover")
			continue
		}
		c.OK(rule, construct, c.at(inserted[fv][0]), "never assigned nil")
	}
}
