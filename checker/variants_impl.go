package main

import (
	"encoding/json"
	"fmt"
	"io"
	"os"
	"os/exec"
	"path/filepath"
	"sort"
	"strings"
	"sync"
)

// Self-validation of the checker (thorough tier): break variants must be reported, keep variants must stay silent.
// Variants are applied to a scratch copy outside /repo and /verif, analysed in a separate process each, and the copy
// is removed at once. Results never turn into VIOLATION lines: they speak about the checker, not about /repo.

type variant struct {
	kind string // break | keep | seeded
	name string
	path string
}

func listVariants(id, verif string) []variant {
	var out []variant
	for _, kind := range []string{"break", "keep"} {
		ms, _ := filepath.Glob(filepath.Join(verif, "variants", id, kind, "*.patch"))
		sort.Strings(ms)
		for _, m := range ms {
			out = append(out, variant{kind, strings.TrimSuffix(filepath.Base(m), ".patch"), m})
		}
	}
	ms, _ := filepath.Glob(filepath.Join(verif, "seeded", id+"-*", "patch.diff"))
	sort.Strings(ms)
	for _, m := range ms {
		out = append(out, variant{"seeded", filepath.Base(filepath.Dir(m)), m})
	}
	// behaviour-preserving refactors written by independent sub-agents (must stay silent, like keep variants)
	ms, _ = filepath.Glob(filepath.Join(verif, "refactors", id+"-*", "patch.diff"))
	sort.Strings(ms)
	for _, m := range ms {
		out = append(out, variant{"refactor", filepath.Base(filepath.Dir(m)), m})
	}
	// CLOAKCHECK_VARIANT_KINDS=seeded,break restricts the corpus (maintenance runs)
	if kinds := os.Getenv("CLOAKCHECK_VARIANT_KINDS"); kinds != "" {
		var filtered []variant
		for _, v := range out {
			if strings.Contains(","+kinds+",", ","+v.kind+",") {
				filtered = append(filtered, v)
			}
		}
		out = filtered
	}
	return out
}

func copyTree(src, dst string) error {
	return filepath.Walk(src, func(path string, info os.FileInfo, err error) error {
		if err != nil {
			return err
		}
		rel, _ := filepath.Rel(src, path)
		if rel == ".git" || strings.HasPrefix(rel, ".git"+string(filepath.Separator)) {
			if info.IsDir() {
				return filepath.SkipDir
			}
			return nil
		}
		target := filepath.Join(dst, rel)
		if info.IsDir() {
			return os.MkdirAll(target, 0o755)
		}
		if !info.Mode().IsRegular() {
			return nil
		}
		in, err := os.Open(path)
		if err != nil {
			return err
		}
		defer in.Close()
		out, err := os.Create(target)
		if err != nil {
			return err
		}
		defer out.Close()
		_, err = io.Copy(out, in)
		return err
	})
}

type variantResult struct {
	v       variant
	status  string // detected | silent | missed | alarmed | skipped | invalid
	newKeys []string
	note    string
}

func runOneVariant(v variant, id, repo, verif string, known map[string]Finding) variantResult {
	res := variantResult{v: v}
	dir, err := os.MkdirTemp("", "cloakvariant-")
	if err != nil {
		res.status, res.note = "skipped", err.Error()
		return res
	}
	defer os.RemoveAll(dir)
	scratch := filepath.Join(dir, "tree")
	if err := copyTree(repo, scratch); err != nil {
		res.status, res.note = "skipped", err.Error()
		return res
	}
	ap := exec.Command("patch", "-p1", "-s", "--no-backup-if-mismatch", "-i", v.path)
	ap.Dir = scratch
	if out, err := ap.CombinedOutput(); err != nil {
		res.status, res.note = "skipped", "patch no longer applies to the current tree: "+firstLines(string(out), 2)
		return res
	}
	self, _ := os.Executable()
	emit := filepath.Join(dir, "obs.json")
	cmd := exec.Command(self, "-prop", id, "-repo", scratch, "-verif", verif, "-emit", emit)
	cmd.Env = append(os.Environ(), "CLOAKCHECK_EVIDENCE_DIR="+filepath.Join(dir, "ev"))
	if out, err := cmd.CombinedOutput(); err != nil {
		res.status, res.note = "skipped", "sub-analysis failed: "+firstLines(string(out), 3)
		return res
	}
	b, _ := os.ReadFile(emit)
	var r struct {
		LoadError   string `json:"load_error"`
		Obligations []Ob   `json:"obligations"`
	}
	if json.Unmarshal(b, &r) != nil {
		res.status, res.note = "skipped", "unreadable sub-analysis output"
		return res
	}
	if r.LoadError != "" {
		res.status, res.note = "invalid", "variant does not type-check: "+firstLines(r.LoadError, 2)
		return res
	}
	for _, o := range r.Obligations {
		if o.Status == "OK" {
			continue
		}
		if _, isKnown := known[id+"|"+o.Key()]; isKnown {
			continue
		}
		res.newKeys = append(res.newKeys, o.Status+" "+o.Key())
	}
	switch v.kind {
	case "keep", "refactor":
		if len(res.newKeys) == 0 {
			res.status = "silent"
		} else {
			res.status = "alarmed"
		}
	default:
		if len(res.newKeys) > 0 {
			res.status = "detected"
		} else {
			res.status = "missed"
		}
	}
	return res
}

func variantsImpl(id, repo, verif string, baseClean bool) map[string]interface{} {
	vs := listVariants(id, verif)
	known, _ := loadFindings(verif)
	results := make([]variantResult, len(vs))
	sem := make(chan struct{}, 6)
	var wg sync.WaitGroup
	for i, v := range vs {
		if (v.kind == "keep" || v.kind == "refactor") && !baseClean {
			results[i] = variantResult{v: v, status: "skipped", note: "base tree is not clean; keep variants are only judged on a passing tree"}
			continue
		}
		wg.Add(1)
		go func(i int, v variant) {
			defer wg.Done()
			sem <- struct{}{}
			defer func() { <-sem }()
			results[i] = runOneVariant(v, id, repo, verif, known)
		}(i, v)
	}
	wg.Wait()
	cnt := map[string]int{}
	var details []map[string]interface{}
	for _, r := range results {
		cnt[r.v.kind+"_total"]++
		cnt[r.v.kind+"_"+r.status]++
		d := map[string]interface{}{"kind": r.v.kind, "name": r.v.name, "status": r.status}
		if len(r.newKeys) > 0 {
			k := r.newKeys
			if len(k) > 3 {
				k = k[:3]
			}
			d["reported"] = k
		}
		if r.note != "" {
			d["note"] = r.note
		}
		details = append(details, d)
		switch r.status {
		case "missed":
			fmt.Printf("CHECKER-DEFICIENCY property=%s %s variant %q is not detected\n", id, r.v.kind, r.v.name)
		case "alarmed":
			fmt.Printf("CHECKER-DEFICIENCY property=%s %s variant %q raises %v\n", id, r.v.kind, r.v.name, r.newKeys)
		case "skipped", "invalid":
			fmt.Printf("variant %s/%s %s: %s\n", r.v.kind, r.v.name, r.status, r.note)
		default:
			by := ""
			if len(r.newKeys) > 0 {
				by = fmt.Sprintf("  by %s (+%d more)", r.newKeys[0], len(r.newKeys)-1)
			}
			fmt.Printf("variant %-7s %-45s %s%s\n", r.v.kind, r.v.name, r.status, by)
		}
	}
	return map[string]interface{}{
		"variants": map[string]interface{}{
			"break_total": cnt["break_total"], "break_detected": cnt["break_detected"], "break_missed": cnt["break_missed"],
			"keep_total": cnt["keep_total"], "keep_silent": cnt["keep_silent"], "keep_alarmed": cnt["keep_alarmed"],
			"seeded_total": cnt["seeded_total"], "seeded_detected": cnt["seeded_detected"], "seeded_missed": cnt["seeded_missed"],
			"refactor_total": cnt["refactor_total"], "refactor_silent": cnt["refactor_silent"], "refactor_alarmed": cnt["refactor_alarmed"],
			"skipped": cnt["break_skipped"] + cnt["keep_skipped"] + cnt["seeded_skipped"] + cnt["refactor_skipped"], "invalid": cnt["break_invalid"] + cnt["keep_invalid"] + cnt["seeded_invalid"] + cnt["refactor_invalid"],
			"details": details,
			"note":    "self-validation of the checker on scratch copies; a missed break or an alarmed keep is a deficiency of the checker and is reported as such, never as a violation of /repo",
		},
	}
}

// runVariantsOnly: `cloakcheck -variants <id|all>` — evaluate the corpus without judging /repo.
func runVariantsOnly(ids []string, repo, verif string) int {
	bad := 0
	for _, id := range ids {
		fmt.Printf("== variants of %s\n", id)
		r := variantsImpl(id, repo, verif, true)
		v := r["variants"].(map[string]interface{})
		fmt.Printf("-- %s: break %v/%v detected, keep %v/%v silent, seeded %v/%v detected, refactor %v/%v silent, skipped %v, invalid %v\n", id,
			v["break_detected"], v["break_total"], v["keep_silent"], v["keep_total"], v["seeded_detected"], v["seeded_total"], v["refactor_silent"], v["refactor_total"], v["skipped"], v["invalid"])
		bad += v["break_missed"].(int) + v["keep_alarmed"].(int) + v["seeded_missed"].(int) + v["invalid"].(int) + v["refactor_alarmed"].(int)
	}
	if bad > 0 {
		return 1
	}
	return 0
}
