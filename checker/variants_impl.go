package main

func variantsImpl(id, repo, verif string, baseClean bool) map[string]interface{} {
	return map[string]interface{}{}
}

func runSelfTest(verif string) int { return 0 }
