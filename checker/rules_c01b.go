package main

import (
	"fmt"
	"go/token"
	"strings"

	"golang.org/x/tools/go/ssa"
)

func init() {
	c01Rest = func(c *Ctx) {
		c01R2(c, "C01.R2")
		c01R3(c, "C01.R3")
		c01R4(c, "C01.R4")
		c01R5(c, "C01.R5")
		c01R6(c, "C01.R6")
		// imported rule groups: sequencing under the write mutex, reassembly, record framing
		c.importing = "C13"
		c13R1(c, "C13.R1")
		c13R2(c, "C13.R2")
		c13R3(c, "C13.R3")
		c13R4(c, "C13.R4")
		c.importing = "C02"
		c02R1(c, "C02.R1")
		c02R2(c, "C02.R2")
		c02R3(c, "C02.R3")
		c02R4(c, "C02.R4")
		c02R5(c, "C02.R5")
		c02R6(c, "C02.R6")
		c.importing = "C05"
		c05R1(c, "C05.R1")
		c05R2(c, "C05.R2")
		c05R3(c, "C05.R3")
		c05R4(c, "C05.R4")
		c05R5(c, "C05.R5")
		c05R6(c, "C05.R6")
		// "a session with open streams keeps working": the receive path must not park with a session-wide lock held
		c.importing = "C12"
		nestedMonitorRules(c, "C12.R9", func(cl string) bool { return strings.HasPrefix(cl, "multiplex.") })
		c.importing = ""
	}
}

func c01R2(c *Ctx, rule string) {
	c.Rule(rule, "demultiplexing table guarded-by: Session.streams only with Session.streamsM held", 3)
	a := getC12(c, rule)
	if a == nil {
		return
	}
	CheckGuardedBy(c, c.P.Locksets(), GuardSpec{Rule: rule, Rel: "internal/multiplex", Type: "Session", Fields: []string{"streams"}, LockChain: []string{a.streamsM.Name()}, LockTypes: []string{"sync.Mutex"}})
}

func c01R3(c *Ctx, rule string) {
	c.Rule(rule, "no alias of the reused receive buffer is retained: implementations of recvBuffer.Write only copy the frame's payload (bytes.Buffer.Write, copy into a fresh slice) and never store the frame pointer; deplex reuses one buffer per connection", 3)
	a := getMuxAnchors(c, rule)
	if a == nil {
		return
	}
	p := c.P
	for _, impl := range []string{"streamBuffer.Write", "datagramBufferedPipe.Write"} {
		f := p.Func("internal/multiplex", impl)
		if f == nil {
			c.Undecided(rule, "anchor "+impl, "-", "not found")
			continue
		}
		frame := ssa.Value(f.Params[1])
		bad := ""
		// uses of the frame pointer itself
		for _, r := range *frame.Referrers() {
			switch x := r.(type) {
			case *ssa.FieldAddr:
				fv, _ := fieldVar(x)
				if fv != a.payload {
					continue
				}
				// loads of f.Payload and their uses
				for _, rr := range *x.Referrers() {
					ld, ok := rr.(*ssa.UnOp)
					if !ok {
						if _, isSt := rr.(*ssa.Store); isSt {
							continue // assigning to f.Payload is not a retention of the alias
						}
						continue
					}
					for _, use := range *ld.Referrers() {
						switch u := use.(type) {
						case *ssa.Call:
							n := calleeName(&u.Call)
							switch {
							case n == "builtin.len", n == "builtin.cap":
							case n == "builtin.copy" && u.Call.Args[1] == ssa.Value(ld):
							case n == "(*bytes.Buffer).Write":
							case strings.HasSuffix(n, "streamBufferedPipe).Write"):
							case n == "builtin.append" && u.Call.Args[0] != ssa.Value(ld):
								// append(dst, payload...) copies
							default:
								bad = "f.Payload is handed to " + n + " at " + c.at(use)
							}
						case *ssa.Store:
							if u.Val == ssa.Value(ld) {
								bad = "the payload slice (an alias of the connection's reused read buffer) is stored at " + c.at(use)
							}
						case *ssa.Send, *ssa.MapUpdate, *ssa.MakeInterface:
							bad = "the payload slice escapes at " + c.at(use)
						}
					}
				}
			case *ssa.UnOp:
				// struct copy `saved := *f`: allowed; the copy's Payload must be replaced before it escapes (C02.R5)
			case *ssa.Store:
				if x.Val == frame {
					bad = "the frame pointer (pool object, reused for the next message) is stored at " + c.at(r)
				}
			case *ssa.Call:
				if n := calleeName(&x.Call); strings.HasPrefix(n, "container/heap.") {
					bad = "the pooled frame itself is pushed onto the heap at " + c.at(r)
				}
			case *ssa.MakeInterface:
				bad = "the pooled frame pointer escapes into an interface at " + c.at(r)
			}
		}
		c.Check(bad == "", rule, impl+" retains no alias of the receive buffer", c.atFn(f), "payload only copied (pipe write / copy into a fresh slice)", bad+": the next read on that connection overwrites bytes that are still queued for the application")
	}
	// the premise: deplex reads every message into one buffer allocated before its loop
	if dp := p.Func("internal/multiplex", "switchboard.deplex"); dp != nil {
		var rd *ssa.Call
		allInstrs(dp, func(i ssa.Instruction) {
			if call, ok := i.(*ssa.Call); ok && calleeName(&call.Call) == "(net.Conn).Read" {
				rd = call
			}
		})
		if rd != nil {
			_, isMk := rd.Call.Args[0].(*ssa.MakeSlice)
			c.OK(rule, "premise: deplex reads into one buffer per connection", c.at(rd), fmt.Sprintf("buffer %s allocated outside the read loop (reused=%v)", Expr(rd.Call.Args[0]), isMk))
		}
	}
	// imported: the parked copy is private
	c.importing = "C02"
	c02R5(c, "C02.R5")
	c.importing = ""
}

func isReadLike(call *ssa.Call) (buf ssa.Value, ok bool) {
	n := calleeName(&call.Call)
	args := callArgs(&call.Call)
	switch {
	case n == "io.ReadAtLeast" || n == "io.ReadFull":
		return args[1], true
	case strings.HasSuffix(n, ").Read") || strings.HasSuffix(n, ").ReadFrom") || strings.HasSuffix(n, ").ReadFromUDP"):
		for _, a := range args[1:] {
			if typeStr(a.Type()) == "[]byte" {
				return a, true
			}
		}
	}
	return nil, false
}

func isWriteLike(call *ssa.Call) (data ssa.Value, ok bool) {
	n := calleeName(&call.Call)
	if !(strings.HasSuffix(n, ").Write") || strings.HasSuffix(n, ").WriteTo") || strings.HasSuffix(n, ").WriteToUDP")) {
		return nil, false
	}
	for _, a := range callArgs(&call.Call)[1:] {
		if typeStr(a.Type()) == "[]byte" {
			return a, true
		}
	}
	return nil, false
}

func c01R4(c *Ctx, rule string) {
	c.Rule(rule, "read-n / write-n agreement at every relay site: bytes forwarded are buf[:n] with n the count of the read that filled buf; a buffer filled inside a per-connection goroutine is private to it", 4)
	p := c.P
	var funcs []*ssa.Function
	add := func(rel, name string) {
		if f := p.Func(rel, name); f != nil {
			funcs = append(funcs, f)
			var rec func(g *ssa.Function)
			rec = func(g *ssa.Function) {
				for _, an := range g.AnonFuncs {
					funcs = append(funcs, an)
					rec(an)
				}
			}
			rec(f)
		} else {
			c.Undecided(rule, "anchor "+rel+"."+name, "-", "not found")
		}
	}
	add("internal/common", "Copy")
	add("internal/client", "RouteTCP")
	add("internal/client", "RouteUDP")
	n := 0
	for _, f := range funcs {
		var reads []*ssa.Call
		allInstrs(f, func(i ssa.Instruction) {
			if call, ok := i.(*ssa.Call); ok {
				if _, isR := isReadLike(call); isR {
					reads = append(reads, call)
				}
			}
		})
		for _, rd := range reads {
			buf, _ := isReadLike(rd)
			// privacy: inside a go-spawned closure the buffer must not be a captured variable
			if root := bufRoot(buf); root != nil {
				if fv, isFV := root.(*ssa.FreeVar); isFV && isGoTarget(p, f) {
					c.Bad(rule, "buffer of the read in "+shortFn(f)+" is private to the goroutine", c.at(rd), "the goroutine started per connection reads into the captured variable "+fv.Name()+", shared by all connections: a concurrent connection's first packet can overwrite this one's before it is forwarded")
					n++
					continue
				}
			}
			// forwards of this buffer dominated by the read
			allInstrs(f, func(i ssa.Instruction) {
				wr, ok := i.(*ssa.Call)
				if !ok {
					return
				}
				data, isW := isWriteLike(wr)
				if !isW || !instrDominates(rd, wr) {
					return
				}
				base := data
				var sl *ssa.Slice
				if s, isSl := data.(*ssa.Slice); isSl {
					sl = s
					base = s.X
				}
				if !sameBuf(base, buf) && base != buf {
					return
				}
				// the nearest dominating read of this buffer
				for _, other := range reads {
					ob, _ := isReadLike(other)
					if other != rd && (sameBuf(ob, buf) || ob == buf) && instrDominates(rd, other) && instrDominates(other, wr) {
						return // a later read is the relevant one; handled in its own iteration
					}
				}
				n++
				construct := fmt.Sprintf("forward after read in %s (%s)", shortFn(f), strings.TrimPrefix(c.at(wr), "internal/"))
				ok2 := sl != nil && (sl.Low == nil || isK(sl.Low, 0)) && sl.High != nil && isCountOf(sl.High, rd)
				c.Check(ok2, rule, construct, c.at(wr), "writes buf[:n], n = that read's count", "forwards "+Expr(data)+" after "+calleeName(&rd.Call)+": not exactly the bytes that read returned (stale tail or missing bytes on the relayed stream)")
			})
		}
	}
	if n == 0 {
		c.Undecided(rule, "relay read/forward sites", "-", "none found")
	}
}

func bufRoot(v ssa.Value) ssa.Value {
	for {
		switch x := v.(type) {
		case *ssa.Slice:
			v = x.X
		case *ssa.UnOp:
			if x.Op == token.MUL {
				v = x.X
				continue
			}
			return v
		default:
			return v
		}
	}
}

// isGoTarget: f is started by a go statement (directly).
func isGoTarget(p *Prog, f *ssa.Function) bool {
	for _, cs := range p.CallersOf(f) {
		if _, isGo := cs.(*ssa.Go); isGo {
			return true
		}
	}
	return false
}

func c01R5(c *Ctx, rule string) {
	c.Rule(rule, "both relay directions are started with swapped arguments: RouteTCP's per-connection goroutine and serveSession's loop body each run common.Copy(a,b) and common.Copy(b,a)", 2)
	p := c.P
	cp := p.Func("internal/common", "Copy")
	if cp == nil {
		c.Undecided(rule, "anchor common.Copy", "-", "not found")
		return
	}
	norm := func(v ssa.Value) string {
		s := Expr(v)
		s = strings.TrimPrefix(s, "*")
		s = strings.TrimPrefix(s, "^")
		s = strings.TrimPrefix(s, "&")
		if i := strings.Index(s, "("); i > 0 && strings.Contains(s, "#") {
			// result of Accept/OpenStream: use the callee name
			s = s[:i]
		}
		return s
	}
	for _, site := range []struct{ rel, name string }{{"internal/client", "RouteTCP"}, {"internal/server", "serveSession"}} {
		f := p.Func(site.rel, site.name)
		if f == nil {
			c.Undecided(rule, "anchor "+site.name, "-", "not found")
			continue
		}
		var all []*ssa.Function
		var rec func(g *ssa.Function)
		rec = func(g *ssa.Function) {
			all = append(all, g)
			for _, an := range g.AnonFuncs {
				rec(an)
			}
		}
		rec(f)
		pairs := map[string]bool{}
		for _, g := range all {
			allInstrs(g, func(i ssa.Instruction) {
				cc := callCommon(i)
				if cc == nil || cc.StaticCallee() != cp {
					return
				}
				pairs[norm(cc.Args[0])+"←"+norm(cc.Args[1])] = true
			})
		}
		ok := false
		var ks []string
		for k := range pairs {
			ks = append(ks, k)
			parts := strings.SplitN(k, "←", 2)
			if parts[0] != parts[1] && pairs[parts[1]+"←"+parts[0]] {
				ok = true
			}
		}
		c.Check(ok, rule, "both directions relayed in "+site.name, c.atFn(f), strings.Join(ks, ", "), "only "+strings.Join(ks, ", ")+" found: one direction of the relay is never started")
	}
}
