package main

import (
	"fmt"
	"go/token"
	"go/types"
	"sort"
	"strings"

	"golang.org/x/tools/go/ssa"
)

// E2 GUARDED — guarded-by over frozen (field, lock) pairs.

type GuardSpec struct {
	Rule      string
	Rel, Type string   // owner struct
	Fields    []string // guarded fields of the owner
	LockChain []string // lock field path inside the owner, e.g. {"writingM"} or {"rwCond","L"}
	LockTypes []string // fallback type strings for rename tolerance of the first lock field
	Reason    string
	// ReadsNeedLock: loads must hold the lock (shared suffices). Always true here; kept for clarity.
	SkipFuncs map[string]string // function short name -> reason (named exceptions)
}

type Access struct {
	Instr ssa.Instruction
	Field *types.Var
	Base  LockPath // path to the owner object
	Kind  string   // read | write | addr-escape | call | send | close | mapupdate | delete
	Fn    *ssa.Function
	Desc  string
	Via   bool // the access is made in a callee that received the field's value as an argument
}

func isWriteKind(k string) bool {
	switch k {
	case "write", "addr-escape", "send", "close", "mapupdate", "delete":
		return true
	}
	return false
}

// classifyUses determines how the address (FieldAddr) or loaded value of a field is used.
func classifyUses(p *Prog, v ssa.Value, isAddr bool, depth int) []struct {
	kind string
	at   ssa.Instruction
} {
	type use = struct {
		kind string
		at   ssa.Instruction
	}
	var out []use
	if depth > 4 {
		return out
	}
	refs := v.Referrers()
	if refs == nil {
		return out
	}
	for _, r := range *refs {
		switch x := r.(type) {
		case *ssa.Store:
			if isAddr && x.Addr == v {
				out = append(out, use{"write", x})
			} else if x.Val == v {
				if isAddr {
					out = append(out, use{"addr-escape", x})
				}
				// storing the loaded value elsewhere is a read
			}
		case *ssa.UnOp:
			if x.Op == token.MUL && isAddr {
				// load; examine how the loaded value is used (maps, chans, pointers)
				sub := classifyUses(p, x, false, depth+1)
				if len(sub) == 0 {
					out = append(out, use{"read", x})
				} else {
					out = append(out, sub...)
					out = append(out, use{"read", x})
				}
			} else if x.Op == token.ARROW {
				out = append(out, use{"read", x})
			}
		case *ssa.FieldAddr:
			if isAddr {
				out = append(out, classifyUses(p, x, true, depth+1)...)
			}
		case *ssa.IndexAddr:
			// element address of an array/slice field
			sub := classifyUses(p, x, true, depth+1)
			out = append(out, sub...)
		case *ssa.MapUpdate:
			if x.Map == v {
				out = append(out, use{"mapupdate", x})
			}
		case *ssa.Send:
			if x.Chan == v {
				out = append(out, use{"send", x})
			}
		case *ssa.Call, *ssa.Go, *ssa.Defer:
			cc := callCommon(r)
			n := calleeName(cc)
			switch n {
			case "builtin.delete":
				out = append(out, use{"delete", r})
			case "builtin.close":
				out = append(out, use{"close", r})
			case "builtin.len", "builtin.cap":
				out = append(out, use{"read", r})
			case "builtin.append":
				out = append(out, use{"read", r})
			default:
				if isAddr {
					out = append(out, use{"addr-escape", r})
				} else {
					out = append(out, use{"call", r})
					// the value (a map, channel, slice …) is handed to an in-repo function or closure: what the
					// callee does with that parameter is an access to the field as well
					if ci, ok := r.(ssa.CallInstruction); ok {
						for _, g := range p.Callees(ci) {
							if !p.InRepo(g) || len(g.Blocks) == 0 {
								continue
							}
							args := callArgs(cc)
							if len(args) != len(g.Params) {
								continue
							}
							for k, a := range args {
								if a == v {
									out = append(out, classifyUses(p, g.Params[k], false, depth+1)...)
								}
							}
						}
					}
				}
			}
		case *ssa.Lookup, *ssa.Range, *ssa.Index, *ssa.Slice, *ssa.BinOp, *ssa.Field, *ssa.TypeAssert, *ssa.MakeInterface, *ssa.Phi, *ssa.Convert, *ssa.ChangeType, *ssa.If, *ssa.Return, *ssa.Extract, *ssa.Next, *ssa.MakeClosure:
			if !isAddr {
				// value use: read
				if i, ok := r.(ssa.Instruction); ok {
					out = append(out, use{"read", i})
				}
			} else if _, ok := r.(*ssa.MakeClosure); ok {
				out = append(out, use{"addr-escape", r})
			}
		}
	}
	return out
}

// FieldAccesses enumerates all non-constructor accesses of the given fields in repo functions.
func FieldAccesses(p *Prog, fields map[*types.Var]bool) []Access {
	var out []Access
	for _, f := range p.RepoFuncs {
		allInstrs(f, func(in ssa.Instruction) {
			var fv *types.Var
			var base ssa.Value
			var isAddr bool
			switch x := in.(type) {
			case *ssa.FieldAddr:
				fv, base = fieldVar(x)
				isAddr = true
			case *ssa.Field:
				fv, base = fieldVar(x)
			default:
				return
			}
			if fv == nil || !fields[fv] {
				return
			}
			root, chain := fieldChain(base)
			bp := LockPath{Root: root, Chain: chain}
			if al, ok := root.(*ssa.Alloc); ok && len(chain) == 0 && al.Parent() == f {
				// constructor exemption: object allocated in this function
				if _, isStruct := al.Type().(*types.Pointer).Elem().Underlying().(*types.Struct); isStruct {
					return
				}
			}
			uses := classifyUses(p, in.(ssa.Value), isAddr, 0)
			if len(uses) == 0 {
				out = append(out, Access{Instr: in, Field: fv, Base: bp, Kind: "read", Fn: f})
				return
			}
			seen := map[string]bool{}
			for _, u := range uses {
				k := fmt.Sprintf("%s@%p", u.kind, u.at)
				if seen[k] {
					continue
				}
				seen[k] = true
				fn := f
				if u.at.Parent() != nil && u.at.Parent() != f {
					fn = u.at.Parent() // an access made by a callee through the parameter that received the value
				}
				out = append(out, Access{Instr: u.at, Field: fv, Base: bp, Kind: u.kind, Fn: fn, Via: fn != f})
			}
		})
	}
	return out
}

// CheckGuardedBy evaluates one guarded-by spec and records one obligation per (function, field, kind).
func CheckGuardedBy(c *Ctx, ls *Locksets, spec GuardSpec) {
	p := c.P
	named := p.Named(spec.Rel, spec.Type)
	if named == nil {
		c.Undecided(spec.Rule, "anchor type "+spec.Rel+"."+spec.Type, "-", "owner type not found")
		return
	}
	fields := map[*types.Var]bool{}
	for _, fn := range spec.Fields {
		fv := p.Field(spec.Rel, spec.Type, fn)
		if fv == nil {
			c.Undecided(spec.Rule, "anchor field "+spec.Type+"."+fn, "-", "guarded field not found")
			return
		}
		fields[fv] = true
	}
	var lockChain []*types.Var
	cur := named.Underlying().(*types.Struct)
	for i, ln := range spec.LockChain {
		var fv *types.Var
		for k := 0; k < cur.NumFields(); k++ {
			if cur.Field(k).Name() == ln {
				fv = cur.Field(k)
			}
		}
		if fv == nil && i == 0 {
			fv = p.Field(spec.Rel, spec.Type, ln, spec.LockTypes...)
		}
		if fv == nil {
			c.Undecided(spec.Rule, "anchor lock "+spec.Type+"."+strings.Join(spec.LockChain, "."), "-", "lock field not found")
			return
		}
		lockChain = append(lockChain, fv)
		if st := derefStruct(fv.Type()); st != nil {
			cur = st
		}
	}
	accs := FieldAccesses(p, fields)
	// group by function+field+kind-class
	type gk struct {
		fn    string
		field string
		write bool
	}
	groups := map[gk][]Access{}
	var keys []gk
	for _, a := range accs {
		k := gk{shortFn(a.Fn), a.Field.Name(), isWriteKind(a.Kind)}
		if _, ok := groups[k]; !ok {
			keys = append(keys, k)
		}
		groups[k] = append(groups[k], a)
	}
	sort.Slice(keys, func(i, j int) bool {
		if keys[i].fn != keys[j].fn {
			return keys[i].fn < keys[j].fn
		}
		if keys[i].field != keys[j].field {
			return keys[i].field < keys[j].field
		}
		return !keys[i].write && keys[j].write
	})
	for _, k := range keys {
		kind := "read"
		if k.write {
			kind = "write"
		}
		construct := fmt.Sprintf("%s.%s guarded by %s: %s in %s", spec.Type, k.field, strings.Join(spec.LockChain, "."), kind, k.fn)
		if why, ok := spec.SkipFuncs[k.fn]; ok {
			c.OK(spec.Rule, construct, c.at(groups[k][0].Instr), "named exception: "+why)
			continue
		}
		okAll := true
		detail := ""
		pos := c.at(groups[k][0].Instr)
		for _, a := range groups[k] {
			held := ls.MustHeld(a.Instr)
			ok, d := holdsLock(held, a.Base, lockChain, k.write)
			if !ok && a.Via && len(lockChain) > 0 {
				// the owner's path is not expressible in the callee's terms: fall back to the lock's class
				if h, e := lockHeldByClass(held, lockChain[len(lockChain)-1]); h && (e.Excl || !k.write) {
					ok, d = true, "lock class "+e.Path.Class()+" held (access through a parameter)"
				}
			}
			if !ok {
				okAll = false
				detail = fmt.Sprintf("%s of %s.%s (%s): %s", a.Kind, a.Base.String(), a.Field.Name(), c.at(a.Instr), d)
				pos = c.at(a.Instr)
				break
			}
			detail = fmt.Sprintf("%d access(es); %s", len(groups[k]), d)
		}
		if okAll {
			c.OK(spec.Rule, construct, pos, detail)
		} else {
			c.Bad(spec.Rule, construct, pos, detail)
		}
	}
}
