package main

import (
	"go/constant"
	"go/token"
	"go/types"
	"net"
	"strings"

	"golang.org/x/tools/go/ssa"
)

// E13 SCCP — sparse conditional constant propagation of one function under assumptions.
// Used to extract decision/default tables: "assuming raw.NumConn == 0, which stores execute and with which values".

type lat struct {
	kind  int // 0 undefined, 1 constant, 2 overdefined
	c     constant.Value
	isNil bool
}

var latTop = lat{kind: 2}

func latConst(c constant.Value) lat { return lat{kind: 1, c: c} }

func meet(a, b lat) lat {
	if a.kind == 0 {
		return b
	}
	if b.kind == 0 {
		return a
	}
	if a.kind == 2 || b.kind == 2 {
		return latTop
	}
	if a.isNil != b.isNil {
		return latTop
	}
	if a.isNil {
		return a
	}
	if a.c.Kind() == b.c.Kind() && constant.Compare(a.c, token.EQL, b.c) {
		return a
	}
	return latTop
}

type SCCP struct {
	F *ssa.Function
	// Assume: value of loads of a field (keyed by field var) of the receiver/inputs
	AssumeField map[*types.Var]constant.Value
	// AssumeValue: direct assumption on SSA values
	AssumeValue map[ssa.Value]constant.Value
	// AssumeLen: len() of a load of this field
	AssumeLen map[*types.Var]int64
	val       map[ssa.Value]lat
	execBlock map[*ssa.BasicBlock]bool
	execEdge  map[[2]*ssa.BasicBlock]bool
	// interprocedural: P enables descending into in-repo callees; sub holds the callee runs of executable calls
	P     *Prog
	sub   map[*ssa.Call]*SCCP
	depth int
}

func pathKeyOf(addr ssa.Value) string {
	root, chain := fieldChain(addr)
	if len(chain) == 0 {
		if _, ok := root.(*ssa.Alloc); !ok {
			return ""
		}
	}
	return LockPath{Root: root, Chain: chain}.Key()
}

func (s *SCCP) get(v ssa.Value) lat {
	if c, ok := v.(*ssa.Const); ok {
		if c.Value == nil {
			return lat{kind: 1, isNil: true}
		}
		return latConst(c.Value)
	}
	if a, ok := s.AssumeValue[v]; ok {
		return latConst(a)
	}
	switch v.(type) {
	case *ssa.Parameter, *ssa.FreeVar, *ssa.Global, *ssa.Function:
		return latTop
	}
	return s.val[v]
}

func (s *SCCP) Run() {
	f := s.F
	s.val = map[ssa.Value]lat{}
	s.execBlock = map[*ssa.BasicBlock]bool{}
	s.execEdge = map[[2]*ssa.BasicBlock]bool{}
	s.execBlock[f.Blocks[0]] = true
	for changed := true; changed; {
		changed = false
		for _, b := range f.Blocks {
			if !s.execBlock[b] {
				continue
			}
			for _, in := range b.Instrs {
				if v, ok := in.(ssa.Value); ok {
					nv := s.eval(v)
					old := s.val[v]
					m := nv
					if old.kind > m.kind {
						m = old
					} else if old.kind == 1 && m.kind == 1 && !(old.isNil == m.isNil && (old.isNil || (old.c.Kind() == m.c.Kind() && constant.Compare(old.c, token.EQL, m.c)))) {
						m = latTop
					}
					if m.kind != old.kind || (m.kind == 1 && old.kind == 1 && m.isNil != old.isNil) {
						s.val[v] = m
						changed = true
					}
				}
			}
			// successors
			last := b.Instrs[len(b.Instrs)-1]
			mark := func(t *ssa.BasicBlock) {
				k := [2]*ssa.BasicBlock{b, t}
				if !s.execEdge[k] {
					s.execEdge[k] = true
					changed = true
				}
				if !s.execBlock[t] {
					s.execBlock[t] = true
					changed = true
				}
			}
			switch x := last.(type) {
			case *ssa.If:
				c := s.get(x.Cond)
				if c.kind == 1 && !c.isNil && c.c.Kind() == constant.Bool {
					if constant.BoolVal(c.c) {
						mark(b.Succs[0])
					} else {
						mark(b.Succs[1])
					}
				} else if c.kind == 2 {
					mark(b.Succs[0])
					mark(b.Succs[1])
				}
			case *ssa.Jump:
				mark(b.Succs[0])
			}
		}
	}
}

func (s *SCCP) eval(v ssa.Value) lat {
	switch x := v.(type) {
	case *ssa.Phi:
		r := lat{}
		for k, e := range x.Edges {
			if !s.execEdge[[2]*ssa.BasicBlock{x.Block().Preds[k], x.Block()}] {
				continue
			}
			r = meet(r, s.get(e))
		}
		return r
	case *ssa.BinOp:
		a, b := s.get(x.X), s.get(x.Y)
		if a.kind == 0 || b.kind == 0 {
			return lat{}
		}
		if a.kind == 2 || b.kind == 2 {
			return latTop
		}
		if a.isNil || b.isNil {
			switch x.Op {
			case token.EQL:
				return latConst(constant.MakeBool(a.isNil == b.isNil))
			case token.NEQ:
				return latConst(constant.MakeBool(a.isNil != b.isNil))
			}
			return latTop
		}
		switch x.Op {
		case token.EQL, token.NEQ, token.LSS, token.LEQ, token.GTR, token.GEQ:
			if a.c.Kind() != b.c.Kind() && !(isNum(a.c) && isNum(b.c)) {
				return latTop
			}
			return latConst(constant.MakeBool(constant.Compare(a.c, x.Op, b.c)))
		case token.SHL, token.SHR:
			if sh, ok := constant.Uint64Val(b.c); ok && a.c.Kind() == constant.Int {
				return latConst(constant.Shift(a.c, x.Op, uint(sh)))
			}
			return latTop
		case token.ADD, token.SUB, token.MUL, token.AND, token.OR, token.XOR, token.REM, token.QUO:
			if a.c.Kind() == constant.String && x.Op != token.ADD {
				return latTop
			}
			if x.Op == token.QUO || x.Op == token.REM {
				if constant.Sign(b.c) == 0 {
					return latTop
				}
				if a.c.Kind() == constant.Int && x.Op == token.QUO {
					return latConst(constant.BinaryOp(a.c, token.QUO_ASSIGN, b.c))
				}
			}
			return latConst(constant.BinaryOp(a.c, x.Op, b.c))
		}
		return latTop
	case *ssa.UnOp:
		switch x.Op {
		case token.NOT:
			a := s.get(x.X)
			if a.kind == 1 && !a.isNil && a.c.Kind() == constant.Bool {
				return latConst(constant.MakeBool(!constant.BoolVal(a.c)))
			}
			return a
		case token.SUB:
			a := s.get(x.X)
			if a.kind == 1 && !a.isNil {
				return latConst(constant.UnaryOp(token.SUB, a.c, 0))
			}
			return a
		case token.MUL:
			return s.load(x)
		}
		return latTop
	case *ssa.Convert:
		a := s.get(x.X)
		if a.kind == 1 && !a.isNil {
			if bt, ok := x.Type().Underlying().(*types.Basic); ok {
				if bt.Info()&types.IsInteger != 0 && a.c.Kind() == constant.Int {
					return a
				}
				if bt.Info()&types.IsString != 0 && a.c.Kind() == constant.String {
					return a
				}
				if bt.Info()&types.IsFloat != 0 && isNum(a.c) {
					return latConst(constant.ToFloat(a.c))
				}
			}
			return latTop
		}
		return a
	case *ssa.ChangeType:
		return s.get(x.X)
	case *ssa.Call:
		return s.call(x)
	case *ssa.Extract:
		// a component of a multi-result call into the repository, evaluated under the same assumptions
		if call, ok := x.Tuple.(*ssa.Call); ok {
			if sub := s.subRun(call); sub != nil {
				return sub.resultLat(x.Index)
			}
		}
	}
	return latTop
}

// subRun evaluates an in-repo callee under the caller's field assumptions with the constant arguments bound
// (context-sensitive, depth-bounded). Helpers split off from the analysed function are thereby "inlined".
func (s *SCCP) subRun(c *ssa.Call) *SCCP {
	g := c.Call.StaticCallee()
	if s.P == nil || g == nil || !s.P.InRepo(g) || len(g.Blocks) == 0 || s.depth >= 3 {
		return nil
	}
	if s.sub == nil {
		s.sub = map[*ssa.Call]*SCCP{}
	}
	av := map[ssa.Value]constant.Value{}
	args := c.Call.Args
	if len(args) == len(g.Params) {
		for k, a := range args {
			if l := s.get(a); l.kind == 1 && !l.isNil {
				av[g.Params[k]] = l.c
			}
		}
	}
	sub := &SCCP{F: g, P: s.P, AssumeField: s.AssumeField, AssumeLen: s.AssumeLen, AssumeValue: av, depth: s.depth + 1}
	sub.Run()
	s.sub[c] = sub
	return sub
}

// resultLat: meet of result #idx over the executable returns.
func (s *SCCP) resultLat(idx int) lat {
	r := lat{}
	for _, ret := range s.ExecReturns() {
		if idx >= len(ret.Results) {
			return latTop
		}
		v := s.get(resultValue(ret, idx))
		if v.kind == 0 {
			continue
		}
		r = meet(r, v)
	}
	if r.kind == 0 {
		return latTop
	}
	return r
}

func isNum(c constant.Value) bool { return c.Kind() == constant.Int || c.Kind() == constant.Float }

func (s *SCCP) call(c *ssa.Call) lat {
	n := calleeName(&c.Call)
	args := c.Call.Args
	if n == "builtin.len" && len(args) == 1 {
		if fv, _ := loadedField(args[0]); fv != nil {
			if k, ok := s.AssumeLen[fv]; ok {
				return latConst(constant.MakeInt64(k))
			}
		}
	}
	if sub := s.subRun(c); sub != nil {
		if c.Call.Signature().Results().Len() == 1 {
			return sub.resultLat(0)
		}
		return latTop
	}
	allConst := true
	var cs []constant.Value
	for _, a := range args {
		l := s.get(a)
		if l.kind == 0 {
			return lat{}
		}
		if l.kind != 1 || l.isNil {
			allConst = false
			break
		}
		cs = append(cs, l.c)
	}
	if !allConst {
		// len of a value assumed empty etc. is not modelled
		return latTop
	}
	switch n {
	case "strings.ToLower":
		return latConst(constant.MakeString(strings.ToLower(constant.StringVal(cs[0]))))
	case "strings.ToUpper":
		return latConst(constant.MakeString(strings.ToUpper(constant.StringVal(cs[0]))))
	case "strings.EqualFold":
		return latConst(constant.MakeBool(strings.EqualFold(constant.StringVal(cs[0]), constant.StringVal(cs[1]))))
	case "net.JoinHostPort":
		return latConst(constant.MakeString(net.JoinHostPort(constant.StringVal(cs[0]), constant.StringVal(cs[1]))))
	case "builtin.len":
		if cs[0].Kind() == constant.String {
			return latConst(constant.MakeInt64(int64(len(constant.StringVal(cs[0])))))
		}
	}
	return latTop
}

// load models loads from field paths: assumptions on fields, and forwarding of the last dominating store.
func (s *SCCP) load(ld *ssa.UnOp) lat {
	fv, _ := fieldVar(ld.X)
	var init lat
	hasInit := false
	if fv != nil {
		if c, ok := s.AssumeField[fv]; ok {
			init = latConst(c)
			hasInit = true
		}
	}
	key := pathKeyOf(ld.X)
	if key == "" {
		if hasInit {
			return init
		}
		return latTop
	}
	// executable stores to the same path that can reach the load
	var cands []*ssa.Store
	allInstrs(s.F, func(i ssa.Instruction) {
		st, ok := i.(*ssa.Store)
		if !ok || !s.execBlock[st.Block()] || pathKeyOf(st.Addr) != key {
			return
		}
		if st.Block() == ld.Block() {
			if instrIndex(st) < instrIndex(ld) {
				cands = append(cands, st)
			} else if blockReaches(st.Block(), ld.Block(), true) {
				cands = append(cands, st)
			}
			return
		}
		if blockReaches(st.Block(), ld.Block(), false) {
			cands = append(cands, st)
		}
	})
	if len(cands) == 0 {
		if hasInit {
			return init
		}
		return latTop
	}
	// the last store that dominates the load in the executable sub-CFG wins if every other candidate precedes it
	for _, d := range cands {
		if !s.execDominates(d, ld) {
			continue
		}
		last := true
		for _, o := range cands {
			if o != d && !s.execDominates(o, d) {
				last = false
			}
		}
		if last {
			return s.get(d.Val)
		}
	}
	r := lat{}
	if hasInit {
		r = init
	} else {
		// unknown initial content unless some candidate dominates the load
		dom := false
		for _, d := range cands {
			if instrDominates(d, ld) {
				dom = true
			}
		}
		if !dom {
			return latTop
		}
	}
	for _, d := range cands {
		v := s.get(d.Val)
		if v.kind == 0 {
			continue
		}
		r = meet(r, v)
	}
	return r
}

// execDominates: every executable path from entry to b passes a.
func (s *SCCP) execDominates(a, b ssa.Instruction) bool {
	if a.Block() == b.Block() {
		return instrIndex(a) < instrIndex(b)
	}
	if instrDominates(a, b) {
		return true
	}
	// reach b's block from entry over executable edges avoiding a's block
	seen := map[*ssa.BasicBlock]bool{}
	work := []*ssa.BasicBlock{s.F.Blocks[0]}
	for len(work) > 0 {
		x := work[len(work)-1]
		work = work[:len(work)-1]
		if seen[x] || x == a.Block() {
			continue
		}
		seen[x] = true
		if x == b.Block() {
			return false
		}
		for _, t := range x.Succs {
			if s.execEdge[[2]*ssa.BasicBlock{x, t}] {
				work = append(work, t)
			}
		}
	}
	return true
}

func blockReaches(a, b *ssa.BasicBlock, strict bool) bool {
	seen := map[*ssa.BasicBlock]bool{}
	work := []*ssa.BasicBlock{}
	if strict {
		work = append(work, a.Succs...)
	} else {
		work = append(work, a)
	}
	for len(work) > 0 {
		x := work[len(work)-1]
		work = work[:len(work)-1]
		if seen[x] {
			continue
		}
		seen[x] = true
		if x == b {
			return true
		}
		work = append(work, x.Succs...)
	}
	return false
}

// StoredTo returns, for a field, the executable stores and their lattice values.
type sccpStore struct {
	St  *ssa.Store
	Val lat
}

func (s *SCCP) StoresTo(fv *types.Var) []sccpStore {
	var out []sccpStore
	allInstrs(s.F, func(i ssa.Instruction) {
		st, ok := i.(*ssa.Store)
		if !ok || !s.execBlock[st.Block()] {
			return
		}
		if v, _ := fieldVar(st.Addr); v == fv {
			out = append(out, sccpStore{st, s.get(st.Val)})
		}
	})
	// stores made by in-repo callees of executable call sites (helpers split off from the analysed function)
	for call, sub := range s.sub {
		if s.execBlock[call.Block()] {
			out = append(out, sub.StoresTo(fv)...)
		}
	}
	return out
}

// ExecReturns lists the executable return instructions.
func (s *SCCP) ExecReturns() []*ssa.Return {
	var out []*ssa.Return
	for _, r := range returnsOf(s.F) {
		if s.execBlock[r.Block()] {
			out = append(out, r)
		}
	}
	return out
}

func latString(l lat) string {
	switch l.kind {
	case 0:
		return "⊥"
	case 2:
		return "non-constant"
	}
	if l.isNil {
		return "nil"
	}
	return l.c.ExactString()
}
