package main

import (
	"golang.org/x/tools/go/ssa"
)

// flagImplies: the condition cond having truth value pol at a branch implies that instruction ev was executed before —
// because cond is decided by the incoming edge of a φ (a flag set on some ways and cleared on the others), and every
// edge that gives it the value pol leaves a block that ev dominates. This is the usual shape after a helper that
// reported "I did it" through a boolean has been expanded in place: `did = true` on the path that did it, `if did {…}`.
func flagImplies(cond ssa.Value, pol bool, ev ssa.Instruction) bool {
	phis := flagPhisOf(cond, 0)
	if len(phis) == 0 {
		return false
	}
	ph := phis[0]
	any := false
	for k, pred := range ph.Block().Preds {
		env := map[*ssa.BasicBlock]*ssa.BasicBlock{ph.Block(): pred}
		v, known := flagValue(cond, env, 0)
		if !known {
			// a nested φ: resolve one more level through each of its own edges
			if inner, ok := ph.Edges[k].(*ssa.Phi); ok {
				okAll := true
				for j, p2 := range inner.Block().Preds {
					env2 := map[*ssa.BasicBlock]*ssa.BasicBlock{ph.Block(): pred, inner.Block(): p2}
					v2, k2 := flagValue(cond, env2, 0)
					if !k2 {
						return false
					}
					if v2 == pol {
						any = true
						if !instrDominates(ev, p2.Instrs[len(p2.Instrs)-1]) {
							okAll = false
						}
					}
					_ = j
				}
				if !okAll {
					return false
				}
				continue
			}
			return false
		}
		if v != pol {
			continue
		}
		any = true
		if !instrDominates(ev, pred.Instrs[len(pred.Instrs)-1]) {
			return false
		}
	}
	return any
}

// guardedByFlagOf: some condition in force at instruction i implies (flagImplies) that ev was executed.
func guardedByFlagOf(i ssa.Instruction, ev ssa.Instruction) bool {
	for _, g := range GuardsOf(i.Block()) {
		if flagImplies(g.Cond, g.Pol, ev) {
			return true
		}
	}
	return false
}
