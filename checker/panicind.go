package main

import (
	"fmt"
	"go/token"
	"go/types"

	"golang.org/x/tools/go/ssa"
)

// inductionInBounds: at is X[lo:hi] or X[i] on a slice/string X where
//   - lo (resp. i) = φ + c with φ = φ(k0, φ+1) and k0 + c >= 0   — counts up from a non-negative start, so lo >= 0;
//   - hi − lo is a constant k >= 0;
//   - a condition in force at the access bounds the last index touched by the length of the same X:
//     lo + k − 1 < len(X)  or  lo + k <= len(X)   (for X[i]: i < len(X)).
func inductionInBounds(at ssa.Instruction) (bool, string) {
	var x, lo, hi ssa.Value
	switch a := at.(type) {
	case *ssa.Slice:
		if a.Low == nil || a.High == nil || a.Max != nil {
			return false, ""
		}
		x, lo, hi = a.X, a.Low, a.High
	case *ssa.IndexAddr:
		x, lo = a.X, a.Index
	case *ssa.Index:
		x, lo = a.X, a.Index
	default:
		return false, ""
	}
	if _, isPtr := x.Type().Underlying().(*types.Pointer); isPtr {
		return false, ""
	}
	loA := symAff(lo, 0)
	k := int64(1)
	if hi != nil {
		d := symAff(hi, 0).add(loA, -1)
		if !d.isConst() || d.C < 0 {
			return false, ""
		}
		k = d.C
	}
	// lo >= 0 by induction
	nonneg := false
	if len(loA.Terms) == 1 {
		for s, coef := range loA.Terms {
			ph, isPhi := s.(*ssa.Phi)
			if !isPhi || coef != 1 || len(ph.Edges) != 2 {
				continue
			}
			start, step := false, false
			for _, e := range ph.Edges {
				if k0, isK := intConst(e); isK {
					start = k0+loA.C >= 0
					continue
				}
				if d := symAff(e, 0).add(affSym(ph), -1); d.isConst() && d.C == 1 {
					step = true
				}
			}
			nonneg = start && step
		}
	}
	if !nonneg {
		return false, ""
	}
	// upper bound from a guard on len(X)
	for _, g := range AtomsAt(at) {
		if g.Kind != "cmp" || (g.Op != token.LSS && g.Op != token.LEQ) {
			continue
		}
		lc, isC := stripConv(g.Y).(*ssa.Call)
		if !isC || calleeName(&lc.Call) != "builtin.len" || lc.Call.Args[0] != x {
			continue
		}
		d := symAff(g.X, 0).add(loA, -1)
		if !d.isConst() {
			continue
		}
		// g.X = lo + d.C  (<  or <=)  len(X); needed: lo + k <= len(X)
		bound := d.C // lo + bound < len  ⇒ lo + bound + 1 <= len
		if g.Op == token.LSS {
			bound++
		}
		if k <= bound {
			return true, fmt.Sprintf("index counts up from a non-negative start and %s bounds it by len(%s)", g.String(), Expr(x))
		}
	}
	return false, ""
}
