package main

import (
	"fmt"
	"go/ast"
	"go/token"
	"go/types"
	"strings"

	"golang.org/x/tools/go/packages"
)

// NORMALISATION OF TABLE LOOK-UPS — `v, ok := table[key]` where table is a package-level map written down as a literal
// with constant keys, that nothing in the package ever writes, ranges over, passes on or takes the address of, is the
// switch it abbreviates:
//
//	var vˑ T; var okˑ bool
//	switch key { case K1: vˑ, okˑ = V1, true; case K2: … }
//	v, ok := vˑ, okˑ
//
// The value-flow and constant engines follow a switch on the option string (the original tree's form); a map look-up
// would be opaque to them. Conditions: unexported variable, at most 16 entries, keys constants, values constants or
// field-free constant expressions; the look-up is the only right-hand side of an assignment (or definition) that stands
// in a statement list.

type mapLookupSite struct {
	stmt  *ast.AssignStmt
	index *ast.IndexExpr
	lit   *ast.CompositeLit
	mapT  *types.Map
}

// pkgMapLit: like pkgTableLit, for maps: every use of the variable is the operand of an index expression that is read.
func (in *inliner) pkgMapLit(pk *packages.Package, tobj types.Object) *ast.CompositeLit {
	if tobj.Exported() {
		return nil
	}
	readIndex := map[*ast.Ident]bool{}
	written := false
	var lit *ast.CompositeLit
	for _, f := range pk.Syntax {
		ast.Inspect(f, func(n ast.Node) bool {
			switch x := n.(type) {
			case *ast.IndexExpr:
				if id, ok := x.X.(*ast.Ident); ok {
					readIndex[id] = true
				}
			case *ast.AssignStmt:
				for _, l := range x.Lhs {
					if ix, ok := l.(*ast.IndexExpr); ok {
						if id, isId := ix.X.(*ast.Ident); isId && pk.TypesInfo.Uses[id] == tobj {
							written = true
						}
					}
				}
			case *ast.IncDecStmt:
				if ix, ok := x.X.(*ast.IndexExpr); ok {
					if id, isId := ix.X.(*ast.Ident); isId && pk.TypesInfo.Uses[id] == tobj {
						written = true
					}
				}
			case *ast.UnaryExpr:
				if x.Op == token.AND {
					if ix, ok := x.X.(*ast.IndexExpr); ok {
						if id, isId := ix.X.(*ast.Ident); isId && pk.TypesInfo.Uses[id] == tobj {
							written = true
						}
					}
				}
			case *ast.ValueSpec:
				for i, nm := range x.Names {
					if pk.TypesInfo.Defs[nm] == tobj && i < len(x.Values) && len(x.Names) == len(x.Values) {
						lit, _ = x.Values[i].(*ast.CompositeLit)
					}
				}
			}
			return true
		})
	}
	if lit == nil || written {
		return nil
	}
	for id, o := range pk.TypesInfo.Uses {
		if o == tobj && !readIndex[id] {
			return nil
		}
	}
	return lit
}

func (in *inliner) findMapLookups(pk *packages.Package, file *ast.File) []mapLookupSite {
	var out []mapLookupSite
	info := pk.TypesInfo
	ast.Inspect(file, func(n ast.Node) bool {
		var list []ast.Stmt
		switch b := n.(type) {
		case *ast.BlockStmt:
			list = b.List
		case *ast.CaseClause:
			list = b.Body
		case *ast.CommClause:
			list = b.Body
		default:
			return true
		}
		for _, st := range list {
			as, ok := st.(*ast.AssignStmt)
			if !ok || len(as.Rhs) != 1 || (as.Tok != token.DEFINE && as.Tok != token.ASSIGN) || len(as.Lhs) < 1 || len(as.Lhs) > 2 {
				continue
			}
			ix, ok := as.Rhs[0].(*ast.IndexExpr)
			if !ok {
				continue
			}
			id, ok := ix.X.(*ast.Ident)
			if !ok {
				continue
			}
			tobj := info.Uses[id]
			if tobj == nil || tobj.Parent() != pk.Types.Scope() {
				continue
			}
			mt, ok := tobj.Type().Underlying().(*types.Map)
			if !ok {
				continue
			}
			lit := in.pkgMapLit(pk, tobj)
			if lit == nil || len(lit.Elts) == 0 || len(lit.Elts) > 16 {
				continue
			}
			out = append(out, mapLookupSite{stmt: as, index: ix, lit: lit, mapT: mt})
		}
		return true
	})
	return out
}

func (in *inliner) expandMapLookup(pk *packages.Package, file *ast.File, s mapLookupSite) ([]srcEdit, bool) {
	info := pk.TypesInfo
	in.curPos = s.stmt.Pos()
	vt, okV := in.typeString(s.mapT.Elem(), pk, file)
	kt, okK := in.typeString(s.mapT.Key(), pk, file)
	if !okV || !okK {
		return nil, false
	}
	in.counter++
	v, okName, key := fmt.Sprintf("mvˑ%d", in.counter), fmt.Sprintf("mokˑ%d", in.counter), fmt.Sprintf("mkˑ%d", in.counter)
	var b strings.Builder
	fmt.Fprintf(&b, "var %s %s; _ = %s; var %s bool; _ = %s; ", v, vt, v, okName, okName)
	fmt.Fprintf(&b, "switch %s := %s(%s); %s { ", key, kt, in.text(s.index.Index), key)
	none := map[types.Object]bool{}
	for _, el := range s.lit.Elts {
		kv, ok := el.(*ast.KeyValueExpr)
		if !ok {
			return nil, false
		}
		if tv, okC := info.Types[kv.Key]; !okC || tv.Value == nil {
			return nil, false // only constant keys
		}
		if _, isCL := kv.Value.(*ast.CompositeLit); isCL || !pureStable(info, kv.Value, none) {
			return nil, false
		}
		if tv, okC := info.Types[kv.Value]; !okC || tv.Value == nil {
			return nil, false // only constant values (a variable could change between the declaration and the look-up)
		}
		fmt.Fprintf(&b, "case %s: %s, %s = %s(%s), true; ", in.text(kv.Key), v, okName, vt, in.text(kv.Value))
	}
	b.WriteString("}; ")
	rhs := v
	if len(s.stmt.Lhs) == 2 {
		rhs = v + ", " + okName
	}
	// the names used in the literal must mean the same thing at the look-up: package-level names not shadowed there
	callScope := pk.Types.Scope().Innermost(s.stmt.Pos())
	okNames := true
	ast.Inspect(s.lit, func(n ast.Node) bool {
		if id, isId := n.(*ast.Ident); isId && callScope != nil {
			if o := info.Uses[id]; o != nil && (o.Parent() == pk.Types.Scope() || o.Parent() == types.Universe) {
				if _, found := callScope.LookupParent(id.Name, s.stmt.Pos()); found != o {
					okNames = false
				}
			}
		}
		return true
	})
	if !okNames {
		return nil, false
	}
	// package names used by the literal must be imported under the same name in this file
	okPk := true
	ast.Inspect(s.lit, func(n ast.Node) bool {
		if id, isId := n.(*ast.Ident); isId {
			if pn, isPkg := info.Uses[id].(*types.PkgName); isPkg {
				found := false
				for _, imp := range file.Imports {
					if strings.Trim(imp.Path.Value, `"`) == pn.Imported().Path() {
						name := pn.Imported().Name()
						if imp.Name != nil {
							name = imp.Name.Name
						}
						if name == id.Name {
							found = true
						}
					}
				}
				if !found {
					okPk = false
				}
			}
		}
		return true
	})
	if !okPk {
		return nil, false
	}
	eds := []srcEdit{
		{in.off(s.stmt.Pos()), in.off(s.stmt.Pos()), b.String()},
		{in.off(s.index.Pos()), in.off(s.index.End()), rhs},
	}
	return eds, true
}
