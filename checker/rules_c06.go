package main

import (
	"fmt"
	"go/token"
	"go/types"
	"sort"
	"strings"

	"golang.org/x/tools/go/ssa"
)

func init() {
	register(&PropDef{
		ID: "C06", Title: "client and server agree on identity, options and session key after the handshake",
		Run:       runC06,
		Technique: "static analysis: byte-layout table extraction of the 48-byte authentication plaintext on the client (writes) and the server (reads) against a frozen table, argument-identity checks of sealing and carriers on both sides, offset arithmetic of the composed ServerHello vs the client's fixed read offsets, value-flow/identity of the session key and options into the session",
		Decided: "(b) the 48-byte authentication plaintext has the same table on both sides and in the frozen v2 table (UID [0:16], proxy method [16:28], encryption method [28], timestamp BE64 [29:37], session id BE32 [37:41], flags [41] with the same flag constant); " +
			"(e) both sides seal/open with nonce = first 12 bytes of the ephemeral public key and key = ECDH(own private, peer public) over the 32 carrier bytes; (c) the carriers agree: random ← public key, session id ← ct[0:32], key share ← ct[32:64] on the client, the same three fields read back on the server with the 64-byte check; CDN: header 'hidden' = base64(key ‖ ct), read back as hidden[0:32] / hidden[32:]; " +
			"(d) the reply layout: the server places nonce/key[0:20] in the ServerHello random (message offset 6) and key[20:48] at offset 84, exactly the fixed offsets the client reads ([6:38] ‖ [84:116] → nonce [0:12], sealed key [12:60]), and the client consumes exactly the two further records the server sends; CDN: 12+48 bytes written, 60 required and split at 12; " +
			"(f) the key sealed for a connection is the joined session's key (C15.R3) and key, encryption method and ordered flag reach the session on both ends; the first-packet buffer whose slices the responder keeps is private to the connection.",
		NotDecided:  "(a) equality of the recovered values as such; (g) uTLS's ClientHello construction and gorilla's upgrade (library behaviour); the clock-window clause (C07).",
		Assumptions: []string{"X25519 is symmetric: ECDH(a, B) = ECDH(b, A)", "AES-GCM round-trips under equal key/nonce"},
	})
}

func runC06(c *Ctx) {
	c06R1(c, "C06.R1")
	c06R2(c, "C06.R2")
	c06R3(c, "C06.R3")
	c06R4(c, "C06.R4")
	c06R5(c, "C06.R5")
	c06R6(c, "C06.R6")
	// "for every client clock within the accepted window" the server recovers the identity: the window the server
	// applies must be the documented strict two-sided one (a window shifted or narrowed by rounding refuses such clients)
	c.importing = "C07"
	c07R2(c, "C07.R2")
	// the server must take the sealed block from where the client put it: the carriers' exact lengths and the walk over
	// the ClientHello's key-share entries (group ‖ length ‖ key) — a parser that finds the x25519 share by pattern can pick
	// bytes out of another share and the two ends no longer agree on the ciphertext
	c07R3(c, "C07.R3")
	c.importing = ""
}

var authSpec = []layoutEntry{
	{0, 16, "bytes", "UID", nil},
	{16, 28, "bytes", "ProxyMethod", nil},
	{28, 29, "byte", "EncryptionMethod", nil},
	{29, 37, "BE64", "timestamp", nil},
	{37, 41, "BE32", "SessionId", nil},
	{41, 42, "flag", "Unordered", nil},
}

func sliceBounds(v ssa.Value, base ssa.Value) (lo, hi int64, ok bool) {
	if v == base {
		return 0, -1, true
	}
	sl, isSl := v.(*ssa.Slice)
	if !isSl || sl.X != base {
		return 0, 0, false
	}
	lo, hi = 0, -1
	if sl.Low != nil {
		k, isK := intConst(sl.Low)
		if !isK {
			return 0, 0, false
		}
		lo = k
	}
	if sl.High != nil {
		k, isK := intConst(sl.High)
		if !isK {
			return 0, 0, false
		}
		hi = k
	}
	return lo, hi, true
}

func fieldNameOfValue(v ssa.Value) string {
	v = stripConv(v)
	if fv, _ := loadedField(v); fv != nil {
		return fv.Name()
	}
	if f, ok := v.(*ssa.Field); ok {
		if fv, _ := fieldVar(f); fv != nil {
			return fv.Name()
		}
	}
	return ""
}

func c06R1(c *Ctx, rule string) {
	c.Rule(rule, "authentication plaintext tables: client writes and server reads of the 48-byte block equal each other and the frozen table; the flag constant is the same in both packages", 4)
	p := c.P
	mk := c.need(rule, "internal/client", "makeAuthenticationPayload")
	dec := c.need(rule, "internal/server", "decryptClientInfo")
	if mk == nil || dec == nil {
		return
	}
	// client: plaintext = make([]byte, 48)
	var pt ssa.Value
	allInstrs(mk, func(i ssa.Instruction) {
		if v, ok := i.(ssa.Value); ok {
			if k, isK := constLenOf(v); isK && k == 48 && typeStr(v.Type()) == "[]byte" {
				pt = v
			}
		}
	})
	if pt == nil {
		c.Bad(rule, "client plaintext is 48 bytes", c.atFn(mk), "no 48-byte plaintext buffer found in makeAuthenticationPayload")
		return
	}
	// a local [48]byte array handed on as plaintext[:]: the writes go through the array
	// (a constant-size make is an array cell plus a full slice of it as well)
	var arr *ssa.Alloc
	if sl, ok := pt.(*ssa.Slice); ok && sl.Low == nil {
		if al, isAl := sl.X.(*ssa.Alloc); isAl {
			arr = al
		}
	}
	isWhole := func(v ssa.Value) bool {
		if v == pt || (arr != nil && v == ssa.Value(arr)) {
			return true
		}
		if sl, ok := v.(*ssa.Slice); ok && arr != nil && sl.X == ssa.Value(arr) && sl.Low == nil {
			if k, isK := constLenOf(sl); isK && k == 48 {
				return true
			}
		}
		return false
	}
	bounds := func(v ssa.Value) (int64, int64, bool) {
		if isWhole(v) {
			return 0, -1, true
		}
		sl, ok := v.(*ssa.Slice)
		if !ok || !isWhole(sl.X) {
			return 0, 0, false
		}
		return sliceBounds(v, sl.X)
	}
	nameOf := func(v ssa.Value) string {
		what := fieldNameOfValue(v)
		if what == "" {
			if ld, isLd := stripConv(v).(*ssa.UnOp); isLd {
				if al, isAl := ld.X.(*ssa.Alloc); isAl {
					if sv := cellValue(al, ld); sv != nil {
						v = sv
						what = fieldNameOfValue(v)
					}
				}
			}
		}
		if what == "" && strings.Contains(Expr(v), "Unix") {
			what = "timestamp"
		}
		return what
	}
	var cl []layoutEntry
	var bstores []byteStore
	allInstrs(mk, func(i ssa.Instruction) {
		switch x := i.(type) {
		case *ssa.Call:
			n := calleeName(&x.Call)
			switch {
			case n == "builtin.copy":
				if lo, hi, ok := bounds(x.Call.Args[0]); ok {
					what := fieldNameOfValue(x.Call.Args[1])
					if hi < 0 {
						// copy(plaintext, UID): bounded by the next field (UID is 16 bytes by construction of the table)
						hi = 16
					}
					cl = append(cl, layoutEntry{lo, hi, "bytes", what, i})
				}
			case strings.Contains(n, "bigEndian).PutUint64"), strings.Contains(n, "bigEndian).PutUint32"):
				args := x.Call.Args
				if lo, hi, ok := bounds(args[len(args)-2]); ok {
					enc := "BE64"
					if strings.Contains(n, "PutUint32") {
						enc = "BE32"
					}
					what := nameOf(args[len(args)-1])
					cl = append(cl, layoutEntry{lo, hi, enc, what, i})
				}
			}
		case *ssa.Store:
			ia, ok := x.Addr.(*ssa.IndexAddr)
			if !ok || !isWhole(ia.X) {
				return
			}
			k, isK := intConst(ia.Index)
			if !isK {
				// a big-endian integer written byte by byte in a loop
				if lo, n, src, okL := beLoopStore(x, ia); okL {
					cl = append(cl, layoutEntry{lo, lo + n, fmt.Sprintf("BE%d", n*8), nameOf(src), i})
				} else if lo, n, src, okL := beDescLoopStore(x, ia); okL {
					cl = append(cl, layoutEntry{lo, lo + n, fmt.Sprintf("BE%d", n*8), nameOf(src), i})
				}
				return
			}
			if bo, isB := x.Val.(*ssa.BinOp); isB && bo.Op == token.OR {
				what := ""
				// guarded by authInfo.Unordered
				for _, a := range AtomsAt(i) {
					if a.Kind == "bool" && a.Pol {
						what = fieldNameOfValue(a.X)
					}
				}
				cl = append(cl, layoutEntry{k, k + 1, "flag", what, i})
				return
			}
			bstores = append(bstores, byteStore{k, x.Val, i})
		}
	})
	// manual big-endian writes (byte(x>>24), byte(x>>16), …) are one field
	fields, rest := groupBigEndian(bstores, nameOf)
	cl = append(cl, fields...)
	for _, s := range rest {
		cl = append(cl, layoutEntry{s.off, s.off + 1, "byte", fieldNameOfValue(s.val), s.at})
	}
	sort.Slice(cl, func(i, j int) bool { return cl[i].lo < cl[j].lo })
	spec := layoutString(authSpec)
	c.Check(layoutString(cl) == spec, rule, "client plaintext table = v2 table", c.atFn(mk), layoutString(cl), "client writes {"+layoutString(cl)+"}, the v2 authentication block is {"+spec+"}")
	// server
	dcall := findCall(dec, "common.AESGCMDecrypt")
	if dcall == nil {
		c.Bad(rule, "server opens the sealed block", c.atFn(dec), "no AESGCMDecrypt")
		return
	}
	spt := extractOf(dcall, 0)
	// destinations: stores into ClientInfo fields (composite literal alloc or named result)
	dest := func(v ssa.Value) string {
		return destinationName(v)
	}
	var sv []layoutEntry
	for _, r := range *spt.Referrers() {
		switch x := r.(type) {
		case *ssa.Slice:
			lo, hi, ok := sliceBounds(x, spt)
			if !ok {
				continue
			}
			// how is the slice used?
			what, enc := "", "bytes"
			for _, rr := range *x.Referrers() {
				switch y := rr.(type) {
				case *ssa.Store:
					if fv, _ := fieldVar(y.Addr); fv != nil {
						what = fv.Name()
					}
				case *ssa.Call:
					n := calleeName(&y.Call)
					switch {
					case strings.Contains(n, "bigEndian).Uint64"):
						enc = "BE64"
						what = dest(y)
						if what == "" || strings.EqualFold(what, "old") {
							what = "timestamp"
						}
						if strings.Contains(Expr(y), "Unix") || true {
							// the timestamp feeds time.Unix
							for _, r3 := range *y.Referrers() {
								if cv, isCv := r3.(*ssa.Convert); isCv {
									for _, r4 := range *cv.Referrers() {
										if isCall(r4, "time.Unix") {
											what = "timestamp"
										}
									}
								}
							}
						}
					case strings.Contains(n, "bigEndian).Uint32"):
						enc = "BE32"
						what = dest(y)
					case n == "bytes.Trim" || n == "bytes.TrimRight":
						what = dest(y)
						if what == "" {
							// string(bytes.Trim(...)) stored into ProxyMethod
							for _, r3 := range *y.Referrers() {
								if cv, isCv := r3.(*ssa.Convert); isCv {
									what = dest(cv)
								}
							}
						}
					default:
						what = "?" + n
					}
				}
			}
			if hi < 0 {
				hi = 48
				what += "(open-ended)"
			}
			sv = append(sv, layoutEntry{lo, hi, enc, what, x})
		case *ssa.IndexAddr:
			k, isK := intConst(x.Index)
			if !isK {
				continue
			}
			what, enc := "", "byte"
			for _, rr := range *x.Referrers() {
				if ld, isLd := rr.(*ssa.UnOp); isLd {
					what = dest(ld)
					for _, r3 := range *ld.Referrers() {
						if bo, isB := r3.(*ssa.BinOp); isB && bo.Op == token.AND {
							enc = "flag"
							for _, r4 := range *bo.Referrers() {
								if cmp, isCmp := r4.(*ssa.BinOp); isCmp {
									what = dest(cmp)
								}
							}
						}
					}
				}
			}
			sv = append(sv, layoutEntry{k, k + 1, enc, what, x})
		}
	}
	// integers decoded by shifts or fold loops: one big-endian field instead of the bytes / byte entries of their parts
	for _, bf := range beValueScan(dec, spt) {
		if _, isCall := bf.Val.(*ssa.Call); isCall {
			continue // binary.BigEndian.UintN: classified above
		}
		var kept []layoutEntry
		for _, e := range sv {
			if v, ok := e.at.(ssa.Value); ok && bf.Parts[v] {
				continue
			}
			kept = append(kept, e)
		}
		what := dest(bf.Val)
		if fv := storedFieldOf(bf.Val); fv != nil {
			what = fv.Name()
		}
		feeds := func(v ssa.Value) bool {
			if v.Referrers() == nil {
				return false
			}
			for _, r := range *v.Referrers() {
				if isCall(r, "time.Unix") {
					return true
				}
				if cv, isCv := r.(*ssa.Convert); isCv && cv.Referrers() != nil {
					for _, r2 := range *cv.Referrers() {
						if isCall(r2, "time.Unix") {
							return true
						}
					}
				}
			}
			return false
		}
		if feeds(bf.Val) {
			what = "timestamp"
		}
		var at ssa.Instruction
		if in, ok := bf.Val.(ssa.Instruction); ok {
			at = in
		}
		sv = append(kept, layoutEntry{bf.Lo, bf.Lo + bf.N, fmt.Sprintf("BE%d", bf.N*8), what, at})
	}
	sort.Slice(sv, func(i, j int) bool { return sv[i].lo < sv[j].lo })
	c.Check(layoutString(sv) == spec, rule, "server plaintext table = v2 table", c.atFn(dec), layoutString(sv), "server reads {"+layoutString(sv)+"}, the v2 authentication block is {"+spec+"}")
	f1, ok1 := p.Const("internal/client", "UNORDERED_FLAG")
	f2, ok2 := p.Const("internal/server", "UNORDERED_FLAG")
	c.Check(ok1 && ok2 && f1 == f2 && f1 == 1, rule, "unordered flag constant equal on both sides", "-", fmt.Sprintf("%#x", f1), fmt.Sprintf("client flag %#x, server flag %#x", f1, f2))
	// ciphertext is 64 bytes on both sides (48 + 16 tag)
	okArr := strings.HasSuffix(typeStr(p.Field("internal/client", "authenticationPayload", "ciphertextWithTag").Type()), "[64]byte") &&
		strings.HasSuffix(typeStr(p.Field("internal/server", "authFragments", "ciphertextWithTag").Type()), "[64]byte")
	c.Check(okArr, rule, "sealed block is 64 bytes on both sides", "-", "[64]byte", "the sealed block types differ")
}

func c06R2(c *Ctx, rule string) {
	c.Rule(rule, "sealing: nonce = first 12 bytes of the ephemeral public key and key = the ECDH secret on both sides; the server's ECDH input is the unmarshalled carrier key, the client's is the configured server key", 4)
	p := c.P
	mk := c.need(rule, "internal/client", "makeAuthenticationPayload")
	dec := c.need(rule, "internal/server", "decryptClientInfo")
	if mk == nil || dec == nil {
		return
	}
	enc := findCall(mk, "common.AESGCMEncrypt")
	dcall := findCall(dec, "common.AESGCMDecrypt")
	if enc == nil || dcall == nil {
		c.Bad(rule, "seal/open calls", c.atFn(mk), "AESGCMEncrypt/AESGCMDecrypt not found")
		return
	}
	// the carrier fields by role (rename tolerant): ephemeral public key, ECDH secret, sealed block — on both sides
	sRand := p.Field("internal/server", "authFragments", "randPubKey")
	sSecret := p.Field("internal/server", "authFragments", "sharedSecret")
	sCt := p.Field("internal/server", "authFragments", "ciphertextWithTag", "[64]byte")
	cRand := p.Field("internal/client", "authenticationPayload", "randPubKey", "[32]byte")
	if sRand == nil || sSecret == nil || sCt == nil || cRand == nil {
		c.Undecided(rule, "anchor fields authFragments.{randPubKey,sharedSecret,ciphertextWithTag} / authenticationPayload.randPubKey", "-", "not found")
		return
	}
	nonce12 := func(v ssa.Value, field *types.Var) bool {
		sl, ok := v.(*ssa.Slice)
		if !ok || sl.High == nil {
			return false
		}
		hi, _ := intConst(sl.High)
		lo := int64(0)
		if sl.Low != nil {
			lo, _ = intConst(sl.Low)
		}
		fv, _ := fieldVar(sl.X)
		return lo == 0 && hi == 12 && fv != nil && fv == field
	}
	c.Check(nonce12(enc.Call.Args[0], cRand) && mentionsCallTo(enc.Call.Args[1], "ecdh.GenerateSharedSecret"), rule, "client seals with nonce randPubKey[:12], key sharedSecret", c.at(enc), Expr(enc), "client seals with nonce "+Expr(enc.Call.Args[0])+" / key "+Expr(enc.Call.Args[1]))
	c.Check(nonce12(dcall.Call.Args[0], sRand) && mentionsField(dcall.Call.Args[1], sSecret) && mentionsField(dcall.Call.Args[2], sCt), rule, "server opens with nonce randPubKey[0:12], key sharedSecret", c.at(dcall), "AESGCMDecrypt(randPubKey[0:12], sharedSecret[:], ciphertextWithTag[:])", "server opens with "+Expr(dcall))
	// shared secret derivations
	if gs := findCall(mk, "ecdh.GenerateSharedSecret"); gs != nil {
		okC := strings.Contains(Expr(gs.Call.Args[1]), "ServerPubKey") && strings.Contains(Expr(gs.Call.Args[0]), "GenerateKey")
		c.Check(okC, rule, "client secret = ECDH(ephemeral private, configured server public key)", c.at(gs), Expr(gs), "client derives the secret from "+Expr(gs))
	} else {
		c.Bad(rule, "client secret derivation", c.atFn(mk), "no GenerateSharedSecret call")
	}
	for _, fn := range []string{"TLS.unmarshalClientHello", "WebSocket.unmarshalHidden"} {
		f := p.Func("internal/server", fn)
		if f == nil {
			c.Undecided(rule, "anchor "+fn, "-", "not found")
			continue
		}
		gs := p.unitFindCall(f, "ecdh.GenerateSharedSecret")
		ok := false
		if gs != nil {
			// (staticPv param, ephPub = Unmarshal(randPubKey[:])#0) — possibly inside a helper split off from f
			if ex, isEx := gs.Call.Args[1].(*ssa.Extract); isEx && ex.Index == 0 {
				if um, isC := ex.Tuple.(*ssa.Call); isC && strings.HasSuffix(calleeName(&um.Call), "ecdh.Unmarshal") {
					if sl, isSl := um.Call.Args[0].(*ssa.Slice); isSl {
						if fv, _ := fieldVar(sl.X); fv != nil && fv == sRand {
							ok = p.canonIn(f, gs.Call.Args[0]) == ssa.Value(f.Params[len(f.Params)-1])
						}
					}
				}
			}
		}
		c.Check(ok, rule, "server secret = ECDH(static private, carrier public key) in "+fn, c.atFn(f), "GenerateSharedSecret(staticPv, Unmarshal(randPubKey))", "the server derives its secret from something other than its static key and the 32 carrier bytes")
	}
}

func c06R3(c *Ctx, rule string) {
	c.Rule(rule, "carriers: client places public key / ct[0:32] / ct[32:64] in random / session id / key share; server reads the same three; CDN header name and base64(key‖ct) split at 32 agree", 3)
	p := c.P
	sRand := p.Field("internal/server", "authFragments", "randPubKey")
	sCt := p.Field("internal/server", "authFragments", "ciphertextWithTag", "[64]byte")
	cRand := p.Field("internal/client", "authenticationPayload", "randPubKey", "[32]byte")
	cCt := p.Field("internal/client", "authenticationPayload", "ciphertextWithTag", "[64]byte")
	if sRand == nil || sCt == nil || cRand == nil || cCt == nil {
		c.Undecided(rule, "anchor carrier fields (authFragments / authenticationPayload)", "-", "not found")
		return
	}
	roleName := func(fv *types.Var) string {
		switch fv {
		case cRand, sRand:
			return "randPubKey"
		case cCt, sCt:
			return "ciphertextWithTag"
		}
		return fv.Name()
	}
	hs := c.need(rule, "internal/client", "DirectTLS.Handshake")
	if hs != nil {
		got := map[string]string{}
		allInstrs(hs, func(i ssa.Instruction) {
			if st, ok := i.(*ssa.Store); ok {
				if fv, _ := fieldVar(st.Addr); fv != nil {
					if sl, isSl := st.Val.(*ssa.Slice); isSl {
						src, _ := fieldVar(sl.X)
						lo, hi := int64(0), int64(-1)
						if sl.Low != nil {
							lo, _ = intConst(sl.Low)
						}
						if sl.High != nil {
							hi, _ = intConst(sl.High)
						}
						if src != nil {
							// the destination under the name the frozen table knows it by (the carrier struct's fields may
							// have been renamed)
							name := fv.Name()
							if fa, isFA := st.Addr.(*ssa.FieldAddr); isFA {
								if on := namedOf(fa.X.Type()); on != nil {
									name = canonFieldName(on, fv)
								}
							}
							got[name] = fmt.Sprintf("%s[%d:%d]", roleName(src), lo, hi)
						}
					}
				}
			}
		})
		ok := got["random"] == "randPubKey[0:-1]" && got["sessionId"] == "ciphertextWithTag[0:32]" && got["x25519KeyShare"] == "ciphertextWithTag[32:64]"
		c.Check(ok, rule, "client carriers (direct)", c.atFn(hs), fmt.Sprint(got), "client places "+fmt.Sprint(got)+"; expected random←randPubKey, sessionId←ct[0:32], keyShare←ct[32:64]")
	}
	if f := c.need(rule, "internal/server", "TLS.unmarshalClientHello"); f != nil {
		rnd, ctx := false, false
		var firstHalf *ssa.Call
		p.unitInstrs(f, func(i ssa.Instruction) {
			if call, ok := i.(*ssa.Call); ok && calleeName(&call.Call) == "builtin.copy" {
				dst, src := call.Call.Args[0], p.canonIn(f, call.Call.Args[1])
				chRandom := p.Field("internal/server", "ClientHello", "random")
				chSession := p.Field("internal/server", "ClientHello", "sessionId")
				if mentionsField(dst, sRand) && mentionsField(src, chRandom) {
					rnd = true
				}
				if mentionsField(dst, sCt) && mentionsCallTo(src, "builtin.append") && mentionsField(src, chSession) && mentionsCallTo(src, "parseKeyShare") {
					ctx = true
				}
				// the same concatenation written as two copies: the session id at the front, the key share right behind it
				// (at the count the first copy returned, or at len(sessionId))
				if sl, isSl := dst.(*ssa.Slice); isSl && mentionsField(dst, sCt) {
					if sl.Low == nil && mentionsField(src, chSession) && !mentionsCallTo(src, "parseKeyShare") {
						firstHalf = call
					} else if sl.Low != nil && firstHalf != nil && mentionsCallTo(src, "parseKeyShare") && !mentionsField(src, chSession) && instrDominates(firstHalf, call) {
						low := stripConv(sl.Low)
						behind := low == ssa.Value(firstHalf)
						if lc, isL := low.(*ssa.Call); isL && calleeName(&lc.Call) == "builtin.len" && mentionsField(p.canonIn(f, lc.Call.Args[0]), chSession) {
							behind = true
						}
						if behind {
							ctx = true
						}
					}
				}
			}
		})
		// key share extension id 0x0033
		ext := false
		allInstrs(f, func(i ssa.Instruction) {
			if l, ok := i.(*ssa.Lookup); ok {
				if strings.Contains(Expr(l.Index), "complit") || true {
					// key is a [2]byte{0x00,0x33} literal
					if al, isLd := l.Index.(*ssa.UnOp); isLd {
						if a2, isAl := al.X.(*ssa.Alloc); isAl {
							bs := map[int64]int64{}
							for _, r := range *a2.Referrers() {
								if ia, isIA := r.(*ssa.IndexAddr); isIA {
									idx, _ := intConst(ia.Index)
									for _, rr := range *ia.Referrers() {
										if st, isSt := rr.(*ssa.Store); isSt {
											if k, isK := intConst(st.Val); isK {
												bs[idx] = k
											}
										}
									}
								}
							}
							if bs[0] == 0 && bs[1] == 0x33 {
								ext = true
							}
						}
					}
				}
			}
		})
		c.Check(rnd && ctx && ext, rule, "server carriers (direct)", c.atFn(f), "randPubKey←ch.random; ciphertextWithTag←sessionId‖keyShare(ext 0x0033)", fmt.Sprintf("random copy=%v, sessionId‖keyShare copy=%v, key_share extension id=%v", rnd, ctx, ext))
	}
	// CDN
	cw := c.need(rule, "internal/client", "WSOverTLS.Handshake")
	sw := c.need(rule, "internal/server", "WebSocket.processFirstPacket")
	uh := c.need(rule, "internal/server", "WebSocket.unmarshalHidden")
	if cw != nil && sw != nil && uh != nil {
		cn, sn := "", ""
		cPayload := false
		allInstrs(cw, func(i ssa.Instruction) {
			if call, ok := i.(*ssa.Call); ok && calleeName(&call.Call) == "(net/http.Header).Add" {
				cn, _ = strConst(call.Call.Args[1])
				// base64(append(randPubKey[:], ciphertextWithTag[:]...)): key first, sealed block second
				if mentionsCallTo(call.Call.Args[2], "EncodeToString") {
					mentions(call.Call.Args[2], func(x ssa.Value) bool {
						if ap, ok := x.(*ssa.Call); ok && calleeName(&ap.Call) == "builtin.append" && len(ap.Call.Args) == 2 {
							if mentionsField(ap.Call.Args[0], cRand) && !mentionsField(ap.Call.Args[0], cCt) && mentionsField(ap.Call.Args[1], cCt) {
								cPayload = true
							}
						}
						return false
					})
				}
			}
		})
		allInstrs(sw, func(i ssa.Instruction) {
			if call, ok := i.(*ssa.Call); ok && calleeName(&call.Call) == "(net/http.Header).Get" {
				sn, _ = strConst(call.Call.Args[1])
			}
		})
		split := false
		p.unitInstrs(uh, func(i ssa.Instruction) {
			if call, ok := i.(*ssa.Call); ok && calleeName(&call.Call) == "builtin.copy" {
				if sl, ok := p.canonIn(uh, call.Call.Args[1]).(*ssa.Slice); ok && mentionsField(call.Call.Args[0], sRand) {
					lo, hi := int64(0), int64(-1)
					if sl.Low != nil {
						lo, _ = intConst(sl.Low)
					}
					if sl.High != nil {
						hi, _ = intConst(sl.High)
					}
					if lo == 0 && hi == 32 {
						split = true
					}
				}
			}
		})
		split2 := false
		allInstrs(uh, func(i ssa.Instruction) {
			if call, ok := i.(*ssa.Call); ok && calleeName(&call.Call) == "builtin.copy" {
				if sl, ok := call.Call.Args[1].(*ssa.Slice); ok && mentionsField(call.Call.Args[0], sCt) && sl.High == nil && sl.Low != nil {
					if lo, isK := intConst(sl.Low); isK && lo == 32 {
						split2 = true
					}
				}
			}
		})
		c.Check(cn != "" && strings.EqualFold(cn, sn) && cPayload && split && split2, rule, "CDN carrier: header name and key‖ct split agree", c.atFn(cw), fmt.Sprintf("header %q; base64(randPubKey ‖ ct); server hidden[0:32] / hidden[32:]", cn),
			fmt.Sprintf("client header %q, server header %q, client payload key‖ct=%v, server split key=%v ct=%v", cn, sn, cPayload, split, split2))
	}
	_ = p
}

func c06R4(c *Ctx, rule string) {
	c.Rule(rule, "reply layout: server places nonce‖key[0:20] at handshake-message offset 6 and key[20:48] at offset 84; client reads [6:38]‖[84:116] → nonce [0:12], sealed key [12:60], then two more records; CDN reply is 12+48 bytes, client requires 60 and splits at 12", 4)
	p := c.P
	csh := c.need(rule, "internal/server", "composeServerHello")
	hs := c.need(rule, "internal/client", "DirectTLS.Handshake")
	if csh == nil || hs == nil {
		return
	}
	// server offsets: where the flattened ServerHello (bseq.go) carries nonce ‖ key[0:20] and key[20:48]
	sh, _, okSH := c10ServerHello(p, csh)
	randomOff, keyShareBodyOff := int64(-1), int64(-1)
	if okSH {
		randomOff = bsOffsetOfSym(sh, csh.Params[1], 0)
		keyShareBodyOff = bsOffsetOfSym(sh, csh.Params[2], 20)
	}
	// client offsets: what the client hands to the AEAD as nonce and sealed key, as slices of the message it read
	var cl []string
	okClient := false
	if d := findCall(hs, "common.AESGCMDecrypt"); d != nil && okSH {
		ev := newBsEval(p)
		nq, ok1 := ev.eval(d.Call.Args[0])
		cq, ok2 := ev.eval(d.Call.Args[2])
		if ok1 && ok2 {
			cl = append(cl, "nonce "+bseqString(nq), "sealed key "+bseqString(cq))
			if len(nq) == 1 && nq[0].Kind == "sym" && nq[0].Lo == randomOff && nq[0].N == 12 {
				msg := nq[0].Src
				// sealed key = msg[random+12 : random+32] ‖ msg[keyShareBody : keyShareBody+28]
				okClient = len(cq) == 2 && cq[0].Kind == "sym" && cq[0].Src == msg && cq[0].Lo == randomOff+12 && cq[0].N == 20 &&
					cq[1].Kind == "sym" && cq[1].Src == msg && cq[1].Lo == keyShareBodyOff && cq[1].N == 28
			}
		}
	}
	c.Check(okClient && okSH, rule, "client read offsets = server template offsets", c.atFn(hs), fmt.Sprintf("random at %d, key-share body at %d; client reads %v", randomOff, keyShareBodyOff, cl),
		fmt.Sprintf("the server composes the random at message offset %d and the key-share body at %d, the client reads %v: the two ends disagree on where the sealed session key is", randomOff, keyShareBodyOff, cl))
	// nonce [0:12], ciphertext [12:60]
	okSplit := false
	if d := findCall(hs, "common.AESGCMDecrypt"); d != nil {
		l0, h0, ok0 := anySliceBounds(d.Call.Args[0])
		l2, h2, ok2 := anySliceBounds(d.Call.Args[2])
		okSplit = ok0 && ok2 && l0 == 0 && h0 == 12 && l2 == 12 && h2 == 60
	}
	c.Check(okSplit, rule, "client splits the 64 bytes as nonce[0:12] ‖ sealed key[12:60]", c.atFn(hs), "AESGCMDecrypt(encrypted[0:12], secret, encrypted[12:60])", "the client does not split the reply as 12-byte nonce + 48-byte sealed key")
	// the client consumes two more records; the server sends exactly two more
	loopOK := false
	allInstrs(hs, func(i ssa.Instruction) {
		// any counting loop around a read that runs exactly twice (counting up or down, whatever the bounds)
		if ph, ok := i.(*ssa.Phi); ok {
			if n, okN := constTripCount(ph); okN && n == 2 {
				reads := false
				allInstrs(hs, func(j ssa.Instruction) {
					if call, isC := j.(*ssa.Call); isC && strings.HasSuffix(calleeName(&call.Call), ".Read") {
						if ph.Block().Dominates(call.Block()) && blockReaches(call.Block(), ph.Block(), true) {
							reads = true
						}
					}
				})
				if reads {
					loopOK = true
				}
			}
		}
	})
	nrec := 0
	if cr := p.Func("internal/server", "composeReply"); cr != nil {
		ev2 := newBsEval(p)
		if len(cr.Params) > 0 {
			ev2.assume[cr.Params[0]] = 32
		}
		if rets := returnsOf(cr); len(rets) == 1 {
			if q, okQ := ev2.eval(resultValue(rets[0], 0)); okQ {
				if recs, okP := parseRecords(q); okP {
					nrec = len(recs)
				}
			}
		}
	}
	c.Check(loopOK && nrec == 3, rule, "client consumes the two records that follow the ServerHello", c.atFn(hs), "server sends 3 records, client reads 1 + 2", fmt.Sprintf("server sends %d records, client's follow-up loop bound 2 found=%v: leftover or missing records desynchronise the record stream", nrec, loopOK))
	// CDN reply
	cw := p.Func("internal/client", "WSOverTLS.Handshake")
	okCDNc := false
	if cw != nil {
		n60 := false
		allInstrs(cw, func(i ssa.Instruction) {
			if iff, ok := i.(*ssa.If); ok {
				at := NormCond(iff.Cond, true)
				if at.Kind == "cmp" && (at.Op == token.NEQ || at.Op == token.EQL) && (isK(at.X, 60) || isK(at.Y, 60)) {
					n60 = true
				}
			}
		})
		if d := findCall(cw, "common.AESGCMDecrypt"); d != nil {
			l0, h0, ok0 := anySliceBounds(d.Call.Args[0])
			l2, ok2 := int64(-1), false
			if sl, isSl := d.Call.Args[2].(*ssa.Slice); isSl && sl.Low != nil {
				l2, ok2 = intConst(sl.Low)
			}
			okCDNc = n60 && ok0 && ok2 && l0 == 0 && h0 == 12 && l2 == 12
		}
	}
	okCDNs := false
	if mr := p.Func("internal/server", "WebSocket.makeResponder"); mr != nil {
		for _, an := range mr.AnonFuncs {
			allInstrs(an, func(i ssa.Instruction) {
				if call, ok := i.(*ssa.Call); ok && calleeName(&call.Call) == "builtin.append" {
					if k, isK := constLenOf(call.Call.Args[0]); isK && k == 12 && strings.Contains(Expr(call.Call.Args[1]), "AESGCMEncrypt") {
						okCDNs = true
					}
				}
			})
		}
	}
	c.Check(okCDNc && okCDNs, rule, "CDN reply: 12-byte nonce ‖ 48-byte sealed key, 60 bytes required by the client", "internal/client/websocket.go", "server append(nonce(12), enc…); client n == 60, reply[:12] / reply[12:]", fmt.Sprintf("client side ok=%v, server side ok=%v", okCDNc, okCDNs))
}

// anySliceBounds: constant bounds of any slice expression (base not constrained).
func anySliceBounds(v ssa.Value) (lo, hi int64, ok bool) {
	sl, isSl := v.(*ssa.Slice)
	if !isSl || sl.High == nil {
		return 0, 0, false
	}
	if sl.Low != nil {
		k, isK := intConst(sl.Low)
		if !isK {
			return 0, 0, false
		}
		lo = k
	}
	k, isK := intConst(sl.High)
	if !isK {
		return 0, 0, false
	}
	return lo, k, true
}

func c06R5(c *Ctx, rule string) {
	c.Rule(rule, "key and options reach the session: server seals the joined session's key (import C15.R3); client feeds the received key, the configured encryption method and ordered flag into its session, the server the decoded ones; the first-packet buffer is private to the connection", 4)
	p := c.P
	c.importing = "C15"
	c15R3(c, "C15.R3")
	c.importing = ""
	g := p.VFlow()
	reach := func(construct string, src vnode, dst vnode, pos string) {
		if src == nil || dst == nil {
			c.Undecided(rule, construct, pos, "anchor not found")
			return
		}
		rs := g.Reach(src)
		ok := rs[dst]
		if v, isVal := dst.(ssa.Value); isVal && !ok {
			ok = g.ReachesValue(rs, v)
		}
		c.Check(ok, rule, construct, pos, "value flow present", "no value flow: the two ends would configure their sessions differently")
	}
	fn := func(rel, t, f string) vnode {
		if fv := p.Field(rel, t, f); fv != nil {
			return fieldNode{fv}
		}
		return nil
	}
	mo := p.Func("internal/multiplex", "MakeObfuscator")
	if mo != nil {
		reach("server: decoded EncryptionMethod → MakeObfuscator", fn("internal/server", "ClientInfo", "EncryptionMethod"), mo.Params[0], "internal/server/dispatcher.go")
		// client: key returned by Handshake → MakeObfuscator key parameter
		if hs := p.Func("internal/client", "DirectTLS.Handshake"); hs != nil {
			reach("client: key returned by the handshake → MakeObfuscator", retNode{hs, 0, nil}, mo.Params[1], "internal/client/connector.go")
		}
	}
	reach("server: decoded Unordered → SessionConfig.Unordered", fn("internal/server", "ClientInfo", "Unordered"), fn("internal/multiplex", "SessionConfig", "Unordered"), "internal/server/dispatcher.go")
	// first-packet buffer private to the connection
	if dc := p.Func("internal/server", "dispatchConnection"); dc != nil {
		fresh := false
		allInstrs(dc, func(i ssa.Instruction) {
			if call, ok := i.(*ssa.Call); ok && strings.HasSuffix(calleeName(&call.Call), "readFirstPacket") {
				if _, isK := constLenOf(call.Call.Args[1]); isK {
					fresh = true
				}
				if _, isMk := call.Call.Args[1].(*ssa.MakeSlice); isMk {
					fresh = true
				}
			}
		})
		pooled := len(callsIn(dc, "(*sync.Pool).Get")) > 0
		c.Check(fresh && !pooled, rule, "first-packet buffer is a fresh allocation of this connection", c.atFn(dc), "buf := make([]byte, firstPacketSize)", "the first packet is read into a shared/pooled buffer while the handshake responder keeps a slice of it: another connection can overwrite the request before the reply is composed")
	}
}
