package main

import (
	"golang.org/x/tools/go/ssa"
)

// nestedAnon: the function literals of f, at any depth.
func nestedAnon(f *ssa.Function) []*ssa.Function {
	var out []*ssa.Function
	var walk func(g *ssa.Function)
	walk = func(g *ssa.Function) {
		for _, an := range g.AnonFuncs {
			out = append(out, an)
			walk(an)
		}
	}
	walk(f)
	return out
}

// atomsWithCallSites: the conditions in force at i, together with — when i sits in a function literal that is only ever
// called (a local helper such as `terminate := func(msg string) {…}`) — the conditions in force at each of its call
// sites, transitively. The union is what some execution of i may assume; rules that ask "is there an execution of this
// store under condition X" use it.
func atomsWithCallSites(p *Prog, i ssa.Instruction, depth int) []Atom {
	out := append([]Atom{}, AtomsAt(i)...)
	f := i.Parent()
	if f == nil || f.Parent() == nil || depth > 3 {
		return out
	}
	for _, cs := range p.CallersOf(f) {
		if _, isCall := cs.(*ssa.Call); !isCall {
			continue
		}
		out = append(out, atomsWithCallSites(p, cs, depth+1)...)
	}
	return out
}
