package main

import (
	"fmt"
	"go/token"
	"go/types"
	"strings"

	"golang.org/x/tools/go/ssa"
)

// C20.R7 — defaults that depend on another option are computed where all overrides have been applied. The README's
// defaults ("CDNOriginHost defaults to the remote host given on the command line or by the plugin host") refer to the
// final values; ck-client overrides RemoteHost & co. between ParseConfig and ProcessRawConfig. A RawConfig field that is
// filled from a different RawConfig field anywhere else freezes a value that a later override no longer reaches.
func c20R7(c *Ctx, rule string) {
	c.Rule(rule, "cross-option defaults only in ProcessRawConfig: outside it no RawConfig field is assigned a value derived from another RawConfig field", 1)
	p := c.P
	raw := p.Named("internal/client", "RawConfig")
	prc := p.Func("internal/client", "RawConfig.ProcessRawConfig")
	if raw == nil || prc == nil {
		c.Undecided(rule, "anchor client.RawConfig / ProcessRawConfig", "-", "not found")
		return
	}
	st := raw.Underlying().(*types.Struct)
	isRawField := map[*types.Var]bool{}
	for i := 0; i < st.NumFields(); i++ {
		isRawField[st.Field(i)] = true
	}
	n, bad := 0, 0
	for _, f := range p.RepoFuncs {
		if f == prc || p.inUnit(prc, f) || strings.HasSuffix(p.Pos(f.Pos()), "_test.go") {
			continue
		}
		allInstrs(f, func(i ssa.Instruction) {
			s, ok := i.(*ssa.Store)
			if !ok {
				return
			}
			dst, _ := fieldVar(s.Addr)
			if dst == nil || !isRawField[dst] {
				return
			}
			n++
			var src *types.Var
			mentions(s.Val, func(x ssa.Value) bool {
				if fv, _ := fieldVar(x); fv != nil && isRawField[fv] && fv != dst {
					src = fv
					return true
				}
				return false
			})
			if src != nil {
				bad++
				c.Bad(rule, "RawConfig."+dst.Name()+" assigned from RawConfig."+src.Name()+" in "+shortFn(f), c.at(i),
					"the option is filled from another option before the command line / plugin host overrides are applied: the documented default follows the final value, this one is frozen at parse time")
			}
		})
	}
	if bad == 0 {
		c.OK(rule, fmt.Sprintf("%d assignments to RawConfig fields outside ProcessRawConfig; none derives one option from another", n), "-", "constants, flags and environment values only")
	}
}

// C20.R6 — empty alternative names never become a server name: every element of RawConfig.AlternativeNames that reaches
// LocalConnConfig.MockDomainList (the list the per-session SNI is drawn from) passes a non-empty test on the way; the
// unfiltered slice itself never reaches it. ("AlternativeNames=a.com," / ["", "a.com"] would otherwise dial a random
// share of sessions with an empty server name.)
func c20R6(c *Ctx, rule string) {
	c.Rule(rule, "blank alternative names are dropped: each element of RawConfig.AlternativeNames appended to MockDomainList is guarded by a non-empty test; the raw slice never flows into MockDomainList unfiltered", 1)
	p := c.P
	prc := p.Func("internal/client", "RawConfig.ProcessRawConfig")
	altF := p.Field("internal/client", "RawConfig", "AlternativeNames", "[]string")
	mdlF := p.Field("internal/client", "LocalConnConfig", "MockDomainList", "[]string")
	if prc == nil || altF == nil || mdlF == nil {
		c.Undecided(rule, "anchors ProcessRawConfig / RawConfig.AlternativeNames / LocalConnConfig.MockDomainList", "-", "anchor missing")
		return
	}
	// stores to a field in prc, keyed by field
	storesOf := func(fv *types.Var) []*ssa.Store {
		var out []*ssa.Store
		allInstrs(prc, func(i ssa.Instruction) {
			if st, ok := i.(*ssa.Store); ok {
				if v, _ := fieldVar(st.Addr); v == fv {
					out = append(out, st)
				}
			}
		})
		return out
	}
	// nearest dominating store of the field with no other store of it possibly in between
	forward := func(fv *types.Var, at ssa.Instruction) *ssa.Store {
		stores := storesOf(fv)
		var best *ssa.Store
		for _, s := range stores {
			if instrDominates(s, at) && (best == nil || instrDominates(best, s)) {
				best = s
			}
		}
		if best == nil {
			return nil
		}
		for _, s := range stores {
			if s == best || instrDominates(s, best) {
				continue
			}
			if forwardSearch(best, func(i ssa.Instruction) bool { return i == at }, func(i ssa.Instruction) bool { return i == ssa.Instruction(s) }) != nil &&
				forwardSearch(s, nil, func(i ssa.Instruction) bool { return i == at }) != nil {
				return nil
			}
		}
		return best
	}
	altParams := map[*ssa.Parameter]bool{}
	isAltElem := func(v ssa.Value) bool {
		ld, ok := v.(*ssa.UnOp)
		if !ok || ld.Op != token.MUL {
			return false
		}
		ia, ok := ld.X.(*ssa.IndexAddr)
		if !ok {
			return false
		}
		if fv, _ := loadedField(ia.X); fv == altF {
			return true
		}
		// inside a filter helper: elements of the parameter that received the configured list
		if prm, isP := ia.X.(*ssa.Parameter); isP && altParams[prm] {
			return true
		}
		return false
	}
	nonEmptyGuard := func(elem ssa.Value, at ssa.Instruction) bool {
		about := func(v ssa.Value) bool { // v is elem, or f(elem)
			v = stripConv(v)
			if v == elem {
				return true
			}
			if call, ok := v.(*ssa.Call); ok {
				for _, a := range call.Call.Args {
					if stripConv(a) == elem {
						return true
					}
				}
			}
			return false
		}
		lenOf := func(v ssa.Value) bool {
			call, ok := stripConv(v).(*ssa.Call)
			return ok && calleeName(&call.Call) == "builtin.len" && about(call.Call.Args[0])
		}
		emptyStr := func(v ssa.Value) bool { s, ok := strConst(v); return ok && s == "" }
		for _, g := range AtomsAt(at) {
			if g.Kind != "cmp" {
				continue
			}
			switch {
			case g.Op == token.LSS && isK(g.X, 0) && lenOf(g.Y): // 0 < len
				return true
			case g.Op == token.LEQ && isK(g.X, 1) && lenOf(g.Y): // 1 <= len
				return true
			case g.Op == token.NEQ && ((lenOf(g.X) && isK(g.Y, 0)) || (lenOf(g.Y) && isK(g.X, 0))):
				return true
			case g.Op == token.NEQ && ((about(g.X) && emptyStr(g.Y)) || (about(g.Y) && emptyStr(g.X))):
				return true
			}
		}
		return false
	}
	var bad string
	var badAt ssa.Instruction
	nElems := 0
	seen := map[ssa.Value]bool{}
	var walk func(v ssa.Value, at ssa.Instruction)
	walk = func(v ssa.Value, at ssa.Instruction) {
		if v == nil || seen[v] {
			return
		}
		seen[v] = true
		switch x := v.(type) {
		case *ssa.Phi:
			for _, e := range x.Edges {
				walk(e, x)
			}
		case *ssa.Slice:
			walk(x.X, x)
		case *ssa.Parameter:
			if altParams[x] {
				bad, badAt = "the configured AlternativeNames slice itself (as received by a helper) reaches MockDomainList unfiltered", at
			}
		case *ssa.Call:
			if calleeName(&x.Call) != "builtin.append" {
				// a filter helper: follow its results, remembering which parameter carries the configured list
				if hg := x.Call.StaticCallee(); hg != nil && p.InRepo(hg) && len(hg.Blocks) > 0 && len(x.Call.Args) == len(hg.Params) {
					for k, a := range x.Call.Args {
						if fv, _ := loadedField(a); fv == altF && forward(altF, x) == nil {
							altParams[hg.Params[k]] = true
						}
					}
					for _, r := range returnsOf(hg) {
						if len(r.Results) > 0 {
							walk(r.Results[0], r)
						}
					}
				}
				return
			}
			walk(x.Call.Args[0], x)
			if len(x.Call.Args) < 2 {
				return
			}
			if el := singleVarargElement(x.Call.Args[1]); el != nil {
				if isAltElem(el) {
					nElems++
					if !nonEmptyGuard(el, x) {
						bad, badAt = "an element of AlternativeNames is appended to the name list without a dominating non-empty test", x
					}
				}
				return
			}
			walk(x.Call.Args[1], x) // append(a, b...)
		case *ssa.UnOp:
			if x.Op != token.MUL {
				return
			}
			fv, _ := loadedField(x)
			if fv == nil {
				return
			}
			st := forward(fv, x)
			if st != nil {
				walk(st.Val, st)
				return
			}
			if fv == altF {
				bad, badAt = "the configured AlternativeNames slice itself reaches MockDomainList on some path (no filtering store reaches this load on every path)", x
			}
		}
	}
	stores := storesOf(mdlF)
	if len(stores) == 0 {
		c.Undecided(rule, "stores to LocalConnConfig.MockDomainList in ProcessRawConfig", c.atFn(prc), "none found")
		return
	}
	for _, st := range stores {
		walk(st.Val, st)
	}
	if bad != "" {
		c.Bad(rule, "AlternativeNames → MockDomainList only through the non-empty filter", c.at(badAt), bad+": a blank entry next to real names (\"a.com,\" or [\"\",\"a.com\"]) survives and a share of the sessions is dialled with an empty server name")
		return
	}
	if nElems == 0 {
		c.Undecided(rule, "AlternativeNames → MockDomainList only through the non-empty filter", c.atFn(prc), "no element of AlternativeNames was found flowing into MockDomainList (C20.R1 requires the flow): cannot judge the filter")
		return
	}
	c.OK(rule, "AlternativeNames → MockDomainList only through the non-empty filter", c.atFn(prc), "every appended element is guarded by len(name) > 0; the raw slice is replaced by the filtered one before it is copied")
}
