package main

import (
	"fmt"
	"go/token"
	"strings"

	"golang.org/x/tools/go/ssa"
)

func init() {
	register(&PropDef{
		ID: "C07", Title: "only holders of valid, timely credentials are treated as Cloak clients",
		Run:       runC07,
		Technique: "static analysis: dominance (every acceptance point is behind every required check with the right polarity), comparison normalisation for the two-sided strict timestamp window against the repository's tolerance constant, exact-length guards of the carriers, who-may-call for the admin API",
		Decided: "(a) every success return of AuthFirstPacket is behind: transport parse ok, replay test negative, decryption ok; decryptClientInfo uses the plaintext only after a successful AES-GCM open and succeeds only inside a two-sided STRICT window with the same tolerance constant on both sides, the client time being the big-endian 64-bit field at [29:37]; " +
			"the transports accept only carriers of exactly the right lengths (64-byte sealed block, 32-byte key share, ≥96/==64 hidden bytes) and parseClientHello's type/version/length tests precede success; (b) the handshake reply is only sent behind all of these plus obfuscator ok plus (admin gate, or proxy method known ∧ user authorised ∧ session granted); " +
			"(c) the user-management router is constructed only behind len(AdminUID)≠0 ∧ UID==AdminUID ∧ SessionId==0; authentication succeeds only for an existing record with positive credit in both directions that has not expired.",
		NotDecided:  "that a forged packet cannot pass AES-GCM/X25519 (cryptographic soundness assumed); clock behaviour; everything 'else is handled as web traffic' is C09.R3.",
		Assumptions: []string{"time.Time.After/Before are strict comparisons"},
	})
}

func runC07(c *Ctx) {
	c07R1(c, "C07.R1")
	c07R2(c, "C07.R2")
	c07R3(c, "C07.R3")
	c07R4(c, "C07.R4")
	c07R5(c, "C07.R5")
	c07R6(c, "C07.R6")
}

// nilErrGuard: atoms contain (errOf(call) == nil)
func hasNilErrGuard(at ssa.Instruction, call *ssa.Call, errIdx int) bool {
	errV := extractOf(call, errIdx)
	if errV == nil {
		// single-result call
		errV = call
	}
	for _, a := range AtomsAt(at) {
		if a.Kind == "cmp" && a.Op == token.EQL && (a.X == errV || a.Y == errV) && (isNilConst(a.X) || isNilConst(a.Y)) {
			return true
		}
	}
	return false
}

// successPoint: one way of leaving f with a nil (or possibly nil) error, together with everything known to hold on it.
// When the error returned is a φ (a single `return` shared by the accepting and the rejecting paths), each possibly-nil
// edge is a success point of its own, guarded by the conditions of the predecessor that carries it.
type successPoint struct {
	ret   *ssa.Return
	atoms []Atom
}

func successPoints(f *ssa.Function) []successPoint {
	var out []successPoint
	errIdx := f.Signature.Results().Len() - 1
	for _, r := range returnsOf(f) {
		ev := resultValue(r, errIdx)
		if errIsNilAt(ev, r) == "nonnil" {
			continue
		}
		base := AtomsAt(r)
		var split func(v ssa.Value, acc []Atom, depth int) bool
		split = func(v ssa.Value, acc []Atom, depth int) bool {
			ph, ok := v.(*ssa.Phi)
			if !ok || depth > 3 {
				return false
			}
			for k, e := range ph.Edges {
				pred := ph.Block().Preds[k]
				last := pred.Instrs[len(pred.Instrs)-1]
				if errIsNilAt(e, last) == "nonnil" {
					continue
				}
				as := append([]Atom{}, acc...)
				for _, g := range GuardsOf(pred) {
					as = append(as, NormCond(g.Cond, g.Pol))
				}
				if ifi, isIf := last.(*ssa.If); isIf && len(pred.Succs) == 2 && pred.Succs[0] != pred.Succs[1] {
					pol := pred.Succs[0] == ph.Block()
					as = append(as, NormCond(ifi.Cond, pol))
					for _, g := range shortCircuitGuards(ifi.Cond, pol, ifi, 0) {
						as = append(as, NormCond(g.Cond, g.Pol))
					}
				}
				if !split(e, as, depth+1) {
					out = append(out, successPoint{r, as})
				}
			}
			return true
		}
		if !split(ev, base, 0) {
			out = append(out, successPoint{r, base})
		}
	}
	return out
}

func hasNilErrGuardIn(atoms []Atom, call *ssa.Call, errIdx int) bool {
	errV := extractOf(call, errIdx)
	if errV == nil {
		errV = call
	}
	for _, a := range atoms {
		if a.Kind == "cmp" && a.Op == token.EQL && (a.X == errV || a.Y == errV) && (isNilConst(a.X) || isNilConst(a.Y)) {
			return true
		}
	}
	return false
}

func successReturns(f *ssa.Function) []*ssa.Return {
	var out []*ssa.Return
	errIdx := f.Signature.Results().Len() - 1
	for _, r := range returnsOf(f) {
		if errIsNilAt(resultValue(r, errIdx), r) != "nonnil" {
			out = append(out, r)
		}
	}
	return out
}

func c07R1(c *Ctx, rule string) {
	c.Rule(rule, "AuthFirstPacket: every success return is behind processFirstPacket err == nil, registerRandom == false and decryptClientInfo err == nil", 1)
	p := c.P
	f := c.need(rule, "internal/server", "AuthFirstPacket")
	if f == nil {
		return
	}
	var pfp, reg, dec *ssa.Call
	// resolved by object (rename tolerant), not by the callee's spelling
	regF := p.Func("internal/server", "State.registerRandom")
	decF := p.Func("internal/server", "decryptClientInfo")
	allInstrs(f, func(i ssa.Instruction) {
		call, ok := i.(*ssa.Call)
		if !ok {
			return
		}
		if call.Call.IsInvoke() && call.Call.Method.Name() == "processFirstPacket" {
			pfp = call
		}
		// the transport's parse step under another name: the invoke on the Transport interface that receives the
		// packet (first parameter of AuthFirstPacket) and returns the fragments, the responder and an error
		if call.Call.IsInvoke() && pfp == nil && len(f.Params) > 0 && len(call.Call.Args) >= 1 && call.Call.Args[0] == ssa.Value(f.Params[0]) {
			if tr := p.Named("internal/server", "Transport"); tr != nil && namedOf(call.Call.Value.Type()) == tr {
				if res := call.Call.Signature().Results(); res.Len() == 3 && typeStr(res.At(2).Type()) == "error" {
					pfp = call
				}
			}
		}
		if g := call.Call.StaticCallee(); g != nil {
			switch g {
			case regF:
				reg = call
			case decF:
				dec = call
			}
		}
	})
	// the replay test written in line (lookup + insert on the replay memory in this very function): the lookup's ok is
	// the verdict
	var regLookup *ssa.Lookup
	if reg == nil {
		if urF := p.Field("internal/server", "State", "UsedRandom"); urF != nil {
			var ins bool
			allInstrs(f, func(i ssa.Instruction) {
				switch x := i.(type) {
				case *ssa.Lookup:
					if fv, _ := loadedField(x.X); fv == urF && x.CommaOk {
						regLookup = x
					}
				case *ssa.MapUpdate:
					if fv, _ := loadedField(x.Map); fv == urF {
						ins = true
					}
				}
			})
			if !ins {
				regLookup = nil
			}
		}
	}
	if pfp == nil || (reg == nil && regLookup == nil) || dec == nil {
		c.Bad(rule, "required checks present in AuthFirstPacket", c.atFn(f), fmt.Sprintf("processFirstPacket=%v registerRandom=%v decryptClientInfo=%v", pfp != nil, reg != nil || regLookup != nil, dec != nil))
		return
	}
	rs := successPoints(f)
	if len(rs) == 0 {
		c.Undecided(rule, "success returns of AuthFirstPacket", c.atFn(f), "none found")
	}
	for _, sp := range rs {
		r := sp.ret
		g1 := hasNilErrGuardIn(sp.atoms, pfp, 2)
		g3 := hasNilErrGuardIn(sp.atoms, dec, 1)
		g2 := false
		for _, a := range sp.atoms {
			if a.Kind == "call" && !a.Pol && reg != nil && a.Call == reg {
				g2 = true
			}
			if a.Kind == "ok" && !a.Pol && regLookup != nil && a.X == ssa.Value(regLookup) {
				g2 = true
			}
		}
		c.Check(g1 && g2 && g3, rule, "success return at "+strings.TrimPrefix(c.at(r), "internal/server/"), c.at(r), "behind parse ok, not replayed, decrypt ok",
			fmt.Sprintf("acceptance is not behind every check: transport parse ok=%v, replay test negative=%v, decryption ok=%v", g1, g2, g3))
	}
	_ = p
}

type windowAtom struct {
	lower  bool // bounds clientTime from below (clientTime > serverTime + c)
	strict bool
	c      int64 // offset in ns
	desc   string
}

// classifyWindowAtom recognises comparisons between the client time and the server time.
func classifyWindowAtom(a Atom, isClient, isServer func(ssa.Value) bool) (windowAtom, bool) {
	serverPlus := func(v ssa.Value) (int64, bool) {
		if isServer(v) {
			return 0, true
		}
		call, ok := stripConv(v).(*ssa.Call)
		if ok && calleeName(&call.Call) == "(time.Time).Add" && isServer(call.Call.Args[0]) {
			return intConst(call.Call.Args[1])
		}
		return 0, false
	}
	if a.Kind == "call" {
		n := calleeName(&a.Call.Call)
		args := a.Call.Call.Args
		switch n {
		case "(time.Time).After", "(time.Time).Before":
			after := n == "(time.Time).After"
			// X.After(Y): X > Y ; X.Before(Y): X < Y
			if isClient(args[0]) {
				if k, ok := serverPlus(args[1]); ok {
					// client > server+k (After) → lower; client < server+k (Before) → upper
					w := windowAtom{lower: after, strict: a.Pol, c: k, desc: a.String()}
					if !a.Pol {
						w.lower = !after // ¬(client > s+k) = client <= s+k: upper, non-strict
					}
					return w, true
				}
			}
			if isClient(args[1]) {
				if k, ok := serverPlus(args[0]); ok {
					// (server+k).After(client): client < server+k → upper
					w := windowAtom{lower: !after, strict: a.Pol, c: k, desc: a.String()}
					if !a.Pol {
						w.lower = after
					}
					return w, true
				}
			}
		}
		return windowAtom{}, false
	}
	if a.Kind == "cmp" && (a.Op == token.LSS || a.Op == token.LEQ) {
		// drift = server.Sub(client) (= s - c) or client.Sub(server) (= c - s)
		drift := func(v ssa.Value) (sign int64, ok bool) {
			call, isC := stripConv(v).(*ssa.Call)
			if !isC || calleeName(&call.Call) != "(time.Time).Sub" {
				return 0, false
			}
			if isServer(call.Call.Args[0]) && isClient(call.Call.Args[1]) {
				return 1, true // s - c
			}
			if isClient(call.Call.Args[0]) && isServer(call.Call.Args[1]) {
				return -1, true // c - s
			}
			return 0, false
		}
		strict := a.Op == token.LSS
		if sg, ok := drift(a.X); ok {
			if k, isK := intConst(a.Y); isK {
				// sg*(s-c) < k
				if sg == 1 { // s - c < k → c > s - k : lower bound, offset -k
					return windowAtom{lower: true, strict: strict, c: -k, desc: a.String()}, true
				}
				return windowAtom{lower: false, strict: strict, c: k, desc: a.String()}, true // c - s < k → c < s + k
			}
		}
		if sg, ok := drift(a.Y); ok {
			if k, isK := intConst(a.X); isK {
				// k < sg*(s-c)
				if sg == 1 { // k < s - c → c < s - k : upper bound offset -k
					return windowAtom{lower: false, strict: strict, c: -k, desc: a.String()}, true
				}
				return windowAtom{lower: true, strict: strict, c: k, desc: a.String()}, true // k < c - s → c > s + k
			}
		}
	}
	return windowAtom{}, false
}

func c07R2(c *Ctx, rule string) {
	c.Rule(rule, "decryptClientInfo: plaintext used only after a successful open; success only inside the strict two-sided window clientTime ∈ (serverTime − T, serverTime + T) with T = timestampTolerance; clientTime = time.Unix(BE64(plaintext[29:37]))", 3)
	p := c.P
	f := c.need(rule, "internal/server", "decryptClientInfo")
	if f == nil {
		return
	}
	tol, okT := p.Const("internal/server", "timestampTolerance")
	if !okT {
		c.Undecided(rule, "anchor timestampTolerance", "-", "constant not found")
		return
	}
	dec := findCall(f, "common.AESGCMDecrypt")
	if dec == nil {
		c.Bad(rule, "AES-GCM open of the sealed block", c.atFn(f), "decryptClientInfo does not call AESGCMDecrypt")
		return
	}
	plaintext := extractOf(dec, 0)
	// every use of plaintext behind err == nil
	okUse := plaintext != nil
	if okUse {
		for _, r := range *plaintext.Referrers() {
			if _, isDbg := r.(*ssa.DebugRef); isDbg {
				continue
			}
			if !hasNilErrGuard(r, dec, 1) {
				okUse = false
			}
		}
	}
	c.Check(okUse, rule, "plaintext only used after a successful open", c.at(dec), "every use of the plaintext is behind err == nil", "fields are read from the decryption result before (or without) checking the authentication error")
	// client time
	serverTime := ssa.Value(f.Params[1])
	var clientTime *ssa.Call
	allInstrs(f, func(i ssa.Instruction) {
		if call, ok := i.(*ssa.Call); ok && calleeName(&call.Call) == "time.Unix" {
			clientTime = call
		}
	})
	okCT := false
	if clientTime != nil {
		if u, ok := stripConv(clientTime.Call.Args[0]).(*ssa.Call); ok && strings.Contains(calleeName(&u.Call), "bigEndian).Uint64") {
			lo, hi, okS := constSliceOf(u.Call.Args[len(u.Call.Args)-1], plaintext)
			okCT = okS && lo == 29 && hi == 37
		}
		// the same field decoded by shifts or by a fold loop
		if bf := beFieldOf(beValueScan(f, plaintext), clientTime.Call.Args[0]); bf != nil && bf.Lo == 29 && bf.N == 8 {
			okCT = true
		}
	}
	c.Check(okCT, rule, "client time = time.Unix(BE64(plaintext[29:37]), 0)", c.atFn(f), "timestamp field at [29:37]", "the timestamp is not decoded from bytes 29..36 of the plaintext")
	isClient := func(v ssa.Value) bool { return clientTime != nil && stripConv(v) == ssa.Value(clientTime) }
	isServer := func(v ssa.Value) bool { return stripConv(v) == serverTime }
	rs := successPoints(f)
	if len(rs) == 0 {
		c.Undecided(rule, "success returns of decryptClientInfo", c.atFn(f), "none found")
	}
	for _, sp := range rs {
		r := sp.ret
		var lower, upper *windowAtom
		var seen []string
		// a window test moved into a boolean helper still guards the return: look through "helper(...) == true"
		atoms, bind := expandBoolCalls(p, sp.atoms)
		res := func(v ssa.Value) ssa.Value {
			v = stripConv(v)
			for k := 0; k < 4; k++ {
				a, ok := bind[v]
				if !ok {
					break
				}
				v = stripConv(a)
			}
			return v
		}
		isC := func(v ssa.Value) bool { return isClient(res(v)) }
		isS := func(v ssa.Value) bool { return isServer(res(v)) }
		for _, a := range atoms {
			if w, ok := classifyWindowAtom(a, isC, isS); ok {
				ww := w
				seen = append(seen, fmt.Sprintf("%s [%s bound, strict=%v, offset %ds]", w.desc, map[bool]string{true: "lower", false: "upper"}[w.lower], w.strict, w.c/1e9))
				if w.lower {
					lower = &ww
				} else {
					upper = &ww
				}
			}
		}
		construct := "timestamp window guarding the success return at " + strings.TrimPrefix(c.at(r), "internal/server/")
		if lower == nil || upper == nil {
			c.Bad(rule, construct, c.at(r), fmt.Sprintf("the success return is not behind both sides of the window (lower found=%v, upper found=%v; recognised: %v): packets arbitrarily far in the past/future are accepted", lower != nil, upper != nil, seen))
			continue
		}
		ok := lower.strict && upper.strict && lower.c == -tol && upper.c == tol
		c.Check(ok, rule, construct, c.at(r), fmt.Sprintf("serverTime−%ds < clientTime < serverTime+%ds, both strict", tol/1e9, tol/1e9),
			fmt.Sprintf("window is not the strict two-sided (−T, +T) with T=%ds: %v", tol/1e9, seen))
	}
}

func lenEq(a Atom, k int64) (ssa.Value, bool) {
	if a.Kind != "cmp" || a.Op != token.EQL {
		return nil, false
	}
	for _, s := range []ssa.Value{a.X, a.Y} {
		if lc, ok := stripConv(s).(*ssa.Call); ok && calleeName(&lc.Call) == "builtin.len" {
			if kk, isK := intConst(otherSide(a, s)); isK && kk == k {
				return lc.Call.Args[0], true
			}
		}
	}
	return nil, false
}

func c07R3(c *Ctx, rule string) {
	c.Rule(rule, "transports: exact carrier lengths (sealed block exactly 64 bytes, key share exactly 32, hidden ≥ 96 with exactly 64 after the key) and parseClientHello's type/version/length tests precede success; processFirstPacket succeeds only if parse and unmarshal did", 5)
	p := c.P
	// TLS.unmarshalClientHello: success behind len(append(sessionId, keyShare...)) == 64, or len(sessionId)==32 ∧ len(keyShare)==32
	if f := c.need(rule, "internal/server", "TLS.unmarshalClientHello"); f != nil {
		for _, r := range successReturns(f) {
			exact := false
			sid32, ks32 := false, false
			for _, a := range AtomsAt(r) {
				if v, ok := lenEq(a, 64); ok {
					if call, isC := v.(*ssa.Call); isC && calleeName(&call.Call) == "builtin.append" && strings.Contains(Expr(call), "sessionId") {
						exact = true
					}
				}
				// the same equation on the two lengths: len(sessionId) + len(keyShare) == 64
				if a.Kind == "cmp" && a.Op == token.EQL {
					d := symAff(a.X, 0).add(symAff(a.Y, 0), -1)
					if (d.C == 64 || d.C == -64) && len(d.Terms) == 2 {
						sign := int64(-1)
						if d.C == -64 {
							sign = 1
						}
						sidT, ksT := false, false
						for s, k := range d.Terms {
							lc, isL := s.(*ssa.Call)
							if !isL || calleeName(&lc.Call) != "builtin.len" || k != sign {
								continue
							}
							arg := p.canonIn(f, lc.Call.Args[0])
							if mentionsField(arg, p.Field("internal/server", "ClientHello", "sessionId")) {
								sidT = true
							} else if mentionsCallTo(arg, "parseKeyShare") {
								ksT = true
							}
						}
						if sidT && ksT {
							exact = true
						}
					}
				}
				if v, ok := lenEq(a, 32); ok {
					e := Expr(v)
					if strings.Contains(e, "sessionId") {
						sid32 = true
					}
					if strings.Contains(e, "parseKeyShare") || strings.Contains(e, "keyShare") {
						ks32 = true
					}
				}
			}
			c.Check(exact || (sid32 && ks32), rule, "TLS carrier: session id ‖ key share is exactly 64 bytes", c.at(r), "len(sessionId ‖ keyShare) == 64 guards success",
				"a ClientHello whose session id / key share do not add up to exactly the 64-byte sealed block is accepted (over-long session ids are silently truncated): hellos a real Cloak client never sends are answered as Cloak")
		}
	}
	if f := c.need(rule, "internal/server", "parseKeyShare"); f != nil {
		ok := false
		for _, r := range successReturns(f) {
			for _, a := range AtomsAt(r) {
				if a.Kind == "cmp" && a.Op == token.EQL && (isK(a.X, 32) || isK(a.Y, 32)) {
					ok = true
				}
			}
		}
		c.Check(ok, rule, "x25519 key share must be exactly 32 bytes", c.atFn(f), "length == 32 guards the success return", "key shares of other lengths are accepted")
	}
	if f := c.need(rule, "internal/server", "WebSocket.unmarshalHidden"); f != nil {
		for _, r := range successReturns(f) {
			ge96, eq64 := false, false
			for _, a := range AtomsAt(r) {
				if a.Kind == "cmp" && a.Op == token.LEQ && isK(a.X, 96) {
					ge96 = true
				}
				if _, ok := lenEq(a, 64); ok {
					eq64 = true
				}
				// the same equation in another arrangement: len(hidden) == 32 + 64, len(hidden) − 32 == 64, …
				if a.Kind == "cmp" && a.Op == token.EQL && len(f.Params) > 1 {
					d := symAff(a.X, 0).add(symAff(a.Y, 0), -1)
					if len(d.Terms) == 1 {
						for s, k := range d.Terms {
							lc, isLen := s.(*ssa.Call)
							if isLen && calleeName(&lc.Call) == "builtin.len" && lc.Call.Args[0] == ssa.Value(f.Params[1]) && (k == 1 && d.C == -96 || k == -1 && d.C == 96) {
								eq64 = true
							}
						}
					}
				}
			}
			c.Check(ge96 && eq64, rule, "WebSocket carrier: ≥96 hidden bytes, exactly 64 after the key", c.at(r), "len(hidden) >= 96 ∧ len(hidden[32:]) == 64", fmt.Sprintf("length checks missing (>=96: %v, ==64: %v)", ge96, eq64))
		}
	}
	if f := c.need(rule, "internal/server", "parseClientHello"); f != nil {
		// success returns are behind: magic bytes equal, handshake type == 1, length matches
		for _, r := range successReturns(f) {
			magic, typ, ln := false, false, false
			for _, a := range AtomsAt(r) {
				s := a.String()
				if a.Kind == "call" && a.Pol && calleeName(&a.Call.Call) == "bytes.Equal" {
					magic = true
				}
				if a.Kind == "cmp" && a.Op == token.EQL && (isK(a.X, 1) || isK(a.Y, 1)) {
					typ = true
				}
				if a.Kind == "cmp" && a.Op == token.EQL && strings.Contains(s, "len(") && strings.Contains(s, "Uint32") {
					ln = true
				}
				if a.Kind == "cmp" && a.Op == token.EQL && strings.Contains(s, "len(") && strings.Contains(s, "u32") {
					ln = true
				}
				// however the three length bytes are decoded: len(part of the message) == a value computed from the message
				if a.Kind == "cmp" && a.Op == token.EQL && len(f.Params) > 0 {
					for _, side := range []ssa.Value{a.X, a.Y} {
						// one side is a remaining length (len(rest), len(msg)−consumed, …), the other the declared length
						if !lenExpr(side, 0) {
							continue
						}
						other := otherSide(a, side)
						if _, isK := intConst(other); isK || lenExpr(other, 0) {
							continue
						}
						if valueDependsOn(side, f.Params[0], 0) && valueDependsOn(other, f.Params[0], 0) {
							ln = true
						}
					}
				}
			}
			c.Check(magic && typ && ln, rule, "parseClientHello: record magic, handshake type and length tests precede success", c.at(r), "16 03 01 ∧ type 1 ∧ declared length == remaining", fmt.Sprintf("magic=%v type=%v length=%v", magic, typ, ln))
		}
	}
	for _, tn := range []string{"TLS", "WebSocket"} {
		f := p.Func("internal/server", tn+".processFirstPacket")
		if f == nil {
			c.Undecided(rule, "anchor "+tn+".processFirstPacket", "-", "not found")
			continue
		}
		var steps []*ssa.Call
		allInstrs(f, func(i ssa.Instruction) {
			if call, ok := i.(*ssa.Call); ok {
				if g := call.Call.StaticCallee(); g != nil && (g.Name() == "parseClientHello" || strings.HasPrefix(g.Name(), "unmarshal") || strings.HasSuffix(calleeName(&call.Call), "http.ReadRequest")) {
					steps = append(steps, call)
				}
			}
		})
		for _, r := range successReturns(f) {
			ok := len(steps) >= 2
			for _, s := range steps {
				if !hasNilErrGuard(r, s, 1) {
					ok = false
				}
			}
			c.Check(ok, rule, tn+".processFirstPacket succeeds only if every step did", c.at(r), fmt.Sprintf("%d step(s), each err == nil", len(steps)), "a parse/unmarshal error does not prevent success")
		}
	}
}

func c07R4(c *Ctx, rule string) {
	c.Rule(rule, "dispatch gate: the handshake reply is sent only behind AuthFirstPacket ok ∧ MakeObfuscator ok ∧ (admin gate ∨ proxy method known ∧ user authorised ∧ session granted); APIRouterOf only behind the admin gate", 3)
	p := c.P
	dc := c.need(rule, "internal/server", "dispatchConnection")
	if dc == nil {
		return
	}
	var auth, obf, getSession *ssa.Call
	var userCalls []*ssa.Call
	dynUser := map[*ssa.Call]bool{}
	allInstrs(dc, func(i ssa.Instruction) {
		call, ok := i.(*ssa.Call)
		if !ok {
			return
		}
		n := calleeName(&call.Call)
		switch {
		case strings.HasSuffix(n, "server.AuthFirstPacket"):
			auth = call
		case strings.HasSuffix(n, "multiplex.MakeObfuscator"):
			obf = call
		case strings.HasSuffix(n, "ActiveUser).GetSession"):
			getSession = call
		case strings.HasSuffix(n, "userPanel).GetUser"), strings.HasSuffix(n, "userPanel).GetBypassUser"):
			userCalls = append(userCalls, call)
		case n == "":
			// a call through a function value: every function it can resolve to is one of the two lookups
			// (`lookup := panel.GetUser; if bypass { lookup = panel.GetBypassUser }; lookup(uid)`)
			cs := p.Callees(call)
			all := len(cs) > 0
			for _, g := range cs {
				gn := strings.TrimSuffix(fnName(g), "$bound")
				if !strings.HasSuffix(gn, "userPanel).GetUser") && !strings.HasSuffix(gn, "userPanel).GetBypassUser") {
					all = false
				}
			}
			if all {
				userCalls = append(userCalls, call)
				dynUser[call] = true
			}
		}
	})
	adminGate := func(at ssa.Instruction) bool {
		lenOK, eqOK, sidOK := false, false, false
		gateAtoms, _ := expandBoolCalls(p, AtomsAt(at)) // the gate may live in a boolean helper (isAdminSession)
		for _, a := range gateAtoms {
			s := a.String()
			if a.Kind == "cmp" && a.Op == token.NEQ && strings.Contains(s, "len(") && strings.Contains(s, "AdminUID") {
				lenOK = true
			}
			if a.Kind == "cmp" && a.Op == token.LSS && strings.Contains(s, "AdminUID") && isZero(a.X) {
				lenOK = true
			}
			if a.Kind == "call" && a.Pol && calleeName(&a.Call.Call) == "bytes.Equal" && strings.Contains(s, "AdminUID") && strings.Contains(s, "UID") {
				eqOK = true
			}
			if a.Kind == "cmp" && a.Op == token.EQL && strings.Contains(s, "SessionId") && (isZero(a.X) || isZero(a.Y)) {
				sidOK = true
			}
		}
		return lenOK && eqOK && sidOK
	}
	n := 0
	allInstrs(dc, func(i ssa.Instruction) {
		if !isResponderCall(i) {
			return
		}
		n++
		construct := "handshake reply at " + strings.TrimPrefix(c.at(i), "internal/server/")
		base := auth != nil && obf != nil && hasNilErrGuard(i, auth, 2) && hasNilErrGuard(i, obf, 1)
		admin := adminGate(i)
		user := false
		if getSession != nil && hasNilErrGuard(i, getSession, 2) {
			// proxy method known
			pb := false
			userAtoms, _ := expandBoolCalls(p, AtomsAt(i))
			for _, a := range userAtoms {
				if a.Kind == "ok" && a.Pol && strings.Contains(a.String(), "ProxyBook") {
					pb = true
				}
			}
			// user lookup error nil: the err value is a phi of the two lookups
			ue := false
			for _, a := range AtomsAt(i) {
				if a.Kind == "cmp" && a.Op == token.EQL && (isNilConst(a.X) || isNilConst(a.Y)) {
					s := a.String()
					if strings.Contains(s, "GetUser") || strings.Contains(s, "GetBypassUser") {
						ue = true
					}
					for _, side := range []ssa.Value{a.X, a.Y} {
						if ex, isEx := side.(*ssa.Extract); isEx && ex.Index == 1 {
							if hc, isC := ex.Tuple.(*ssa.Call); isC && dynUser[hc] {
								ue = true
							}
						}
					}
					// the lookup moved into a helper split off from dispatchConnection (authoriseUID, resolveActiveUser)
					for _, side := range []ssa.Value{a.X, a.Y} {
						if ex, isEx := side.(*ssa.Extract); isEx {
							if hc, isC := ex.Tuple.(*ssa.Call); isC {
								if hg := hc.Call.StaticCallee(); hg != nil && p.inUnit(dc, hg) {
									allInstrs(hg, func(j ssa.Instruction) {
										if cc := callCommon(j); cc != nil {
											n := calleeName(cc)
											if strings.HasSuffix(n, "userPanel).GetUser") || strings.HasSuffix(n, "userPanel).GetBypassUser") {
												ue = true
												userCalls = append(userCalls, hc)
											}
										}
									})
								}
							}
						}
					}
				}
			}
			user = pb && ue && len(userCalls) > 0
		}
		c.Check(base && (admin || user), rule, construct, c.at(i), fmt.Sprintf("behind auth ok, obfuscator ok and the %s gate", map[bool]string{true: "admin", false: "user"}[admin]),
			fmt.Sprintf("the reply is sent without every required check: auth+obfuscator ok=%v, admin gate=%v, user path (method known ∧ user ok ∧ session ok)=%v", base, admin, user))
	})
	if n == 0 {
		c.Undecided(rule, "handshake reply call sites", c.atFn(dc), "none found")
	}
	// APIRouterOf call sites
	if ar := p.Func(umRel, "APIRouterOf"); ar != nil {
		m := 0
		for _, cs := range p.CallersOf(ar) {
			if !p.InRepo(cs.Parent()) || strings.HasSuffix(p.Pos(cs.Pos()), "_test.go") {
				continue
			}
			m++
			c.Check(cs.Parent() == dc && adminGate(cs), rule, "user-management router constructed in "+shortFn(cs.Parent()), c.at(cs), "behind len(AdminUID)≠0 ∧ UID==AdminUID ∧ SessionId==0", "the admin API is reachable without the admin UID and session id 0")
		}
		if m == 0 {
			c.Undecided(rule, "call sites of APIRouterOf", "-", "none found")
		}
	}
}

func c07R5(c *Ctx, rule string) {
	c.Rule(rule, "authorisation functions: AuthenticateUser / AuthoriseNewSession succeed only for an existing record with upCredit>0 ∧ downCredit>0 ∧ ¬(expiry<now); IsBypass looks the UID copy up in the set built from BypassUID and AdminUID", 3)
	p := c.P
	for _, name := range []string{"localManager.AuthenticateUser", "localManager.AuthoriseNewSession"} {
		f := c.need(rule, umRel, name)
		if f == nil {
			continue
		}
		var view *ssa.Call
		allInstrs(f, func(i ssa.Instruction) {
			if call, ok := i.(*ssa.Call); ok && strings.HasSuffix(calleeName(&call.Call), "bbolt.DB).View") {
				view = call
			}
		})
		for _, r := range successReturns(f) {
			up, down, exp := false, false, false
			for _, a := range AtomsAt(r) {
				s := a.String()
				if a.Kind == "cmp" && a.Op == token.LSS && isZero(a.X) {
					if strings.Contains(s, "upCredit") {
						up = true
					}
					if strings.Contains(s, "downCredit") {
						down = true
					}
				}
				if a.Kind == "cmp" && a.Op == token.LEQ && strings.Contains(s, "Unix") && strings.Contains(s, "expiryTime") {
					exp = true
				}
			}
			exists := view != nil && hasNilErrGuard(r, view, 0)
			c.Check(up && down && exp && exists, rule, name+" success at "+strings.TrimPrefix(c.at(r), "internal/server/usermanager/"), c.at(r), "record exists ∧ upCredit>0 ∧ downCredit>0 ∧ now <= expiry",
				fmt.Sprintf("a user is authorised without every condition: exists=%v upCredit>0=%v downCredit>0=%v not expired=%v", exists, up, down, exp))
		}
		// the credit variables are decoded from the keys of the same name (a swapped key defeats the check)
		for _, an := range f.AnonFuncs {
			allInstrs(an, func(i ssa.Instruction) {
				st, ok := i.(*ssa.Store)
				if !ok {
					return
				}
				var name2 string
				switch x := st.Addr.(type) {
				case *ssa.FreeVar:
					name2 = x.Name()
				case *ssa.Alloc:
					name2 = x.Comment
				}
				key := getKeyOf(p, st.Val)
				if key == "" || name2 == "" {
					return
				}
				want := strings.ToUpper(name2[:1]) + name2[1:]
				c.Check(key == want, rule, fmt.Sprintf("%s: %s decoded from key %q", name, name2, want), c.at(i), "variable and database key agree", fmt.Sprintf("%s is decoded from key %q: the %s check tests the wrong quantity", name2, key, name2))
			})
		}
	}
	if f := c.need(rule, "internal/server", "State.IsBypass"); f != nil {
		bp := p.Field("internal/server", "State", "BypassUID")
		ok := false
		allInstrs(f, func(i ssa.Instruction) {
			if l, isL := i.(*ssa.Lookup); isL {
				if fv, _ := loadedField(l.X); fv == bp {
					ok = true
				}
			}
		})
		c.Check(ok, rule, "IsBypass looks the UID up in State.BypassUID", c.atFn(f), "map lookup of the 16-byte copy", "IsBypass does not consult the bypass set")
		// InitState fills the set only from preParse.BypassUID and AdminUID
		if is := p.Func("internal/server", "InitState"); is != nil && bp != nil {
			okSrc := true
			n := 0
			allInstrs(is, func(i ssa.Instruction) {
				if mu, isMU := i.(*ssa.MapUpdate); isMU {
					if fv, _ := loadedField(mu.Map); fv == bp {
						n++
					}
				}
			})
			// the copies feeding arrUID come from BypassUID elements and AdminUID
			allInstrs(is, func(i ssa.Instruction) {
				if call, isC := i.(*ssa.Call); isC && calleeName(&call.Call) == "builtin.copy" {
					if strings.Contains(Expr(call.Call.Args[0]), "arrUID") {
						e := Expr(call.Call.Args[1])
						if !(strings.Contains(e, "BypassUID") || strings.Contains(e, "AdminUID")) {
							okSrc = false
						}
					}
				}
			})
			c.Check(okSrc && n >= 1, rule, "bypass set built only from BypassUID and AdminUID", c.atFn(is), fmt.Sprintf("%d insert(s), sources BypassUID/AdminUID", n), "the bypass set is filled from something other than the configured UIDs")
		}
	}
}
