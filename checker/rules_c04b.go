package main

import (
	"fmt"
	"go/token"
	"go/types"
	"sort"
	"strings"

	"golang.org/x/tools/go/ssa"
)

// C04.R7 — the decoder cuts the payload where the header says: on every path the slice released as Frame.Payload starts
// at offset 14 of the message and ends at len(message) − header[13]. (The encoder's side of this equation is C04.R3/R4;
// a decoder that derives the cut from anything else — a policy about which frames "should" be padded, a constant tag
// length — decodes a layout-conforming peer's padded frame as payload‖padding.)
func c04R7(c *Ctx, rule string) {
	c.Rule(rule, "decoder payload extent: every value stored into Frame.Payload by the decoder is in[14 : len(in) − header[13]] (affine form with exactly these two symbols), or the whole remainder under the guard header[13] == 0", 1)
	a := getMuxAnchors(c, rule)
	if a == nil {
		return
	}
	dec := a.deobfuscate
	in := ssa.Value(dec.Params[2])
	hdr, _ := headerSlice(dec, in)
	if hdr == nil {
		c.Undecided(rule, "decoder header slice", c.atFn(dec), "not found")
		return
	}
	isE13 := func(v ssa.Value) bool {
		v = stripConv(v)
		ld, ok := v.(*ssa.UnOp)
		if !ok || ld.Op != token.MUL {
			return false
		}
		ia, ok := ld.X.(*ssa.IndexAddr)
		if !ok || ia.X != ssa.Value(hdr) {
			return false
		}
		k, isK := intConst(ia.Index)
		return isK && k == 13
	}
	// offset of a slice base relative to `in`: in → 0; in[K:] → K
	baseOff := func(v ssa.Value) (int64, bool) {
		if v == in {
			return 0, true
		}
		if sl, ok := v.(*ssa.Slice); ok && sl.X == in && sl.High == nil && sl.Low != nil {
			if k, isK := intConst(sl.Low); isK {
				return k, true
			}
		}
		return 0, false
	}
	// normalise an affine form to {len(in), e13, other...}
	norm := func(f Aff) (cLen, cE13 int64, konst int64, others []string) {
		konst = f.C
		for s, k := range f.Terms {
			if call, ok := s.(*ssa.Call); ok && calleeName(&call.Call) == "builtin.len" {
				if off, okB := baseOff(call.Call.Args[0]); okB {
					cLen += k
					konst -= k * off
					continue
				}
			}
			if isE13(s) {
				cE13 += k
				continue
			}
			others = append(others, fmt.Sprintf("%d·%s", k, Expr(s)))
		}
		sort.Strings(others)
		return
	}
	var stores []*ssa.Store
	allInstrs(dec, func(i ssa.Instruction) {
		if st, ok := i.(*ssa.Store); ok {
			if fv, base := fieldVar(st.Addr); fv == a.payload && base == ssa.Value(dec.Params[1]) {
				stores = append(stores, st)
			}
		}
	})
	if len(stores) == 0 {
		c.Undecided(rule, "store to Frame.Payload in the decoder", c.atFn(dec), "not found")
		return
	}
	for _, st := range stores {
		var leaves []ssa.Value
		seen := map[ssa.Value]bool{}
		var walk func(v ssa.Value)
		walk = func(v ssa.Value) {
			if seen[v] {
				return
			}
			seen[v] = true
			if ph, ok := v.(*ssa.Phi); ok {
				for _, e := range ph.Edges {
					walk(e)
				}
				return
			}
			leaves = append(leaves, v)
		}
		walk(st.Val)
		for _, l := range leaves {
			if k, isNil := l.(*ssa.Const); isNil && k.IsNil() {
				continue // the declared zero value of the variable before assignment
			}
			construct := "decoded payload " + Expr(l)
			pos := c.at(st)
			if li, ok := l.(ssa.Instruction); ok {
				pos = c.at(li)
			}
			if off, ok := baseOff(l); ok {
				// the whole remainder: only when the extra length is zero
				zero := false
				// guard must hold where this alternative is chosen: use the φ edge's predecessor when available
				for _, at := range atomsForLeaf(st.Val, l, st) {
					if at.Kind == "cmp" && at.Op == token.EQL {
						if (isE13(at.X) && isK(at.Y, 0)) || (isE13(at.Y) && isK(at.X, 0)) {
							zero = true
						}
						// the same fact in another arrangement: an equation whose two sides differ exactly by the
						// extra length (len(rest) − extra == len(rest))
						d := symAff(at.X, 0).add(symAff(at.Y, 0), -1)
						if d.C == 0 && len(d.Terms) == 1 {
							for s, k := range d.Terms {
								if (k == 1 || k == -1) && isE13(s) {
									zero = true
								}
							}
						}
					}
				}
				c.Check(zero && off == 14, rule, construct, pos, "whole remainder from offset 14, chosen only when header[13] == 0",
					"the decoder releases the whole remainder of the message as payload without a test that the extra length is 0: padding and tag are delivered as data")
				continue
			}
			sl, ok := l.(*ssa.Slice)
			if !ok {
				c.Bad(rule, construct, pos, "payload is not a sub-slice of the received message")
				continue
			}
			off, okB := baseOff(sl.X)
			if !okB || sl.High == nil {
				c.Bad(rule, construct, pos, "payload slice is not of the form message[14 : len − extra]")
				continue
			}
			b := &Bounds{}
			lowC := int64(0)
			if sl.Low != nil {
				k, isK := intConst(sl.Low)
				if !isK {
					c.Bad(rule, construct, pos, "payload start is not a constant offset")
					continue
				}
				lowC = k
			}
			up, ok1 := b.Upper(sl.High)
			lo, ok2 := b.Lower(sl.High)
			if !ok1 || !ok2 {
				c.Undecided(rule, construct, pos, "payload end has no affine form")
				continue
			}
			uL, uE, uK, uO := norm(up)
			lL, lE, lK, lO := norm(lo)
			uK += off
			lK += off
			exact := uL == 1 && lL == 1 && uE == -1 && lE == -1 && uK == 0 && lK == 0 && len(uO) == 0 && len(lO) == 0 && off+lowC == 14
			c.Check(exact, rule, construct, pos, "in[14 : len(in) − header[13]]",
				fmt.Sprintf("payload is message[%d : %s] (start %d; end = %d·len(in) %+d·header[13] %+d %s): the cut is not determined by the header's extra-length byte on this path, so a padded frame from a layout-conforming peer is decoded as payload‖padding (or truncated)",
					off+lowC, up.String(), off+lowC, uL, uE, uK, strings.Join(uO, " ")))
		}
	}
}

// atomsForLeaf: the branch conditions under which `leaf` is the alternative selected for `v` at instruction `at`:
// if v is a φ, the guards of the predecessor block carrying that edge; otherwise the guards at `at`.
func atomsForLeaf(v, leaf ssa.Value, at ssa.Instruction) []Atom {
	var out []Atom
	seen := map[ssa.Value]bool{}
	var walk func(x ssa.Value) bool
	walk = func(x ssa.Value) bool {
		if seen[x] {
			return false
		}
		seen[x] = true
		ph, ok := x.(*ssa.Phi)
		if !ok {
			return x == leaf
		}
		for k, e := range ph.Edges {
			if e == leaf {
				pred := ph.Block().Preds[k]
				for _, g := range GuardsOf(pred) {
					out = append(out, NormCond(g.Cond, g.Pol))
				}
				// the edge itself may be conditional
				if ifi, ok := pred.Instrs[len(pred.Instrs)-1].(*ssa.If); ok {
					out = append(out, NormCond(ifi.Cond, pred.Succs[0] == ph.Block()))
				}
				return true
			}
			if walk(e) {
				return true
			}
		}
		return false
	}
	if !walk(v) || v == leaf {
		return AtomsAt(at)
	}
	return out
}

// exactAff: the affine form of v when its upper and lower forms coincide.
func exactAff(v ssa.Value) (Aff, bool) { return symAff(v, 0), true }

// symAff: v as an affine combination of opaque symbols (no interval reasoning): +, −, ·const are decomposed,
// len(X[a:b]) = b − a and len(X[a:]) = len(X) − a are rewritten, everything else is a symbol.
func symAff(v ssa.Value, depth int) Aff {
	v = stripIntConv(v)
	if k, ok := intConst(v); ok {
		if _, isConv := v.(*ssa.Convert); !isConv {
			return affConst(k)
		}
	}
	if depth%affNoPhi > 12 {
		return affSym(v)
	}
	if ph, ok := v.(*ssa.Phi); ok && depth < affNoPhi {
		if a, okA := phiAffine(ph); okA {
			return a
		}
	}
	if cp, ok := v.(*cellPhi); ok && depth < affNoPhi {
		if a, okA := mergeAffine(mergeNode{cp, cp.blk, cp.Edges}); okA {
			return a
		}
	}
	// a load of a private scalar cell is the value register promotion would have put there (cellssa.go)
	if ld, ok := v.(*ssa.UnOp); ok && ld.Op == token.MUL {
		if _, isA := ld.X.(*ssa.Alloc); isA {
			if cv := cellLoadValue(ld); cv != nil && cv != v {
				return symAff(cv, depth+1)
			}
		}
	}
	if fx, ok := v.(*ssa.Field); ok {
		if fwd := fieldOfLiteral(fx); fwd != nil {
			return symAff(fwd, depth+1)
		}
	}
	if ld, ok := v.(*ssa.UnOp); ok && ld.Op == token.MUL {
		if fa, isFA := ld.X.(*ssa.FieldAddr); isFA {
			if a, isA := fa.X.(*ssa.Alloc); isA && !a.Heap {
				if fwd := localStructField(a, fa.Field, ld, 0); fwd != nil {
					return symAff(fwd, depth+1)
				}
			}
		}
	}
	switch x := v.(type) {
	case *ssa.BinOp:
		switch x.Op {
		case token.ADD:
			return symAff(x.X, depth+1).add(symAff(x.Y, depth+1), 1)
		case token.SUB:
			return symAff(x.X, depth+1).add(symAff(x.Y, depth+1), -1)
		case token.MUL:
			if k, ok := intConst(x.Y); ok {
				return symAff(x.X, depth+1).scale(k)
			}
			if k, ok := intConst(x.X); ok {
				return symAff(x.Y, depth+1).scale(k)
			}
		}
	case *ssa.Call:
		if calleeName(&x.Call) == "builtin.len" && len(x.Call.Args) == 1 {
			if sl, ok := x.Call.Args[0].(*ssa.Slice); ok {
				if _, isArr := sl.X.Type().Underlying().(*types.Pointer); !isArr {
					lo := affConst(0)
					if sl.Low != nil {
						lo = symAff(sl.Low, depth+1)
					}
					if sl.High != nil {
						return symAff(sl.High, depth+1).add(lo, -1)
					}
					// len(X) − a: canonical symbol for len(X) = the first len call on X in the function
					var canon ssa.Value
					if refs := sl.X.Referrers(); refs != nil {
						for _, r := range *refs {
							if lc, isC := r.(*ssa.Call); isC && calleeName(&lc.Call) == "builtin.len" && lc.Call.Args[0] == sl.X {
								if canon == nil || lc.Pos() < canon.Pos() {
									canon = lc
								}
							}
						}
					}
					if canon != nil && canon != ssa.Value(x) {
						return affSym(canon).add(lo, -1)
					}
				}
			}
			// canonical len symbol: first len call on the same argument
			arg := x.Call.Args[0]
			if refs := arg.Referrers(); refs != nil {
				var canon *ssa.Call
				for _, r := range *refs {
					if lc, isC := r.(*ssa.Call); isC && calleeName(&lc.Call) == "builtin.len" && lc.Call.Args[0] == arg {
						if canon == nil || lc.Pos() < canon.Pos() {
							canon = lc
						}
					}
				}
				if canon != nil {
					return affSym(canon)
				}
			}
		}
	}
	return affSym(v)
}

// normSlice expresses v as base[lo:hi] through any nesting of slice expressions; hiOpen means hi = len(base).
func normSlice(v ssa.Value, base ssa.Value) (lo, hi Aff, hiOpen, ok bool) {
	if v == base {
		return affConst(0), Aff{}, true, true
	}
	sl, isSl := v.(*ssa.Slice)
	if !isSl {
		return Aff{}, Aff{}, false, false
	}
	l0, h0, open0, ok0 := normSlice(sl.X, base)
	if !ok0 {
		return Aff{}, Aff{}, false, false
	}
	lo = l0
	if sl.Low != nil {
		a, okA := exactAff(sl.Low)
		if !okA {
			return Aff{}, Aff{}, false, false
		}
		lo = l0.add(a, 1)
	}
	if sl.High != nil {
		a, okA := exactAff(sl.High)
		if !okA {
			return Aff{}, Aff{}, false, false
		}
		return lo, l0.add(a, 1), false, true
	}
	return lo, h0, open0, true
}

// sliceLenAff: len(X[lo:hi]) as a symbolic affine form hi − lo; an open upper end is len(X), named by the first len call
// on X in the function (the symbol symAff uses for every other len(X)).
func sliceLenAff(sl *ssa.Slice) (Aff, bool) {
	if _, isArr := sl.X.Type().Underlying().(*types.Pointer); isArr {
		return Aff{}, false
	}
	lo := affConst(0)
	if sl.Low != nil {
		lo = symAff(sl.Low, 0)
	}
	if sl.High != nil {
		return symAff(sl.High, 0).add(lo, -1), true
	}
	var canon ssa.Value
	if refs := sl.X.Referrers(); refs != nil {
		for _, r := range *refs {
			if lc, isC := r.(*ssa.Call); isC && calleeName(&lc.Call) == "builtin.len" && lc.Call.Args[0] == sl.X {
				if canon == nil || lc.Pos() < canon.Pos() {
					canon = lc
				}
			}
		}
	}
	if canon == nil {
		return Aff{}, false
	}
	return affSym(canon).add(lo, -1), true
}

func affSame(a, b Aff) bool {
	if a.C != b.C {
		return false
	}
	for s, k := range a.Terms {
		if k != 0 && b.Terms[s] != k {
			return false
		}
	}
	for s, k := range b.Terms {
		if k != 0 && a.Terms[s] != k {
			return false
		}
	}
	return true
}

// affNoPhi: depth offset under which symAff leaves φ-nodes alone (used while an invariant between φ-nodes is being
// established, so that the derivation does not chase its own tail).
const affNoPhi = 1000

// phiAffine: a loop variable that is kept in step with another one — `remaining` with `n` in
// `for remaining := len(in); …; remaining = len(in) - n` — is that other variable up to an invariant: p = A ± q where, on
// every incoming edge, the operands of p and q differ by the same A (an expression free of this block's φ-nodes). Then p
// may be replaced by A ± q wherever it is compared.
func phiAffine(p *ssa.Phi) (Aff, bool) {
	return mergeAffine(mergeNode{p, p.Block(), p.Edges})
}

// mergeNode: a φ-node, or the merge node of a promoted cell (cellssa.go) — a value per incoming edge of a block.
type mergeNode struct {
	v     ssa.Value
	blk   *ssa.BasicBlock
	edges []ssa.Value
}

func isIntValue(v ssa.Value) bool {
	b, ok := v.Type().Underlying().(*types.Basic)
	return ok && b.Info()&types.IsInteger != 0
}

func mergeNodesAt(blk *ssa.BasicBlock) []mergeNode {
	var out []mergeNode
	for _, in := range blk.Instrs {
		q, ok := in.(*ssa.Phi)
		if !ok {
			break
		}
		if isIntValue(q) {
			out = append(out, mergeNode{q, blk, q.Edges})
		}
	}
	for _, cp := range cellPhisAt(blk.Parent(), blk) {
		if isIntValue(cp) {
			out = append(out, mergeNode{cp, blk, cp.Edges})
		}
	}
	return out
}

func mergeAffine(p mergeNode) (Aff, bool) {
	if !isIntValue(p.v) {
		return Aff{}, false
	}
	blk := p.blk
	mentionsMerge := func(a Aff) bool {
		for s := range a.Terms {
			if ph, ok := s.(*ssa.Phi); ok && ph.Block() == blk {
				return true
			}
			if cp, ok := s.(*cellPhi); ok && cp.blk == blk {
				return true
			}
		}
		return false
	}
	for _, q := range mergeNodesAt(blk) {
		if q.v == p.v {
			break // a node is only expressed through nodes before it in the block's order: no two-way rewriting
		}
		if len(q.edges) != len(p.edges) {
			continue
		}
		for _, c := range []int64{-1, 1} {
			var inv Aff
			ok := true
			for k := range p.edges {
				if p.edges[k] == nil || q.edges[k] == nil {
					ok = false
					break
				}
				d := symAff(p.edges[k], affNoPhi).add(symAff(q.edges[k], affNoPhi), -c)
				if mentionsMerge(d) {
					ok = false
					break
				}
				if k == 0 {
					inv = d
				} else if !affSame(inv, d) {
					ok = false
					break
				}
			}
			// a constant difference alone says nothing new about a counter (i and i+1 style pairs are left alone)
			if ok && !inv.isConst() {
				return inv.add(affSym(q.v), c), true
			}
		}
	}
	return Aff{}, false
}
