package main

import (
	"fmt"
	"go/token"
	"go/types"
	"sort"
	"strings"

	"golang.org/x/tools/go/ssa"
)

func init() {
	register(&PropDef{
		ID: "C10", Title: "everything on the wire in direct mode is a well-formed TLS record stream",
		Run:       runC10,
		Technique: "static analysis: constant byte-template extraction of the record wrappers and the hand-composed ServerHello (declared lengths vs composed lengths), value-flow of the echoed session id from this connection's ClientHello, who-may-write on the raw connection, constant limit chain; imports C05's record-header rule",
		Decided: "(a, wrapper only) the client's first flight is AddRecordLayer(hello, 22, 0x0301) — type, version, big-endian length, body — written by one Write before the connection is wrapped, with random, a fresh 32-byte session id and the key share overwritten before the hello is rebuilt, and the server name taken from the configuration or the random generator; " +
			"(b) the server reply is three records 22/20/23 of version 3.3 whose ServerHello has consistent declared lengths (handshake 118, extensions 46, key share 36/32), echoes the session id of the ClientHello that this very connection sent (slice of a buffer private to the parse), and is written by one Write before wrapping; " +
			"(c) after wrapping, the raw connection is written only by TLSConn.Write, whose records are 17 03 03 ‖ len ‖ body with 0 < len <= 16640 (imported C05.R4), and the limit chain 16401 <= 16640 <= receive buffer holds with both ends using the same application-data limit.",
		NotDecided:  "structural validity of the ClientHello body produced by uTLS (library); WebSocket/CDN mode (outside the property); that the kernel does not split records (TCP).",
		Assumptions: []string{"uTLS marshals the ClientHello it is configured with"},
	})
}

func runC10(c *Ctx) {
	c10R1(c, "C10.R1")
	c10R2(c, "C10.R2")
	c10R3(c, "C10.R3")
	c.importing = "C05"
	c05R4(c, "C05.R4")
	// "length is non-zero": nothing empty is ever handed to the record writer — the frame encoder refuses an empty
	// payload before anything else
	c.importing = "C04"
	c04R6(c, "C04.R6")
	c.importing = ""
	c10R5(c, "C10.R5")
}

// constBytes: the constant bytes of a slice literal ([]byte{…}).
func constBytes(v ssa.Value) ([]int64, bool) {
	sl, ok := v.(*ssa.Slice)
	if !ok || sl.Low != nil || sl.High != nil {
		return nil, false
	}
	al, ok := sl.X.(*ssa.Alloc)
	if !ok {
		return nil, false
	}
	at, ok := al.Type().(*types.Pointer).Elem().Underlying().(*types.Array)
	if !ok {
		return nil, false
	}
	out := make([]int64, at.Len())
	set := make([]bool, at.Len())
	for _, r := range *al.Referrers() {
		ia, ok := r.(*ssa.IndexAddr)
		if !ok {
			continue
		}
		k, isK := intConst(ia.Index)
		if !isK {
			return nil, false
		}
		for _, rr := range *ia.Referrers() {
			if st, ok := rr.(*ssa.Store); ok {
				b, isB := intConst(st.Val)
				if !isB {
					return nil, false
				}
				out[k], set[k] = b, true
			}
		}
	}
	for _, s := range set {
		if !s {
			// zero-valued elements are not stored explicitly
			continue
		}
	}
	return out, true
}

func c10R1(c *Ctx, rule string) {
	c.Rule(rule, "client first flight: AddRecordLayer = typ ‖ ver(BE16) ‖ len(BE16) ‖ body; called with (hello, 22, 0x0301); one Write before wrapping; random/session id/key share set between the two BuildHandshakeState calls; server name from config or generator", 5)
	p := c.P
	arl := c.need(rule, "internal/common", "AddRecordLayer")
	hs := c.need(rule, "internal/client", "DirectTLS.Handshake")
	bch := c.need(rule, "internal/client", "buildClientHello")
	if arl == nil || hs == nil || bch == nil {
		return
	}
	// template of AddRecordLayer, structurally: byte 0 = the type parameter, bytes 1..2 = the version parameter big-endian,
	// bytes 3..4 = len(input) big-endian (manual shifts or encoding/binary), the body copied at offset 5, len = len(input)+5
	{
		in, typ, ver := ssa.Value(arl.Params[0]), ssa.Value(arl.Params[1]), ssa.Value(arl.Params[2])
		roleOf := func(v ssa.Value) string {
			v = stripConv(v)
			switch {
			case v == typ:
				return "type"
			case v == ver:
				return "version"
			}
			if lc, ok := v.(*ssa.Call); ok && calleeName(&lc.Call) == "builtin.len" && lc.Call.Args[0] == in {
				return "len(input)"
			}
			if bo, ok := v.(*ssa.BinOp); ok {
				return Expr(bo)
			}
			return Expr(v)
		}
		var bstores []byteStore
		var entries []layoutEntry
		copyAt := int64(-1)
		retLenOK := false
		allInstrs(arl, func(i ssa.Instruction) {
			switch x := i.(type) {
			case *ssa.Store:
				if ia, ok := x.Addr.(*ssa.IndexAddr); ok {
					if k, isK := intConst(ia.Index); isK {
						bstores = append(bstores, byteStore{k, x.Val, i})
					}
				}
			case *ssa.Call:
				n := calleeName(&x.Call)
				if n == "builtin.copy" && x.Call.Args[1] == in {
					if sl, ok := x.Call.Args[0].(*ssa.Slice); ok && sl.Low != nil && sl.High == nil {
						copyAt, _ = intConst(sl.Low)
					}
				}
				if strings.Contains(n, "bigEndian).PutUint16") {
					args := x.Call.Args
					if sl, ok := args[len(args)-2].(*ssa.Slice); ok && sl.Low != nil && sl.High != nil {
						lo, okL := intConst(sl.Low)
						hi, okH := intConst(sl.High)
						if okL && okH && hi-lo == 2 {
							entries = append(entries, layoutEntry{lo, hi, "BE16", roleOf(args[len(args)-1]), i})
						}
					}
				}
			case *ssa.MakeSlice:
				b := &Bounds{}
				up, ok1 := b.Upper(x.Len)
				lo, ok2 := b.Lower(x.Len)
				if ok1 && ok2 && up.C == 5 && lo.C == 5 && len(up.Terms) == 1 && len(lo.Terms) == 1 {
					for s, k := range up.Terms {
						if lc, ok := s.(*ssa.Call); ok && k == 1 && calleeName(&lc.Call) == "builtin.len" && lc.Call.Args[0] == in {
							retLenOK = true
						}
					}
				}
			}
		})
		fields, rest := groupBigEndian(bstores, roleOf)
		entries = append(entries, fields...)
		for _, s := range rest {
			entries = append(entries, layoutEntry{s.off, s.off + 1, "byte", roleOf(s.val), s.at})
		}
		sort.Slice(entries, func(i, j int) bool { return entries[i].lo < entries[j].lo })
		got := layoutString(entries)
		want := "[0:1] byte type, [1:3] BE16 version, [3:5] BE16 len(input)"
		c.Check(got == want && copyAt == 5 && retLenOK, rule, "AddRecordLayer template", c.atFn(arl), "ret = typ ‖ BE16(ver) ‖ BE16(len) ‖ input",
			fmt.Sprintf("record wrapper writes {%s}, body at %d, length len(input)+5=%v: not type ‖ version ‖ big-endian length ‖ body", got, copyAt, retLenOK))
	}
	// call site
	var arlCall, write, wrap ssa.Instruction
	allInstrs(hs, func(i ssa.Instruction) {
		if call, ok := i.(*ssa.Call); ok {
			if call.Call.StaticCallee() == arl {
				arlCall = i
			}
			if calleeName(&call.Call) == "(net.Conn).Write" && call.Call.Value == ssa.Value(hs.Params[1]) {
				write = i
			}
			if strings.HasSuffix(calleeName(&call.Call), "common.NewTLSConn") {
				wrap = i
			}
		}
	})
	okCall := false
	if arlCall != nil {
		args := arlCall.(*ssa.Call).Call.Args
		t, okT2 := intConst(args[1])
		v, okV := intConst(args[2])
		okCall = okT2 && okV && t == 22 && v == 0x0301
	}
	c.Check(okCall, rule, "first flight wrapped as handshake record, version 3.1", c.atFn(hs), "AddRecordLayer(ch, Handshake=22, VersionTLS11=0x0301)", "the ClientHello is not wrapped as type 22 / version 0x0301")
	okWrite := write != nil && arlCall != nil && wrap != nil && write.(*ssa.Call).Call.Args[0] == arlCall.(ssa.Value) && instrDominates(write, wrap)
	c.Check(okWrite, rule, "ClientHello record written once, before the connection is wrapped", c.atFn(hs), "rawConn.Write(chWithRecordLayer) dominates NewTLSConn(rawConn)", "the first flight is not the single pre-wrap write of the wrapped hello")
	// buildClientHello: between the two BuildHandshakeState calls: SetClientRandom, SessionId = make(32)+copy, key share copy
	var builds []ssa.Instruction
	var setRandom, sidStore, ksCopy ssa.Instruction
	allInstrs(bch, func(i ssa.Instruction) {
		switch x := i.(type) {
		case *ssa.Call:
			n := calleeName(&x.Call)
			switch {
			case strings.HasSuffix(n, "UConn).BuildHandshakeState"):
				builds = append(builds, i)
			case strings.HasSuffix(n, "UConn).SetClientRandom"):
				setRandom = i
			case n == "builtin.copy":
				if strings.Contains(Expr(x.Call.Args[0]), "KeyShares") {
					srcF, _ := loadedField(x.Call.Args[1])
					if strings.Contains(Expr(x.Call.Args[1]), "x25519KeyShare") || isField(srcF, "internal/client", "clientHelloFields", "x25519KeyShare") {
						ksCopy = i
					}
				}
			}
		case *ssa.Store:
			if fv, _ := fieldVar(x.Addr); fv != nil && fv.Name() == "SessionId" {
				if k, isK := constLenOf(x.Val); isK && k == 32 {
					sidStore = i
				}
			}
		}
	})
	okOrder := len(builds) == 2 && setRandom != nil && sidStore != nil && ksCopy != nil
	if okOrder {
		first, second := builds[0], builds[1]
		if instrDominates(second, first) {
			first, second = second, first
		}
		for _, x := range []ssa.Instruction{setRandom, sidStore, ksCopy} {
			if !(instrDominates(first, x) && instrDominates(x, second)) {
				okOrder = false
			}
		}
	}
	c.Check(okOrder, rule, "random, 32-byte session id and key share overwritten before the hello is rebuilt", c.atFn(bch), "BuildHandshakeState; SetClientRandom; SessionId = make(32)+copy; copy(KeyShares[x25519].Data, …); BuildHandshakeState", fmt.Sprintf("builds=%d, SetClientRandom=%v, 32-byte session id=%v, key share copy=%v (or not between the two builds)", len(builds), setRandom != nil, sidStore != nil, ksCopy != nil))
	// server name: fields.serverName = authInfo.MockDomain, or randomServerName() under EqualFold(…, "random")
	okName := false
	allInstrs(hs, func(i ssa.Instruction) {
		if call, ok := i.(*ssa.Call); ok && calleeName(&call.Call) == "strings.EqualFold" {
			if s, isS := strConst(call.Call.Args[1]); isS && s == "random" {
				for _, rc := range callsIn(hs, "internal/client.randomServerName") {
					for _, at := range AtomsAt(rc) {
						if at.Kind == "call" && at.Pol && at.Call == call {
							okName = true
						}
					}
				}
			}
		}
	})
	c.Check(okName, rule, "server name = configured name, or a generated one for \"random\"", c.atFn(hs), "EqualFold(serverName, \"random\") ⇒ randomServerName()", "the SNI is not taken from the configuration / random generator as documented")
	_ = p
}

func c10R2(c *Ctx, rule string) {
	c.Rule(rule, "server reply template: ServerHello ‖ CCS ‖ application data, version 3.3, consistent declared lengths, session id echoed from this connection's ClientHello", 7)
	p := c.P
	csh := c.need(rule, "internal/server", "composeServerHello")
	cr := c.need(rule, "internal/server", "composeReply")
	if csh == nil || cr == nil {
		return
	}
	// the reply template on the flattened bytes: composeServerHello and composeReply are evaluated to byte sequences
	// (bseq.go) whatever way they are put together, the record wrapper included
	c10ReplyFlat(c, rule, csh, cr)
	// echo: makeResponder's first argument is ch.sessionId of the ClientHello parsed from this packet, whose backing
	// buffer is private to the parse (a fresh make, not a pool)
	pfp := p.Func("internal/server", "TLS.processFirstPacket")
	pch := p.Func("internal/server", "parseClientHello")
	okEcho, okFresh := false, false
	if pfp != nil && pch != nil {
		var parse *ssa.Call
		allInstrs(pfp, func(i ssa.Instruction) {
			if call, ok := i.(*ssa.Call); ok && call.Call.StaticCallee() == pch && call.Call.Args[0] == ssa.Value(pfp.Params[1]) {
				parse = call
			}
		})
		allInstrs(pfp, func(i ssa.Instruction) {
			if call, ok := i.(*ssa.Call); ok && strings.HasSuffix(calleeName(&call.Call), "TLS).makeResponder") && parse != nil {
				fv, base := loadedField(call.Call.Args[1])
				if fv != nil && fv.Name() == "sessionId" {
					if ex, ok := base.(*ssa.Extract); ok && ex.Tuple == ssa.Value(parse) {
						okEcho = true
					}
				}
			}
		})
		// parseClientHello: the struct's slices are slices of a MakeSlice local
		fresh := true
		n := 0
		allInstrs(pch, func(i ssa.Instruction) {
			if sl, ok := i.(*ssa.Slice); ok {
				root := sl.X
				if root == ssa.Value(pch.Params[0]) {
					return
				}
				if _, isMk := root.(*ssa.MakeSlice); isMk {
					n++
					return
				}
				if _, isAl := root.(*ssa.Alloc); isAl {
					return
				}
				if _, isSl := root.(*ssa.Slice); isSl {
					return
				}
				fresh = false
			}
		})
		okFresh = fresh && n > 0 && len(callsIn(pch, "(*sync.Pool).Get")) == 0
	}
	c.Check(okEcho, rule, "echoed session id comes from the ClientHello of this very packet", c.atFn(csh), "makeResponder(parseClientHello(thisPacket).sessionId, …)", "the session id handed to the responder is not the one parsed from this connection's first packet")
	c.Check(okFresh, rule, "parsed ClientHello fields live in a buffer private to the parse", c.atFn(csh), "peeled := make([]byte, …) per call", "the parsed hello's slices alias a shared/pooled buffer: by the time the reply is composed another connection may have overwritten the session id")
}

func toBytes(v []int64) []byte {
	out := make([]byte, len(v))
	for i, x := range v {
		out[i] = byte(x)
	}
	return out
}

func c10R3(c *Ctx, rule string) {
	c.Rule(rule, "later bytes: the connection embedded in TLSConn is written only by TLSConn.Write; the pre-wrap writers are the client's hello write and the server's reply write, each dominating NewTLSConn", 2)
	p := c.P
	a := getTLS(c, rule)
	if a == nil {
		return
	}
	var bad []string
	n := 0
	for _, f := range p.RepoFuncs {
		if strings.HasSuffix(p.Pos(f.Pos()), "_test.go") {
			continue
		}
		for _, u := range a.connUses(f) {
			if call, ok := u.(*ssa.Call); ok && calleeName(&call.Call) == "(net.Conn).Write" {
				n++
				if f != a.write {
					bad = append(bad, shortFn(f)+" at "+c.at(u))
				}
			}
		}
	}
	c.Check(len(bad) == 0 && n > 0, rule, "raw connection of a TLSConn written only by TLSConn.Write", c.atFn(a.write), fmt.Sprintf("%d write site(s), all in (*TLSConn).Write", n), "the wrapped connection is also written by "+strings.Join(bad, ", ")+": bytes outside any application-data record reach the wire")
	// server responder: originalConn.Write(reply) dominates NewTLSConn(originalConn)
	okSrv := false
	if mr := p.Func("internal/server", "TLS.makeResponder"); mr != nil {
		for _, an := range mr.AnonFuncs {
			var w, wrap ssa.Instruction
			allInstrs(an, func(i ssa.Instruction) {
				if call, ok := i.(*ssa.Call); ok {
					if calleeName(&call.Call) == "(net.Conn).Write" && call.Call.Value == ssa.Value(an.Params[0]) {
						w = i
					}
					if strings.HasSuffix(calleeName(&call.Call), "common.NewTLSConn") && call.Call.Args[0] == ssa.Value(an.Params[0]) {
						wrap = i
					}
				}
			})
			if w != nil && wrap != nil && instrDominates(w, wrap) {
				// the bytes written are composeReply's result
				if call, ok := w.(*ssa.Call).Call.Args[0].(*ssa.Call); ok && strings.HasSuffix(calleeName(&call.Call), "composeReply") {
					okSrv = true
				}
			}
		}
	}
	c.Check(okSrv, rule, "server reply is the single pre-wrap write", "internal/server/TLS.go", "originalConn.Write(composeReply(…)) dominates NewTLSConn(originalConn)", "the server writes something other than the composed reply before wrapping the connection")
}

func c10R5(c *Ctx, rule string) {
	c.Rule(rule, "limit chain: client and server application-data limits are equal and <= the record limit 16640 <= the receive buffer; the default on-wire size <= 16640", 4)
	p := c.P
	cl, ok1 := p.Const("internal/client", "appDataMaxLength")
	sv, ok2 := p.Const("internal/server", "appDataMaxLength")
	df, ok3 := p.Const("internal/multiplex", "defaultMaxOnWireSize")
	if !ok1 || !ok2 || !ok3 {
		c.Undecided(rule, "constants appDataMaxLength (client, server) / defaultMaxOnWireSize", "-", "not found")
		return
	}
	c.Check(cl == sv, rule, "client and server use the same application-data limit", "-", fmt.Sprint(cl), fmt.Sprintf("client limit %d, server limit %d: one side produces records the other considers oversize", cl, sv))
	c.Check(cl <= 16640 && cl > 269, rule, "application-data limit within the record limit", "-", fmt.Sprintf("269 < %d <= 16640", cl), fmt.Sprintf("limit %d is outside (269, 16640]", cl))
	c.Check(df <= 16640, rule, "default on-wire size within the record limit", "-", fmt.Sprint(df), fmt.Sprintf("default %d exceeds 2^14+256", df))
	// receive buffer: the constant stored into connReceiveBufferSize
	rb := int64(-1)
	if fv := p.Field("internal/multiplex", "Session", "connReceiveBufferSize"); fv != nil {
		for _, st := range FieldStores(p, fv) {
			if k, isK := intConst(st.Val); isK {
				rb = k
			}
		}
	}
	c.Check(rb >= 16640, rule, "receive buffer holds a maximal record", "-", fmt.Sprintf("connReceiveBufferSize = %d >= 16640", rb), fmt.Sprintf("receive buffer %d is smaller than a maximal record: the peer's reader reports ErrShortBuffer and the session dies", rb))
	// both sessions are created with MsgOnWireSizeLimit = appDataMaxLength
	lim := p.Field("internal/multiplex", "SessionConfig", "MsgOnWireSizeLimit")
	n := 0
	if lim != nil {
		for _, st := range FieldStores(p, lim) {
			if strings.HasSuffix(p.Pos(st.Pos()), "_test.go") || strings.HasSuffix(p.Pos(st.Pos()), "_fuzz.go") {
				continue
			}
			fn := shortFn(st.Parent())
			if strings.HasSuffix(fn, "MakeSession") && strings.Contains(fn, "multiplex") {
				continue // the default inside MakeSession
			}
			k, isK := intConst(st.Val)
			n++
			c.Check(isK && k == cl, rule, "session limit set from the application-data limit in "+fn, c.at(st), fmt.Sprint(k), "a session is configured with on-wire limit "+Expr(st.Val)+" instead of appDataMaxLength")
		}
	}
	if n == 0 {
		c.Undecided(rule, "stores to SessionConfig.MsgOnWireSizeLimit", "-", "none found")
	}
	_ = token.ADD
}
