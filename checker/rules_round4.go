package main

import (
	"fmt"
	"go/types"
	"strings"

	"golang.org/x/tools/go/ssa"
)

// Rules added after the fourth round of independently seeded changes (DESIGN.md §9.3).

// C15.R6 — removal is look-up-and-delete in one step. ActiveUser.CloseSession looks the session up by id and deletes the
// entry by id; if the two are not one exclusive critical section, a slow closer's late delete-by-id removes a *newer*
// session that was created under the same id in between: that session stays open but is no longer counted, and the
// user holds cap+1 sessions (and two sessions with different keys answer to one id).
func c15R6(c *Ctx, rule string) {
	c.Rule(rule, "removal side of the session table: in CloseSession the look-up of the session and the delete of its entry are one exclusive critical section of sessionsM, on the same key", 2)
	p := c.P
	cs := c.need(rule, "internal/server", "ActiveUser.CloseSession")
	sessF := p.Field("internal/server", "ActiveUser", "sessions")
	sessM := p.Field("internal/server", "ActiveUser", "sessionsM")
	if cs == nil || sessF == nil || sessM == nil {
		c.Undecided(rule, "anchors ActiveUser.CloseSession / sessions / sessionsM", "-", "not found")
		return
	}
	var lookup *ssa.Lookup
	var del *ssa.Call
	p.unitInstrs(cs, func(i ssa.Instruction) {
		switch x := i.(type) {
		case *ssa.Lookup:
			if fv, _ := loadedField(x.X); fv == sessF && lookup == nil {
				lookup = x
			}
		case *ssa.Call:
			if calleeName(&x.Call) == "builtin.delete" && len(x.Call.Args) == 2 {
				if fv, _ := loadedField(x.Call.Args[0]); fv == sessF {
					del = x
				}
			}
		}
	})
	if lookup == nil || del == nil {
		c.Undecided(rule, "look-up and delete in CloseSession", c.atFn(cs), fmt.Sprintf("look-up found=%v, delete found=%v", lookup != nil, del != nil))
		return
	}
	ls := p.Locksets()
	okL, el := lockHeldByClass(ls.MustHeld(lookup), sessM)
	okD, ed := lockHeldByClass(ls.MustHeld(del), sessM)
	between := onPathBetween(lookup, del, func(x ssa.Instruction) bool {
		k, path, ok := lockOp(x)
		return ok && (k == "unlock" || k == "runlock") && len(path.Chain) > 0 && path.Chain[len(path.Chain)-1] == sessM
	})
	c.Check(okL && okD && el.Excl && ed.Excl && between == nil && instrDominates(lookup, del), rule, "one exclusive section around look-up→delete in CloseSession", c.at(lookup),
		"sessionsM held exclusively at both, no unlock in between",
		fmt.Sprintf("look-up and delete are not one critical section (look-up exclusive=%v, delete exclusive=%v, unlock between=%v): a closer that was overtaken deletes, by id, a newer session created under the same id — it stays open and uncounted (cap+1)", okL && el.Excl, okD && ed.Excl, between != nil))
	c.Check(sameValueOrLoad(stripConv(lookup.Index), stripConv(del.Call.Args[1])), rule, "same key looked up and deleted in CloseSession", c.at(del), "key "+Expr(del.Call.Args[1]), "the entry deleted is not the one looked up")
}

// C16.R6 — usage leaves the valve and enters the queue under the queue lock. commitUpdate replaces the whole queue
// under usageUpdateQueueM; a drained amount that is added to an entry *after* the lock was released can land on an
// entry object that the commit has just uploaded and dropped: the bytes are out of the valve, in no queue, and are
// never charged.
func c16R6(c *Ctx, rule string) {
	c.Rule(rule, "filing under the queue lock: every add to / construction of a usage-queue entry's counters from a drained valve happens with usageUpdateQueueM held", 2)
	p := c.P
	qM := p.Field("internal/server", "userPanel", "usageUpdateQueueM")
	pairT := p.Named("internal/server", "usagePair")
	if qM == nil || pairT == nil {
		c.Undecided(rule, "anchors userPanel.usageUpdateQueueM / usagePair", "-", "not found")
		return
	}
	ls := p.Locksets()
	n := 0
	for _, name := range []string{"userPanel.updateUsageQueue", "userPanel.updateUsageQueueForOne"} {
		f := p.Func("internal/server", name)
		if f == nil {
			c.Undecided(rule, "anchor "+name, "-", "not found")
			continue
		}
		p.unitInstrs(f, func(i ssa.Instruction) {
			// the same add written without sync/atomic: *pair.up += n (a store through the pointer held in the entry)
			if st, isSt := i.(*ssa.Store); isSt {
				if fv, _ := loadedField(st.Addr); fv != nil && fieldOfNamed(fv, pairT) {
					n++
					held, _ := lockHeldByClass(ls.MustHeld(st), qM)
					c.Check(held, rule, "write through usagePair."+fv.Name()+" in "+shortFn(p.ownerAnchor(st.Parent())), c.at(st), "usageUpdateQueueM ∈ must-hold set",
						"drained usage is written into a queue entry without the queue lock: a commit in between uploads and drops the entry, and the bytes added afterwards are never charged")
				}
				return
			}
			call, ok := i.(*ssa.Call)
			if !ok {
				return
			}
			// atomic.AddInt64(pair.up / pair.down, drained)
			if calleeName(&call.Call) != "sync/atomic.AddInt64" || len(call.Call.Args) != 2 {
				return
			}
			// the counter is what the entry's field points to, or the field itself (a value or atomic.Int64 field)
			fv, _ := loadedField(call.Call.Args[0])
			if fv == nil || !fieldOfNamed(fv, pairT) {
				fv, _ = fieldVar(call.Call.Args[0])
			}
			if fv == nil || !fieldOfNamed(fv, pairT) {
				return
			}
			n++
			held, _ := lockHeldByClass(ls.MustHeld(call), qM)
			c.Check(held, rule, "add to usagePair."+fv.Name()+" in "+shortFn(p.ownerAnchor(call.Parent())), c.at(call), "usageUpdateQueueM ∈ must-hold set",
				"drained usage is added to a queue entry without the queue lock: a commit in between uploads and drops the entry, and the bytes added afterwards are never charged")
		})
	}
	if n == 0 {
		c.Undecided(rule, "adds to usage-queue entries", "-", "no atomic add to a usagePair counter found in the collection functions")
	}
}

// fieldOfNamed: fv is a field of the struct type named n.
func fieldOfNamed(fv *types.Var, n *types.Named) bool {
	st, ok := n.Underlying().(*types.Struct)
	if !ok {
		return false
	}
	for k := 0; k < st.NumFields(); k++ {
		if st.Field(k) == fv {
			return true
		}
	}
	return false
}

// C18.R6 — a write is the request, not a read-modify-write across transactions. The record handed to WriteUserInfo by
// the admin handler is built from the request body alone; if a stored record (read in an earlier, separate
// transaction) flows into it, every change committed between that read and the write — a top-up, a usage charge, a
// delete — is silently undone by the write.
func c18R6(c *Ctx, rule string) {
	c.Rule(rule, "no lost update through the admin write: the record passed to WriteUserInfo by writeUserInfoHlr does not stem from a read of the store in the same handler", 1)
	p := c.P
	h := c.need(rule, umRel, "APIRouter.writeUserInfoHlr")
	if h == nil {
		return
	}
	var writes []*ssa.Call
	var reads []*ssa.Call
	p.unitInstrs(h, func(i ssa.Instruction) {
		call, ok := i.(*ssa.Call)
		if !ok || !call.Call.IsInvoke() || !strings.HasSuffix(typeStr(call.Call.Value.Type()), "usermanager.UserManager") {
			return
		}
		wname := curName(umRel, "localManager.WriteUserInfo")
		if wname == "" {
			wname = "WriteUserInfo"
		}
		if call.Call.Method.Name() == wname {
			writes = append(writes, call)
		} else {
			reads = append(reads, call)
		}
	})
	if len(writes) == 0 {
		c.Undecided(rule, "WriteUserInfo call in writeUserInfoHlr", c.atFn(h), "not found")
		return
	}
	for _, w := range writes {
		bad := ""
		for _, a := range w.Call.Args {
			for _, r := range reads {
				if valueDependsOn(a, r, 0) {
					bad = r.Call.Method.Name()
				}
			}
		}
		c.Check(bad == "", rule, "record written by writeUserInfoHlr comes from the request only", c.at(w), "no result of a manager read flows into the record",
			"the record written stems from "+bad+"(…) read earlier in the handler, in a separate transaction: whatever was committed in between (credit top-up, usage upload, delete) is overwritten with the old values")
	}
}
