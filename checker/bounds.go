package main

import (
	"fmt"
	"go/token"
	"go/types"
	"sort"
	"strings"

	"golang.org/x/tools/go/ssa"
)

// E7 BOUNDS — affine forms over SSA symbols with interval facts from contracts; upper/lower bounds by
// substitution with cancellation (no solver).

type Aff struct {
	C     int64
	Terms map[ssa.Value]int64
}

func affConst(c int64) Aff { return Aff{C: c, Terms: map[ssa.Value]int64{}} }
func affSym(v ssa.Value) Aff {
	return Aff{Terms: map[ssa.Value]int64{v: 1}}
}
func (a Aff) add(b Aff, sign int64) Aff {
	r := Aff{C: a.C + sign*b.C, Terms: map[ssa.Value]int64{}}
	for k, v := range a.Terms {
		r.Terms[k] += v
	}
	for k, v := range b.Terms {
		r.Terms[k] += sign * v
	}
	for k, v := range r.Terms {
		if v == 0 {
			delete(r.Terms, k)
		}
	}
	return r
}
func (a Aff) scale(k int64) Aff {
	r := Aff{C: a.C * k, Terms: map[ssa.Value]int64{}}
	for s, v := range a.Terms {
		if v*k != 0 {
			r.Terms[s] = v * k
		}
	}
	return r
}
func (a Aff) isConst() bool { return len(a.Terms) == 0 }
func (a Aff) String() string {
	var parts []string
	for s, k := range a.Terms {
		t := Expr(s)
		if k != 1 {
			t = fmt.Sprintf("%d·%s", k, t)
		}
		parts = append(parts, t)
	}
	sort.Strings(parts)
	if a.C != 0 || len(parts) == 0 {
		parts = append(parts, fmt.Sprint(a.C))
	}
	return strings.Join(parts, " + ")
}

type Bounds struct {
	depth      int
	narrowBusy map[ssa.Value]bool
}

// narrowIntRange: the value range of 8- and 16-bit integer types (arithmetic in them is checked for wrap-around).
func narrowIntRange(t types.Type) (lo, hi int64, ok bool) {
	b, isB := t.Underlying().(*types.Basic)
	if !isB {
		return 0, 0, false
	}
	switch b.Kind() {
	case types.Uint8:
		return 0, 255, true
	case types.Int8:
		return -128, 127, true
	case types.Uint16:
		return 0, 65535, true
	case types.Int16:
		return -32768, 32767, true
	}
	return 0, 0, false
}

// contractInterval: intervals of library results the engines trust (listed in the evidence).
func contractInterval(v ssa.Value) (lo, hi int64, okLo, okHi bool) {
	switch x := v.(type) {
	case *ssa.Call:
		n := calleeName(&x.Call)
		switch {
		case n == "(crypto/cipher.AEAD).Overhead":
			return 16, 16, true, true
		case n == "(crypto/cipher.AEAD).NonceSize":
			return 12, 12, true, true
		case n == "builtin.len" || n == "builtin.cap":
			return 0, 0, true, false
		}
	case *ssa.Convert:
		// conversion from a byte: [0,255]
		if b, ok := x.X.Type().Underlying().(interface{ Kind() int }); ok {
			_ = b
		}
		if typeStr(x.X.Type()) == "byte" || typeStr(x.X.Type()) == "uint8" {
			return 0, 255, true, true
		}
	case *ssa.UnOp:
		if x.Op == token.MUL && (typeStr(x.Type()) == "byte" || typeStr(x.Type()) == "uint8") {
			return 0, 255, true, true
		}
	case *ssa.Phi:
		// union of the edges' constant intervals
		first := true
		okLo, okHi = true, true
		for _, e := range x.Edges {
			var l, h int64
			var ol, oh bool
			if k, isK := intConst(e); isK {
				l, h, ol, oh = k, k, true, true
			} else {
				l, h, ol, oh = contractInterval(stripIntConv(e))
			}
			if first {
				lo, hi, okLo, okHi = l, h, ol, oh
				first = false
				continue
			}
			okLo, okHi = okLo && ol, okHi && oh
			if l < lo {
				lo = l
			}
			if h > hi {
				hi = h
			}
		}
		return
	}
	return 0, 0, false, false
}

func stripIntConv(v ssa.Value) ssa.Value {
	for {
		c, ok := v.(*ssa.Convert)
		if !ok {
			return v
		}
		// only widening / same-size integer conversions preserve the value; byte→int does
		from, to := typeStr(c.X.Type()), typeStr(c.Type())
		if (from == "byte" || from == "uint8") && to != "int8" {
			return v // keep the Convert: its interval [0,255] is a contract
		}
		if to == "byte" || to == "uint8" || to == "int8" || to == "uint16" || to == "int16" {
			return v // narrowing: value may wrap — treat as opaque symbol
		}
		v = c.X
	}
}

// Upper returns an affine upper bound of v; Lower an affine lower bound.
func (b *Bounds) Upper(v ssa.Value) (Aff, bool) { return b.bound(v, true) }
func (b *Bounds) Lower(v ssa.Value) (Aff, bool) { return b.bound(v, false) }

func (b *Bounds) bound(v ssa.Value, upper bool) (Aff, bool) {
	b.depth++
	defer func() { b.depth-- }()
	if b.depth > 24 {
		return Aff{}, false
	}
	v = stripIntConv(v)
	if k, ok := intConst(v); ok {
		if _, isConv := v.(*ssa.Convert); !isConv {
			return affConst(k), true
		}
	}
	switch x := v.(type) {
	case *ssa.BinOp:
		// arithmetic in a narrow integer type wraps: unless both mathematical bounds provably stay inside the type's
		// range, the result is anywhere in that range (27 + b for a byte b is 0 … 255, not 27 … 282)
		if lo, hi, narrow := narrowIntRange(x.Type()); narrow && !b.narrowBusy[v] && (x.Op == token.ADD || x.Op == token.SUB || x.Op == token.MUL) {
			if b.narrowBusy == nil {
				b.narrowBusy = map[ssa.Value]bool{}
			}
			b.narrowBusy[v] = true
			up, ok1 := b.bound(v, true)
			dn, ok2 := b.bound(v, false)
			delete(b.narrowBusy, v)
			fits := false
			if ok1 && ok2 {
				uc, okU := evalConst(up, true)
				lc, okL := evalConst(dn, false)
				fits = okU && okL && lc >= lo && uc <= hi
			}
			if !fits {
				if upper {
					return affConst(hi), true
				}
				return affConst(lo), true
			}
		}
		switch x.Op {
		case token.ADD:
			l, ok1 := b.bound(x.X, upper)
			r, ok2 := b.bound(x.Y, upper)
			if ok1 && ok2 {
				return l.add(r, 1), true
			}
			return Aff{}, false
		case token.SUB:
			l, ok1 := b.bound(x.X, upper)
			r, ok2 := b.bound(x.Y, !upper)
			if ok1 && ok2 {
				return l.add(r, -1), true
			}
			return Aff{}, false
		case token.MUL:
			if k, ok := intConst(x.Y); ok && k >= 0 {
				l, ok1 := b.bound(x.X, upper)
				if ok1 {
					return l.scale(k), true
				}
			}
			if k, ok := intConst(x.X); ok && k >= 0 {
				l, ok1 := b.bound(x.Y, upper)
				if ok1 {
					return l.scale(k), true
				}
			}
		}
		return affSym(v), true
	case *ssa.Call:
		n := strings.ReplaceAll(calleeName(&x.Call), modPath+"/", "")
		if n == "builtin.len" && len(x.Call.Args) == 1 {
			// len(X[a:b]) = b − a ; len(X[a:]) = len(X) − a   (the slice expression itself succeeded)
			if sl, ok := x.Call.Args[0].(*ssa.Slice); ok {
				if _, isArr := sl.X.Type().Underlying().(*types.Pointer); !isArr {
					lo := affConst(0)
					okLo := true
					if sl.Low != nil {
						lo, okLo = b.bound(sl.Low, !upper)
					}
					if okLo {
						if sl.High != nil {
							if hi, okHi := b.bound(sl.High, upper); okHi {
								return hi.add(lo, -1), true
							}
						} else if sl.Low != nil {
							// len(X) − a with len(X) as the symbol of an equivalent len call: reuse this call on X if present
							for _, r := range *sl.X.Referrers() {
								if lc, isC := r.(*ssa.Call); isC && lc != x && calleeName(&lc.Call) == "builtin.len" && lc.Call.Args[0] == sl.X {
									return affSym(lc).add(lo, -1), true
								}
							}
						}
					}
				}
			}
			return affSym(v), true
		}
		if n == "internal/common.RandInt" {
			// RandInt(n) ∈ [0, n-1]
			if !upper {
				return affConst(0), true
			}
			u, ok := b.bound(x.Call.Args[0], true)
			if ok {
				return u.add(affConst(1), -1), true
			}
			return Aff{}, false
		}
		return affSym(v), true
	case *ssa.Phi:
		// a φ of atomic alternatives (constants / contract calls) stays one symbol, so that it cancels against
		// itself elsewhere in the expression; its interval is the union of the alternatives (contractInterval)
		atomic := true
		for _, e := range x.Edges {
			e = stripIntConv(e)
			if _, isK := intConst(e); isK {
				continue
			}
			if _, _, okLo, okHi := contractInterval(e); okLo && okHi {
				continue
			}
			atomic = false
		}
		if atomic {
			return affSym(v), true
		}
		// otherwise choose the edge bound that dominates the others (provable with symbol intervals)
		var cands []Aff
		for _, e := range x.Edges {
			if e == ssa.Value(x) {
				continue
			}
			a, ok := b.bound(e, upper)
			if !ok {
				return affSym(v), true
			}
			cands = append(cands, a)
		}
		for i, ci := range cands {
			dominates := true
			for j, cj := range cands {
				if i == j {
					continue
				}
				d := ci.add(cj, -1) // ci - cj
				if upper {
					lo, ok := evalConst(d, false)
					if !ok || lo < 0 {
						dominates = false
					}
				} else {
					hi, ok := evalConst(d, true)
					if !ok || hi > 0 {
						dominates = false
					}
				}
			}
			if dominates {
				return ci, true
			}
		}
		return affSym(v), true
	}
	return affSym(v), true
}

// evalConst substitutes the symbols' contract intervals: upper=true gives a constant upper bound.
func evalConst(a Aff, upper bool) (int64, bool) {
	r := a.C
	for s, k := range a.Terms {
		lo, hi, okLo, okHi := contractInterval(s)
		wantHi := (k > 0) == upper
		if wantHi {
			if !okHi {
				return 0, false
			}
			r += k * hi
		} else {
			if !okLo {
				return 0, false
			}
			r += k * lo
		}
	}
	return r, true
}

// UpperConst / LowerConst: constant bounds of v, with the derivation string.
func (b *Bounds) UpperConst(v ssa.Value) (int64, string, bool) {
	a, ok := b.Upper(v)
	if !ok {
		return 0, "", false
	}
	k, ok := evalConst(a, true)
	return k, a.String(), ok
}
func (b *Bounds) LowerConst(v ssa.Value) (int64, string, bool) {
	a, ok := b.Lower(v)
	if !ok {
		return 0, "", false
	}
	k, ok := evalConst(a, false)
	return k, a.String(), ok
}
