package main

import (
	"fmt"
	"strings"

	"golang.org/x/tools/go/ssa"
)

// c10ServerHello: the ServerHello the server composes, as a flat byte sequence (bseq.go), with a 32-byte session id.
func c10ServerHello(p *Prog, csh *ssa.Function) (sh []bseg, ev *bsEval, ok bool) {
	ev = newBsEval(p)
	if len(csh.Params) != 3 {
		return nil, ev, false
	}
	ev.assume[csh.Params[0]] = 32
	rets := returnsOf(csh)
	if len(rets) != 1 {
		return nil, ev, false
	}
	sh, ok = ev.eval(resultValue(rets[0], 0))
	return sh, ev, ok && seqLen(sh) > 0
}

type tlsRecord struct {
	typ      int64
	ver      []int64
	declared string // "const" | "len-of-body" | "?"
	declLen  int64
	body     []bseg
}

// parseRecords: split a flat sequence into TLS records: type(1) version(2) length(2) body. The length is either a
// constant (the body is that many bytes) or the encoded length of the very value that follows as the body.
func parseRecords(q []bseg) ([]tlsRecord, bool) {
	var out []tlsRecord
	i := 0
	// work on a copy so that leading constants can be consumed byte by byte
	rest := append([]bseg{}, q...)
	takeConst := func(n int64) ([]int64, bool) {
		var got []int64
		for int64(len(got)) < n {
			if i >= len(rest) || rest[i].Kind != "const" {
				return nil, false
			}
			need := n - int64(len(got))
			if int64(len(rest[i].B)) <= need {
				got = append(got, rest[i].B...)
				i++
			} else {
				got = append(got, rest[i].B[:need]...)
				rest[i].B = rest[i].B[need:]
				rest[i].N -= need
			}
		}
		return got, true
	}
	for i < len(rest) {
		hdr, ok := takeConst(3)
		if !ok {
			return out, false
		}
		rec := tlsRecord{typ: hdr[0], ver: hdr[1:3], declared: "?"}
		if i < len(rest) && rest[i].Kind == "belen" && rest[i].N == 2 {
			src := rest[i].Src
			i++
			rec.declared = "len-of-body"
			for i < len(rest) && rest[i].Origin == src {
				rec.body = append(rec.body, rest[i])
				i++
			}
			if len(rec.body) == 0 {
				rec.declared = "?"
			}
		} else if l, ok := takeConst(2); ok {
			rec.declared, rec.declLen = "const", l[0]<<8|l[1]
			need := rec.declLen
			for need > 0 {
				if i >= len(rest) || rest[i].N < 0 {
					return append(out, rec), false
				}
				if rest[i].N <= need {
					rec.body = append(rec.body, rest[i])
					need -= rest[i].N
					i++
				} else {
					c, okC := cutSeq([]bseg{rest[i]}, 0, need)
					r, okR := cutSeq([]bseg{rest[i]}, need, -1)
					if !okC || !okR || len(r) != 1 {
						return append(out, rec), false
					}
					rec.body = append(rec.body, c...)
					rest[i] = r[0]
					need = 0
				}
			}
		} else {
			return append(out, rec), false
		}
		out = append(out, rec)
	}
	return out, true
}

func be(bs []int64) int64 {
	var v int64
	for _, b := range bs {
		v = v<<8 | b
	}
	return v
}

// c10ReplyFlat: the server reply template checked on the flattened bytes.
func c10ReplyFlat(c *Ctx, rule string, csh, cr *ssa.Function) {
	p := c.P
	sh, ev, ok := c10ServerHello(p, csh)
	if !ok {
		c.Undecided(rule, "ServerHello bytes", c.atFn(csh), "the bytes composeServerHello returns could not be evaluated")
		return
	}
	sidP, nonceP, keyP := ssa.Value(csh.Params[0]), ssa.Value(csh.Params[1]), ssa.Value(csh.Params[2])
	total := seqLen(sh)
	desc := bseqString(sh)
	b := func(off, n int64) []int64 { v, _ := bsConst(sh, off, n); return v }
	h := b(0, 4)
	hv := int64(-1)
	if len(h) == 4 {
		hv = be(h[1:4])
	}
	c.Check(len(h) == 4 && h[0] == 2 && hv == total-4, rule, "handshake header: type 2, declared length = composed length", c.atFn(csh), fmt.Sprintf("02 %06x, body %d bytes", hv, total-4),
		fmt.Sprintf("handshake type/length are % x but the composed body is %d bytes (%s)", toBytes(h), total-4, desc))
	v := b(4, 2)
	c.Check(len(v) == 2 && v[0] == 3 && v[1] == 3, rule, "server version 03 03", c.atFn(csh), "03 03", "legacy_version is not 0x0303")
	c.Check(bsIsSym(sh, 6, 12, nonceP, 0) && bsIsSym(sh, 18, 20, keyP, 0), rule, "random = nonce(12) ‖ key[0:20]", c.atFn(csh), "bytes 6..38 = nonce[0:12] ‖ key[0:20]",
		"the 32-byte random is not nonce ‖ first 20 bytes of the sealed key: "+desc)
	sl := b(38, 1)
	c.Check(len(sl) == 1 && sl[0] == 32 && bsIsSym(sh, 39, 32, sidP, 0), rule, "session id: length byte 0x20 followed by the client's session id", c.atFn(csh), "20 ‖ sessionId", "the ServerHello does not echo the session id parameter with length 32: "+desc)
	el := b(74, 2)
	c.Check(len(el) == 2 && be(el) == total-76, rule, "extensions length = composed extensions", c.atFn(csh), fmt.Sprintf("%04x = %d", be(el), total-76), fmt.Sprintf("declared extensions length %d, composed %d", be(el), total-76))
	ks := b(76, 8)
	okKS := len(ks) == 8 && ks[0] == 0 && ks[1] == 0x33 && be(ks[2:4]) == 4+be(ks[6:8]) && ks[4] == 0 && ks[5] == 0x1d && be(ks[6:8]) == 32
	c.Check(okKS, rule, "key_share extension: 0033 len 001d len32 ‖ 32 bytes", c.atFn(csh), fmt.Sprintf("% x ‖ 32 bytes", toBytes(ks)), "key share extension header inconsistent with its 32-byte body")
	c.Check(bsIsSym(sh, 84, 28, keyP, 20), rule, "key exchange carries key[20:48]", c.atFn(csh), "bytes 84..112 = key[20:48]", "the remaining 28 bytes of the sealed key are not placed in the key share: "+desc)
	// composeReply: three records
	ev2 := newBsEval(p)
	if len(cr.Params) > 0 {
		ev2.assume[cr.Params[0]] = 32
	}
	var recs []tlsRecord
	okParse := false
	if rets := returnsOf(cr); len(rets) == 1 {
		if q, okQ := ev2.eval(resultValue(rets[0], 0)); okQ {
			recs, okParse = parseRecords(q)
		}
	}
	var shown []string
	okRecs := okParse && len(recs) == 3
	okLen := okParse
	for k, r := range recs {
		shown = append(shown, fmt.Sprintf("[%02x % x %s %s]", r.typ, toBytes(r.ver), r.declared, bseqString(r.body)))
		if len(r.ver) != 2 || r.ver[0] != 3 || r.ver[1] != 3 {
			okRecs = false
		}
		switch r.declared {
		case "const":
			if seqLen(r.body) != r.declLen {
				okLen = false
			}
		case "len-of-body":
		default:
			okLen = false
		}
		switch k {
		case 0:
			if r.typ != 0x16 || seqLen(r.body) != total {
				okRecs = false
			}
		case 1:
			bd, okB := bsConst(r.body, 0, 1)
			if r.typ != 0x14 || !okB || bd[0] != 1 || seqLen(r.body) != 1 {
				okRecs = false
			}
		case 2:
			if r.typ != 0x17 {
				okRecs = false
			}
		}
	}
	c.Check(okRecs, rule, "reply = handshake(22) ‖ change_cipher_spec(20, body 01) ‖ application_data(23), all version 03 03", c.atFn(cr), fmt.Sprint(shown), fmt.Sprintf("reply records are %v", shown))
	c.Check(okLen && len(recs) > 0, rule, "server record wrapper: typ ‖ ver ‖ BE16(len(input)) ‖ input", c.atFn(cr), "every record declares the length of its own body", fmt.Sprintf("a record's declared length is not the length of the body that follows: %v", shown))
	_ = ev
	// the application-data record that ends the server's flight has a body of 1 … 2^14+256 bytes, whatever is drawn:
	// the body is a parameter of composeReply; at every call site it is a buffer whose length has constant bounds
	if okParse && len(recs) == 3 && len(recs[2].body) == 1 && recs[2].body[0].Kind == "sym" {
		if prm, isP := recs[2].body[0].Src.(*ssa.Parameter); isP {
			idx := -1
			for i, q := range cr.Params {
				if q == prm {
					idx = i
				}
			}
			n := 0
			for _, cs := range p.CallersOf(cr) {
				if strings.HasSuffix(p.Pos(cs.Pos()), "_test.go") || idx < 0 {
					continue
				}
				args := callArgs(cs.Common())
				if idx >= len(args) {
					continue
				}
				n++
				lo, hi, okB, how := bufLenBounds(p, args[idx])
				c.Check(okB && lo >= 1 && hi <= 16384+256, rule, "application-data record of the server's flight carries 1 … 16640 bytes", c.at(cs), fmt.Sprintf("body length in [%d, %d] (%s)", lo, hi, how),
					fmt.Sprintf("the length of the record body is not provably within 1 … 16640 (bounds [%d, %d], decided=%v, %s): for some draw the server sends an empty (or oversized) application-data record, which no TLS stack emits at this point", lo, hi, okB, how))
			}
			if n == 0 {
				c.Undecided(rule, "application-data record of the server's flight carries 1 … 16640 bytes", c.atFn(cr), "no call site of composeReply found")
			}
		}
	}
}
