package main

import (
	"fmt"
	"go/token"
	"go/types"
	"strings"

	"golang.org/x/tools/go/ssa"
)

func init() {
	register(&PropDef{
		ID: "C05", Title: "record framing survives any TCP segmentation and concurrent writers",
		Run:       runC05,
		Technique: "static analysis: who-may-call on the embedded connection (full-read discipline), value identity between the decoded length and the body read, dominance of the oversize test, single-private-write check with must-pass buffer reset, lockset for WebSocket writes, one-read-one-frame pairing in deplex",
		Decided: "(b) TLSConn.Read consumes the underlying stream only through full reads of exactly the 5-byte header and exactly the declared body, and returns the body read's count; (c) a record longer than the caller's buffer (or a buffer shorter than a header) is an error before any body byte is read; " +
			"(d) a message leaves through exactly one underlying Write of a buffer private to the call, whose length bytes are msgLen>>8, msgLen&0xff, under the dominating limit test, and the pooled buffer is reset to its 3-byte prefix on every path before it is returned to the pool; " +
			"(e) WebSocket message writes and Close hold the write mutex exclusively, one Read takes one message and reports an error instead of a truncated message; (f) deplex hands each successful read to the session exactly once with buf[:n] of that read, and send writes its argument unmodified once.",
		NotDecided:  "(a) the statement over all segmentations as such (it follows from (b)-(d) given TCP's in-order byte stream, which is assumed); gorilla/websocket's own framing; that the peer's limit equals ours (C10.R5).",
		Assumptions: []string{"io.ReadFull/ReadAtLeast contracts", "net.Conn.Write of one buffer is atomic with respect to other Write calls on the same connection (Go net package serialises writes)"},
	})
}

func runC05(c *Ctx) {
	c05R1(c, "C05.R1")
	c05R2(c, "C05.R2")
	c05R3(c, "C05.R3")
	c05R4(c, "C05.R4")
	c05R5(c, "C05.R5")
	c05R6(c, "C05.R6")
}

type tlsAnchors struct {
	read, write *ssa.Function
	connF       *types.Var
}

func getTLS(c *Ctx, rule string) *tlsAnchors {
	p := c.P
	a := &tlsAnchors{read: p.Func("internal/common", "TLSConn.Read"), write: p.Func("internal/common", "TLSConn.Write"), connF: p.Field("internal/common", "TLSConn", "Conn")}
	if a.read == nil || a.write == nil || a.connF == nil {
		c.Undecided(rule, "anchors common.TLSConn.{Read,Write,Conn}", "-", "not found")
		return nil
	}
	return a
}

// usesOfConn: instructions in f that use the embedded connection value.
func (a *tlsAnchors) connUses(f *ssa.Function) []ssa.Instruction {
	var out []ssa.Instruction
	allInstrs(f, func(i ssa.Instruction) {
		ld, ok := i.(*ssa.UnOp)
		if !ok || ld.Op != token.MUL {
			return
		}
		if fv, _ := loadedField(ld); fv != a.connF {
			return
		}
		var follow func(v ssa.Value)
		follow = func(v ssa.Value) {
			for _, r := range *v.Referrers() {
				switch x := r.(type) {
				case *ssa.ChangeInterface:
					follow(x)
				case *ssa.MakeInterface:
					follow(x)
				default:
					out = append(out, r)
				}
			}
		}
		follow(ld)
	})
	return out
}

func isFullRead(call *ssa.Call) bool {
	n := calleeName(&call.Call)
	if n == "io.ReadFull" {
		return true
	}
	if n == "io.ReadAtLeast" {
		// min == len(buf)
		if lc, ok := stripConv(call.Call.Args[2]).(*ssa.Call); ok && calleeName(&lc.Call) == "builtin.len" && lc.Call.Args[0] == call.Call.Args[1] {
			return true
		}
	}
	return false
}

func c05R1(c *Ctx, rule string) {
	c.Rule(rule, "full-read discipline: inside TLSConn.Read the underlying connection is only ever the reader argument of io.ReadFull (or ReadAtLeast with min = len)", 2)
	a := getTLS(c, rule)
	if a == nil {
		return
	}
	uses := a.connUses(a.read)
	if len(uses) == 0 {
		c.Undecided(rule, "uses of the underlying connection in TLSConn.Read", c.atFn(a.read), "none found")
	}
	for _, u := range uses {
		call, ok := u.(*ssa.Call)
		construct := "underlying connection used at " + strings.TrimPrefix(c.at(u), "internal/common/")
		if ok && isFullRead(call) {
			c.OK(rule, construct, c.at(u), "reader of "+calleeName(&call.Call))
			continue
		}
		d := fmt.Sprint(u)
		if ok {
			d = calleeName(&call.Call)
		}
		c.Bad(rule, construct, c.at(u), "the connection is consumed by "+d+" instead of a full read: when TCP splits a record across segments a short read is taken for a whole header/body and framing is lost for the rest of the connection")
	}
	// no loop around reads: each full read happens once per invocation
	allInstrs(a.read, func(i ssa.Instruction) {
		if call, ok := i.(*ssa.Call); ok && (isFullRead(call) || strings.HasSuffix(calleeName(&call.Call), ".Read")) {
			if len(loopBlocks(i.Block())) > 1 {
				c.Bad(rule, "read inside a loop at "+strings.TrimPrefix(c.at(i), "internal/common/"), c.at(i), "TLSConn.Read reads in a hand-written loop: the count it returns and the bytes it delivered must then be proven equal, which this rule cannot do")
			}
		}
	})
}

func c05R2(c *Ctx, rule string) {
	c.Rule(rule, "header→length→body agreement: first read fills buffer[:5]; dataLength = BE16(buffer[3:5]); second read fills buffer[:dataLength]; the count returned is the body read's", 3)
	a := getTLS(c, rule)
	if a == nil {
		return
	}
	buf := ssa.Value(a.read.Params[1])
	var reads []*ssa.Call
	allInstrs(a.read, func(i ssa.Instruction) {
		if call, ok := i.(*ssa.Call); ok && isFullRead(call) {
			reads = append(reads, call)
		}
	})
	if len(reads) != 2 {
		c.Bad(rule, "two full reads (header, body)", c.atFn(a.read), fmt.Sprintf("found %d full reads", len(reads)))
		return
	}
	hdr, body := reads[0], reads[1]
	if instrDominates(body, hdr) {
		hdr, body = body, hdr
	}
	lo, hi, okH := constSliceOf(hdr.Call.Args[1], buf)
	c.Check(okH && lo == 0 && hi == 5, rule, "header read fills buffer[:5]", c.at(hdr), "io.ReadFull(conn, buffer[:5])", "the header read does not fill exactly buffer[:5]")
	// body slice = buffer[:dataLength], dataLength = int(Uint16(buffer[3:5]))
	bsl, okB := body.Call.Args[1].(*ssa.Slice)
	okLen := false
	d := "?"
	if okB && bsl.X == buf && bsl.Low == nil && bsl.High != nil {
		d = Expr(bsl.High)
		if call, ok := stripConv(bsl.High).(*ssa.Call); ok && strings.Contains(calleeName(&call.Call), "bigEndian).Uint16") {
			l2, h2, ok2 := constRangeOf(call.Call.Args[len(call.Call.Args)-1], buf)
			okLen = ok2 && l2 == 3 && h2 == 5 && instrDominates(hdr, call)
		} else if lo, n, loads, okR := beRead(stripIntWiden(stripConv(bsl.High)), buf); okR {
			// int(buffer[3])<<8 | int(buffer[4])
			okLen = lo == 3 && n == 2
			for _, l := range loads {
				if li, isI := l.(ssa.Instruction); isI && !instrDominates(hdr, li) {
					okLen = false
				}
			}
		}
	}
	c.Check(okLen, rule, "body read fills exactly buffer[:declared length]", c.at(body), "buffer[:int(BE16(buffer[3:5]))], decoded after the header read", "the body read's size is "+d+", not the length declared in bytes 3..4 of the header just read")
	// returned count
	okRet := false
	for _, r := range returnsOf(a.read) {
		if !instrDominates(body, r) {
			continue
		}
		v := resultValue(r, 0)
		if ex, ok := v.(*ssa.Extract); ok && ex.Tuple == ssa.Value(body) && ex.Index == 0 {
			okRet = true
		}
	}
	c.Check(okRet, rule, "Read returns the body read's count", c.at(body), "return io.ReadFull(conn, buffer[:dataLength])", "the count returned after the body read is not that read's count: the caller (one read = one frame) gets a truncated or padded message")
}

func c05R3(c *Ctx, rule string) {
	c.Rule(rule, "oversize is an error first: the body read is dominated by dataLength <= len(buffer); the other branch returns a non-nil error; a buffer shorter than the header is refused before any read", 2)
	a := getTLS(c, rule)
	if a == nil {
		return
	}
	buf := ssa.Value(a.read.Params[1])
	var reads []*ssa.Call
	allInstrs(a.read, func(i ssa.Instruction) {
		if call, ok := i.(*ssa.Call); ok && isFullRead(call) {
			reads = append(reads, call)
		}
	})
	if len(reads) < 2 {
		c.Undecided(rule, "header and body reads", c.atFn(a.read), "not found")
		return
	}
	hdr, body := reads[0], reads[1]
	if instrDominates(body, hdr) {
		hdr, body = body, hdr
	}
	isLenBuf := func(v ssa.Value) bool {
		lc, ok := stripConv(v).(*ssa.Call)
		return ok && calleeName(&lc.Call) == "builtin.len" && lc.Call.Args[0] == buf
	}
	bsl, _ := body.Call.Args[1].(*ssa.Slice)
	guard := false
	for _, at := range AtomsAt(body) {
		if at.Kind == "cmp" && at.Op == token.LEQ && isLenBuf(at.Y) && bsl != nil && sameValue(at.X, bsl.High) {
			guard = true
		}
	}
	// the over-length branch returns an error
	errRet := false
	for _, r := range returnsOf(a.read) {
		for _, at := range AtomsAt(r) {
			if at.Kind == "cmp" && at.Op == token.LSS && isLenBuf(at.X) && errIsNilAt(resultValue(r, 1), r) == "nonnil" {
				errRet = true
			}
		}
	}
	c.Check(guard && errRet, rule, "declared length checked against the buffer before the body read", c.at(body), "dataLength <= len(buffer) dominates the body read; otherwise io.ErrShortBuffer", fmt.Sprintf("guard dominating the body read=%v, error return on oversize=%v: an oversize record is delivered truncated or panics", guard, errRet))
	short := false
	for _, at := range AtomsAt(hdr) {
		if at.Kind == "cmp" && at.Op == token.LEQ && isLenBuf(at.Y) {
			if k, ok := intConst(at.X); ok && k >= 5 {
				short = true
			}
		}
	}
	c.Check(short, rule, "buffer shorter than a header refused before reading", c.at(hdr), "len(buffer) >= 5 dominates the header read", "a buffer shorter than the record header reaches the header read")
}

func c05R4(c *Ctx, rule string) {
	c.Rule(rule, "single private write: one underlying Write per message, from a pooled buffer of this call = prefix ‖ hi(len) ‖ lo(len) ‖ payload, under msgLen <= 16640; the buffer is reset to its 3-byte prefix before every Put", 5)
	a := getTLS(c, rule)
	if a == nil {
		return
	}
	p := c.P
	w := a.write
	in := ssa.Value(w.Params[1])
	var writes []*ssa.Call
	for _, u := range a.connUses(w) {
		if call, ok := u.(*ssa.Call); ok && calleeName(&call.Call) == "(net.Conn).Write" {
			writes = append(writes, call)
		} else {
			c.Bad(rule, "underlying connection used by something other than Write in TLSConn.Write", c.at(u), "unexpected use of the raw connection")
		}
	}
	okOne := len(writes) == 1 && len(loopBlocks(writes[0].Block())) == 1
	c.Check(okOne, rule, "exactly one underlying Write, not in a loop", c.atFn(w), "one tls.Conn.Write(*writeBuf)", fmt.Sprintf("%d underlying writes: header and body written separately can interleave with another goroutine's record", len(writes)))
	if len(writes) == 0 {
		return
	}
	// one message ⇒ one record: no success return without the underlying write (an empty message is a record too:
	// the reader's Read returns (0, nil) for it, and a message that is silently not sent shifts every later one)
	for _, r := range returnsOf(w) {
		if len(r.Results) == 2 && errIsNilAt(resultValue(r, 1), r) == "nonnil" {
			continue
		}
		ret := r
		skip := entrySearch(w, func(i ssa.Instruction) bool { return i == ssa.Instruction(writes[0]) }, func(i ssa.Instruction) bool { return i == ssa.Instruction(ret) })
		c.Check(skip == nil, rule, "every non-error return of Write has written a record", c.at(r), "the underlying Write lies on every path to this return",
			"a path reaches this possibly-successful return without writing anything: the caller is told the message was sent, the peer never sees a record for it")
	}
	// the pooled buffer
	var get *ssa.Call
	var puts []*ssa.Call
	allInstrs(w, func(i ssa.Instruction) {
		if call, ok := i.(*ssa.Call); ok {
			switch calleeName(&call.Call) {
			case "(*sync.Pool).Get":
				get = call
			case "(*sync.Pool).Put":
				puts = append(puts, call)
			}
		}
	})
	if get == nil {
		c.Bad(rule, "write buffer private to the call", c.atFn(w), "the buffer written is not taken from a pool in this invocation (a buffer kept in the struct is shared by concurrent writers)")
		return
	}
	var bufPtr ssa.Value
	for _, r := range *get.Referrers() {
		if ta, ok := r.(*ssa.TypeAssert); ok {
			bufPtr = ta
		}
	}
	written := writes[0].Call.Args[0]
	fromPool := false
	if ld, ok := written.(*ssa.UnOp); ok && ld.Op == token.MUL && ld.X == bufPtr {
		fromPool = true
	}
	if !fromPool {
		// written directly as the value built on the pooled buffer (rec := append(…*writeBuf…); Write(rec)): its bytes
		// start with the pooled content
		if q, okQ := newBsEval(p).eval(written); okQ && len(q) > 0 && q[0].Kind == "sym" && q[0].Src == bufPtr && q[0].Lo == 0 {
			fromPool = true
		}
	}
	c.Check(fromPool, rule, "the bytes written are this call's pooled buffer", c.at(writes[0]), "Conn.Write(*writeBuf), writeBuf = pool.Get()", "the underlying Write sends "+Expr(written)+", not the buffer obtained from the pool in this call")
	// appends: length bytes then payload (any of append(b, hi, lo), binary.BigEndian.AppendUint16(b, uint16(len)), append(b, in...))
	var appendStores []*ssa.Store
	lenBytes, payload := false, false
	limitOK := false
	var seq []absByte
	allInstrs(w, func(i ssa.Instruction) {
		st, ok := i.(*ssa.Store)
		if !ok || st.Addr != bufPtr {
			return
		}
		call, isApp := st.Val.(*ssa.Call)
		if !isApp {
			return
		}
		base, bytes, okA := absAppend(call)
		if !okA {
			return
		}
		appendStores = append(appendStores, st)
		// only what is appended onto the pooled buffer itself is part of the record; a regrow that copies the pooled
		// prefix into a fresh array (append(make(…), (*writeBuf)[:3]...)) contributes no new bytes
		if ld, isLd := base.(*ssa.UnOp); !isLd || ld.Op != token.MUL || ld.X != bufPtr {
			return
		}
		seq = append(seq, bytes...)
	})
	{
		isLenIn := func(v ssa.Value) bool {
			lc, ok := stripConv(v).(*ssa.Call)
			return ok && calleeName(&lc.Call) == "builtin.len" && lc.Call.Args[0] == in
		}
		if len(seq) >= 3 && !seq[0].isConst && !seq[0].spread && seq[0].shift == 8 && isLenIn(seq[0].src) && !seq[1].isConst && !seq[1].spread && seq[1].shift == 0 && isLenIn(seq[1].src) {
			lenBytes = true
		}
		for _, b := range seq {
			if b.spread && b.src == in {
				payload = true
			}
		}
		if len(seq) != 3 {
			lenBytes = lenBytes && len(seq) == 3
		}
	}
	if !(lenBytes && payload) {
		// the same on the flattened bytes of what is written (bseq.go): ⟨pooled prefix⟩ ‖ BE16(len(in)) ‖ ⟨in⟩, however
		// the appends are grouped or which helper performs them
		ev := newBsEval(p)
		if q, okQ := ev.eval(written); okQ && len(q) == 3 {
			pre, ln, body := q[0], q[1], q[2]
			if pre.Kind == "sym" && pre.Src == bufPtr && pre.Lo == 0 &&
				ln.Kind == "belen" && ln.N == 2 && stripConv(ln.Src) == in &&
				body.Kind == "sym" && body.Src == in && body.Lo == 0 && body.Hi < 0 {
				lenBytes, payload = true, true
			}
		}
	}
	c.Check(lenBytes && payload, rule, "record = prefix ‖ byte(len>>8) ‖ byte(len&0xff) ‖ payload", c.atFn(w), "append(hi, lo) then append(in...)", fmt.Sprintf("length bytes from len(in) found=%v, payload appended=%v", lenBytes, payload))
	// the prefix survives: every value stored into the pooled cell is built on the pooled buffer itself
	// (append(*writeBuf, …), (*writeBuf)[:k]) or is a fresh buffer that first receives the pooled prefix
	derived := func(v ssa.Value) bool {
		isLoad := func(x ssa.Value) bool {
			ld, ok := x.(*ssa.UnOp)
			return ok && ld.Op == token.MUL && ld.X == bufPtr
		}
		switch x := v.(type) {
		case *ssa.Slice:
			return isLoad(x.X)
		case *ssa.Call:
			if base, _, okA := absAppend(x); okA && isLoad(base) {
				return true
			}
			if calleeName(&x.Call) != "builtin.append" {
				return false
			}
			if isLoad(x.Call.Args[0]) {
				return true
			}
			// append(make([]byte, 0, n), (*writeBuf)[:3]...)
			if l, ok := constLenOf(x.Call.Args[0]); ok && l == 0 {
				if sl, ok := x.Call.Args[1].(*ssa.Slice); ok && isLoad(sl.X) {
					return true
				}
			}
		}
		return isLoad(v)
	}
	okDerived, whyD := true, ""
	var atD ssa.Instruction
	allInstrs(w, func(i ssa.Instruction) {
		if st, ok := i.(*ssa.Store); ok && st.Addr == bufPtr && !derived(st.Val) {
			// flattened: the value starts with the pooled content from its first byte
			if q, okQ := newBsEval(p).eval(st.Val); okQ && len(q) > 0 && q[0].Kind == "sym" && q[0].Src == bufPtr && q[0].Lo == 0 {
				return
			}
			okDerived, atD = false, i
			whyD = "the pooled buffer is replaced by " + Expr(st.Val) + ", which is not built on the pooled buffer: the record prefix (type 23, version 3.3) written once by the pool constructor is lost for this and every later record that reuses the buffer"
		}
	})
	if okDerived {
		c.OK(rule, "every value stored into the pooled buffer cell is built on the pooled buffer", c.atFn(w), "append(*writeBuf, …) / (*writeBuf)[:3] only")
	} else {
		c.Bad(rule, "every value stored into the pooled buffer cell is built on the pooled buffer", c.at(atD), whyD)
	}
	for _, at := range AtomsAt(writes[0]) {
		if at.Kind == "cmp" && at.Op == token.LEQ {
			if lc, ok := stripConv(at.X).(*ssa.Call); ok && calleeName(&lc.Call) == "builtin.len" && lc.Call.Args[0] == in {
				if k, isK := intConst(at.Y); isK && k <= 16640 && k > 0 {
					limitOK = true
				}
			}
		}
	}
	c.Check(limitOK, rule, "message length limit dominates the write", c.at(writes[0]), "len(in) <= 1<<14+256", "no dominating test len(in) <= 16640: the two length bytes can wrap or the record exceeds the TLS maximum")
	// reset before every Put
	isReset := func(i ssa.Instruction) bool {
		st, ok := i.(*ssa.Store)
		if !ok || st.Addr != bufPtr {
			return false
		}
		sl, ok := st.Val.(*ssa.Slice)
		if !ok || sl.Low != nil || sl.High == nil {
			return false
		}
		k, isK := intConst(sl.High)
		return isK && k == 3
	}
	// a deferred Put runs at every return
	var deferredPut bool
	allInstrs(w, func(i ssa.Instruction) {
		if d, ok := i.(*ssa.Defer); ok && calleeName(&d.Call) == "(*sync.Pool).Put" {
			deferredPut = true
		}
	})
	okReset := len(puts) > 0 || deferredPut
	why := "the buffer is never returned to the pool"
	if deferredPut {
		for _, as := range appendStores {
			if r := forwardSearch(as, isReset, func(i ssa.Instruction) bool { _, isRet := i.(*ssa.Return); return isRet }); r != nil {
				okReset = false
				why = "the deferred Put runs at the return at " + c.at(r) + ", which is reachable from the append at " + c.at(as) + " without the reset to [:3]"
			}
		}
	}
	for _, put := range puts {
		for _, as := range appendStores {
			if forwardSearch(as, isReset, func(i ssa.Instruction) bool { return i == ssa.Instruction(put) }) != nil {
				okReset = false
				why = "the Put at " + c.at(put) + " is reachable from the append at " + c.at(as) + " without the reset to [:3]"
			}
		}
	}
	c.Check(okReset, rule, "pooled buffer reset to its 3-byte prefix before every Put", c.atFn(w), "*writeBuf = (*writeBuf)[:3] on every path from an append to Put", why+": the next message taken from the pool is prefixed by a stale record")
	// the pool's New builds the 3-byte prefix 17 03 03
	{
		// pool constructors: anonymous functions of the package returning a *[]byte as interface
		okPrefix := false
		var where *ssa.Function
		for _, an := range p.FuncsOfPkg("internal/common") {
			if an.Parent() == nil {
				continue
			}
			isCtor := false
			for _, r := range returnsOf(an) {
				if len(r.Results) == 1 {
					if mi, ok := r.Results[0].(*ssa.MakeInterface); ok && typeStr(mi.X.Type()) == "*[]byte" {
						isCtor = true
					}
				}
			}
			if !isCtor {
				continue
			}
			where = an
			var consts []int64
			allInstrs(an, func(i ssa.Instruction) {
				if st, ok := i.(*ssa.Store); ok {
					if _, isIA := st.Addr.(*ssa.IndexAddr); isIA {
						if k, isK := intConst(st.Val); isK {
							consts = append(consts, k)
						}
					}
				}
			})
			if len(consts) == 3 && consts[0] == 23 && consts[1] == 3 && consts[2] == 3 {
				okPrefix = true
			}
			// the same prefix built by a chain of appends (append(b, 23); binary.BigEndian.AppendUint16(b, 0x0303) …)
			var chain []absByte
			allConst := true
			allInstrs(an, func(i ssa.Instruction) {
				if call, ok := i.(*ssa.Call); ok {
					if _, bytes, okA := absAppend(call); okA {
						for _, b := range bytes {
							if !b.isConst {
								allConst = false
							}
						}
						chain = append(chain, bytes...)
					}
				}
			})
			if allConst && len(chain) == 3 && chain[0].k == 23 && chain[1].k == 3 && chain[2].k == 3 {
				okPrefix = true
			}
		}
		c.Check(okPrefix, rule, "pooled buffers start with 17 03 03", c.atFn(where), "append(b, ApplicationData, 0x03, 0x03)", "the record prefix built by the pool constructor is not type 23, version 3.3")
	}
}

func c05R5(c *Ctx, rule string) {
	c.Rule(rule, "WebSocket: WriteMessage and Close of the embedded gorilla connection hold writeM exclusively; Read takes one message and errors instead of truncating", 4)
	p := c.P
	ls := p.Locksets()
	writeM := p.Field("internal/common", "WebSocketConn", "writeM", "sync.Mutex", "sync.RWMutex")
	if writeM == nil {
		c.Undecided(rule, "anchor WebSocketConn.writeM", "-", "not found")
		return
	}
	for _, f := range p.FuncsOfPkg("internal/common") {
		owner := f
		for owner.Parent() != nil {
			owner = owner.Parent() // closures inside a method belong to it
		}
		if owner.Signature.Recv() == nil || !strings.Contains(owner.Signature.Recv().Type().String(), "WebSocketConn") || owner.Synthetic != "" {
			continue
		}
		allInstrs(f, func(i ssa.Instruction) {
			call, ok := i.(*ssa.Call)
			if !ok {
				return
			}
			n := calleeName(&call.Call)
			if !(strings.HasSuffix(n, "websocket.Conn).WriteMessage") || strings.HasSuffix(n, "websocket.Conn).Close") || strings.HasSuffix(n, "websocket.Conn).NextWriter") || strings.HasSuffix(n, "websocket.Conn).WriteControl")) {
				return
			}
			h, e := lockHeldByClass(ls.MustHeld(i), writeM)
			c.Check(h && e.Excl, rule, n[strings.LastIndex(n, ".")+1:]+" under the write mutex in "+shortFn(f), c.at(i), "writeM held exclusively", "gorilla/websocket allows one concurrent writer: this call runs without the exclusive write mutex ("+setString(ls.MustHeld(i))+"), so two streams' messages can interleave or corrupt each other")
		})
	}
	rd := p.Func("internal/common", "WebSocketConn.Read")
	if rd == nil {
		c.Undecided(rule, "anchor WebSocketConn.Read", "-", "not found")
		return
	}
	var nr []ssa.Instruction
	allInstrs(rd, func(i ssa.Instruction) {
		if call, ok := i.(*ssa.Call); ok && strings.HasSuffix(calleeName(&call.Call), "websocket.Conn).NextReader") {
			nr = append(nr, i)
		}
	})
	c.Check(len(nr) == 1 && len(loopBlocks(nr[0].Block())) == 1, rule, "one message per Read", c.atFn(rd), "NextReader called once, outside the copy loop", "Read takes more than one (or no) message per call")
	// the read == 0 branch yields an error; the nil-error exit is under io.EOF
	zeroErr, eofOK := false, false
	allInstrs(rd, func(i ssa.Instruction) {
		if iff, ok := i.(*ssa.If); ok {
			at := NormCond(iff.Cond, true)
			s := at.String()
			if at.Kind == "cmp" && at.Op == token.EQL && strings.Contains(s, "io.EOF") {
				eofOK = true
			}
			if at.Kind == "cmp" && at.Op == token.EQL && strings.Contains(s, ".Read(") && (isZero(at.X) || isZero(at.Y)) {
				// true branch must construct an error
				tb := iff.Block().Succs[0]
				for _, in := range tb.Instrs {
					if isCall(in, "errors.New", "fmt.Errorf") {
						zeroErr = true
					}
				}
			}
		}
	})
	c.Check(zeroErr && eofOK, rule, "full buffer reported as an error, end of message by io.EOF", c.atFn(rd), "read == 0 ⇒ error; err == io.EOF ⇒ message complete", fmt.Sprintf("error on a zero-length read=%v, io.EOF terminates the message=%v: a message larger than the buffer is delivered truncated", zeroErr, eofOK))
	// path form: a return that may deliver bytes (count not the constant 0) carries a nil error only along edges taken
	// under err == io.EOF of the message reader; every other way out of the copy loop carries a non-nil error
	for _, r := range returnsOf(rd) {
		if len(r.Results) != 2 {
			continue
		}
		if k, isK := intConst(r.Results[0]); isK && k == 0 {
			continue
		}
		if errIsNilAt(r.Results[1], r) == "nonnil" {
			continue
		}
		bad := ""
		seen := map[ssa.Value]bool{}
		var walk func(v ssa.Value, atoms []Atom)
		walk = func(v ssa.Value, atoms []Atom) {
			if ph, ok := v.(*ssa.Phi); ok {
				if seen[v] {
					return
				}
				seen[v] = true
				for k, e := range ph.Edges {
					pred := ph.Block().Preds[k]
					var as []Atom
					for _, g := range GuardsOf(pred) {
						as = append(as, NormCond(g.Cond, g.Pol))
					}
					if ifi, ok := pred.Instrs[len(pred.Instrs)-1].(*ssa.If); ok && pred.Succs[0] != pred.Succs[1] {
						as = append(as, NormCond(ifi.Cond, pred.Succs[0] == ph.Block()))
					}
					walk(e, as)
				}
				return
			}
			underEOF, nonNil := false, false
			for _, at := range atoms {
				if at.Kind != "cmp" {
					continue
				}
				if at.Op == token.EQL && strings.Contains(at.String(), "io.EOF") {
					underEOF = true
				}
				if at.Op == token.NEQ && ((sameValue(at.X, v) && isNilConst(at.Y)) || (sameValue(at.Y, v) && isNilConst(at.X))) {
					nonNil = true
				}
			}
			switch x := v.(type) {
			case *ssa.Const:
				if x.IsNil() && !underEOF {
					bad = "a nil error leaves the copy loop on an edge that is not under err == io.EOF"
				}
				return
			case *ssa.MakeInterface:
				return
			case *ssa.Call:
				if isCall(x, "errors.New", "fmt.Errorf") {
					return
				}
			}
			if !nonNil && !underEOF {
				bad = "the loop is left with " + Expr(v) + " (possibly nil) on an edge that is neither under err == io.EOF nor under err != nil"
			}
		}
		walk(r.Results[1], AtomsAt(r))
		c.Check(bad == "", rule, "success return of Read only at end of message", c.at(r), "every nil-error edge into this return is under err == io.EOF of the message reader", bad+": a message larger than the caller's buffer is returned truncated without an error and the rest is dropped by the next NextReader")
	}
}

func c05R6(c *Ctx, rule string) {
	c.Rule(rule, "one read ⇒ one frame: in deplex each successful conn.Read is followed by exactly one recvDataFromRemote(buf[:n]) with that read's buffer and count; send writes its data parameter unmodified", 2)
	p := c.P
	dp := c.need(rule, "internal/multiplex", "switchboard.deplex")
	send := c.need(rule, "internal/multiplex", "switchboard.send")
	if dp == nil || send == nil {
		return
	}
	var rd *ssa.Call
	var recvs []*ssa.Call
	allInstrs(dp, func(i ssa.Instruction) {
		if call, ok := i.(*ssa.Call); ok {
			if calleeName(&call.Call) == "(net.Conn).Read" {
				rd = call
			}
			if g := call.Call.StaticCallee(); isFn(g, "internal/multiplex", "Session.recvDataFromRemote") {
				recvs = append(recvs, call)
			}
		}
	})
	ok := rd != nil && len(recvs) == 1
	why := fmt.Sprintf("%d hand-over calls", len(recvs))
	if ok {
		arg := recvs[0].Call.Args[1]
		sl, isSl := arg.(*ssa.Slice)
		ok = isSl && sl.X == rd.Call.Args[0] && sl.Low == nil && sl.High != nil && isCountOf(sl.High, rd) && instrDominates(rd, recvs[0])
		why = "handed " + Expr(arg)
	}
	c.Check(ok, rule, "deplex hands buf[:n] of each read to the session once", c.atFn(dp), "recvDataFromRemote(buf[:n]) after conn.Read(buf)", "the bytes handed to the session are not exactly what the read returned: "+why)
	// … and only of a read that succeeded: the connections are record-oriented, a count that comes with an error is a
	// record cut short (connection lost inside a body, message larger than the buffer), not a message
	if rd != nil && len(recvs) == 1 {
		errV := extractOf(rd, 1)
		okErr := errV != nil && errIsNilAt(errV, recvs[0]) == "nil"
		c.Check(okErr, rule, "deplex hands over nothing from a read that reported an error", c.at(recvs[0]), "the hand-over is behind err == nil of the read", "the bytes of a read that returned an error reach the session: a record cut short by a connection loss (or an oversized message) is parsed as a frame — under the plain method nothing rejects it")
	}
	data := ssa.Value(send.Params[1])
	okSend := true
	n := 0
	allInstrs(send, func(i ssa.Instruction) {
		if call, isC := i.(*ssa.Call); isC && calleeName(&call.Call) == "(net.Conn).Write" {
			n++
			if call.Call.Args[0] != data {
				okSend = false
			}
		}
	})
	c.Check(okSend && n > 0, rule, "send writes its argument unmodified", c.atFn(send), fmt.Sprintf("%d conn.Write(data) site(s)", n), "send writes something other than the message it was given")
	_ = p
}
