package main

import (
	"fmt"
	"go/types"
	"sort"
	"strings"

	"golang.org/x/tools/go/ssa"
)

// E3 ORDER — lock-order graph over lock classes.

type OrderEdge struct {
	From, To         string
	FromExcl, ToExcl bool
	Site             ssa.Instruction // where To is acquired (directly or through the call) while From is held
	Via              string          // call chain witness
	SamePath         bool            // From and To are provably the same lock object
}

type acqInfo struct {
	class string
	excl  bool
	via   string
	site  ssa.Instruction
}

type LockOrder struct {
	P     *Prog
	LS    *Locksets
	Edges []OrderEdge
	acq   map[*ssa.Function]map[string]acqInfo
	lib   map[*ssa.Function][]*ssa.Function
	// Blocking: classes of blocking operations reachable (network I/O, Session.Close) per function, for C17.R4
}

var libLeafPkgs = []string{"github.com/sirupsen/logrus", "fmt", "log", "runtime", "reflect", "strings", "bytes", "errors", "strconv", "unicode", "math"}

func isLeafLib(f *ssa.Function) bool {
	if f.Pkg == nil {
		return false
	}
	pp := f.Pkg.Pkg.Path()
	for _, l := range libLeafPkgs {
		if pp == l || strings.HasPrefix(pp, l+"/") {
			return true
		}
	}
	return false
}

// repoCallees resolves a call to in-repo functions, looking through library functions that call back
// (bbolt View/Update, sync.Once.Do, http.Serve, sync.Map.Range, container/heap, ...), bounded depth.
func (lo *LockOrder) repoCallees(c ssa.CallInstruction) []*ssa.Function {
	var out []*ssa.Function
	seen := map[*ssa.Function]bool{}
	var cbFuncs map[*ssa.Function]bool
	var cbTypes map[*types.Named]bool
	for _, g := range lo.P.Callees(c) {
		if lo.P.InRepo(g) {
			if !seen[g] {
				seen[g] = true
				out = append(out, g)
			}
			continue
		}
		if cbFuncs == nil {
			cbFuncs, cbTypes = lo.callbacksAt(c)
		}
		if len(cbFuncs) == 0 && len(cbTypes) == 0 {
			continue
		}
		for _, h := range lo.throughLib(g) {
			if seen[h] {
				continue
			}
			ok := cbFuncs[h]
			if !ok && h.Signature.Recv() != nil {
				if n := namedOf(h.Signature.Recv().Type()); n != nil && cbTypes[n] {
					ok = true
				}
			}
			if ok {
				seen[h] = true
				out = append(out, h)
			}
		}
	}
	return out
}

// paramCallIdx: indices of f's function-typed parameters that f calls directly (higher-order helper: withLock(fn)).
func paramCallIdx(f *ssa.Function) map[int]bool {
	out := map[int]bool{}
	allInstrs(f, func(i ssa.Instruction) {
		cc := callCommon(i)
		if cc == nil || cc.IsInvoke() {
			return
		}
		if prm, ok := cc.Value.(*ssa.Parameter); ok {
			for k, q := range f.Params {
				if q == prm {
					out[k] = true
				}
			}
		}
	})
	return out
}

// funcOfValue: the in-repo function a function-typed argument denotes (closure literal, function, bound method value).
func (lo *LockOrder) funcOfValue(v ssa.Value) *ssa.Function {
	v = stripConv(v)
	switch x := v.(type) {
	case *ssa.MakeClosure:
		f, _ := x.Fn.(*ssa.Function)
		if f == nil {
			return nil
		}
		if lo.P.InRepo(f) && f.Synthetic == "" {
			return f
		}
		// bound method wrapper: the method it forwards to
		var target *ssa.Function
		allInstrs(f, func(i ssa.Instruction) {
			if cc := callCommon(i); cc != nil {
				if g := cc.StaticCallee(); g != nil && lo.P.InRepo(g) {
					target = g
				}
			}
		})
		return target
	case *ssa.Function:
		if lo.P.InRepo(x) {
			return x
		}
	}
	return nil
}

// calleesCtx resolves the synchronous in-repo callees of call instruction c in function f with one level of context for
// higher-order helpers: a call of f's own function-typed parameter is not resolved here (the caller of f accounts for
// it), and a call of a helper that invokes its parameter contributes the function actually passed at this site.
// ok=false means the site could not be specialised and the context-insensitive callee set was used.
func (lo *LockOrder) calleesCtx(f *ssa.Function, c ssa.CallInstruction) []*ssa.Function {
	cc := c.Common()
	if !cc.IsInvoke() {
		if _, isParam := cc.Value.(*ssa.Parameter); isParam && len(lo.P.CallersOf(f)) > 0 && f.Parent() == nil {
			allSpecialised := true
			for _, cs := range lo.P.CallersOf(f) {
				if !lo.P.InRepo(cs.Parent()) {
					allSpecialised = false
				}
			}
			if allSpecialised {
				return nil // accounted for at f's call sites
			}
		}
	}
	out := lo.repoCallees(c)
	if h := cc.StaticCallee(); h != nil && lo.P.InRepo(h) && h.Parent() == nil {
		args := callArgs(cc)
		for idx := range paramCallIdx(h) {
			if idx < len(args) {
				if g := lo.funcOfValue(args[idx]); g != nil {
					out = append(out, g)
				} else {
					// unknown function value: fall back to everything the helper may call through that parameter
					allInstrs(h, func(i ssa.Instruction) {
						if ci, ok := i.(ssa.CallInstruction); ok {
							if prm, isP := ci.Common().Value.(*ssa.Parameter); isP && prm == h.Params[idx] {
								out = append(out, lo.repoCallees(ci)...)
							}
						}
					})
				}
			}
		}
	}
	return out
}

func namedOf(t types.Type) *types.Named {
	for {
		if p, ok := t.Underlying().(*types.Pointer); ok {
			t = p.Elem()
			continue
		}
		break
	}
	n, _ := t.(*types.Named)
	return n
}

// callbacksAt: in-repo functions and in-repo named types handed to a library call at this site; a library
// callee may call back only into these (precision filter against type-merged paths inside library code).
func (lo *LockOrder) callbacksAt(c ssa.CallInstruction) (map[*ssa.Function]bool, map[*types.Named]bool) {
	fs := map[*ssa.Function]bool{}
	ts := map[*types.Named]bool{}
	for _, a := range callArgs(c.Common()) {
		v := stripConv(a)
		switch x := v.(type) {
		case *ssa.MakeClosure:
			if f, ok := x.Fn.(*ssa.Function); ok && lo.P.InRepo(f) {
				fs[f] = true
			}
		case *ssa.Function:
			if lo.P.InRepo(x) {
				fs[x] = true
			}
		}
		if n := namedOf(v.Type()); n != nil && n.Obj().Pkg() != nil {
			pp := n.Obj().Pkg().Path()
			if pp == modPath || strings.HasPrefix(pp, modPath+"/") {
				ts[n] = true
			}
		}
	}
	return fs, ts
}

func (lo *LockOrder) throughLib(g *ssa.Function) []*ssa.Function {
	if r, ok := lo.lib[g]; ok {
		return r
	}
	lo.lib[g] = nil
	if isLeafLib(g) {
		return nil
	}
	type item struct {
		f *ssa.Function
		d int
	}
	var out []*ssa.Function
	seen := map[*ssa.Function]bool{g: true}
	work := []item{{g, 0}}
	for len(work) > 0 {
		it := work[0]
		work = work[1:]
		node := lo.P.CG.Nodes[it.f]
		if node == nil {
			continue
		}
		for _, e := range node.Out {
			if _, isGo := e.Site.(*ssa.Go); isGo {
				continue
			}
			h := e.Callee.Func
			if h == nil || seen[h] {
				continue
			}
			seen[h] = true
			if lo.P.InRepo(h) {
				out = append(out, h)
				continue
			}
			if isLeafLib(h) || it.d >= 5 {
				continue
			}
			work = append(work, item{h, it.d + 1})
		}
	}
	sort.Slice(out, func(i, j int) bool { return out[i].String() < out[j].String() })
	lo.lib[g] = out
	return out
}

// acquires: lock classes acquired by f or anything it (synchronously) calls.
func (lo *LockOrder) computeAcquires() {
	direct := map[*ssa.Function]map[string]acqInfo{}
	calls := map[*ssa.Function][]*ssa.Function{}
	for _, f := range lo.P.RepoFuncs {
		d := map[string]acqInfo{}
		allInstrs(f, func(i ssa.Instruction) {
			if k, path, ok := lockOp(i); ok && (k == "lock" || k == "rlock") {
				cl := path.Class()
				if _, has := d[cl]; !has {
					d[cl] = acqInfo{class: cl, excl: k == "lock", via: shortFn(f), site: i}
				}
			}
			switch c := i.(type) {
			case *ssa.Call:
				calls[f] = append(calls[f], lo.calleesCtx(f, c)...)
			case *ssa.Defer:
				calls[f] = append(calls[f], lo.calleesCtx(f, c)...)
			}
		})
		direct[f] = d
	}
	lo.acq = map[*ssa.Function]map[string]acqInfo{}
	for f, d := range direct {
		m := map[string]acqInfo{}
		for k, v := range d {
			m[k] = v
		}
		lo.acq[f] = m
	}
	for changed := true; changed; {
		changed = false
		for _, f := range lo.P.RepoFuncs {
			for _, g := range calls[f] {
				for cl, info := range lo.acq[g] {
					if _, has := lo.acq[f][cl]; !has {
						ni := info
						ni.via = shortFn(f) + " → " + info.via
						lo.acq[f][cl] = ni
						changed = true
					}
				}
			}
		}
	}
}

func BuildLockOrder(p *Prog, ls *Locksets) *LockOrder {
	lo := &LockOrder{P: p, LS: ls, lib: map[*ssa.Function][]*ssa.Function{}}
	lo.computeAcquires()
	seen := map[string]bool{}
	add := func(e OrderEdge) {
		k := e.From + "→" + e.To
		if e.SamePath {
			k += "!"
		}
		if seen[k] {
			return
		}
		seen[k] = true
		lo.Edges = append(lo.Edges, e)
	}
	for _, f := range p.RepoFuncs {
		allInstrs(f, func(i ssa.Instruction) {
			held := ls.MayHeldLocal(i)
			if len(held) == 0 {
				return
			}
			if k, path, ok := lockOp(i); ok && (k == "lock" || k == "rlock") {
				for _, h := range held {
					add(OrderEdge{From: h.Path.Class(), To: path.Class(), FromExcl: h.Excl, ToExcl: k == "lock", Site: i, Via: shortFn(f), SamePath: h.Path.Key() == path.Key()})
				}
				return
			}
			var callees []*ssa.Function
			switch c := i.(type) {
			case *ssa.Call:
				callees = lo.calleesCtx(f, c)
			case *ssa.Defer:
				callees = lo.calleesCtx(f, c)
			default:
				return
			}
			for _, g := range callees {
				for _, info := range lo.acq[g] {
					for _, h := range held {
						same := false
						if h.Path.Class() == info.class {
							// same object if the translated path is acquired directly in g
							tr := translate(lockSet{h.Path.Key(): h}, i.(ssa.CallInstruction), g)
							allInstrs(g, func(j ssa.Instruction) {
								if k2, p2, ok := lockOp(j); ok && (k2 == "lock" || k2 == "rlock") {
									if _, has := tr[p2.Key()]; has {
										same = true
									}
								}
							})
						}
						add(OrderEdge{From: h.Path.Class(), To: info.class, FromExcl: h.Excl, ToExcl: info.excl, Site: i, Via: shortFn(f) + " → " + info.via, SamePath: same})
					}
				}
			}
		})
	}
	sort.Slice(lo.Edges, func(i, j int) bool {
		if lo.Edges[i].From != lo.Edges[j].From {
			return lo.Edges[i].From < lo.Edges[j].From
		}
		return lo.Edges[i].To < lo.Edges[j].To
	})
	return lo
}

// Cycles returns the strongly connected components with more than one class (as sorted class lists), and self edges.
func (lo *LockOrder) Cycles() (sccs [][]string, self []OrderEdge) {
	adj := map[string][]string{}
	nodes := map[string]bool{}
	for _, e := range lo.Edges {
		nodes[e.From], nodes[e.To] = true, true
		if e.From == e.To {
			self = append(self, e)
			continue
		}
		adj[e.From] = append(adj[e.From], e.To)
	}
	// Tarjan
	index := 0
	idx := map[string]int{}
	low := map[string]int{}
	on := map[string]bool{}
	var stack []string
	var names []string
	for n := range nodes {
		names = append(names, n)
	}
	sort.Strings(names)
	var strong func(v string)
	strong = func(v string) {
		idx[v], low[v] = index, index
		index++
		stack = append(stack, v)
		on[v] = true
		for _, w := range adj[v] {
			if _, ok := idx[w]; !ok {
				strong(w)
				if low[w] < low[v] {
					low[v] = low[w]
				}
			} else if on[w] && idx[w] < low[v] {
				low[v] = idx[w]
			}
		}
		if low[v] == idx[v] {
			var comp []string
			for {
				w := stack[len(stack)-1]
				stack = stack[:len(stack)-1]
				on[w] = false
				comp = append(comp, w)
				if w == v {
					break
				}
			}
			if len(comp) > 1 {
				sort.Strings(comp)
				sccs = append(sccs, comp)
			}
		}
	}
	for _, n := range names {
		if _, ok := idx[n]; !ok {
			strong(n)
		}
	}
	return
}

func (lo *LockOrder) edge(from, to string) *OrderEdge {
	for i := range lo.Edges {
		if lo.Edges[i].From == from && lo.Edges[i].To == to {
			return &lo.Edges[i]
		}
	}
	return nil
}

func (e OrderEdge) describe(p *Prog) string {
	m := func(x bool) string {
		if x {
			return "W"
		}
		return "R"
	}
	return fmt.Sprintf("%s(%s) → %s(%s) at %s via %s", e.From, m(e.FromExcl), e.To, m(e.ToExcl), p.InstrPos(e.Site), e.Via)
}
