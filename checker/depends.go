package main

import (
	"golang.org/x/tools/go/ssa"
)

// valueDependsOn: v is computed from root — root is reachable from v through operands (arithmetic, conversions, loads,
// indexing, slicing, φ, call arguments and results, tuple extraction). A bounded, purely syntactic "is derived from".
func valueDependsOn(v, root ssa.Value, depth int) bool {
	seen := map[ssa.Value]bool{}
	var walk func(v ssa.Value, d int) bool
	walk = func(v ssa.Value, d int) bool {
		if v == nil || d > 14 || seen[v] {
			return false
		}
		if v == root {
			return true
		}
		seen[v] = true
		in, ok := v.(ssa.Instruction)
		if !ok {
			return false
		}
		for _, op := range in.Operands(nil) {
			if op != nil && *op != nil && walk(*op, d+1) {
				return true
			}
		}
		// a load from a local cell: what was stored there
		if u, isU := v.(*ssa.UnOp); isU {
			if a, isA := u.X.(*ssa.Alloc); isA && a.Referrers() != nil {
				for _, r := range *a.Referrers() {
					if st, isSt := r.(*ssa.Store); isSt && st.Addr == ssa.Value(a) && walk(st.Val, d+1) {
						return true
					}
				}
			}
		}
		// an array/slice literal built in a local cell: the values stored into its elements
		if sl, isSl := v.(*ssa.Slice); isSl {
			if a, isA := sl.X.(*ssa.Alloc); isA && a.Referrers() != nil {
				for _, r := range *a.Referrers() {
					if ia, isIA := r.(*ssa.IndexAddr); isIA && ia.Referrers() != nil {
						for _, r2 := range *ia.Referrers() {
							if st, isSt := r2.(*ssa.Store); isSt && walk(st.Val, d+1) {
								return true
							}
						}
					}
				}
			}
		}
		return false
	}
	return walk(v, depth)
}
