package main

import (
	"go/token"

	"golang.org/x/tools/go/ssa"
)

// allSourcesSatisfy: every value that can reach v through copies — local variable cells (also captured ones), φ-nodes,
// closure free variables (bound at the closure's creation) and parameters of in-repo functions (bound at every call
// site the call graph knows) — satisfies leaf. Used where a rule says "the key is addr.String()" and the code says
// `k := addr.String(); … m[k]` or hands k to a small closure.
func allSourcesSatisfy(p *Prog, v ssa.Value, leaf func(ssa.Value) bool, depth int, seen map[ssa.Value]bool) bool {
	v = stripConv(v)
	if leaf(v) {
		return true
	}
	if depth > 8 || seen[v] {
		return false
	}
	seen[v] = true
	cellStores := func(a *ssa.Alloc) ([]ssa.Value, bool) {
		var out []ssa.Value
		if a.Referrers() == nil {
			return nil, false
		}
		var visit func(refs []ssa.Instruction) bool
		visit = func(refs []ssa.Instruction) bool {
			for _, r := range refs {
				switch y := r.(type) {
				case *ssa.Store:
					if y.Addr != ssa.Value(a) {
						if _, isFV := y.Addr.(*ssa.FreeVar); !isFV {
							return false
						}
					}
					out = append(out, y.Val)
				case *ssa.MakeClosure:
					fn, _ := y.Fn.(*ssa.Function)
					if fn == nil {
						return false
					}
					for i, b := range y.Bindings {
						if b == ssa.Value(a) && i < len(fn.FreeVars) && fn.FreeVars[i].Referrers() != nil {
							for _, r2 := range *fn.FreeVars[i].Referrers() {
								if st, isSt := r2.(*ssa.Store); isSt && st.Addr == ssa.Value(fn.FreeVars[i]) {
									out = append(out, st.Val)
								}
							}
						}
					}
				case *ssa.UnOp, *ssa.DebugRef:
				default:
					return false
				}
			}
			return true
		}
		if !visit(*a.Referrers()) {
			return nil, false
		}
		return out, len(out) > 0
	}
	switch x := v.(type) {
	case *ssa.Phi:
		for _, e := range x.Edges {
			if !allSourcesSatisfy(p, e, leaf, depth+1, seen) {
				return false
			}
		}
		return true
	case *ssa.Field:
		// field of a struct value copied out of a local struct cell as a whole (t := *cell; t.f)
		var fromStruct func(sv ssa.Value, d int) bool
		fromStruct = func(sv ssa.Value, d int) bool {
			if d > 3 {
				return false
			}
			switch y := sv.(type) {
			case *ssa.Phi:
				for _, e := range y.Edges {
					if !fromStruct(e, d+1) {
						return false
					}
				}
				return len(y.Edges) > 0
			case *ssa.UnOp:
				a, isA := y.X.(*ssa.Alloc)
				if !isA || y.Op != token.MUL {
					return false
				}
				vals, ok := structCellFieldSources(a, x.Field)
				if !ok || len(vals) == 0 {
					return false
				}
				for _, s := range vals {
					if !allSourcesSatisfy(p, s, leaf, depth+1, seen) {
						return false
					}
				}
				return true
			}
			return false
		}
		return fromStruct(x.X, 0)
	case *ssa.UnOp:
		// s.f where s is a local struct variable (possibly captured and assigned as a whole inside a closure)
		if fa, isFA := x.X.(*ssa.FieldAddr); isFA {
			if a, isA := fa.X.(*ssa.Alloc); isA {
				vals, ok := structCellFieldSources(a, fa.Field)
				if !ok || len(vals) == 0 {
					return false
				}
				for _, s := range vals {
					if !allSourcesSatisfy(p, s, leaf, depth+1, seen) {
						return false
					}
				}
				return true
			}
		}
		switch cell := x.X.(type) {
		case *ssa.Alloc:
			vals, ok := cellStores(cell)
			if !ok {
				return false
			}
			for _, s := range vals {
				if !allSourcesSatisfy(p, s, leaf, depth+1, seen) {
					return false
				}
			}
			return true
		case *ssa.FreeVar:
			fn := cell.Parent()
			idx := -1
			for i, fv := range fn.FreeVars {
				if fv == cell {
					idx = i
				}
			}
			if idx < 0 || fn.Referrers() == nil {
				return false
			}
			n := 0
			for _, r := range *ssa.Value(fn).Referrers() {
				mc, isMC := r.(*ssa.MakeClosure)
				if !isMC || idx >= len(mc.Bindings) {
					continue
				}
				a, isA := mc.Bindings[idx].(*ssa.Alloc)
				if !isA {
					return false // a closure inside a closure (binding is the outer free variable): not followed
				}
				vals, ok := cellStores(a)
				if !ok {
					return false
				}
				for _, s := range vals {
					if !allSourcesSatisfy(p, s, leaf, depth+1, seen) {
						return false
					}
				}
				n++
			}
			return n > 0
		}
	case *ssa.Parameter:
		fn := x.Parent()
		idx := -1
		for i, pr := range fn.Params {
			if pr == x {
				idx = i
			}
		}
		callers := p.CallersOf(fn)
		if idx < 0 || len(callers) == 0 {
			return false
		}
		for _, cs := range callers {
			args := callArgs(cs.Common())
			if len(args) != len(fn.Params) {
				return false
			}
			if !allSourcesSatisfy(p, args[idx], leaf, depth+1, seen) {
				return false
			}
		}
		return true
	}
	return false
}

// structCellFieldSources: every value that can be in field k of the local struct cell a: stores into the field, and
// field k of struct literals assigned to the cell as a whole — in the function itself or in closures that capture it.
func structCellFieldSources(a *ssa.Alloc, k int) ([]ssa.Value, bool) {
	return structCellFieldSourcesD(a, k, 0)
}

func structCellFieldSourcesD(a *ssa.Alloc, k int, lvl int) ([]ssa.Value, bool) {
	var out []ssa.Value
	ok := true
	var visit func(root ssa.Value, depth int)
	visit = func(root ssa.Value, depth int) {
		if root.Referrers() == nil || depth > 2 {
			return
		}
		for _, r := range *root.Referrers() {
			switch y := r.(type) {
			case *ssa.Store:
				if y.Addr != root {
					ok = false
					continue
				}
				// whole-struct assignment: field k of the literal it comes from
				ld, isLd := y.Val.(*ssa.UnOp)
				if !isLd {
					ok = false
					continue
				}
				lit, isA := ld.X.(*ssa.Alloc)
				if !isA || lit.Referrers() == nil {
					ok = false
					continue
				}
				// the source is a literal under construction, or another struct variable (itself assigned as a whole,
				// possibly inside a closure): whatever can be in its field k
				if lit == a || lvl > 2 {
					ok = false
					continue
				}
				vals, okL := structCellFieldSourcesD(lit, k, lvl+1)
				if !okL || len(vals) == 0 {
					ok = false // (the field keeps its zero value in that literal)
					continue
				}
				out = append(out, vals...)
			case *ssa.FieldAddr:
				if y.Field != k || y.Referrers() == nil {
					continue
				}
				for _, r2 := range *y.Referrers() {
					switch z := r2.(type) {
					case *ssa.Store:
						if z.Addr == ssa.Value(y) {
							out = append(out, z.Val)
						} else {
							ok = false
						}
					case *ssa.UnOp, *ssa.DebugRef:
					default:
						ok = false
					}
				}
			case *ssa.MakeClosure:
				fn, _ := y.Fn.(*ssa.Function)
				if fn == nil {
					ok = false
					continue
				}
				for i, b := range y.Bindings {
					if b == root && i < len(fn.FreeVars) {
						visit(fn.FreeVars[i], depth+1)
					}
				}
			case *ssa.UnOp, *ssa.DebugRef:
			default:
				ok = false
			}
		}
	}
	visit(a, 0)
	return out, ok
}

// lenExpr: v is len(x), or len(x) plus/minus something that is not itself read from a byte (a remaining length).
func lenExpr(v ssa.Value, depth int) bool {
	v = stripConv(v)
	if depth > 4 {
		return false
	}
	switch x := v.(type) {
	case *ssa.Call:
		return calleeName(&x.Call) == "builtin.len"
	case *ssa.BinOp:
		if x.Op == token.SUB || x.Op == token.ADD {
			return lenExpr(x.X, depth+1) || (x.Op == token.ADD && lenExpr(x.Y, depth+1))
		}
	}
	return false
}

// valueDependsOn: v is computed from root — root is reachable from v through operands (arithmetic, conversions, loads,
// indexing, slicing, φ, call arguments and results, tuple extraction). A bounded, purely syntactic "is derived from".
func valueDependsOn(v, root ssa.Value, depth int) bool {
	seen := map[ssa.Value]bool{}
	var walk func(v ssa.Value, d int) bool
	walk = func(v ssa.Value, d int) bool {
		if v == nil || d > 14 || seen[v] {
			return false
		}
		if v == root {
			return true
		}
		seen[v] = true
		in, ok := v.(ssa.Instruction)
		if !ok {
			return false
		}
		for _, op := range in.Operands(nil) {
			if op != nil && *op != nil && walk(*op, d+1) {
				return true
			}
		}
		// a load from a local cell: what was stored there
		if u, isU := v.(*ssa.UnOp); isU {
			if a, isA := u.X.(*ssa.Alloc); isA && a.Referrers() != nil {
				for _, r := range *a.Referrers() {
					if st, isSt := r.(*ssa.Store); isSt && st.Addr == ssa.Value(a) && walk(st.Val, d+1) {
						return true
					}
				}
			}
		}
		// an array/slice literal built in a local cell: the values stored into its elements
		if sl, isSl := v.(*ssa.Slice); isSl {
			if a, isA := sl.X.(*ssa.Alloc); isA && a.Referrers() != nil {
				for _, r := range *a.Referrers() {
					if ia, isIA := r.(*ssa.IndexAddr); isIA && ia.Referrers() != nil {
						for _, r2 := range *ia.Referrers() {
							if st, isSt := r2.(*ssa.Store); isSt && walk(st.Val, d+1) {
								return true
							}
						}
					}
				}
			}
		}
		return false
	}
	return walk(v, depth)
}
