package main

import (
	"fmt"
	"go/token"
	"go/types"
	"strings"

	"golang.org/x/tools/go/ssa"
)

func init() {
	register(&PropDef{
		ID: "C15", Title: "connections join the right session; the session cap is never exceeded",
		Run:       runC15,
		Technique: "static analysis: lockset (one exclusive critical section around lookup→authorise→create→insert), comparison normalisation for the cap test, value-flow for the count, the keys of the tables and the key sent to each connection",
		Decided: "(a) lookup, authorisation, creation and insertion of a session are one exclusive critical section of the user's session lock (same for lookup/authenticate/insert of the active-user record); the non-bypass path cannot reach the insert without a successful authorisation; " +
			"(b) authorisation succeeds only under 'existing < cap' (strict), the count passed is len(sessions) evaluated inside that section and the cap is the stored SessionsCap; (c) the key sealed for every connection is the key of the session returned by the lookup-or-create, never the fresh local key; " +
			"(d) both tables are keyed by the decoded ids (same value at lookup and insert); (e) a new session gets the user's valve; sessions are removed under the lock.",
		NotDecided:  "bbolt's view consistency; negative caps (stored as uint32, read as huge); the race with the user's last session closing (C17's known finding).",
		Assumptions: []string{"sync.RWMutex.Lock is exclusive"},
	})
}

func runC15(c *Ctx) {
	c15R1(c, "C15.R1")
	c15R2(c, "C15.R2")
	c15R3(c, "C15.R3")
	c15R4(c, "C15.R4")
	c15R5(c, "C15.R5")
	c15R6(c, "C15.R6")
	// imported: credit/expiry conditions of authentication and authorisation (clause "a user whose credit is exhausted
	// or whose expiry has passed cannot start a session")
	c.importing = "C07"
	c07R5(c, "C07.R5")
	// "connections carrying different UIDs never share a session": the UID the dispatcher keeps using after
	// authentication must be the connection's own memory
	c.importing = "C06"
	c06R6(c, "C06.R6")
	c.importing = ""
}

// inserterOf: the unique non-test function that inserts a non-nil value into the map field.
func insertersOf(p *Prog, fv *types.Var) []*ssa.MapUpdate {
	var out []*ssa.MapUpdate
	for _, acc := range FieldAccesses(p, map[*types.Var]bool{fv: true}) {
		if acc.Kind == "mapupdate" && !strings.HasSuffix(p.Pos(acc.Fn.Pos()), "_fuzz.go") {
			out = append(out, acc.Instr.(*ssa.MapUpdate))
		}
	}
	return out
}

func lookupsOf(f *ssa.Function, fv *types.Var) []*ssa.Lookup {
	var out []*ssa.Lookup
	allInstrs(f, func(i ssa.Instruction) {
		if l, ok := i.(*ssa.Lookup); ok {
			if v, _ := loadedField(l.X); v == fv {
				out = append(out, l)
			}
		}
	})
	return out
}

func unlockOf(lockField *types.Var) func(ssa.Instruction) bool {
	return func(x ssa.Instruction) bool {
		k, path, ok := lockOp(x)
		return ok && (k == "unlock" || k == "runlock") && len(path.Chain) > 0 && path.Chain[len(path.Chain)-1] == lockField
	}
}

// atomicSection checks lookup→(auth call)→insert under one exclusive section of lockField.
func atomicSection(c *Ctx, rule string, mu *ssa.MapUpdate, mapField, lockField *types.Var, authMethod string) {
	p := c.P
	ls := p.Locksets()
	f := mu.Parent()
	construct := fmt.Sprintf("lookup→%s→insert into %s in %s", authMethod, mapField.Name(), shortFn(f))
	lks := lookupsOf(f, mapField)
	if len(lks) == 0 {
		c.Bad(rule, construct, c.at(mu), "the function inserts without looking the key up: two arrivals for the same id would create two entries")
		return
	}
	lk := lks[0]
	var auth ssa.Instruction
	allInstrs(f, func(i ssa.Instruction) {
		if cc := callCommon(i); cc != nil && cc.IsInvoke() && cc.Method.Name() == authMethod {
			auth = i
		}
	})
	okAll := true
	why := ""
	for _, site := range []ssa.Instruction{lk, mu, auth} {
		if site == nil {
			continue
		}
		held, e := lockHeldByClass(ls.MustHeld(site), lockField)
		if !held || !e.Excl {
			okAll = false
			why = fmt.Sprintf("%s not held exclusively at %s (%s)", lockField.Name(), c.at(site), setString(ls.MustHeld(site)))
		}
	}
	if okAll {
		if u := onPathBetween(lk, mu, unlockOf(lockField)); u != nil {
			okAll, why = false, "the lock is released at "+c.at(u)+" between the lookup and the insert"
		}
	}
	if okAll && !instrDominates(lk, mu) {
		okAll, why = false, "the insert is not dominated by the lookup"
	}
	c.Check(okAll, rule, construct, c.at(mu), "one exclusive section of "+lockField.Name()+" spans lookup, authorisation and insert", why+": check-then-create is not atomic — simultaneous arrivals can create two sessions/records for one id or exceed the cap")
}

func c15R1(c *Ctx, rule string) {
	c.Rule(rule, "atomic lookup→authorise→insert: in one exclusive critical section of sessionsM (sessions) / activeUsersM (active users); the limited path cannot reach the insert without a successful authorisation", 4)
	a := getSrvAnchors(c, rule)
	if a == nil {
		return
	}
	p := c.P
	for _, mu := range insertersOf(p, a.sessions) {
		atomicSection(c, rule, mu, a.sessions, a.sessionsM, "AuthoriseNewSession")
		// authorisation is mandatory for non-bypass users and heeded
		f := mu.Parent()
		var auth *ssa.Call
		allInstrs(f, func(i ssa.Instruction) {
			if call, ok := i.(*ssa.Call); ok && call.Call.IsInvoke() && call.Call.Method.Name() == "AuthoriseNewSession" {
				auth = call
			}
		})
		construct := "authorisation mandatory and heeded before insert in " + shortFn(f)
		if auth == nil {
			c.Bad(rule, construct, c.at(mu), "no AuthoriseNewSession call on the way to the insert")
			continue
		}
		bypassF := p.Field("internal/server", "ActiveUser", "bypass")
		// cut the edge taken when u.bypass is true: what remains are the limited-user paths
		bypassEdge := func(at Atom) bool {
			if at.Kind == "bool" && at.Pol {
				if fv, _ := loadedField(at.X); fv == bypassF {
					return true
				}
			}
			return false
		}
		isMu := func(i ssa.Instruction) bool { return i == ssa.Instruction(mu) }
		skip := edgeSearch(f, nil, bypassEdge, func(i ssa.Instruction) bool { return i == ssa.Instruction(auth) }, isMu)
		// heeded: from the call, the insert is only reachable through the err == nil edge
		errNilEdge := func(at Atom) bool {
			return at.Kind == "cmp" && at.Op == token.EQL && (at.X == ssa.Value(auth) || at.Y == ssa.Value(auth)) && (isNilConst(at.X) || isNilConst(at.Y))
		}
		unheeded := edgeSearch(f, auth, errNilEdge, nil, isMu)
		c.Check(skip == nil && unheeded == nil, rule, construct, c.at(auth), "every non-bypass path to the insert passes AuthoriseNewSession with err == nil",
			fmt.Sprintf("insert reachable without authorisation=%v, reachable after a failed authorisation=%v", skip != nil, unheeded != nil))
	}
	for _, mu := range insertersOf(p, a.activeUsers) {
		f := mu.Parent()
		method := "AuthenticateUser"
		if len(callsInvoke(f, method)) == 0 {
			method = "(none: bypass)"
		}
		atomicSection(c, rule, mu, a.activeUsers, a.activeUsersM, "AuthenticateUser")
		if method == "AuthenticateUser" {
			auth := callsInvoke(f, "AuthenticateUser")[0]
			// insert and non-nil result only after err == nil
			errV := extractOf(auth, 2)
			guarded := false
			for _, at := range AtomsAt(mu) {
				if at.Kind == "cmp" && at.Op == token.EQL && errV != nil && (at.X == errV || at.Y == errV) && (isNilConst(at.X) || isNilConst(at.Y)) {
					guarded = true
				}
			}
			c.Check(guarded, rule, "record inserted only after successful authentication in "+shortFn(f), c.at(mu), "dominated by AuthenticateUser err == nil", "an active-user record is created without (or before) a successful AuthenticateUser")
		}
	}
}

func callsInvoke(f *ssa.Function, method string) []*ssa.Call {
	var out []*ssa.Call
	allInstrs(f, func(i ssa.Instruction) {
		if call, ok := i.(*ssa.Call); ok && call.Call.IsInvoke() && call.Call.Method.Name() == method {
			out = append(out, call)
		}
	})
	return out
}

func extractOf(call *ssa.Call, idx int) ssa.Value {
	for _, r := range *call.Referrers() {
		if ex, ok := r.(*ssa.Extract); ok && ex.Index == idx {
			return ex
		}
	}
	return nil
}

func c15R2(c *Ctx, rule string) {
	c.Rule(rule, "cap comparison and count: success only under NumExistingSessions < SessionsCap (strict); the count is len(sessions) taken inside the critical section; the cap is the stored SessionsCap", 3)
	a := getSrvAnchors(c, rule)
	if a == nil {
		return
	}
	p := c.P
	an := c.need(rule, umRel, "localManager.AuthoriseNewSession")
	numF := p.Field(umRel, "AuthorisationInfo", "NumExistingSessions")
	if an == nil || numF == nil {
		c.Undecided(rule, "anchor AuthoriseNewSession / AuthorisationInfo.NumExistingSessions", "-", "not found")
		return
	}
	// success returns
	nSucc := 0
	sawCapFromKey := false
	for _, r := range returnsOf(an) {
		if errIsNilAt(resultValue(r, 0), r) == "nonnil" {
			continue
		}
		nSucc++
		strict := false
		capSrc := ""
		capFromKey := false
		for _, at := range AtomsAt(r) {
			if at.Kind != "cmp" || at.Op != token.LSS {
				continue
			}
			if fv, _ := loadedField(at.X); fv == numF {
				strict = true
				capSrc = Expr(at.Y)
				// whatever the variable is called: everything that can be in it was decoded from the SessionsCap key
				if allSourcesSatisfy(p, at.Y, func(v ssa.Value) bool { return getKeyOf(p, v) == "SessionsCap" }, 0, map[ssa.Value]bool{}) {
					capFromKey = true
					sawCapFromKey = true
				}
			}
		}
		okCap := strings.Contains(capSrc, "sessionsCap") || strings.Contains(capSrc, "SessionsCap") || capFromKey
		c.Check(strict && okCap, rule, "success return of AuthoriseNewSession at "+c.at(r), c.at(r), "guarded by NumExistingSessions < "+capSrc,
			"a new session is authorised without the strict test 'existing < cap' against the stored SessionsCap (cap+1 sessions possible)")
	}
	if nSucc == 0 {
		c.Undecided(rule, "success return of AuthoriseNewSession", c.atFn(an), "none found")
	}
	// sessionsCap variable is decoded from key SessionsCap
	okKey := false
	for _, f := range append([]*ssa.Function{an}, an.AnonFuncs...) {
		allInstrs(f, func(i ssa.Instruction) {
			if st, ok := i.(*ssa.Store); ok {
				name := ""
				switch x := st.Addr.(type) {
				case *ssa.Alloc:
					name = x.Comment
				case *ssa.FreeVar:
					name = x.Name()
				}
				if name == "sessionsCap" && getKeyOf(p, st.Val) == "SessionsCap" {
					okKey = true
				}
			}
		})
	}
	c.Check(okKey || sawCapFromKey, rule, "cap compared is the stored SessionsCap", c.atFn(an), "sessionsCap ← decode(Get(\"SessionsCap\"))", "the cap variable is not decoded from the SessionsCap key")
	// the count passed is len(u.sessions) under the lock
	ls := p.Locksets()
	n := 0
	for _, st := range FieldStores(p, numF) {
		if strings.HasSuffix(p.Pos(st.Pos()), "_test.go") {
			continue
		}
		n++
		call, ok := stripConv(st.Val).(*ssa.Call)
		isLen := ok && calleeName(&call.Call) == "builtin.len"
		var fv *types.Var
		if isLen {
			fv, _ = loadedField(call.Call.Args[0])
		}
		held, _ := lockHeldByClass(ls.MustHeld(st), a.sessionsM)
		c.Check(isLen && fv == a.sessions && held, rule, "count passed to the authorisation in "+shortFn(st.Parent()), c.at(st), "len(u.sessions) evaluated with sessionsM held",
			"NumExistingSessions is "+Expr(st.Val)+" (must be len(sessions) read inside the session-table critical section)")
	}
	if n == 0 {
		c.Undecided(rule, "stores to NumExistingSessions", "-", "none found")
	}
}

func c15R3(c *Ctx, rule string) {
	c.Rule(rule, "one key per session: the key handed to the handshake responder on the user path is GetSessionKey() of the session returned by GetSession; on the admin path it is the key the session's obfuscator was built from", 2)
	p := c.P
	dc := c.need(rule, "internal/server", "dispatchConnection")
	if dc == nil {
		return
	}
	getKey := p.Func("internal/multiplex", "Session.GetSessionKey")
	n := 0
	allInstrs(dc, func(i ssa.Instruction) {
		call, ok := i.(*ssa.Call)
		if !ok || call.Call.IsInvoke() || call.Call.StaticCallee() != nil {
			return
		}
		// dynamic call of the responder: signature (net.Conn, [32]byte, io.Reader)
		sig, ok := call.Call.Value.Type().Underlying().(*types.Signature)
		if !ok || sig.Params().Len() != 3 || typeStr(sig.Params().At(1).Type()) != "[32]byte" {
			return
		}
		n++
		key := call.Call.Args[1]
		construct := "responder call at " + strings.TrimPrefix(c.at(i), "internal/server/")
		if kc, ok := key.(*ssa.Call); ok && kc.Call.StaticCallee() == getKey && getKey != nil {
			// receiver is the session returned by GetSession
			recv := kc.Call.Args[0]
			fromGet := false
			if ex, ok := recv.(*ssa.Extract); ok && ex.Index == 0 {
				if gc, ok := ex.Tuple.(*ssa.Call); ok && strings.HasSuffix(calleeName(&gc.Call), "ActiveUser).GetSession") {
					fromGet = true
				}
			}
			c.Check(fromGet, rule, construct, c.at(i), "key = GetSession(...).GetSessionKey()", "the key sealed for this connection is not the key of the session it joins: the second connection of a session would get a different key")
			return
		}
		// admin path: the local key that also built the obfuscator handed to MakeSession in this branch
		if ld, ok := key.(*ssa.UnOp); ok && ld.Op == token.MUL {
			admin := false
			for _, at := range AtomsAt(i) {
				if at.Kind == "cmp" && at.Op == token.EQL {
					if fv, _ := loadedField(at.X); fv != nil && fv.Name() == "SessionId" {
						admin = true
					}
				}
			}
			feedsObf := false
			for _, r := range *ld.X.Referrers() {
				if l2, ok := r.(*ssa.UnOp); ok {
					for _, rr := range *l2.Referrers() {
						if cc := callCommon(toInstr(rr)); cc != nil && strings.HasSuffix(calleeName(cc), "multiplex.MakeObfuscator") {
							feedsObf = true
						}
					}
				}
			}
			c.Check(admin && feedsObf, rule, construct, c.at(i), "admin session (fresh, never joined by a second connection): key = the key its obfuscator was built from", fmt.Sprintf("fresh local key used outside the admin branch (admin=%v, feeds obfuscator=%v)", admin, feedsObf))
			return
		}
		c.Bad(rule, construct, c.at(i), "cannot relate the key argument "+Expr(key)+" to the joined session")
	})
	if n == 0 {
		c.Undecided(rule, "responder calls in dispatchConnection", c.atFn(dc), "none found")
	}
	if getKey != nil {
		okRet := false
		for _, r := range returnsOf(getKey) {
			if fv, _ := loadedField(r.Results[0]); fv != nil && fv.Name() == "sessionKey" {
				okRet = true
			}
		}
		c.Check(okRet, rule, "GetSessionKey returns the obfuscator's session key", c.atFn(getKey), "returns Obfuscator.sessionKey", "GetSessionKey does not return the key frames are sealed with")
	}
}

func toInstr(i ssa.Instruction) ssa.Instruction { return i }

func c15R4(c *Ctx, rule string) {
	c.Rule(rule, "keys of the tables: sessions is looked up and inserted with the same session-id value, which at the call site is the decoded ClientInfo.SessionId; activeUsers by the 16-byte copy of the UID", 3)
	a := getSrvAnchors(c, rule)
	if a == nil {
		return
	}
	p := c.P
	for _, mu := range insertersOf(p, a.sessions) {
		f := mu.Parent()
		lks := lookupsOf(f, a.sessions)
		same := len(lks) > 0 && sameValueOrLoad(lks[0].Index, mu.Key)
		_, isParam := stripConv(mu.Key).(*ssa.Parameter)
		c.Check(same && isParam, rule, "same key at lookup and insert of sessions in "+shortFn(f), c.at(mu), "key = parameter "+Expr(mu.Key), "lookup key and insert key differ: connections with one id could land in different sessions")
		if isParam {
			idx := -1
			for k, q := range f.Params {
				if q == stripConv(mu.Key) {
					idx = k
				}
			}
			for _, cs := range p.CallersOf(f) {
				if !p.InRepo(cs.Parent()) || strings.HasSuffix(p.Pos(cs.Pos()), "_test.go") {
					continue
				}
				fv, _ := loadedField(cs.Common().Args[idx])
				c.Check(fv != nil && fv.Name() == "SessionId", rule, "session id passed by "+shortFn(cs.Parent()), c.at(cs), "ci.SessionId", "GetSession is called with "+Expr(cs.Common().Args[idx])+", not the decoded session id")
			}
		}
	}
	for _, mu := range insertersOf(p, a.activeUsers) {
		f := mu.Parent()
		lks := lookupsOf(f, a.activeUsers)
		// the insert key is user.arrUID (copied from UID), the lookup key is arrUID copied from UID
		okIns := false
		if fv, _ := loadedField(mu.Key); isField(fv, "internal/server", "ActiveUser", "arrUID") {
			okIns = true
		}
		// or simply the very key that was looked up (user.arrUID = arrUID; activeUsers[arrUID] = user)
		if len(lks) > 0 && sameValueOrLoad(lks[0].Index, mu.Key) {
			okIns = true
		}
		c.Check(len(lks) > 0 && okIns, rule, "activeUsers keyed by the UID copy in "+shortFn(f), c.at(mu), "lookup by arrUID, insert by user.arrUID (both copies of the UID parameter)", "active-user table is not keyed by the UID copy")
	}
}

func c15R5(c *Ctx, rule string) {
	c.Rule(rule, "a new session carries the user's valve (config.Valve = u.valve dominates MakeSession); sessions are deleted under the lock", 2)
	a := getSrvAnchors(c, rule)
	if a == nil {
		return
	}
	p := c.P
	valveF := p.Field("internal/server", "ActiveUser", "valve")
	cfgValve := p.Field("internal/multiplex", "SessionConfig", "Valve")
	if valveF == nil || cfgValve == nil {
		c.Undecided(rule, "anchor ActiveUser.valve / SessionConfig.Valve", "-", "not found")
		return
	}
	for _, mu := range insertersOf(p, a.sessions) {
		f := mu.Parent()
		var mk ssa.Instruction
		allInstrs(f, func(i ssa.Instruction) {
			if isCall(i, "internal/multiplex.MakeSession") {
				mk = i
			}
		})
		ok := false
		if mk != nil {
			allInstrs(f, func(i ssa.Instruction) {
				if st, isSt := i.(*ssa.Store); isSt {
					if fv, _ := fieldVar(st.Addr); fv == cfgValve {
						if src, _ := loadedField(st.Val); src == valveF && instrDominates(i, mk) {
							ok = true
						}
					}
				}
			})
		}
		c.Check(ok, rule, "valve handed to the new session in "+shortFn(f), c.at(mu), "config.Valve = u.valve dominates MakeSession", "the session is created without the user's shared valve: its traffic is neither limited nor charged")
	}
	ls := p.Locksets()
	CheckGuardedBy(c, ls, GuardSpec{Rule: rule, Rel: "internal/server", Type: "ActiveUser", Fields: []string{"sessions"}, LockChain: []string{a.sessionsM.Name()}})
	CheckGuardedBy(c, ls, GuardSpec{Rule: rule, Rel: "internal/server", Type: "userPanel", Fields: []string{"activeUsers"}, LockChain: []string{a.activeUsersM.Name()}})
}
