package main

import (
	"go/token"
	"go/types"
	"strings"

	"golang.org/x/tools/go/ssa"
)

// eventOutcome: function h executes the instruction ev on some of its paths and tells its caller which: either a bool
// result that is one constant on every return ev dominates and the other constant on every return ev cannot reach, or
// an error result that is nil on the former and definitely non-nil on the latter. A return that ev may or may not have
// preceded makes the outcome undefined.
type eventOutcome struct {
	h    *ssa.Function
	idx  int    // result index
	kind string // "bool" | "err"
	pol  bool   // bool: the value returned when ev was executed
}

func outcomeOfEvent(h *ssa.Function, ev ssa.Instruction) *eventOutcome {
	res := h.Signature.Results()
	for idx := 0; idx < res.Len(); idx++ {
		t := res.At(idx).Type()
		kind := ""
		if b, ok := t.Underlying().(*types.Basic); ok && b.Kind() == types.Bool {
			kind = "bool"
		} else if types.TypeString(t, nil) == "error" {
			kind = "err"
		} else {
			continue
		}
		oc := &eventOutcome{h: h, idx: idx, kind: kind}
		ok, seenDone, seenNot := true, false, false
		doneVals, notVals := map[bool]bool{}, map[bool]bool{}
		for _, r := range returnsOf(h) {
			v := resultValue(r, idx)
			done := instrDominates(ev, r)
			possible := done || blockReaches(ev.Block(), r.Block(), false)
			if possible && !done {
				ok = false
				break
			}
			if done {
				seenDone = true
			} else {
				seenNot = true
			}
			switch kind {
			case "bool":
				b, isK := boolConst(v)
				if !isK {
					ok = false
				} else if done {
					doneVals[b] = true
				} else {
					notVals[b] = true
				}
			case "err":
				if done && !isNilConst(v) || !done && !definitelyNonNilError(v) {
					ok = false
				}
			}
			if !ok {
				break
			}
		}
		if !ok || !seenDone || !seenNot {
			continue
		}
		if kind == "bool" {
			if len(doneVals) != 1 || len(notVals) != 1 || doneVals[true] == notVals[true] {
				continue
			}
			oc.pol = doneVals[true]
		}
		return oc
	}
	return nil
}

// wonCASGuard: among the conditions in force at instruction i there is "CompareAndSwap(&x.f, 0→1) succeeded" for field f
// — directly, or through a boolean helper every true-return of which implies it (markClosed() { return CAS(…) }).
func wonCASGuard(p *Prog, i ssa.Instruction, f *types.Var) bool {
	atoms, _ := expandBoolCalls(p, AtomsAt(i))
	for _, at := range atoms {
		if at.Kind == "call" && at.Pol && at.Call != nil && calleeName(&at.Call.Call) == "sync/atomic.CompareAndSwapUint32" && len(at.Call.Call.Args) > 0 {
			if fv, _ := fieldVar(at.Call.Call.Args[0]); fv == f {
				return true
			}
		}
	}
	return false
}

// cntEvents: the events of the session's stream counter, whether they are spelled as calls of the dedicated one-line
// helpers (streamCountIncr / streamCountDecr / streamCount) or as the atomic operation on the field itself.
type cntEvents struct {
	incrF, decrF, cntF *ssa.Function
	field              *types.Var
}

func (a *c12Anchors) counterEvents(p *Prog) *cntEvents {
	return &cntEvents{
		incrF: p.Func("internal/multiplex", "Session.streamCountIncr"),
		decrF: p.Func("internal/multiplex", "Session.streamCountDecr"),
		cntF:  p.Func("internal/multiplex", "Session.streamCount"),
		field: a.activeCount,
	}
}

func (e *cntEvents) atomicAdd(i ssa.Instruction, step uint32) bool {
	call, ok := i.(*ssa.Call)
	if !ok || calleeName(&call.Call) != "sync/atomic.AddUint32" || len(call.Call.Args) != 2 {
		return false
	}
	if fv, _ := fieldVar(call.Call.Args[0]); fv != e.field {
		return false
	}
	k, isK := intConst(call.Call.Args[1])
	return isK && uint32(k) == step
}

func (e *cntEvents) inHelper(i ssa.Instruction) bool {
	f := i.Parent()
	return f != nil && (f == e.incrF || f == e.decrF || f == e.cntF)
}

func (e *cntEvents) isIncr(i ssa.Instruction) bool {
	if e.inHelper(i) {
		return false
	}
	if e.incrF != nil && callsFn(i, e.incrF) {
		return true
	}
	return e.atomicAdd(i, 1)
}

func (e *cntEvents) isDecr(i ssa.Instruction) bool {
	if e.inHelper(i) {
		return false
	}
	if e.decrF != nil && callsFn(i, e.decrF) {
		return true
	}
	return e.atomicAdd(i, ^uint32(0))
}

func (e *cntEvents) isCountRead(v ssa.Value) bool {
	call, ok := stripConv(v).(*ssa.Call)
	if !ok {
		return false
	}
	if e.cntF != nil && call.Call.StaticCallee() == e.cntF {
		return true
	}
	if calleeName(&call.Call) == "sync/atomic.LoadUint32" && len(call.Call.Args) == 1 {
		fv, _ := fieldVar(call.Call.Args[0])
		return fv == e.field
	}
	return false
}

func (e *cntEvents) sites(p *Prog, pred func(ssa.Instruction) bool) []ssa.Instruction {
	var out []ssa.Instruction
	for _, f := range p.RepoFuncs {
		if strings.HasSuffix(p.Pos(f.Pos()), "_test.go") || strings.HasSuffix(p.Pos(f.Pos()), "_fuzz.go") {
			continue
		}
		allInstrs(f, func(i ssa.Instruction) {
			if pred(i) {
				out = append(out, i)
			}
		})
	}
	return out
}

// definitelyNonNilError: a package-level error variable's value, or the result of errors.New / fmt.Errorf.
func definitelyNonNilError(v ssa.Value) bool {
	switch x := v.(type) {
	case *ssa.UnOp:
		if x.Op == token.MUL {
			_, isG := x.X.(*ssa.Global)
			return isG
		}
	case *ssa.Call:
		n := calleeName(&x.Call)
		if n == "errors.New" || n == "fmt.Errorf" {
			return true
		}
	case *ssa.MakeInterface:
		return true
	}
	return definitelyNonNilPtr(v, 0)
}

// definitelyNonNilPtr: a freshly allocated object, or the result of a function every return of which hands back one
// (a constructor such as makeStream).
func definitelyNonNilPtr(v ssa.Value, depth int) bool {
	switch x := v.(type) {
	case *ssa.Alloc, *ssa.MakeMap, *ssa.MakeChan, *ssa.MakeClosure:
		return true
	case *ssa.Call:
		g := x.Call.StaticCallee()
		if g == nil || len(g.Blocks) == 0 || depth > 2 || g.Signature.Results().Len() != 1 {
			return false
		}
		rets := returnsOf(g)
		if len(rets) == 0 {
			return false
		}
		for _, r := range rets {
			if !definitelyNonNilPtr(resultValue(r, 0), depth+1) {
				return false
			}
		}
		return true
	}
	return false
}

// at: what the guards in force at instruction i say about the outcome of call: +1 the event happened, −1 it did not,
// 0 nothing.
func (oc *eventOutcome) at(call *ssa.Call, i ssa.Instruction) int {
	var v ssa.Value = call
	for _, at := range AtomsAt(i) {
		switch oc.kind {
		case "bool":
			if at.Kind == "call" && at.Call == call && oc.h.Signature.Results().Len() == 1 {
				if at.Pol == oc.pol {
					return 1
				}
				return -1
			}
			if at.Kind == "bool" {
				if ex, ok := at.X.(*ssa.Extract); ok && ex.Tuple == v && ex.Index == oc.idx {
					if at.Pol == oc.pol {
						return 1
					}
					return -1
				}
			}
		case "err":
			if at.Kind != "cmp" || (at.Op != token.EQL && at.Op != token.NEQ) {
				continue
			}
			for _, side := range []ssa.Value{at.X, at.Y} {
				if !isNilConst(otherSide(at, side)) {
					continue
				}
				hit := side == v && oc.h.Signature.Results().Len() == 1
				if ex, ok := side.(*ssa.Extract); ok && ex.Tuple == v && ex.Index == oc.idx {
					hit = true
				}
				if hit {
					if at.Op == token.EQL {
						return 1
					}
					return -1
				}
			}
		}
	}
	return 0
}
