package main

import (
	"fmt"
	"go/token"
	"go/types"

	"golang.org/x/tools/go/ssa"
)

// bufLenBounds: constant bounds of the length of a locally made buffer — make([]byte, L) (also through a variable cell)
// or a local array — where L is a constant, an element of a local table of constants (whatever the index), or
// anything the interval engine can bound (a value that went through a narrow integer type is that type's whole range:
// uint8 arithmetic wraps).
func bufLenBounds(p *Prog, v ssa.Value) (lo, hi int64, ok bool, how string) {
	v = stripConv(v)
	if ld, isLd := v.(*ssa.UnOp); isLd && ld.Op == token.MUL {
		if a, isA := ld.X.(*ssa.Alloc); isA {
			if sv := cellValue(a, ld); sv != nil {
				v = stripConv(sv)
			}
		}
	}
	if k, isK := constLenOf(v); isK {
		return k, k, true, "constant length"
	}
	mk, isMk := v.(*ssa.MakeSlice)
	if !isMk {
		return 0, 0, false, "not a locally made buffer: " + Expr(v)
	}
	return intBounds(p, mk.Len)
}

func intBounds(p *Prog, l ssa.Value) (lo, hi int64, ok bool, how string) {
	if k, isK := intConst(l); isK {
		return k, k, true, "constant"
	}
	// element of a local table of constants
	if ld, isLd := stripIntWiden(l).(*ssa.UnOp); isLd && ld.Op == token.MUL {
		if ia, isIA := ld.X.(*ssa.IndexAddr); isIA {
			if els, okE := tableConsts(p, ia.X); okE && len(els) > 0 {
				lo, hi = els[0], els[0]
				for _, e := range els {
					if e < lo {
						lo = e
					}
					if e > hi {
						hi = e
					}
				}
				return lo, hi, true, fmt.Sprintf("element of a table of %d constants", len(els))
			}
		}
	}
	b := &Bounds{}
	l0, f0, ok0 := b.LowerConst(l)
	h0, f1, ok1 := b.UpperConst(l)
	if ok0 && ok1 {
		return l0, h0, true, "interval of " + f0 + " / " + f1
	}
	return l0, h0, false, "no constant bounds for " + Expr(l)
}

func globalTableConsts(p *Prog, g *ssa.Global) ([]int64, bool) {

	if p == nil || g.Pkg == nil {
		return nil, false
	}
	var init ssa.Value
	ok := true
	for _, f := range p.RepoFuncs {
		allInstrs(f, func(i ssa.Instruction) {
			switch x := i.(type) {
			case *ssa.Store:
				if x.Addr == ssa.Value(g) {
					if f.Name() != "init" || f.Pkg != g.Pkg || init != nil {
						ok = false
					}
					init = x.Val
				}
			case *ssa.IndexAddr:
				// an element written through the global
				if ld, isLd := x.X.(*ssa.UnOp); isLd && ld.X == ssa.Value(g) && x.Referrers() != nil {
					for _, r := range *x.Referrers() {
						if _, isSt := r.(*ssa.Store); isSt {
							ok = false
						}
					}
				}
			case *ssa.Call:
				// handed to something that could write it (append(g, …) creates a new slice; copy(dst=g, …) writes)
				if calleeName(&x.Call) == "builtin.copy" && len(x.Call.Args) == 2 {
					if ld, isLd := x.Call.Args[0].(*ssa.UnOp); isLd && ld.X == ssa.Value(g) {
						ok = false
					}
				}
			}
		})
	}
	if !ok || init == nil {
		return nil, false
	}
	return tableConsts(p, init)
}

func globalArrayConsts(p *Prog, g *ssa.Global) ([]int64, bool) {
	if p == nil || g.Pkg == nil {
		return nil, false
	}
	els := map[int64]int64{}
	ok := true
	for _, f := range p.RepoFuncs {
		allInstrs(f, func(i ssa.Instruction) {
			switch x := i.(type) {
			case *ssa.Store:
				if x.Addr == ssa.Value(g) {
					ok = false // the whole array is replaced somewhere
				}
			case *ssa.IndexAddr:
				if x.X != ssa.Value(g) || x.Referrers() == nil {
					return
				}
				for _, r := range *x.Referrers() {
					st, isSt := r.(*ssa.Store)
					if !isSt {
						continue
					}
					k, isK := intConst(x.Index)
					v, isV := intConst(st.Val)
					if !isK || !isV || st.Addr != ssa.Value(x) || f.Name() != "init" || f.Pkg != g.Pkg {
						ok = false
						continue
					}
					if _, dup := els[k]; dup {
						ok = false
					}
					els[k] = v
				}
			case *ssa.Slice:
				// arr[:] handed on: someone may write through it
				if x.X == ssa.Value(g) && sliceWrittenThrough(x) {
					ok = false
				}
			}
		})
	}
	if !ok || len(els) == 0 {
		return nil, false
	}
	var out []int64
	for k := int64(0); k < int64(len(els)); k++ {
		v, have := els[k]
		if !have {
			return nil, false
		}
		out = append(out, v)
	}
	// elements the literal leaves out are zero: the array type's length says how many there are
	if pt, isP := g.Type().Underlying().(*types.Pointer); isP {
		if at, isA := pt.Elem().Underlying().(*types.Array); isA && at.Len() != int64(len(out)) {
			return nil, false
		}
	}
	return out, true
}

// tableConsts: the elements of a slice or array literal all of whose entries are integer constants and that is written
// nowhere else.
func tableConsts(p *Prog, t ssa.Value) ([]int64, bool) {
	if sl, ok := t.(*ssa.Slice); ok && sl.Low == nil && sl.High == nil {
		t = sl.X
	}
	// a package-level table: declared with a literal (stored once, by the package initialiser) and never written to
	if ld, isLd := t.(*ssa.UnOp); isLd && ld.Op == token.MUL {
		if g, isG := ld.X.(*ssa.Global); isG {
			return globalTableConsts(p, g)
		}
	}
	// a package-level array: its elements are stored one by one by the package initialiser and nowhere else
	if g, isG := t.(*ssa.Global); isG {
		return globalArrayConsts(p, g)
	}
	a, ok := t.(*ssa.Alloc)
	if !ok || a.Referrers() == nil {
		return nil, false
	}
	els := map[int64]int64{}
	for _, r := range *a.Referrers() {
		switch x := r.(type) {
		case *ssa.IndexAddr:
			k, isK := intConst(x.Index)
			if x.Referrers() == nil {
				continue
			}
			for _, rr := range *x.Referrers() {
				switch y := rr.(type) {
				case *ssa.Store:
					v, isV := intConst(y.Val)
					if !isK || !isV || y.Addr != ssa.Value(x) {
						return nil, false
					}
					if _, dup := els[k]; dup {
						return nil, false
					}
					els[k] = v
				case *ssa.UnOp, *ssa.DebugRef:
				default:
					return nil, false
				}
			}
		case *ssa.Slice, *ssa.DebugRef:
			// the literal's own `arr[:]`; re-slices are read-only as long as every store was seen above — a store through a
			// re-slice would go through an IndexAddr on that slice, which is checked when that slice is the table looked at
			if sl, isSl := x.(*ssa.Slice); isSl && sl.Referrers() != nil {
				for _, rr := range *sl.Referrers() {
					if ia, isIA := rr.(*ssa.IndexAddr); isIA && ia.Referrers() != nil {
						for _, r3 := range *ia.Referrers() {
							if _, isSt := r3.(*ssa.Store); isSt {
								return nil, false
							}
						}
					}
				}
			}
		default:
			return nil, false
		}
	}
	var out []int64
	for k := int64(0); k < int64(len(els)); k++ {
		v, ok := els[k]
		if !ok {
			return nil, false
		}
		out = append(out, v)
	}
	return out, len(out) > 0
}
