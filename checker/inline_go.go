package main

import (
	"go/ast"
	"go/types"
	"strings"

	"golang.org/x/tools/go/packages"
)

// expandGo: `go helper(args)` → `go func(params) results { body of helper }(args)`. The goroutine's code is then a function
// literal of the function that starts it — the form the rules know from the original tree. Nothing is renamed: the
// literal has the helper's own parameter list, so the body means what it meant (names of the package that the call
// site shadows were excluded by the caller).
func (in *inliner) expandGo(pk *packages.Package, file *ast.File, s inlineSiteT, fd *ast.FuncDecl, hsrc []byte) (string, bool) {
	sig := s.callee.Type().(*types.Signature)
	if sig.Params().Len() != len(s.call.Args) {
		return "", false
	}
	var params, args []string
	if sig.Recv() != nil {
		sel, ok := s.call.Fun.(*ast.SelectorExpr)
		if !ok {
			return "", false
		}
		rt, okT := in.typeString(sig.Recv().Type(), pk, file)
		if !okT {
			return "", false
		}
		recvExpr := in.text(sel.X)
		xt := pk.TypesInfo.TypeOf(sel.X)
		if xt == nil {
			return "", false
		}
		_, wantPtr := sig.Recv().Type().(*types.Pointer)
		_, havePtr := xt.(*types.Pointer)
		if _, isNamedPtr := xt.Underlying().(*types.Pointer); isNamedPtr && !havePtr {
			return "", false
		}
		switch {
		case wantPtr && !havePtr:
			recvExpr = "&(" + recvExpr + ")"
		case !wantPtr && havePtr:
			recvExpr = "*(" + recvExpr + ")"
		}
		name := "_"
		if fd.Recv != nil && len(fd.Recv.List) == 1 && len(fd.Recv.List[0].Names) == 1 {
			name = fd.Recv.List[0].Names[0].Name
		}
		params = append(params, name+" "+rt)
		args = append(args, recvExpr)
	}
	ai := 0
	for _, fl := range fd.Type.Params.List {
		names := fl.Names
		if len(names) == 0 {
			names = []*ast.Ident{{Name: "_"}}
		}
		for _, nm := range names {
			pt, okT := in.typeString(sig.Params().At(ai).Type(), pk, file)
			if !okT {
				return "", false
			}
			params = append(params, nm.Name+" "+pt)
			args = append(args, in.text(s.call.Args[ai]))
			ai++
		}
	}
	var results []string
	if fd.Type.Results != nil {
		ri := 0
		for _, fl := range fd.Type.Results.List {
			names := fl.Names
			if len(names) == 0 {
				names = []*ast.Ident{nil}
			}
			for _, nm := range names {
				rt, okT := in.typeString(sig.Results().At(ri).Type(), pk, file)
				if !okT {
					return "", false
				}
				if nm != nil {
					rt = nm.Name + " " + rt
				}
				results = append(results, rt)
				ri++
			}
		}
	}
	res := ""
	if len(results) > 0 {
		res = "(" + strings.Join(results, ", ") + ") "
	}
	body := string(hsrc[in.off(fd.Body.Lbrace)+1 : in.off(fd.Body.Rbrace)])
	var b strings.Builder
	kw := "go"
	if _, isDefer := s.stmt.(*ast.DeferStmt); isDefer {
		kw = "defer"
	}
	b.WriteString(kw + " func(" + strings.Join(params, ", ") + ") " + res + "{")
	b.WriteString(in.lineDirective(fd.Body.Lbrace))
	b.WriteString(body)
	b.WriteString("\n}(" + strings.Join(args, ", ") + ")")
	b.WriteString(in.lineDirective(s.end()))
	return b.String(), true
}
