package main

import (
	"fmt"
	"go/token"
	"go/types"
	"strings"

	"golang.org/x/tools/go/ssa"
)

func init() {
	register(&PropDef{
		ID: "C19", Title: "a limited user's throughput never exceeds the configured rates",
		Run:       runC19,
		Technique: "static analysis: dominance (token wait before every pool write / after every pool read with the right count), who-may-write enumeration, value-flow of the single per-user valve into every session, argument identity of the bucket constructor",
		Decided: "ONLY the upper-bound mechanism, not the bound: (c) every byte the pool sends waits for len(data) tokens before the write, with the same unmodified data, and the pool's connections are written nowhere else; every read waits for its own count before the data is processed; " +
			"(d) a user has one valve, built once from that user's rates (upload rate on the receive bucket, download on the send bucket), stored once, handed to every session and copied into its switchboard, and the limited valve forwards waits to the buckets with the same count; (e) bucket capacity equals the rate (one second of burst).",
		NotDecided:  "the bound itself (bytes over any interval <= rate*t + burst) is a property of wall-clock behaviour inside juju/ratelimit — no static argument in reach bounds it; the 1% granularity; fairness; the lower bound ('a backlogged sender is not held below the rate').",
		Assumptions: []string{"ratelimit.Bucket.Wait(n) blocks until n tokens are available at the configured rate"},
	})
}

func runC19(c *Ctx) {
	c19R1(c, "C19.R1")
	c19R2(c, "C19.R2")
	c19R3(c, "C19.R3")
	c19R4(c, "C19.R4")
	// imported: one valve per user presupposes one record per user — lookup-or-create must be atomic
	c.importing = "C15"
	c15R1(c, "C15.R1")
	c.importing = ""
}

func c19R1(c *Ctx, rule string) {
	c.Rule(rule, "wait before write: valve.txWait(len(data)) dominates every conn.Write(data) in switchboard.send (same unmodified parameter); pooled connections are written only there", 2)
	p := c.P
	send := c.need(rule, "internal/multiplex", "switchboard.send")
	if send == nil {
		return
	}
	var wait *ssa.Call
	allInstrs(send, func(i ssa.Instruction) {
		if call, ok := isValveCall(i, "txWait"); ok {
			wait = call
		}
	})
	data := ssa.Value(nil)
	if len(send.Params) >= 2 {
		data = send.Params[1]
	}
	okWaitArg := false
	if wait != nil {
		if lc, ok := stripConv(wait.Call.Args[0]).(*ssa.Call); ok && calleeName(&lc.Call) == "builtin.len" && lc.Call.Args[0] == data {
			okWaitArg = true
		}
	}
	c.Check(wait != nil && okWaitArg, rule, "send waits for len(data) tokens", c.atFn(send), "valve.txWait(len(data))", "send does not wait for tokens worth the whole message (rate limit bypassed or mis-sized)")
	allInstrs(send, func(i ssa.Instruction) {
		call, ok := i.(*ssa.Call)
		if !ok || calleeName(&call.Call) != "(net.Conn).Write" {
			return
		}
		dom := wait != nil && instrDominates(wait, call)
		same := call.Call.Args[0] == data
		c.Check(dom && same, rule, "write at "+strings.TrimPrefix(c.at(i), "internal/multiplex/")+" is preceded by the wait", c.at(i), "txWait dominates conn.Write(data)", fmt.Sprintf("wait dominates=%v, writes the waited-for data=%v: bytes leave without (or before) paying tokens", dom, same))
	})
	// no other function of the multiplex package writes a pooled connection
	connsF := p.Field("internal/multiplex", "switchboard", "conns")
	_ = connsF
	for _, f := range p.FuncsOfPkg("internal/multiplex") {
		if f == send || strings.HasSuffix(p.Pos(f.Pos()), "_test.go") {
			continue
		}
		allInstrs(f, func(i ssa.Instruction) {
			if call, ok := i.(*ssa.Call); ok && calleeName(&call.Call) == "(net.Conn).Write" {
				c.Bad(rule, "net.Conn.Write outside send in "+shortFn(f), c.at(i), "a connection is written outside switchboard.send: this traffic is neither rate-limited nor metered")
			}
		})
	}
}

func c19R2(c *Ctx, rule string) {
	c.Rule(rule, "wait before processing: in deplex valve.rxWait(n) with the read's own n lies between conn.Read and recvDataFromRemote", 1)
	dp := c.need(rule, "internal/multiplex", "switchboard.deplex")
	if dp == nil {
		return
	}
	var rd *ssa.Call
	allInstrs(dp, func(i ssa.Instruction) {
		if call, ok := i.(*ssa.Call); ok && calleeName(&call.Call) == "(net.Conn).Read" {
			rd = call
		}
	})
	if rd == nil {
		c.Undecided(rule, "conn.Read in deplex", c.atFn(dp), "not found")
		return
	}
	var w *ssa.Call
	miss := forwardSearch(rd, func(i ssa.Instruction) bool {
		if call, ok := isValveCall(i, "rxWait"); ok {
			w = call
			return true
		}
		return false
	}, func(i ssa.Instruction) bool {
		cc := callCommon(i)
		return cc != nil && isFn(cc.StaticCallee(), "internal/multiplex", "Session.recvDataFromRemote")
	})
	okN := w != nil && isCountOf(w.Call.Args[0], rd)
	c.Check(miss == nil && okN, rule, "rxWait(n) between read and processing", c.at(rd), "every path from the read to recvDataFromRemote passes rxWait with the read's count", fmt.Sprintf("data can be processed without waiting (%v) or waits for a different count (%v)", miss != nil, !okN))
}

func c19R3(c *Ctx, rule string) {
	c.Rule(rule, "one valve per user reaches every session: ActiveUser.valve stored only by the constructors; GetSession hands it to MakeSession; MakeSession keeps a non-nil valve; makeSwitchboard copies it; limited valve forwards waits with the same count", 6)
	p := c.P
	valveT := modPath + "/internal/multiplex.Valve"
	valveF := p.Field("internal/server", "ActiveUser", "valve", valveT)
	sbValve := p.Field("internal/multiplex", "switchboard", "valve", valveT)
	cfgValve := p.Field("internal/multiplex", "SessionConfig", "Valve", valveT)
	if valveF == nil || sbValve == nil || cfgValve == nil {
		c.Undecided(rule, "anchor ActiveUser.valve / switchboard.valve / SessionConfig.Valve", "-", "not found")
		return
	}
	for _, st := range FieldStores(p, valveF) {
		if strings.HasSuffix(p.Pos(st.Pos()), "_test.go") {
			continue
		}
		root, _ := fieldChain(st.Addr)
		_, ctor := root.(*ssa.Alloc)
		c.Check(ctor, rule, "store to ActiveUser.valve in "+shortFn(st.Parent()), c.at(st), "constructor only ("+Expr(st.Val)+")", "the user's valve is replaced after construction: sessions of one user would no longer share one allowance")
	}
	// MakeValve is called only where an ActiveUser is constructed (not per session)
	if mv := p.Func("internal/multiplex", "MakeValve"); mv != nil {
		for _, cs := range p.CallersOf(mv) {
			if !p.InRepo(cs.Parent()) || strings.HasSuffix(p.Pos(cs.Pos()), "_test.go") {
				continue
			}
			// the result must flow into ActiveUser.valve
			into := false
			if v, ok := cs.(ssa.Value); ok {
				for _, st := range FieldStores(p, valveF) {
					if stripConv(st.Val) == v {
						into = true
					}
				}
			}
			c.Check(into, rule, "MakeValve result becomes the user's valve in "+shortFn(cs.Parent()), c.at(cs), "stored into ActiveUser.valve", "a valve is built outside the user record (per session or per connection): the allowance is multiplied")
		}
	}
	// MakeSession: the only store to sesh.Valve is the nil default
	if ms := p.Func("internal/multiplex", "MakeSession"); ms != nil {
		okDefault := true
		n := 0
		allInstrs(ms, func(i ssa.Instruction) {
			if st, ok := i.(*ssa.Store); ok {
				if fv, _ := fieldVar(st.Addr); fv == cfgValve {
					// stores into the session's embedded config
					if _, isLit := st.Val.(*ssa.Const); isLit {
						return
					}
					n++
					guard := false
					for _, at := range AtomsAt(i) {
						if at.Kind == "cmp" && at.Op == token.EQL && (isNilConst(at.X) || isNilConst(at.Y)) {
							guard = true
						}
					}
					if !guard {
						okDefault = false
					}
				}
			}
		})
		c.Check(okDefault, rule, "MakeSession keeps a supplied valve", c.atFn(ms), fmt.Sprintf("%d override(s), all under config.Valve == nil", n), "MakeSession overrides the valve it was given")
	}
	for _, st := range FieldStores(p, sbValve) {
		if strings.HasSuffix(p.Pos(st.Pos()), "_test.go") {
			continue
		}
		src, _ := loadedField(st.Val)
		root, _ := fieldChain(st.Addr)
		_, ctor := root.(*ssa.Alloc)
		c.Check(ctor && src == cfgValve, rule, "switchboard.valve = session's valve in "+shortFn(st.Parent()), c.at(st), "copied from sesh.Valve in the constructor", "the switchboard meters/limits with a valve other than the session's ("+Expr(st.Val)+")")
	}
	// forwarding
	for _, m := range []struct{ method, bucket string }{{"rxWait", "rxtb"}, {"txWait", "txtb"}} {
		f := p.Func("internal/multiplex", "LimitedValve."+m.method)
		if f == nil {
			c.Undecided(rule, "anchor LimitedValve."+m.method, "-", "not found")
			continue
		}
		ok := false
		allInstrs(f, func(i ssa.Instruction) {
			if call, isC := i.(*ssa.Call); isC && strings.HasSuffix(calleeName(&call.Call), "ratelimit.Bucket).Wait") {
				fv, _ := loadedField(call.Call.Args[0])
				if isField(fv, "internal/multiplex", "LimitedValve", m.bucket) && stripConv(call.Call.Args[1]) == ssa.Value(f.Params[1]) {
					ok = true
				}
			}
		})
		c.Check(ok, rule, "LimitedValve."+m.method+" waits on "+m.bucket+" for n", c.atFn(f), m.bucket+".Wait(int64(n))", "the wait is not forwarded to the right bucket with the caller's count")
	}
	_ = types.Typ
}

func c19R4(c *Ctx, rule string) {
	c.Rule(rule, "rates and capacity: MakeValve(rx, tx) builds rxtb from (rx, capacity rx) and txtb from (tx, capacity tx); GetUser passes AuthenticateUser's (up, down) in that order", 3)
	p := c.P
	mv := c.need(rule, "internal/multiplex", "MakeValve")
	if mv == nil {
		return
	}
	want := map[string]int{"rxtb": 0, "txtb": 1}
	got := map[string]bool{}
	allInstrs(mv, func(i ssa.Instruction) {
		st, ok := i.(*ssa.Store)
		if !ok {
			return
		}
		fv, _ := fieldVar(st.Addr)
		if fv == nil {
			return
		}
		role := ""
		for n := range want {
			if isField(fv, "internal/multiplex", "LimitedValve", n) {
				role = n
			}
		}
		idx, isB := want[role]
		if !isB {
			return
		}
		call, ok := st.Val.(*ssa.Call)
		good := ok && strings.HasSuffix(calleeName(&call.Call), "ratelimit.NewBucketWithRate") &&
			stripConv(call.Call.Args[0]) == ssa.Value(mv.Params[idx]) && stripConv(call.Call.Args[1]) == ssa.Value(mv.Params[idx])
		got[role] = true
		c.Check(good, rule, "bucket "+role+" built from parameter "+fmt.Sprint(idx), c.at(i), "NewBucketWithRate(float64(p), p): capacity = one second of rate", "bucket is built from "+Expr(st.Val)+" (rate and capacity must both be parameter "+fmt.Sprint(idx)+")")
	})
	for n := range want {
		if !got[n] {
			c.Bad(rule, "bucket "+n+" built in MakeValve", c.atFn(mv), "not initialised")
		}
	}
	for _, cs := range p.CallersOf(mv) {
		if !p.InRepo(cs.Parent()) || strings.HasSuffix(p.Pos(cs.Pos()), "_test.go") {
			continue
		}
		args := cs.Common().Args
		ok := false
		e0, ok0 := args[0].(*ssa.Extract)
		e1, ok1 := args[1].(*ssa.Extract)
		if ok0 && ok1 && e0.Tuple == e1.Tuple && e0.Index == 0 && e1.Index == 1 {
			if call, isC := e0.Tuple.(*ssa.Call); isC && call.Call.IsInvoke() && call.Call.Method.Name() == "AuthenticateUser" {
				ok = true
			}
		}
		c.Check(ok, rule, "rates passed in (up, down) order by "+shortFn(cs.Parent()), c.at(cs), "MakeValve(AuthenticateUser#0, AuthenticateUser#1)", "rates are swapped or not the user's: "+Expr(args[0])+", "+Expr(args[1]))
	}
}
