package main

import (
	"strings"

	"golang.org/x/tools/go/ssa"
)

// C07.R6 — "encrypted to the server's static public key" rests on the shared secret being unknowable without a private
// key. X25519 has 7 low-order public inputs for which the output is all zero whatever the private key is;
// curve25519.X25519 rejects them with an error, the deprecated ScalarMult does not. The key agreement must therefore go
// through the checking primitive and its error must decide the helper's result: a peer that sends a low-order point as
// its "ephemeral key" would otherwise know the AES-GCM key and could seal any UID, timestamp and session id.
func c07R6(c *Ctx, rule string) {
	c.Rule(rule, "key agreement rejects low-order points: ecdh.GenerateSharedSecret calls curve25519.X25519 and returns success only when that call returned no error; the unchecked ScalarMult is not used", 2)
	p := c.P
	gs := c.need(rule, "internal/ecdh", "GenerateSharedSecret")
	if gs == nil {
		return
	}
	var x *ssa.Call
	unchecked := ""
	allInstrs(gs, func(i ssa.Instruction) {
		call, ok := i.(*ssa.Call)
		if !ok {
			return
		}
		n := calleeName(&call.Call)
		switch {
		case strings.HasSuffix(n, "crypto/curve25519.X25519"):
			x = call
		case strings.HasSuffix(n, "crypto/curve25519.ScalarMult"):
			unchecked = c.at(i)
		}
	})
	c.Check(unchecked == "", rule, "no unchecked scalar multiplication in the key agreement", c.atFn(gs), "curve25519.ScalarMult is not called",
		"the shared secret is computed with curve25519.ScalarMult at "+unchecked+", which returns the all-zero output for low-order points instead of an error")
	if x == nil {
		c.Bad(rule, "key agreement uses the checking primitive", c.atFn(gs), "GenerateSharedSecret does not call curve25519.X25519: low-order peer points are not rejected")
		return
	}
	c.OK(rule, "key agreement uses the checking primitive", c.at(x), "curve25519.X25519")
	for _, sp := range successPoints(gs) {
		// `return curve25519.X25519(...)`: the primitive's own error is what the caller gets
		if ev := resultValue(sp.ret, len(sp.ret.Results)-1); ev != nil && ev == extractOf(x, 1) {
			c.OK(rule, "shared secret returned only when X25519 succeeded", c.at(sp.ret), "the X25519 error is returned unchanged")
			continue
		}
		c.Check(hasNilErrGuardIn(sp.atoms, x, 1), rule, "shared secret returned only when X25519 succeeded", c.at(sp.ret), "success return behind X25519 err == nil",
			"a success return of GenerateSharedSecret is not behind the X25519 error test: a low-order public key yields a usable (all-zero) secret")
	}
	_ = p
}
