package main

import (
	"fmt"
	"go/token"
	"go/types"
	"sort"
	"strings"

	"golang.org/x/tools/go/ssa"
)

func init() {
	register(&PropDef{
		ID: "C18", Title: "user database and admin API act as a keyed store and never crash the server",
		Run:       runC18,
		Technique: "static analysis: path search (no mutating manager call after a rejection), dominance guards (length check before fixed-width decode, positivity before limiter construction, non-nil before Put), writer/reader key-width table extraction compared with a frozen table",
		Decided: "(a) in every admin handler no path leads from a rejection (http.Error) to a mutating UserManager call, and the POST handler's write is guarded by the UID match; " +
			"(b) every fixed-width decode of a database value is dominated by a length check (a record with missing fields cannot panic AuthenticateUser, UploadStatus, list or read); " +
			"(c) the writer's and every reader's (key, width, field) tables agree with each other and with the frozen table; (d) each Put is conditional on its own field being present and its error is propagated; " +
			"(e) the token-bucket constructor is only reached with rates proven positive.",
		NotDecided:  "the contents of the store after an operation sequence, persistence across reopen (bbolt's job), JSON semantics of the request body.",
		Assumptions: []string{"(*bbolt.Bucket).Get returns nil for an absent key", "ratelimit.NewBucketWithRate panics for rate or capacity <= 0", "binary.BigEndian.UintN panics on short input"},
	})
}

func runC18(c *Ctx) {
	c18R1(c, "C18.R1")
	c18R2(c, "C18.R2")
	c18R3(c, "C18.R3")
	c18R4(c, "C18.R4")
	c18R5(c, "C18.R5")
	c18R6(c, "C18.R6")
}

const umRel = "internal/server/usermanager"

// mutatingManagerMethods: UserManager methods whose localManager implementation reaches bbolt's DB.Update.
func mutatingManagerMethods(p *Prog) map[string]bool {
	out := map[string]bool{}
	iface := p.Named(umRel, "UserManager")
	if iface == nil {
		return out
	}
	it, ok := iface.Underlying().(*types.Interface)
	if !ok {
		return out
	}
	for i := 0; i < it.NumMethods(); i++ {
		m := it.Method(i).Name()
		f := p.Func(umRel, "localManager."+m)
		if f == nil {
			continue
		}
		if len(callsIn(f, "(*go.etcd.io/bbolt.DB).Update")) > 0 {
			out[m] = true
		}
	}
	return out
}

func apiHandlers(p *Prog) []*ssa.Function {
	var hs []*ssa.Function
	for _, f := range p.FuncsOfPkg(umRel) {
		if f.Signature.Recv() == nil || f.Parent() != nil || f.Synthetic != "" {
			continue
		}
		if !strings.Contains(f.Signature.Recv().Type().String(), "APIRouter") {
			continue
		}
		ps := f.Signature.Params()
		if ps.Len() == 2 && typeStr(ps.At(0).Type()) == "net/http.ResponseWriter" && typeStr(ps.At(1).Type()) == "*net/http.Request" {
			hs = append(hs, f)
		}
	}
	return hs
}

func c18R1(c *Ctx, rule string) {
	c.Rule(rule, "reject-then-mutate: in every admin handler no path from http.Error to a mutating UserManager call; the POST write is guarded by the UID match", 4)
	p := c.P
	mut := mutatingManagerMethods(p)
	if len(mut) == 0 {
		c.Undecided(rule, "mutating UserManager methods", "-", "none found (localManager/bbolt anchors missing)")
		return
	}
	hs := apiHandlers(p)
	// cross-check with the router registration
	if reg := p.Func(umRel, "APIRouter.registerMux"); reg != nil {
		n := 0
		allInstrs(reg, func(i ssa.Instruction) {
			if cc := callCommon(i); cc != nil && strings.HasSuffix(calleeName(cc), ".HandleFunc") {
				n++
			}
		})
		c.Check(n <= len(hs), rule, "registered handlers are all enumerated", c.atFn(reg), fmt.Sprintf("%d HandleFunc registrations, %d handler methods analysed", n, len(hs)), fmt.Sprintf("%d HandleFunc registrations but only %d handler methods found by signature", n, len(hs)))
	}
	isMutCall := func(i ssa.Instruction) bool {
		cc := callCommon(i)
		if cc == nil || !cc.IsInvoke() {
			return false
		}
		return cc.Method.Pkg() != nil && strings.HasSuffix(cc.Method.Pkg().Path(), umRel) && mut[cc.Method.Name()]
	}
	for _, h := range hs {
		var rejects, muts []ssa.Instruction
		allInstrs(h, func(i ssa.Instruction) {
			if isCall(i, "net/http.Error") {
				rejects = append(rejects, i)
			}
			if isMutCall(i) {
				muts = append(muts, i)
			}
		})
		construct := "no mutation after rejection in " + shortFn(h)
		var bad ssa.Instruction
		var from ssa.Instruction
		for _, r := range rejects {
			if m := forwardSearch(r, nil, isMutCall); m != nil {
				bad, from = m, r
				break
			}
		}
		if bad != nil {
			c.Bad(rule, construct, c.at(from), fmt.Sprintf("after the rejection at %s control still reaches %s at %s: a rejected request changes the store", c.at(from), calleeName(callCommon(bad)), c.at(bad)))
		} else {
			c.OK(rule, construct, c.atFn(h), fmt.Sprintf("%d rejection(s), %d mutating call(s), none reachable from a rejection", len(rejects), len(muts)))
		}
		// a write of a body-supplied record must be guarded by bytes.Equal(path UID, body UID)
		for _, m := range muts {
			if callCommon(m).Method.Name() != "WriteUserInfo" {
				continue
			}
			guarded := false
			for _, at := range AtomsAt(m) {
				if at.Kind == "call" && at.Pol && calleeName(&at.Call.Call) == "bytes.Equal" {
					guarded = true
				}
			}
			c.Check(guarded, rule, "WriteUserInfo guarded by UID match in "+shortFn(h), c.at(m), "dominated by bytes.Equal(pathUID, body.UID)==true", "the record is written without the path UID being equal to the body UID on every path")
		}
	}
}

func isFixedDecode(p *Prog, call ssa.CallInstruction) (width int, ok bool) {
	for _, f := range p.Callees(call) {
		n := fnName(f)
		switch {
		case strings.Contains(n, "Endian).Uint64"):
			return 8, true
		case strings.Contains(n, "Endian).Uint32"):
			return 4, true
		case strings.Contains(n, "Endian).Uint16"):
			return 2, true
		}
	}
	return 0, false
}

// lenGuard: is `len(v) >= k` established at instruction at?
func lenGuard(at ssa.Instruction, v ssa.Value, k int64) bool {
	for _, a := range AtomsAt(at) {
		if a.Kind != "cmp" {
			continue
		}
		isLen := func(x ssa.Value) bool {
			call, ok := stripConv(x).(*ssa.Call)
			return ok && calleeName(&call.Call) == "builtin.len" && sameValueOrLoad(call.Call.Args[0], v)
		}
		if c, ok := intConst(a.X); ok && isLen(a.Y) {
			// c <= len  or c < len
			if (a.Op == token.LEQ && c >= k) || (a.Op == token.LSS && c >= k-1) {
				return true
			}
		}
		if c, ok := intConst(a.Y); ok && isLen(a.X) && a.Op == token.EQL && c >= k {
			return true
		}
	}
	return false
}

func c18R2(c *Ctx, rule string) {
	c.Rule(rule, "every fixed-width decode (BigEndian.Uint32/64) in the user manager is dominated by a length check of its argument, or its argument is not a database value", 2)
	p := c.P
	n := 0
	for _, f := range p.FuncsOfPkg(umRel) {
		allInstrs(f, func(i ssa.Instruction) {
			call, ok := i.(*ssa.Call)
			if !ok {
				return
			}
			w, ok := isFixedDecode(p, call)
			if !ok {
				return
			}
			n++
			arg := call.Call.Args[len(call.Call.Args)-1]
			construct := fmt.Sprintf("decode Uint%d(%s) in %s", w*8, Expr(arg), shortFn(f))
			if lenGuard(i, arg, int64(w)) {
				c.OK(rule, construct, c.at(i), fmt.Sprintf("dominated by len(arg) >= %d", w))
				return
			}
			// argument produced locally with a sufficient constant size?
			if mk, ok := arg.(*ssa.MakeSlice); ok {
				if k, isK := intConst(mk.Len); isK && k >= int64(w) {
					c.OK(rule, construct, c.at(i), "argument is a fresh slice of constant sufficient length")
					return
				}
			}
			src := "a value of unknown length"
			if g, ok := arg.(*ssa.Call); ok && strings.HasSuffix(calleeName(&g.Call), "bbolt.Bucket).Get") {
				src = "the result of Bucket.Get (nil when the record lacks the field — the API creates such records)"
			}
			c.Bad(rule, construct, c.at(i), "fixed-width decode of "+src+" without a dominating length check: panics with index out of range")
		})
	}
	if n == 0 {
		c.Undecided(rule, "fixed-width decodes in usermanager", "-", "none found")
	}
}

var c18Spec = map[string]int{"SessionsCap": 4, "UpRate": 8, "DownRate": 8, "UpCredit": 8, "DownCredit": 8, "ExpiryTime": 8}

// keyOf returns the constant string converted to []byte.
func keyOf(v ssa.Value) (string, bool) { return strConst(v) }

func encoderWidth(p *Prog, call *ssa.Call) int {
	f := call.Call.StaticCallee()
	if f == nil {
		return 0
	}
	w := 0
	allInstrs(f, func(i ssa.Instruction) {
		if cc := callCommon(i); cc != nil {
			n := calleeName(cc)
			if strings.Contains(n, "Endian).PutUint64") {
				w = 8
			} else if strings.Contains(n, "Endian).PutUint32") {
				w = 4
			}
		}
	})
	return w
}

func c18R3(c *Ctx, rule string) {
	c.Rule(rule, "writer/reader key-width tables: every Put and every Get of a user-record key uses the width of the frozen table (SessionsCap 4 bytes, others 8) and the same-named field", 12)
	p := c.P
	seenKeys := map[string]bool{}
	for _, f := range p.FuncsOfPkg(umRel) {
		allInstrs(f, func(i ssa.Instruction) {
			call, ok := i.(*ssa.Call)
			if !ok {
				return
			}
			n := calleeName(&call.Call)
			switch {
			case strings.HasSuffix(n, "bbolt.Bucket).Put"):
				key, ok := keyOf(call.Call.Args[1])
				if !ok {
					c.Undecided(rule, "Put with non-constant key in "+shortFn(f), c.at(i), "key is not a constant")
					return
				}
				seenKeys[key] = true
				want, known := c18Spec[key]
				construct := fmt.Sprintf("writer Put(%q) in %s", key, shortFn(f))
				enc, isCall := call.Call.Args[2].(*ssa.Call)
				w := 0
				if isCall {
					w = encoderWidth(p, enc)
				}
				// field association: the encoded value derives from field named like the key (WriteUserInfo) or from old(key)-usage (UploadStatus)
				assoc := ""
				if isCall && len(enc.Call.Args) == 1 {
					v := stripConv(enc.Call.Args[0])
					if ld, ok := v.(*ssa.UnOp); ok && ld.Op == token.MUL {
						if fv, _ := loadedField(ld.X); fv != nil {
							assoc = fv.Name()
						}
					}
					if bo, ok := v.(*ssa.BinOp); ok && bo.Op == token.SUB {
						assoc = "old(" + getKeyOf(p, bo.X) + ")"
					}
				}
				okAssoc := assoc == key || assoc == "old("+key+")"
				c.Check(known && w == want && okAssoc, rule, construct, c.at(i), fmt.Sprintf("width %d, value from %s", w, assoc),
					fmt.Sprintf("key %q: frozen width %d (known=%v), writer encodes %d bytes from %s", key, want, known, w, assoc))
			case strings.HasSuffix(n, "bbolt.Bucket).Get"):
				key, ok := keyOf(call.Call.Args[1])
				if !ok {
					c.Undecided(rule, "Get with non-constant key in "+shortFn(f), c.at(i), "key is not a constant")
					return
				}
				seenKeys[key] = true
				want, known := c18Spec[key]
				construct := fmt.Sprintf("reader Get(%q) in %s", key, shortFn(f))
				// the decode applied to this value
				w := 0
				dest := ""
				for _, r := range *call.Referrers() {
					if dc, ok := r.(*ssa.Call); ok {
						if dw, isDec := decodeWidthThrough(p, dc); isDec {
							w = dw
							dest = destinationName(dc)
						}
					}
				}
				okDest := dest == "" || strings.EqualFold(dest, key) || strings.EqualFold(dest, strings.TrimSuffix(strings.TrimSuffix(key, "Credit"), "Time")) || strings.HasPrefix(strings.ToLower(dest), "old") || strings.EqualFold(dest, "expiry")
				c.Check(known && w == want && okDest, rule, construct, c.at(i), fmt.Sprintf("width %d → %s", w, dest),
					fmt.Sprintf("key %q: frozen width %d (known=%v), reader decodes %d bytes into %q", key, want, known, w, dest))
			}
		})
	}
	var missing []string
	for k := range c18Spec {
		if !seenKeys[k] {
			missing = append(missing, k)
		}
	}
	sort.Strings(missing)
	c.Check(len(missing) == 0, rule, "all six record keys are read or written", "-", "SessionsCap, UpRate, DownRate, UpCredit, DownCredit, ExpiryTime", "keys never used: "+strings.Join(missing, ","))
}

// decodeWidthThrough: width of a decode call, looking through in-repo decoder helpers (u64/u32 after the fix).
func decodeWidthThrough(p *Prog, call *ssa.Call) (int, bool) {
	if w, ok := isFixedDecode(p, call); ok {
		return w, true
	}
	if f := call.Call.StaticCallee(); f != nil && p.InRepo(f) && len(f.Params) == 1 {
		w := 0
		allInstrs(f, func(i ssa.Instruction) {
			if cc, ok := i.(*ssa.Call); ok {
				if dw, isDec := isFixedDecode(p, cc); isDec {
					w = dw
				}
			}
		})
		if w > 0 {
			return w, true
		}
	}
	return 0, false
}

// destinationName: where a decoded value ends up (field or named local), following conversions and Just* wrappers.
func destinationName(v ssa.Value) string {
	seen := map[ssa.Value]bool{}
	var walk func(v ssa.Value, d int) string
	walk = func(v ssa.Value, d int) string {
		if d > 6 || seen[v] {
			return ""
		}
		seen[v] = true
		for _, r := range *v.Referrers() {
			switch x := r.(type) {
			case *ssa.Convert:
				if s := walk(x, d+1); s != "" {
					return s
				}
			case *ssa.Call:
				if s := walk(x, d+1); s != "" {
					return s
				}
			case *ssa.ChangeType:
				if s := walk(x, d+1); s != "" {
					return s
				}
			case *ssa.Store:
				if x.Val == v {
					if fv, _ := fieldVar(x.Addr); fv != nil {
						return fv.Name()
					}
					switch a := x.Addr.(type) {
					case *ssa.Alloc:
						return a.Comment
					case *ssa.FreeVar:
						return a.Name()
					}
				}
			case *ssa.BinOp:
				// oldUp - usage: name by the other operand's field
				return "old"
			}
		}
		return ""
	}
	return walk(v, 0)
}

// getKeyOf: for a value decoded from bucket.Get(key), the key.
func getKeyOf(p *Prog, v ssa.Value) string {
	v = stripConv(v)
	for d := 0; d < 6; d++ {
		call, ok := v.(*ssa.Call)
		if !ok {
			return ""
		}
		if strings.HasSuffix(calleeName(&call.Call), "bbolt.Bucket).Get") {
			k, _ := keyOf(call.Call.Args[1])
			return k
		}
		if len(call.Call.Args) == 0 {
			return ""
		}
		v = stripConv(call.Call.Args[len(call.Call.Args)-1])
	}
	return ""
}

func c18R4(c *Ctx, rule string) {
	c.Rule(rule, "partial write: each Put of WriteUserInfo is conditional on its own field being non-nil and its error is returned", 6)
	p := c.P
	w := c.need(rule, umRel, "localManager.WriteUserInfo")
	if w == nil {
		return
	}
	funcs := append([]*ssa.Function{w}, w.AnonFuncs...)
	for _, f := range funcs {
		allInstrs(f, func(i ssa.Instruction) {
			call, ok := i.(*ssa.Call)
			if !ok || !strings.HasSuffix(calleeName(&call.Call), "bbolt.Bucket).Put") {
				return
			}
			key, _ := keyOf(call.Call.Args[1])
			construct := fmt.Sprintf("Put(%q) conditional on its own field", key)
			own := false
			var others []string
			for _, at := range AtomsAt(i) {
				classified := false
				if at.Kind == "cmp" && at.Op == token.NEQ {
					for _, side := range []ssa.Value{at.X, at.Y} {
						if fv, _ := loadedField(side); fv != nil && isNilConst(otherSide(at, side)) {
							classified = true
							if fv.Name() == key {
								own = true
							} else if _, isKey := c18Spec[fv.Name()]; isKey {
								others = append(others, fv.Name())
							}
						}
					}
				}
				// err == nil of an earlier database call is the only other condition a Put may depend on
				if at.Kind == "cmp" && at.Op == token.EQL && (isNilConst(at.X) || isNilConst(at.Y)) && strings.Contains(at.String(), "bbolt") {
					classified = true
				}
				if !classified {
					// any condition on the VALUE of a field (e.g. *u.F != 0) makes some updates silently disappear
					others = append(others, "condition "+at.String())
				}
			}
			// error propagated
			prop := false
			for _, r := range *call.Referrers() {
				if bo, ok := r.(*ssa.BinOp); ok && bo.Op == token.NEQ {
					prop = true
				}
			}
			c.Check(own && len(others) == 0 && prop, rule, construct, c.at(i), "guarded by u."+key+" != nil only; error checked",
				fmt.Sprintf("own-field guard=%v, also depends on other fields %v, error checked=%v: an update of a subset of fields would not keep the others or would write unset ones", own, others, prop))
		})
	}
	_ = p
}

func otherSide(a Atom, s ssa.Value) ssa.Value {
	if a.X == s {
		return a.Y
	}
	return a.X
}

func c18R5(c *Ctx, rule string) {
	c.Rule(rule, "limiter arguments: ratelimit.NewBucketWithRate is only reached with rate and capacity proven positive (guard in MakeValve or at every caller)", 2)
	p := c.P
	mv := c.need(rule, "internal/multiplex", "MakeValve")
	if mv == nil {
		return
	}
	positive := func(at ssa.Instruction, v ssa.Value) bool {
		v = stripConv(v)
		if k, ok := intConst(v); ok {
			return k > 0
		}
		for _, a := range AtomsAt(at) {
			if a.Kind != "cmp" {
				continue
			}
			if k, ok := intConst(a.X); ok && stripConv(a.Y) == v {
				if (a.Op == token.LSS && k >= 0) || (a.Op == token.LEQ && k >= 1) {
					return true
				}
			}
		}
		return false
	}
	n := 0
	allInstrs(mv, func(i ssa.Instruction) {
		call, ok := i.(*ssa.Call)
		if !ok || !strings.HasSuffix(calleeName(&call.Call), "ratelimit.NewBucketWithRate") {
			return
		}
		n++
		capArg := stripConv(call.Call.Args[1])
		rateArg := stripConv(call.Call.Args[0])
		construct := "NewBucketWithRate(" + Expr(rateArg) + ", " + Expr(capArg) + ")"
		// capacity = rate (one second of burst), both the same parameter
		prm, isParam := capArg.(*ssa.Parameter)
		if !isParam || rateArg != capArg {
			if positive(i, capArg) && positive(i, rateArg) {
				c.OK(rule, construct, c.at(i), "arguments proven positive locally")
			} else {
				c.Bad(rule, construct, c.at(i), "limiter arguments are not a guarded parameter; cannot prove them positive")
			}
			return
		}
		if positive(i, prm) {
			c.OK(rule, construct, c.at(i), "guarded inside MakeValve")
			return
		}
		idx := -1
		for k, q := range mv.Params {
			if q == prm {
				idx = k
			}
		}
		okAll := true
		where := ""
		callers := 0
		for _, cs := range p.CallersOf(mv) {
			if !p.InRepo(cs.Parent()) || strings.HasSuffix(p.Pos(cs.Pos()), "_test.go") {
				continue
			}
			callers++
			if !positive(cs, cs.Common().Args[idx]) {
				okAll = false
				where = c.at(cs) + " passes " + Expr(cs.Common().Args[idx])
			}
		}
		c.Check(okAll && callers > 0, rule, construct, c.at(i), fmt.Sprintf("every one of the %d caller(s) passes a value dominated by a positivity check", callers),
			"rate taken from the user record reaches the limiter unchecked ("+where+"): a record with rate <= 0 (the API accepts any integer, absent fields read as 0) panics in juju/ratelimit when the user connects")
	})
	if n == 0 {
		c.Undecided(rule, "NewBucketWithRate calls in MakeValve", "-", "none found")
	}
}
