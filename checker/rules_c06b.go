package main

import (
	"go/token"
	"sort"
	"strings"

	"golang.org/x/tools/go/ssa"
)

// C06.R6 — the identity the server acts on is its own memory: ClientInfo.UID is a slice, and dispatchConnection keeps
// using it (bypass test, user lookup, session registration) long after decryptClientInfo returned. Its backing array
// must therefore be a fresh allocation of this authentication, not a pooled or caller-supplied scratch buffer that the
// next authentication overwrites (connection A's session would be filed under client B's UID).

type backing struct {
	kind string // fresh | pooled | shared | unknown
	what string
}

func backingOf(p *Prog, v ssa.Value, bind map[*ssa.Parameter]ssa.Value, depth int, seen map[ssa.Value]bool) []backing {
	if depth > 4 {
		return []backing{{"unknown", "call depth exceeded at " + Expr(v)}}
	}
	if seen[v] {
		return nil
	}
	seen[v] = true
	switch x := v.(type) {
	case *ssa.Const:
		return []backing{{"fresh", "nil"}}
	case *ssa.MakeSlice:
		return []backing{{"fresh", "make"}}
	case *ssa.Alloc:
		return []backing{{"fresh", "local allocation " + x.Comment}}
	case *ssa.Convert, *ssa.ChangeType:
		return backingOf(p, stripConv(v), bind, depth, seen)
	case *ssa.Slice:
		return backingOf(p, x.X, bind, depth, seen)
	case *ssa.Phi:
		var out []backing
		for _, e := range x.Edges {
			out = append(out, backingOf(p, e, bind, depth, seen)...)
		}
		return out
	case *ssa.Parameter:
		if a, ok := bind[x]; ok {
			return backingOf(p, a, nil, depth, seen)
		}
		return []backing{{"shared", "caller-supplied " + x.Name()}}
	case *ssa.TypeAssert:
		if call, ok := x.X.(*ssa.Call); ok && calleeName(&call.Call) == "(*sync.Pool).Get" {
			return []backing{{"pooled", "buffer taken from a sync.Pool"}}
		}
		return []backing{{"unknown", Expr(v)}}
	case *ssa.UnOp:
		if x.Op == token.MUL {
			// *ptr where ptr came from a pool
			if b := backingOf(p, x.X, bind, depth, seen); len(b) > 0 {
				return b
			}
		}
		return []backing{{"shared", "loaded from " + Expr(x.X)}}
	case *ssa.FieldAddr, *ssa.IndexAddr:
		var base ssa.Value
		if fa, ok := x.(*ssa.FieldAddr); ok {
			base = fa.X
		} else {
			base = x.(*ssa.IndexAddr).X
		}
		return backingOf(p, base, bind, depth, seen)
	case *ssa.Extract:
		if call, ok := x.Tuple.(*ssa.Call); ok {
			return backingOfCall(p, call, x.Index, bind, depth, seen)
		}
	case *ssa.Call:
		return backingOfCall(p, x, 0, bind, depth, seen)
	}
	return []backing{{"unknown", Expr(v)}}
}

func backingOfCall(p *Prog, call *ssa.Call, idx int, bind map[*ssa.Parameter]ssa.Value, depth int, seen map[ssa.Value]bool) []backing {
	n := calleeName(&call.Call)
	switch {
	case n == "builtin.append":
		return backingOf(p, call.Call.Args[0], bind, depth, seen)
	case strings.HasSuffix(n, "cipher.AEAD).Open") || strings.HasSuffix(n, "cipher.AEAD).Seal"):
		// dst, nonce, in, aad — for an interface invoke the receiver is Call.Value, args start at dst
		return backingOf(p, call.Call.Args[0], bind, depth, seen)
	}
	g := call.Call.StaticCallee()
	if g == nil || !p.InRepo(g) || len(g.Blocks) == 0 {
		return []backing{{"unknown", "result of " + n}}
	}
	nb := map[*ssa.Parameter]ssa.Value{}
	args := call.Call.Args
	for i, prm := range g.Params {
		if i < len(args) {
			a := args[i]
			// resolve the argument in the caller's binding first
			if ap, ok := a.(*ssa.Parameter); ok {
				if b, has := bind[ap]; has {
					a = b
				}
			}
			nb[prm] = a
		}
	}
	var out []backing
	for _, r := range returnsOf(g) {
		if idx >= len(r.Results) {
			continue
		}
		if errIsNilAt(r.Results[len(r.Results)-1], r) == "nonnil" && idx != len(r.Results)-1 {
			continue // error return: the value is not used
		}
		out = append(out, backingOf(p, resultValue(r, idx), nb, depth+1, map[ssa.Value]bool{})...)
	}
	return out
}

func c06R6(c *Ctx, rule string) {
	c.Rule(rule, "identity bytes are owned: the backing array of ClientInfo.UID returned by decryptClientInfo is a fresh allocation of that call (AEAD.Open with nil dst / make), never a pooled or caller-supplied buffer", 1)
	p := c.P
	dci := c.need(rule, "internal/server", "decryptClientInfo")
	uidF := p.Field("internal/server", "ClientInfo", "UID", "[]byte")
	if dci == nil || uidF == nil {
		c.Undecided(rule, "anchors decryptClientInfo / ClientInfo.UID", "-", "not found")
		return
	}
	n := 0
	allInstrs(dci, func(i ssa.Instruction) {
		st, ok := i.(*ssa.Store)
		if !ok {
			return
		}
		if fv, _ := fieldVar(st.Addr); fv != uidF {
			return
		}
		n++
		bs := backingOf(p, st.Val, nil, 0, map[ssa.Value]bool{})
		var bad, unk []string
		for _, b := range bs {
			switch b.kind {
			case "fresh":
			case "unknown":
				unk = append(unk, b.what)
			default:
				bad = append(bad, b.what)
			}
		}
		sort.Strings(bad)
		sort.Strings(unk)
		construct := "backing array of ClientInfo.UID stored in decryptClientInfo"
		switch {
		case len(bad) > 0:
			c.Bad(rule, construct, c.at(i), "the UID slice aliases "+strings.Join(dedupStrings(bad), ", ")+": the next authentication that receives the same buffer overwrites it while this connection is still being dispatched — its session is registered under another client's UID")
		case len(unk) > 0 || len(bs) == 0:
			c.Undecided(rule, construct, c.at(i), "cannot resolve the backing array: "+strings.Join(dedupStrings(unk), ", "))
		default:
			c.OK(rule, construct, c.at(i), "fresh allocation of this call (AEAD.Open(nil, …))")
		}
	})
	if n == 0 {
		c.Undecided(rule, "store to ClientInfo.UID in decryptClientInfo", c.atFn(dci), "not found")
	}
}
