package main

import (
	"fmt"
	"go/token"
	"go/types"
	"sync"

	"golang.org/x/tools/go/ssa"
)

// CELL VALUES — go/ssa keeps the named results of a function that defers (and every captured local) in memory cells,
// so `n += k` is load, add, store and each use of n is another load. For a private cell (only loaded and stored by its
// own function, allocated once at function entry) this file reconstructs what register promotion would have produced:
// the value a load observes is the last store before it in its block, else the value at block entry — the single
// predecessor's exit value, or a merge node (cellPhi) with one operand per predecessor. The affine engine (symAff) looks
// through loads this way, and treats a cellPhi like a φ-node, so `for remaining := len(in); …; remaining = len(in) - n`
// relates `remaining` and `n` whether or not n happens to live in a cell.

type cellPhi struct {
	cell  *ssa.Alloc
	blk   *ssa.BasicBlock
	Edges []ssa.Value
}

func (c *cellPhi) Name() string                  { return fmt.Sprintf("%s@b%d", c.cell.Comment, c.blk.Index) }
func (c *cellPhi) String() string                { return "φcell(" + c.Name() + ")" }
func (c *cellPhi) Type() types.Type              { return c.cell.Type().Underlying().(*types.Pointer).Elem() }
func (c *cellPhi) Parent() *ssa.Function         { return c.cell.Parent() }
func (c *cellPhi) Referrers() *[]ssa.Instruction { return nil }
func (c *cellPhi) Pos() token.Pos                { return token.NoPos }

type cellSSA struct {
	entry, exit map[*ssa.BasicBlock]ssa.Value
	phis        map[*ssa.BasicBlock]*cellPhi
	repl        map[ssa.Value]ssa.Value // trivial merge nodes → the one value they stand for
}

var (
	cellSSAMu    sync.Mutex
	cellSSACache = map[*ssa.Alloc]*cellSSA{}
)

func (cs *cellSSA) resolve(v ssa.Value) ssa.Value {
	for i := 0; i < 16; i++ {
		r, ok := cs.repl[v]
		if !ok {
			return v
		}
		v = r
	}
	return v
}

// promotableCell: a private scalar cell allocated once, at function entry.
func promotableCell(a *ssa.Alloc) bool {
	f := a.Parent()
	if f == nil || len(f.Blocks) == 0 || a.Block() != f.Blocks[0] || !plainCell(a) {
		return false
	}
	_, isBasic := a.Type().Underlying().(*types.Pointer).Elem().Underlying().(*types.Basic)
	return isBasic
}

func cellSSAOf(a *ssa.Alloc) *cellSSA {
	cellSSAMu.Lock()
	defer cellSSAMu.Unlock()
	if cs, ok := cellSSACache[a]; ok {
		return cs
	}
	var cs *cellSSA
	if promotableCell(a) {
		cs = buildCellSSA(a)
	}
	cellSSACache[a] = cs
	return cs
}

func buildCellSSA(a *ssa.Alloc) *cellSSA {
	f := a.Parent()
	cs := &cellSSA{entry: map[*ssa.BasicBlock]ssa.Value{}, exit: map[*ssa.BasicBlock]ssa.Value{}, phis: map[*ssa.BasicBlock]*cellPhi{}, repl: map[ssa.Value]ssa.Value{}}
	zero := zeroValueOf(a.Type().Underlying().(*types.Pointer).Elem())
	lastStore := func(b *ssa.BasicBlock) ssa.Value {
		var v ssa.Value
		for _, in := range b.Instrs {
			if st, ok := in.(*ssa.Store); ok && st.Addr == ssa.Value(a) {
				v = st.Val
			}
		}
		return v
	}
	for _, b := range f.DomPreorder() {
		switch {
		case b == f.Blocks[0]:
			cs.entry[b] = zero
		case len(b.Preds) == 1 && cs.exit[b.Preds[0]] != nil:
			cs.entry[b] = cs.exit[b.Preds[0]]
		default:
			ph := &cellPhi{cell: a, blk: b, Edges: make([]ssa.Value, len(b.Preds))}
			cs.phis[b] = ph
			cs.entry[b] = ph
		}
		if v := lastStore(b); v != nil {
			cs.exit[b] = v
		} else {
			cs.exit[b] = cs.entry[b]
		}
	}
	for b, ph := range cs.phis {
		for i, p := range b.Preds {
			ph.Edges[i] = cs.exit[p] // nil for unreachable predecessors
		}
	}
	// merge nodes all of whose operands (other than themselves) are one value are that value
	for changed := true; changed; {
		changed = false
		for _, ph := range cs.phis {
			if _, done := cs.repl[ph]; done {
				continue
			}
			var only ssa.Value
			trivial := true
			for _, e := range ph.Edges {
				if e == nil {
					continue
				}
				e = cs.resolve(e)
				if e == ssa.Value(ph) {
					continue
				}
				// a store of the cell's own current value (x = x) does not change it
				if only == nil {
					only = e
				} else if only != e {
					trivial = false
				}
			}
			if trivial && only != nil {
				cs.repl[ph] = only
				changed = true
			}
		}
	}
	for _, ph := range cs.phis {
		for i, e := range ph.Edges {
			if e != nil {
				ph.Edges[i] = cs.resolve(e)
			}
		}
	}
	return cs
}

// cellLoadValue: the value a load of a promotable cell observes (a stored value, the zero value, or a merge node); nil
// when the cell is not promotable.
func cellLoadValue(ld *ssa.UnOp) ssa.Value {
	if ld.Op != token.MUL || ld.Block() == nil {
		return nil
	}
	a, ok := ld.X.(*ssa.Alloc)
	if !ok {
		return nil
	}
	cs := cellSSAOf(a)
	if cs == nil {
		return nil
	}
	var v ssa.Value
	for _, in := range ld.Block().Instrs {
		if in == ssa.Instruction(ld) {
			break
		}
		if st, isSt := in.(*ssa.Store); isSt && st.Addr == ssa.Value(a) {
			v = st.Val
		}
	}
	if v == nil {
		v = cs.entry[ld.Block()]
	}
	if v == nil {
		return nil
	}
	return cs.resolve(v)
}

// cellPhisAt: the merge nodes of the promotable cells of f at block b.
func cellPhisAt(f *ssa.Function, b *ssa.BasicBlock) []*cellPhi {
	var out []*cellPhi
	if f == nil || len(f.Blocks) == 0 {
		return nil
	}
	for _, in := range f.Blocks[0].Instrs {
		a, ok := in.(*ssa.Alloc)
		if !ok {
			continue
		}
		cs := cellSSAOf(a)
		if cs == nil {
			continue
		}
		if ph := cs.phis[b]; ph != nil {
			if _, gone := cs.repl[ph]; !gone {
				out = append(out, ph)
			}
		}
	}
	return out
}
