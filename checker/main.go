package main

import (
	"encoding/json"
	"flag"
	"fmt"
	"os"
	"os/exec"
	"path/filepath"
	"runtime/debug"
	"sort"
	"strconv"
	"strings"
	"time"
)

// PropDef describes one property's static check.
type PropDef struct {
	ID          string
	Title       string
	Run         func(c *Ctx)
	Decided     string // clauses decided (structural necessary conditions)
	NotDecided  string // clauses explicitly not decided
	Assumptions []string
	Technique   string
}

var props = map[string]*PropDef{}

func register(p *PropDef) { props[p.ID] = p }

var baseTrusted = []string{
	"go/types type checker and golang.org/x/tools v0.29.0 go/packages, go/ssa (SSA construction, dominator tree)",
	"call graph: VTA iterated over a CHA seed (golang.org/x/tools/go/callgraph); reflection/unsafe/cgo not followed",
	"frozen protocol tables under /verif/spec and the rule tables compiled into the checker",
	"library contracts listed in checker/contracts.go (io.ReadFull, AEAD Overhead/NonceSize, RandInt range, bbolt Bucket.Get may return nil, ratelimit panics on rate<=0, X25519 ignores bit 255)",
}

func main() {
	prop := flag.String("prop", "", "property id (C01..C20) or 'all'")
	tier := flag.String("tier", "quick", "quick|thorough")
	repo := flag.String("repo", "/repo", "path of the tree to analyse")
	verif := flag.String("verif", "/verif", "path of the verification directory")
	selftest := flag.Bool("selftest", false, "run the checker's positive controls")
	explain := flag.String("explain", "", "re-evaluate the obligation in a violation report")
	emit := flag.String("emit", "", "(internal) write raw obligations as JSON to this file instead of judging")
	goos := flag.String("goos", "linux", "GOOS")
	goarch := flag.String("goarch", "amd64", "GOARCH")
	tags := flag.String("tags", "", "build tags")
	quiet := flag.Bool("quiet", false, "only print non-OK obligations")
	variantsOnly := flag.String("variants", "", "evaluate the self-validation corpus of a property (or 'all') without judging /repo")
	dumpsigs := flag.Bool("dumpsigs", false, "(maintenance) print sigs_table.go for the tree at -repo")
	flag.Parse()
	debug.SetGCPercent(400)
	// the `go` driver is looked up through this process's PATH: make the checker independent of the caller's shell
	if _, err := os.Stat(goToolchain + "/bin/go"); err == nil && !strings.HasPrefix(os.Getenv("PATH"), goToolchain+"/bin") {
		os.Setenv("PATH", goToolchain+"/bin:"+os.Getenv("PATH"))
	}
	os.Setenv("GOTOOLCHAIN", "local")
	os.Setenv("GOFLAGS", "-mod=mod")
	os.Setenv("GOPROXY", "off")
	os.Setenv("GOSUMDB", "off")
	os.Unsetenv("GOWORK")

	cfg := Config{GOOS: *goos, GOARCH: *goarch, Tags: *tags}
	switch {
	case *dumpsigs:
		p, err := Load(*repo, cfg)
		if err != nil {
			fmt.Fprintln(os.Stderr, err)
			os.Exit(1)
		}
		dumpSigs(p)
		os.Exit(0)
	case *selftest:
		os.Exit(runSelfTest(*verif))
	case *explain != "":
		os.Exit(runExplain(*explain, *repo, *verif))
	case *variantsOnly != "":
		ids := []string{*variantsOnly}
		if *variantsOnly == "all" {
			ids = nil
			for id := range props {
				ids = append(ids, id)
			}
			sort.Strings(ids)
		}
		os.Exit(runVariantsOnly(ids, *repo, *verif))
	case *prop == "":
		fmt.Fprintln(os.Stderr, "need -prop")
		os.Exit(2)
	}
	ids := []string{*prop}
	if *prop == "all" {
		ids = nil
		for id := range props {
			ids = append(ids, id)
		}
		sort.Strings(ids)
	}
	for _, id := range ids {
		if props[id] == nil {
			fmt.Fprintf(os.Stderr, "unknown or unclaimed property %s\n", id)
			os.Exit(2)
		}
	}
	t0 := time.Now()
	p, err := Load(*repo, cfg)
	if *emit != "" {
		out := map[string]interface{}{}
		if err != nil {
			out["load_error"] = err.Error()
		} else {
			c := runProp(p, ids[0])
			out["obligations"] = c.Obs
			out["functions"] = len(p.RepoFuncs)
		}
		if e := writeJSON(*emit, out); e != nil {
			fmt.Fprintln(os.Stderr, e)
			os.Exit(3)
		}
		return
	}
	rc := 0
	for _, id := range ids {
		if r := judge(id, *tier, *repo, *verif, cfg, p, err, t0, *quiet); r != 0 {
			rc = r
		}
		t0 = time.Now()
	}
	os.Exit(rc)
}

func runProp(p *Prog, id string) (c *Ctx) {
	c = newCtx(p, id)
	defer func() {
		if r := recover(); r != nil {
			c.Undecided(id+".R0", "checker-panic", "-", fmt.Sprintf("checker panicked: %v\n%s", r, trimStack(debug.Stack())))
		}
	}()
	props[id].Run(c)
	c.finishFloors()
	sortObs(c.Obs)
	return c
}

func trimStack(b []byte) string {
	lines := strings.Split(string(b), "\n")
	if len(lines) > 24 {
		lines = lines[:24]
	}
	return strings.Join(lines, "\n")
}

var extraConfigs = []Config{
	{GOOS: "linux", GOARCH: "386"},
	{GOOS: "linux", GOARCH: "amd64", Tags: "gofuzz"},
	{GOOS: "windows", GOARCH: "amd64"},
}

func judge(id, tier, repo, verif string, cfg Config, p *Prog, loadErr error, t0 time.Time, quiet bool) int {
	def := props[id]
	seed := 0
	if s := os.Getenv("VERIF_SEED"); s != "" {
		seed, _ = strconv.Atoi(s)
	}
	evDir := filepath.Join(verif, "evidence")
	if d := os.Getenv("CLOAKCHECK_EVIDENCE_DIR"); d != "" {
		evDir = d // used when the checker validates itself on scratch copies: never overwrite the real evidence
	}
	evPath := filepath.Join(evDir, id+".json")
	vioDir := filepath.Join(evDir, "violations")
	known, ferr := loadFindings(verif)
	if ferr != nil {
		fmt.Println("cannot read known findings:", ferr)
	}

	var obs []Ob
	configs := []string{cfg.String()}
	nfuncs, ninstr, npkgs, cgEdges := 0, 0, 0, 0
	if loadErr != nil {
		obs = append(obs, Ob{Rule: id + ".load", Construct: "load " + cfg.String(), Pos: "-", Status: "UNDECIDED", Detail: loadErr.Error(), Config: cfg.String()})
	} else {
		c := runProp(p, id)
		for i := range c.Obs {
			c.Obs[i].Config = cfg.String()
		}
		obs = c.Obs
		nfuncs, ninstr, npkgs = len(p.RepoFuncs), p.NInstr, p.NPkgs
		cgEdges = p.repoEdgeCount(p.CG)
		if tier == "thorough" {
			self, _ := os.Executable()
			for _, ec := range extraConfigs {
				tmp, err := os.CreateTemp("", "cloakcheck-*.json")
				if err != nil {
					continue
				}
				tmp.Close()
				cmd := exec.Command(self, "-prop", id, "-repo", repo, "-verif", verif, "-emit", tmp.Name(), "-goos", ec.GOOS, "-goarch", ec.GOARCH, "-tags", ec.Tags)
				cmd.Stderr = os.Stderr
				runErr := cmd.Run()
				b, _ := os.ReadFile(tmp.Name())
				os.Remove(tmp.Name())
				var res struct {
					LoadError   string `json:"load_error"`
					Obligations []Ob   `json:"obligations"`
				}
				if runErr != nil || json.Unmarshal(b, &res) != nil {
					obs = append(obs, Ob{Rule: id + ".load", Construct: "load " + ec.String(), Pos: "-", Status: "UNDECIDED", Detail: fmt.Sprintf("sub-analysis failed: %v", runErr), Config: ec.String()})
					continue
				}
				if res.LoadError != "" {
					obs = append(obs, Ob{Rule: id + ".load", Construct: "load " + ec.String(), Pos: "-", Status: "UNDECIDED", Detail: res.LoadError, Config: ec.String()})
					continue
				}
				configs = append(configs, ec.String())
				for _, o := range res.Obligations {
					o.Config = ec.String()
					obs = append(obs, o)
				}
			}
		}
	}
	// merge identical (key,status) across configurations
	type mk struct{ key, status string }
	merged := map[mk]*Ob{}
	var order []mk
	for _, o := range obs {
		k := mk{o.Key(), o.Status}
		if m, ok := merged[k]; ok {
			if !strings.Contains(m.Config, o.Config) {
				m.Config += "; " + o.Config
			}
			continue
		}
		oc := o
		merged[k] = &oc
		order = append(order, k)
	}
	obs = obs[:0]
	for _, k := range order {
		obs = append(obs, *merged[k])
	}
	sortObs(obs)

	// verdicts
	os.MkdirAll(vioDir, 0o755)
	// remove stale reports of this property
	if old, _ := filepath.Glob(filepath.Join(vioDir, id+"-*.json")); old != nil {
		for _, f := range old {
			os.Remove(f)
		}
	}
	stats := map[string]*RuleStat{}
	var ruleOrder []string
	nOK, nKnown, nBad, nUndec := 0, 0, 0, 0
	distinct := map[string]bool{}
	var samples []interface{}
	var violLines []string
	fmt.Printf("== %s %s  tier=%s  configs=%s\n", id, def.Title, tier, strings.Join(configs, ", "))
	for _, o := range obs {
		st := stats[o.Rule]
		if st == nil {
			st = &RuleStat{Rule: o.Rule, Imported: o.Imported}
			stats[o.Rule] = st
			ruleOrder = append(ruleOrder, o.Rule)
		}
		st.Instances++
		distinct[o.Key()] = true
		switch o.Status {
		case "OK":
			nOK++
			st.Discharged++
			if !quiet {
				fmt.Printf("OK         %-8s %s @ %s — %s\n", o.Rule, o.Construct, o.Pos, o.Detail)
			}
		default:
			if f, ok := known[id+"|"+o.Key()]; ok {
				nKnown++
				st.Known++
				fmt.Printf("KNOWN-FINDING: property=%s %s @ %s — %s\n", id, o.Key(), o.Pos, f.What)
				continue
			}
			if o.Status == "VIOLATION" {
				nBad++
				st.Violated++
			} else {
				nUndec++
				st.Undecided++
			}
			rp := filepath.Join(vioDir, id+"-"+keyHash(o.Key())+".json")
			writeJSON(rp, ViolationReport{Property: id, Rule: o.Rule, Construct: o.Construct, Key: o.Key(), Status: o.Status, Pos: o.Pos, Detail: o.Detail, Config: o.Config, Replay: rp})
			fmt.Printf("%-10s %-8s %s @ %s [%s] — %s\n", o.Status, o.Rule, o.Construct, o.Pos, o.Config, o.Detail)
			violLines = append(violLines, fmt.Sprintf("VIOLATION property=%s replay=%s", id, rp))
		}
	}
	// samples: a few obligations of distinct rules
	seenRule := map[string]int{}
	for _, o := range obs {
		if seenRule[o.Rule] >= 2 || len(samples) >= 24 {
			continue
		}
		seenRule[o.Rule]++
		samples = append(samples, map[string]string{"rule": o.Rule, "construct": o.Construct, "pos": o.Pos, "status": o.Status, "derived": o.Detail})
	}
	var rstats []RuleStat
	sort.Slice(ruleOrder, func(i, j int) bool { return ruleLess(ruleOrder[i], ruleOrder[j]) })
	for _, r := range ruleOrder {
		rstats = append(rstats, *stats[r])
	}
	for _, l := range violLines {
		fmt.Println(l)
	}
	wall := time.Since(t0).Seconds()
	nontrivial := 0
	for k := range distinct {
		if !strings.Contains(k, "instance-floor") {
			nontrivial++
		}
	}
	variantInfo := map[string]interface{}{}
	if tier == "thorough" && loadErr == nil {
		variantInfo = runVariants(id, repo, verif, nBad+nUndec == 0)
		wall = time.Since(t0).Seconds()
	}
	ev := Evidence{
		PropertyID: id, Tier: tier, Seed: seed, Level: "other", WallS: wall, Violations: nBad + nUndec,
		Assumptions: append([]string{}, def.Assumptions...),
		Coverage: map[string]interface{}{
			"explanation": "STATIC ANALYSIS of /repo's current source (nothing executed). DECIDED (structural necessary conditions of the property): " + def.Decided +
				" NOT DECIDED (run-time quantities outside any sound static argument in reach): " + def.NotDecided,
			"evaluations":          len(obs),
			"distinct_nontrivial":  nontrivial,
			"rule":                 "one evaluation = one rule instance (rule id + construct: a call site, field access, return, table row) enumerated from the type-checked SSA program and call graph; distinct = distinct rule+construct keys, instance-floor meta obligations excluded",
			"obligations":          len(obs),
			"discharged":           nOK,
			"known_findings":       nKnown,
			"violated":             nBad,
			"undecided":            nUndec,
			"samples":              samples,
			"rules":                rstats,
			"configurations":       configs,
			"packages_loaded":      npkgs,
			"repo_functions":       nfuncs,
			"repo_ssa_instrs":      ninstr,
			"callgraph_repo_edges": cgEdges,
			"checker_cmd":          "./run.sh check " + id + " " + tier,
			"trusted_base":         baseTrusted,
			"exhaustive":           false,
			"technique":            def.Technique,
		},
	}
	if p != nil {
		ev.Coverage["not_analysed"] = p.NotAnalysed
		ev.Coverage["vta_rounds"] = p.VTARounds
		ev.Coverage["normalisation"] = map[string]interface{}{
			"rule":           "calls to functions absent from the frozen function table (code split off from a known function) are expanded in place at the source level before the rules run (overlay, nothing written to the repository); see checker/inline.go",
			"expanded_sites": p.Inlined,
			"failed":         p.InlineFailed,
			"not_expanded":   p.InlineRejected,
		}
		if len(p.Inlined) > 0 || p.InlineFailed != "" || len(p.InlineRejected) > 0 {
			fmt.Printf("-- normalisation: %d site(s) (calls of novel helpers, loops over literal tables) expanded before the analysis %s\n", len(p.Inlined), p.InlineFailed)
			for _, r := range p.InlineRejected {
				fmt.Printf("--   not expanded (the package would not type-check): %s\n", r)
			}
		}
	}
	for k, v := range variantInfo {
		ev.Coverage[k] = v
	}
	if err := writeJSON(evPath, ev); err != nil {
		fmt.Println("cannot write evidence:", err)
		return 1
	}
	fmt.Printf("-- %s: %d obligations, %d discharged, %d known, %d violated, %d undecided; %.1fs\n", id, len(obs), nOK, nKnown, nBad, nUndec, wall)
	if nBad+nUndec > 0 {
		return 1
	}
	return 0
}

func runExplain(path, repo, verif string) int {
	b, err := os.ReadFile(path)
	if err != nil {
		fmt.Println(err)
		return 2
	}
	var r ViolationReport
	if err := json.Unmarshal(b, &r); err != nil {
		fmt.Println(err)
		return 2
	}
	if props[r.Property] == nil {
		fmt.Println("unknown property", r.Property)
		return 2
	}
	p, err := Load(repo, Config{GOOS: "linux", GOARCH: "amd64"})
	if err != nil {
		fmt.Println("load:", err)
		return 1
	}
	c := runProp(p, r.Property)
	found := false
	rc := 0
	for _, o := range c.Obs {
		if o.Key() == r.Key {
			found = true
			fmt.Printf("%s %s\n  construct: %s\n  at: %s\n  derived: %s\n", o.Status, o.Rule, o.Construct, o.Pos, o.Detail)
			if o.Status != "OK" {
				rc = 1
				fmt.Printf("VIOLATION property=%s replay=%s\n", r.Property, path)
			}
		}
	}
	if !found {
		fmt.Printf("obligation %q no longer exists on the current tree (the construct was removed or renamed)\n", r.Key)
	}
	return rc
}
