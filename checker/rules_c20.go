package main

import (
	"fmt"
	"go/constant"
	"go/token"
	"go/types"
	"sort"
	"strings"

	"golang.org/x/tools/go/ssa"
)

func init() {
	register(&PropDef{
		ID: "C20", Title: "client configuration honoured as documented, in both syntaxes",
		Run:       runC20,
		Technique: "static analysis: whole-program value-flow graph (field-based) for option→target flow, conditional constant propagation of ProcessRawConfig under assumed option values against a frozen README table, type-derived key sets for the option-string front end",
		Decided: "(a) every RawConfig option reaches its documented target by data flow (or, for enumerated options, by a branch on it), no option is parsed and dropped, unclassified new options are reported; " +
			"(b) the decision/default table extracted from ProcessRawConfig by constant propagation under each assumed option value equals the table transcribed from README.md and the property statement (NumConn<=0 ⇒ one connection + singleplex, KeepAlive N ⇒ N seconds, StreamTimeout default 300 s, BrowserSig/Transport/encryption names case-folded, CDN defaults); " +
			"(c) each required option left empty makes every reachable return carry a non-nil error; " +
			"(d) the option-string front end's unquoted/array key sets equal the int-bool/[]string fields of RawConfig computed from the type, escapes are undone in the documented order before splitting; " +
			"(e) processed values reach the dialer, the routers and the session (KeepAlive→net.Dialer.KeepAlive, Timeout→read deadlines, Singleplex, NumConn, Transport, MockDomainList).",
		NotDecided:  "equivalence of the two syntaxes on arbitrary strings (quoting inside values is a property of all inputs of two parsers); JSON decoding semantics of encoding/json; README prose that is not a value.",
		Assumptions: []string{"the README/property-statement table compiled into the checker (rules_c20.go c20Rows) is the documented behaviour"},
	})
}

func runC20(c *Ctx) {
	c20R1(c, "C20.R1")
	c20R2(c, "C20.R2")
	c20R3(c, "C20.R3")
	c20R4(c, "C20.R4")
	c20R5(c, "C20.R5")
	c20R6(c, "C20.R6")
	c20R7(c, "C20.R7")
}

type c20Target struct {
	typ, field string
	control    bool // the option selects among constants (control influence suffices)
}

// c20Flow: option → documented targets (README "Client" section and the property statement).
var c20Flow = map[string][]c20Target{
	"ServerName":       {{"AuthInfo", "MockDomain", false}, {"LocalConnConfig", "MockDomainList", false}},
	"AlternativeNames": {{"LocalConnConfig", "MockDomainList", false}},
	"ProxyMethod":      {{"AuthInfo", "ProxyMethod", false}},
	"UID":              {{"AuthInfo", "UID", false}},
	"PublicKey":        {{"AuthInfo", "ServerPubKey", false}},
	"EncryptionMethod": {{"AuthInfo", "EncryptionMethod", true}},
	"UDP":              {{"AuthInfo", "Unordered", false}},
	"NumConn":          {{"RemoteConnConfig", "NumConn", false}, {"RemoteConnConfig", "Singleplex", true}},
	"RemoteHost":       {{"RemoteConnConfig", "RemoteAddr", false}},
	"RemotePort":       {{"RemoteConnConfig", "RemoteAddr", false}},
	"LocalHost":        {{"LocalConnConfig", "LocalAddr", false}},
	"LocalPort":        {{"LocalConnConfig", "LocalAddr", false}},
	"Transport":        {{"TransportConfig", "mode", true}},
	"BrowserSig":       {{"TransportConfig", "browser", true}},
	"CDNOriginHost":    {{"TransportConfig", "wsUrl", false}},
	"CDNWsUrlPath":     {{"TransportConfig", "wsUrl", false}},
	"StreamTimeout":    {{"LocalConnConfig", "Timeout", false}},
	"KeepAlive":        {{"RemoteConnConfig", "KeepAlive", false}},
}

func c20R1(c *Ctx, rule string) {
	c.Rule(rule, "every RawConfig option influences its documented target: data flow, or for enumerated options a branch on the option controlling the store", 18)
	p := c.P
	raw := p.Named("internal/client", "RawConfig")
	prc := c.need(rule, "internal/client", "RawConfig.ProcessRawConfig")
	if raw == nil || prc == nil {
		c.Undecided(rule, "anchor client.RawConfig / ProcessRawConfig", "-", "not found")
		return
	}
	g := p.VFlow()
	st := raw.Underlying().(*types.Struct)
	for i := 0; i < st.NumFields(); i++ {
		f := st.Field(i)
		targets, ok := c20Flow[f.Name()]
		if !ok {
			c.Undecided(rule, "option "+f.Name()+" unclassified", p.Pos(f.Pos()), "RawConfig has an option that the documented table does not know: add its documented target to the table before claiming it is honoured")
			continue
		}
		reach := g.Reach(fieldNode{f})
		for _, t := range targets {
			tf := p.Field("internal/client", t.typ, t.field)
			construct := fmt.Sprintf("option %s → %s.%s", f.Name(), t.typ, t.field)
			if tf == nil {
				c.Undecided(rule, construct, "-", "target field not found")
				continue
			}
			if reach[fieldNode{tf}] {
				c.OK(rule, construct, p.Pos(f.Pos()), "data flow: "+strings.Join(g.Path(fieldNode{tf}, map[vnode]bool{fieldNode{f}: true}), " → "))
				continue
			}
			if t.control {
				// some store to the target in ProcessRawConfig is control-dependent on a condition reached from the option
				found := ""
				for _, s := range FieldStores(p, tf) {
					if s.Parent() != prc && !p.inUnit(prc, s.Parent()) {
						continue
					}
					// the stored value is chosen by a helper split off from ProcessRawConfig: its branches count
					sv := s.Val
					if ex, isEx := sv.(*ssa.Extract); isEx {
						sv = ex.Tuple
					}
					if call, isC := sv.(*ssa.Call); isC {
						if hg := call.Call.StaticCallee(); hg != nil && p.inUnit(prc, hg) {
							allInstrs(hg, func(i ssa.Instruction) {
								if iff, ok := i.(*ssa.If); ok && g.BackReach(append([]vnode{g.val(iff.Cond, nil)}, g.clones[iff.Cond]...)...)[fieldNode{f}] {
									found = "store at " + c.at(s) + " takes the value chosen by " + shortFn(hg) + " under " + Expr(iff.Cond)
								}
							})
						}
					}
					for _, gd := range GuardsOf(s.Block()) {
						if g.BackReach(append([]vnode{g.val(gd.Cond, nil)}, g.clones[gd.Cond]...)...)[fieldNode{f}] {
							found = "store at " + c.at(s) + " is controlled by " + NormCond(gd.Cond, gd.Pol).String()
						}
					}
					// switch bodies with several predecessors: look at every comparison block dominating the store
					if found == "" {
						for d := s.Block().Idom(); d != nil; d = d.Idom() {
							if iff, ok := d.Instrs[len(d.Instrs)-1].(*ssa.If); ok {
								if g.BackReach(append([]vnode{g.val(iff.Cond, nil)}, g.clones[iff.Cond]...)...)[fieldNode{f}] {
									found = "store at " + c.at(s) + " is below the branch " + Expr(iff.Cond)
								}
							}
						}
					}
				}
				c.Check(found != "", rule, construct, p.Pos(f.Pos()), "control influence: "+found, "the option neither flows into nor controls any store to its documented target (parsed and dropped)")
				continue
			}
			c.Bad(rule, construct, p.Pos(f.Pos()), "no data flow from the option to its documented target: the value is parsed and then dropped or replaced")
		}
	}
}

// ---- R2: decision/default table by conditional constant propagation ----

type c20Row struct {
	name   string
	assume map[string]interface{} // option -> assumed value (string|int|bool)
	expect map[string]string      // "Type.field" -> expected constant (ExactString) at the last executable store
}

const sec = 1000000000

var c20Rows = []c20Row{
	{"NumConn=0 ⇒ one connection per stream", map[string]interface{}{"NumConn": 0}, map[string]string{"RemoteConnConfig.NumConn": "1", "RemoteConnConfig.Singleplex": "true"}},
	{"NumConn=-3 ⇒ one connection per stream", map[string]interface{}{"NumConn": -3}, map[string]string{"RemoteConnConfig.NumConn": "1", "RemoteConnConfig.Singleplex": "true"}},
	{"NumConn=1 ⇒ multiplexed over 1", map[string]interface{}{"NumConn": 1}, map[string]string{"RemoteConnConfig.NumConn": "1", "RemoteConnConfig.Singleplex": "false"}},
	{"NumConn=4 ⇒ multiplexed over 4", map[string]interface{}{"NumConn": 4}, map[string]string{"RemoteConnConfig.NumConn": "4", "RemoteConnConfig.Singleplex": "false"}},
	{"KeepAlive=0 ⇒ disabled", map[string]interface{}{"KeepAlive": 0}, map[string]string{"RemoteConnConfig.KeepAlive": "-1"}},
	{"KeepAlive=-5 ⇒ disabled", map[string]interface{}{"KeepAlive": -5}, map[string]string{"RemoteConnConfig.KeepAlive": "-1"}},
	{"KeepAlive=15 ⇒ 15 s", map[string]interface{}{"KeepAlive": 15}, map[string]string{"RemoteConnConfig.KeepAlive": fmt.Sprint(15 * sec)}},
	{"KeepAlive=1 ⇒ 1 s", map[string]interface{}{"KeepAlive": 1}, map[string]string{"RemoteConnConfig.KeepAlive": fmt.Sprint(1 * sec)}},
	{"StreamTimeout=0 ⇒ default 300 s", map[string]interface{}{"StreamTimeout": 0}, map[string]string{"LocalConnConfig.Timeout": fmt.Sprint(300 * sec)}},
	{"StreamTimeout=20 ⇒ 20 s", map[string]interface{}{"StreamTimeout": 20}, map[string]string{"LocalConnConfig.Timeout": fmt.Sprint(20 * sec)}},
	{"Transport unset ⇒ direct", map[string]interface{}{"Transport": ""}, map[string]string{"TransportConfig.mode": `"direct"`}},
	{"Transport=direct", map[string]interface{}{"Transport": "direct"}, map[string]string{"TransportConfig.mode": `"direct"`}},
	{"Transport=CDN (case-folded)", map[string]interface{}{"Transport": "CDN"}, map[string]string{"TransportConfig.mode": `"cdn"`}},
	{"Transport=cdn", map[string]interface{}{"Transport": "cdn"}, map[string]string{"TransportConfig.mode": `"cdn"`}},
	{"BrowserSig unset ⇒ chrome", map[string]interface{}{"BrowserSig": ""}, map[string]string{"TransportConfig.browser": "0"}},
	{"BrowserSig=chrome", map[string]interface{}{"BrowserSig": "chrome"}, map[string]string{"TransportConfig.browser": "0"}},
	{"BrowserSig=Firefox (case-folded)", map[string]interface{}{"BrowserSig": "Firefox"}, map[string]string{"TransportConfig.browser": "1"}},
	{"BrowserSig=safari", map[string]interface{}{"BrowserSig": "safari"}, map[string]string{"TransportConfig.browser": "2"}},
	{"EncryptionMethod=plain", map[string]interface{}{"EncryptionMethod": "plain"}, map[string]string{"AuthInfo.EncryptionMethod": "0"}},
	{"EncryptionMethod=aes-gcm", map[string]interface{}{"EncryptionMethod": "aes-gcm"}, map[string]string{"AuthInfo.EncryptionMethod": "1"}},
	{"EncryptionMethod=AES-256-GCM (case-folded)", map[string]interface{}{"EncryptionMethod": "AES-256-GCM"}, map[string]string{"AuthInfo.EncryptionMethod": "1"}},
	{"EncryptionMethod=aes-128-gcm", map[string]interface{}{"EncryptionMethod": "aes-128-gcm"}, map[string]string{"AuthInfo.EncryptionMethod": "3"}},
	{"EncryptionMethod=chacha20-poly1305", map[string]interface{}{"EncryptionMethod": "chacha20-poly1305"}, map[string]string{"AuthInfo.EncryptionMethod": "2"}},
	{"CDN defaults: origin host = remote host, path = /", map[string]interface{}{"Transport": "cdn", "CDNOriginHost": "", "CDNWsUrlPath": "", "RemoteHost": "r.example", "RemotePort": "443"}, map[string]string{"TransportConfig.wsUrl": `"ws://r.example:443/"`}},
	{"CDN explicit origin host and path", map[string]interface{}{"Transport": "cdn", "CDNOriginHost": "o.example", "CDNWsUrlPath": "/ws", "RemoteHost": "r.example", "RemotePort": "443"}, map[string]string{"TransportConfig.wsUrl": `"ws://o.example:443/ws"`}},
	{"addresses joined host:port", map[string]interface{}{"RemoteHost": "r.example", "RemotePort": "443", "LocalHost": "127.0.0.1", "LocalPort": "1984"}, map[string]string{"RemoteConnConfig.RemoteAddr": `"r.example:443"`, "LocalConnConfig.LocalAddr": `"127.0.0.1:1984"`}},
	{"UDP=true ⇒ unordered", map[string]interface{}{"UDP": true}, map[string]string{"AuthInfo.Unordered": "true"}},
	{"UDP=false ⇒ ordered", map[string]interface{}{"UDP": false}, map[string]string{"AuthInfo.Unordered": "false"}},
}

// defaults used for options a row does not mention, so that validation passes
var c20Base = map[string]interface{}{
	"ServerName": "www.example.com", "ProxyMethod": "shadowsocks", "EncryptionMethod": "plain", "NumConn": 4,
	"LocalHost": "127.0.0.1", "LocalPort": "1984", "RemoteHost": "1.2.3.4", "RemotePort": "443",
	"UDP": false, "BrowserSig": "", "Transport": "", "CDNOriginHost": "", "CDNWsUrlPath": "", "StreamTimeout": 0, "KeepAlive": 0,
}

func toConst(v interface{}) constant.Value {
	switch x := v.(type) {
	case string:
		return constant.MakeString(x)
	case int:
		return constant.MakeInt64(int64(x))
	case bool:
		return constant.MakeBool(x)
	}
	return nil
}

func c20SCCP(p *Prog, prc *ssa.Function, assume map[string]interface{}) *SCCP {
	s := &SCCP{F: prc, P: p, AssumeField: map[*types.Var]constant.Value{}, AssumeLen: map[*types.Var]int64{}}
	set := func(name string, v interface{}) {
		if fv := p.Field("internal/client", "RawConfig", name); fv != nil {
			s.AssumeField[fv] = toConst(v)
		}
	}
	for k, v := range c20Base {
		set(k, v)
	}
	for k, v := range assume {
		set(k, v)
	}
	for _, n := range []string{"UID", "PublicKey"} {
		if fv := p.Field("internal/client", "RawConfig", n); fv != nil {
			if _, over := assume["len:"+n]; !over {
				s.AssumeLen[fv] = 32
			}
		}
	}
	if v, ok := assume["len:UID"]; ok {
		s.AssumeLen[p.Field("internal/client", "RawConfig", "UID")] = int64(v.(int))
	}
	if v, ok := assume["len:PublicKey"]; ok {
		s.AssumeLen[p.Field("internal/client", "RawConfig", "PublicKey")] = int64(v.(int))
	}
	s.Run()
	return s
}

func c20R2(c *Ctx, rule string) {
	c.Rule(rule, "decision/default table: constant propagation of ProcessRawConfig under each assumed option value yields the documented processed value", len(c20Rows))
	p := c.P
	prc := c.need(rule, "internal/client", "RawConfig.ProcessRawConfig")
	if prc == nil {
		return
	}
	for _, row := range c20Rows {
		s := c20SCCP(p, prc, row.assume)
		var keys []string
		for k := range row.expect {
			keys = append(keys, k)
		}
		sort.Strings(keys)
		for _, k := range keys {
			want := row.expect[k]
			parts := strings.SplitN(k, ".", 2)
			tf := p.Field("internal/client", parts[0], parts[1])
			construct := "row [" + row.name + "] → " + k
			if tf == nil {
				c.Undecided(rule, construct, "-", "target field not found")
				continue
			}
			stores := s.StoresTo(tf)
			if len(stores) == 0 {
				c.Bad(rule, construct, c.atFn(prc), "no store to the target executes under this option value")
				continue
			}
			// the effective value: the executable store not followed by another executable store to the same field
			var final []sccpStore
			for _, a := range stores {
				overwritten := false
				for _, b := range stores {
					if a.St != b.St && instrDominates(a.St, b.St) {
						overwritten = true
					}
				}
				if !overwritten {
					final = append(final, a)
				}
			}
			okAll := true
			got := []string{}
			for _, a := range final {
				gs := latString(a.Val)
				got = append(got, gs+" @"+c.at(a.St))
				if gs != want {
					okAll = false
				}
			}
			c.Check(okAll, rule, construct, c.at(final[0].St), "processed value = "+want, "documented value "+want+", code yields "+strings.Join(got, " / "))
		}
	}
}

func c20R3(c *Ctx, rule string) {
	c.Rule(rule, "required options: with the option empty every executable return of ProcessRawConfig carries a non-nil error; with all present some return carries nil", 9)
	p := c.P
	prc := c.need(rule, "internal/client", "RawConfig.ProcessRawConfig")
	if prc == nil {
		return
	}
	errIdx := prc.Signature.Results().Len() - 1
	classify := func(s *SCCP) (succ, fail int, where string) {
		for _, r := range s.ExecReturns() {
			v := resultValue(r, errIdx)
			st := errIsNilAt(v, r)
			if l := s.get(v); l.kind == 1 && l.isNil {
				st = "nil"
			}
			if st == "nonnil" {
				fail++
			} else {
				succ++
				where = c.at(r)
			}
		}
		return
	}
	cases := []struct {
		name   string
		assume map[string]interface{}
	}{
		{"ServerName", map[string]interface{}{"ServerName": ""}},
		{"ProxyMethod", map[string]interface{}{"ProxyMethod": ""}},
		{"UID", map[string]interface{}{"len:UID": 0}},
		{"PublicKey", map[string]interface{}{"len:PublicKey": 0}},
		{"RemoteHost", map[string]interface{}{"RemoteHost": ""}},
		{"RemotePort", map[string]interface{}{"RemotePort": ""}},
		{"LocalHost", map[string]interface{}{"LocalHost": ""}},
		{"LocalPort", map[string]interface{}{"LocalPort": ""}},
		{"EncryptionMethod=bogus", map[string]interface{}{"EncryptionMethod": "rot13"}},
	}
	for _, cs := range cases {
		s := c20SCCP(p, prc, cs.assume)
		succ, fail, where := classify(s)
		c.Check(succ == 0 && fail > 0, rule, "empty/invalid "+cs.name+" is rejected", c.atFn(prc),
			fmt.Sprintf("%d executable return(s), all with non-nil error", fail), fmt.Sprintf("a return that may carry a nil error is reachable at %s with %s empty/invalid", where, cs.name))
	}
	s := c20SCCP(p, prc, nil)
	succ, _, _ := classify(s)
	c.Check(succ > 0, rule, "complete configuration is accepted", c.atFn(prc), "a nil-error return is executable", "no nil-error return is executable for a complete configuration")
}

func c20R4(c *Ctx, rule string) {
	c.Rule(rule, "option-string front end: unquoted keys = int/bool fields of RawConfig, array prefix = []string fields, escapes undone in order before split, front end chosen by ';' and '='", 5)
	p := c.P
	raw := p.Named("internal/client", "RawConfig")
	ssv := c.need(rule, "internal/client", "ssvToJson")
	pc := c.need(rule, "internal/client", "ParseConfig")
	if raw == nil || ssv == nil || pc == nil {
		return
	}
	st := raw.Underlying().(*types.Struct)
	fieldNames := map[string]bool{}
	var wantUnq, wantArr []string
	for i := 0; i < st.NumFields(); i++ {
		f := st.Field(i)
		fieldNames[f.Name()] = true
		switch u := f.Type().Underlying().(type) {
		case *types.Basic:
			if u.Info()&(types.IsInteger|types.IsBoolean|types.IsFloat) != 0 {
				wantUnq = append(wantUnq, f.Name())
			}
		case *types.Slice:
			if b, ok := u.Elem().Underlying().(*types.Basic); ok && b.Kind() == types.String {
				wantArr = append(wantArr, f.Name())
			}
		}
	}
	sort.Strings(wantUnq)
	sort.Strings(wantArr)
	funcs := append([]*ssa.Function{ssv}, ssv.AnonFuncs...)
	var gotUnq, gotArr []string
	type repl struct {
		old, new string
		at       ssa.Instruction
	}
	var repls []repl
	var split ssa.Instruction
	for _, f := range funcs {
		allInstrs(f, func(i ssa.Instruction) {
			switch x := i.(type) {
			case *ssa.Store:
				if s, ok := strConst(x.Val); ok && fieldNames[s] {
					gotUnq = append(gotUnq, s)
				}
			case *ssa.Lookup:
				// the same set kept in a package-level map that the key is looked up in: the keys the initialiser puts in
				if ld, ok := x.X.(*ssa.UnOp); ok {
					if g, isG := ld.X.(*ssa.Global); isG && g.Pkg != nil {
						if init := g.Pkg.Func("init"); init != nil {
							allInstrs(init, func(j ssa.Instruction) {
								mu, isMU := j.(*ssa.MapUpdate)
								if !isMU {
									return
								}
								// the map value under construction is stored into g afterwards
								stored := false
								if mu.Map.Referrers() != nil {
									for _, r := range *mu.Map.Referrers() {
										if st, isSt := r.(*ssa.Store); isSt && st.Addr == ssa.Value(g) {
											stored = true
										}
									}
								}
								if s, okS := strConst(mu.Key); okS && stored && fieldNames[s] {
									gotUnq = append(gotUnq, s)
								}
							})
						}
					}
				}
			case *ssa.BinOp:
				// the same set spelled as comparisons of the key (switch key { case "NumConn", … })
				if x.Op == token.EQL {
					for _, side := range []ssa.Value{x.X, x.Y} {
						if s, ok := strConst(side); ok && fieldNames[s] {
							gotUnq = append(gotUnq, s)
						}
					}
				}
			case *ssa.Call:
				n := calleeName(&x.Call)
				switch n {
				case "strings.HasPrefix":
					if s, ok := strConst(x.Call.Args[1]); ok && fieldNames[s] {
						gotArr = append(gotArr, s)
					}
				case "strings.Replace", "strings.ReplaceAll":
					o, ok1 := strConst(x.Call.Args[1])
					nw, ok2 := strConst(x.Call.Args[2])
					if ok1 && ok2 {
						repls = append(repls, repl{o, nw, i})
					}
				case "strings.Split":
					if s, ok := strConst(x.Call.Args[1]); ok && s == ";" {
						split = i
					}
				}
			}
		})
	}
	sort.Strings(gotUnq)
	sort.Strings(gotArr)
	gotUnq, gotArr = dedupStrings(gotUnq), dedupStrings(gotArr)
	c.Check(strings.Join(gotUnq, ",") == strings.Join(wantUnq, ","), rule, "unquoted key set = numeric/bool options", c.atFn(ssv),
		"{"+strings.Join(gotUnq, ",")+"}", "front end emits {"+strings.Join(gotUnq, ",")+"} unquoted but RawConfig's int/bool fields are {"+strings.Join(wantUnq, ",")+"}: the other options cannot be given in the option string")
	c.Check(strings.Join(gotArr, ",") == strings.Join(wantArr, ","), rule, "array key prefix set = []string options", c.atFn(ssv),
		"{"+strings.Join(gotArr, ",")+"}", "front end treats {"+strings.Join(gotArr, ",")+"} as arrays but RawConfig's []string fields are {"+strings.Join(wantArr, ",")+"}")
	// escapes: \\ → \, \= → =, \; → ; in that order
	wantR := [][2]string{{`\\`, `\`}, {`\=`, `=`}, {`\;`, `;`}}
	okR := len(repls) == 3
	if okR {
		for k := range wantR {
			if repls[k].old != wantR[k][0] || repls[k].new != wantR[k][1] {
				okR = false
			}
			if k > 0 && !instrDominates(repls[k-1].at, repls[k].at) {
				okR = false
			}
		}
	}
	var gotR []string
	for _, r := range repls {
		gotR = append(gotR, fmt.Sprintf("%q→%q", r.old, r.new))
	}
	c.Check(okR, rule, "plugin-host escapes undone in order", c.atFn(ssv), strings.Join(gotR, ", "), "expected \\\\→\\, \\=→=, \\;→; in this order; found "+strings.Join(gotR, ", "))
	// the split happens on the unescaped string
	okSplit := false
	if split != nil {
		arg := split.(*ssa.Call).Call.Args[0]
		if call, ok := arg.(*ssa.Call); ok {
			for _, g := range p.Callees(call) {
				for _, r := range repls {
					if r.at.Parent() == g {
						okSplit = true
					}
				}
			}
		}
		// or the replacements are applied in line and the split takes the result of the last one
		if !okSplit && len(repls) > 0 {
			if last, isV := repls[len(repls)-1].at.(ssa.Value); isV && repls[len(repls)-1].at.Parent() == split.Parent() {
				okSplit = valueDependsOn(arg, last, 0)
			}
		}
	}
	c.Check(okSplit, rule, "split on ';' applied to the unescaped string", c.atFn(ssv), "strings.Split(unescape(ssv), \";\")", "the option string is not unescaped before it is split")
	// ParseConfig selects the front end by presence of ';' and '='
	var contains []string
	var ssvCall ssa.Instruction
	allInstrs(pc, func(i ssa.Instruction) {
		if call, ok := i.(*ssa.Call); ok {
			if calleeName(&call.Call) == "strings.Contains" {
				if s, ok := strConst(call.Call.Args[1]); ok {
					contains = append(contains, s)
				}
			}
			if call.Call.StaticCallee() == ssv {
				ssvCall = i
			}
		}
	})
	sort.Strings(contains)
	guards := 0
	if ssvCall != nil {
		for _, a := range AtomsAt(ssvCall) {
			if a.Kind == "call" && a.Pol && calleeName(&a.Call.Call) == "strings.Contains" {
				guards++
			}
		}
	}
	c.Check(strings.Join(contains, "") == ";=" && guards == 2, rule, "front end selected by presence of ';' and '='", c.atFn(pc), "ssvToJson is called iff both are present", fmt.Sprintf("selection conditions are %q with %d guarding the option-string path", contains, guards))
	// no panic on ret[:len(ret)-1]: ret starts non-empty and only grows
	okLen := true
	allInstrs(ssv, func(i ssa.Instruction) {
		sl, ok := i.(*ssa.Slice)
		if !ok || sl.High == nil {
			return
		}
		bo, ok := sl.High.(*ssa.BinOp)
		if !ok {
			return
		}
		// value sliced must be phi of (convert of non-empty const | append results)
		seen := map[ssa.Value]bool{}
		var nonEmpty func(v ssa.Value) bool
		nonEmpty = func(v ssa.Value) bool {
			if seen[v] {
				return true
			}
			seen[v] = true
			switch x := v.(type) {
			case *ssa.Phi:
				for _, e := range x.Edges {
					if !nonEmpty(e) {
						return false
					}
				}
				return true
			case *ssa.Convert:
				s, ok := strConst(x.X)
				return ok && len(s) > 0
			case *ssa.Call:
				if calleeName(&x.Call) == "builtin.append" {
					return nonEmpty(x.Call.Args[0])
				}
			}
			return false
		}
		_ = bo
		if !nonEmpty(sl.X) {
			okLen = false
		}
	})
	c.Check(okLen, rule, "ret[:len(ret)-1] cannot panic", c.atFn(ssv), "ret starts as a non-empty literal and only grows by append", "the sliced buffer may be empty")
}

func c20R5(c *Ctx, rule string) {
	c.Rule(rule, "processed values reach their consumers (dialer, routers, session)", 7)
	p := c.P
	g := p.VFlow()
	cf := func(t, f string) *types.Var { return p.Field("internal/client", t, f) }
	check := func(construct string, src vnode, dst vnode, pos string) {
		if src == nil || dst == nil {
			c.Undecided(rule, construct, pos, "anchor not found")
			return
		}
		rs := g.Reach(src)
		ok := rs[dst]
		if v, isVal := dst.(ssa.Value); isVal && !ok {
			ok = g.ReachesValue(rs, v)
		}
		d := ""
		if ok {
			d = strings.Join(g.Path(dst, map[vnode]bool{src: true}), " → ")
		}
		c.Check(ok, rule, construct, pos, d, "no value flow: the processed option does not reach its consumer")
	}
	fn := func(v *types.Var) vnode {
		if v == nil {
			return nil
		}
		return fieldNode{v}
	}
	// net.Dialer.KeepAlive
	var dialerKA *types.Var
	if main := p.Func("cmd/ck-client", "main"); main != nil {
		allInstrs(main, func(i ssa.Instruction) {
			if fa, ok := i.(*ssa.FieldAddr); ok {
				fv, _ := fieldVar(fa)
				if fv != nil && fv.Name() == "KeepAlive" && fv.Pkg() != nil && fv.Pkg().Path() == "net" {
					dialerKA = fv
				}
			}
		})
	}
	check("RemoteConnConfig.KeepAlive → net.Dialer.KeepAlive", fn(cf("RemoteConnConfig", "KeepAlive")), fn(dialerKA), "cmd/ck-client/ck-client.go")
	for _, r := range []string{"RouteTCP", "RouteUDP"} {
		f := p.Func("internal/client", r)
		if f == nil {
			c.Undecided(rule, "anchor client."+r, "-", "not found")
			continue
		}
		var timeoutP, singleP *ssa.Parameter
		for _, prm := range f.Params {
			switch typeStr(prm.Type()) {
			case "time.Duration":
				timeoutP = prm
			case "bool":
				singleP = prm
			}
		}
		check("LocalConnConfig.Timeout → "+r+" timeout parameter", fn(cf("LocalConnConfig", "Timeout")), timeoutP, c.atFn(f))
		check("RemoteConnConfig.Singleplex → "+r+" singleplex parameter", fn(cf("RemoteConnConfig", "Singleplex")), singleP, c.atFn(f))
		// the timeout parameter reaches a SetReadDeadline call
		reached := false
		if timeoutP != nil {
			rs := g.Reach(timeoutP)
			for _, ff := range append([]*ssa.Function{f}, f.AnonFuncs...) {
				allInstrs(ff, func(i ssa.Instruction) {
					if cc := callCommon(i); cc != nil && strings.HasSuffix(calleeName(cc), "SetReadDeadline") {
						for _, a := range cc.Args {
							if rs[g.val(a, nil)] {
								reached = true
							}
						}
					}
				})
			}
		}
		c.Check(reached, rule, r+" timeout parameter → SetReadDeadline", c.atFn(f), "deadline computed from the parameter", "the stream timeout parameter reaches no SetReadDeadline call")
	}
	ms := p.Func("internal/client", "MakeSession")
	if ms != nil {
		spx := p.Field("internal/multiplex", "SessionConfig", "Singleplex")
		check("RemoteConnConfig.Singleplex → SessionConfig.Singleplex", fn(cf("RemoteConnConfig", "Singleplex")), fn(spx), c.atFn(ms))
		// NumConn bounds the dial loop
		numConn := cf("RemoteConnConfig", "NumConn")
		loopOK := false
		if numConn != nil {
			rs := g.Reach(fieldNode{numConn})
			allInstrs(ms, func(i ssa.Instruction) {
				if iff, ok := i.(*ssa.If); ok && rs[g.val(iff.Cond, nil)] {
					loopOK = true
				}
			})
		}
		c.Check(loopOK, rule, "RemoteConnConfig.NumConn bounds the dial loop of MakeSession", c.atFn(ms), "loop condition depends on NumConn", "NumConn does not influence how many connections are dialled")
		tr := p.Func("internal/client", "TransportConfig.CreateTransport")
		if tr != nil && len(tr.Params) > 0 {
			check("RemoteConnConfig.Transport → CreateTransport receiver", fn(cf("RemoteConnConfig", "Transport")), tr.Params[0], c.atFn(tr))
		}
	}
	check("LocalConnConfig.MockDomainList → AuthInfo.MockDomain (per-session choice)", fn(cf("LocalConnConfig", "MockDomainList")), fn(cf("AuthInfo", "MockDomain")), "cmd/ck-client/ck-client.go")
	check("AuthInfo.EncryptionMethod → MakeObfuscator", fn(cf("AuthInfo", "EncryptionMethod")), firstParam(p.Func("internal/multiplex", "MakeObfuscator")), "internal/client/connector.go")
	check("AuthInfo.Unordered → SessionConfig.Unordered", fn(cf("AuthInfo", "Unordered")), fn(p.Field("internal/multiplex", "SessionConfig", "Unordered")), "internal/client/connector.go")
}

func firstParam(f *ssa.Function) vnode {
	if f == nil || len(f.Params) == 0 {
		return nil
	}
	return f.Params[0]
}
