package main

import (
	"go/token"
	"go/types"
	"strings"

	"golang.org/x/tools/go/ssa"
)

// beField: value Val is the big-endian integer held in base[Lo : Lo+N], however it was decoded:
// binary.BigEndian.UintN(base[lo:hi]) / a package-level alias of it, an OR (or sum) of shifted bytes, or a fold loop
// `for _, b := range base[lo:hi] { v = v<<8 | T(b) }`.
type beField struct {
	Lo, N int64
	Val   ssa.Value
	// Loads / Slices that take part, so that table extractors do not also list them as byte / bytes entries
	Parts map[ssa.Value]bool
}

func beValueScan(f *ssa.Function, base ssa.Value) []beField {
	var out []beField
	allInstrs(f, func(i ssa.Instruction) {
		switch x := i.(type) {
		case *ssa.Call:
			n := calleeName(&x.Call)
			w := int64(0)
			switch {
			case strings.Contains(n, "bigEndian).Uint64"):
				w = 8
			case strings.Contains(n, "bigEndian).Uint32"):
				w = 4
			case strings.Contains(n, "bigEndian).Uint16"):
				w = 2
			}
			if w == 0 || len(x.Call.Args) == 0 {
				return
			}
			arg := x.Call.Args[len(x.Call.Args)-1]
			if sl, ok := arg.(*ssa.Slice); ok {
				if lo, okO := constSliceOffset(sl, base); okO && sl.High != nil {
					if hi, isK := intConst(sl.High); isK {
						inner := int64(0)
						if sl.Low != nil {
							inner, _ = intConst(sl.Low)
						}
						if hi-inner == w {
							out = append(out, beField{lo, w, x, map[ssa.Value]bool{sl: true}})
						}
					}
				}
			}
		case *ssa.BinOp:
			if x.Op != token.OR && x.Op != token.ADD {
				return
			}
			// maximal expressions only
			if refs := x.Referrers(); refs != nil {
				for _, r := range *refs {
					v := ssa.Value(nil)
					switch y := r.(type) {
					case *ssa.BinOp:
						v = y
					case *ssa.Convert:
						if rr := y.Referrers(); rr != nil && len(*rr) == 1 {
							if up, isB := (*rr)[0].(*ssa.BinOp); isB {
								v = up
							}
						}
					}
					if up, isB := v.(*ssa.BinOp); isB && (up.Op == token.OR || up.Op == token.ADD) {
						return
					}
				}
			}
			if lo, n, loads, ok := beRead(x, base); ok {
				parts := map[ssa.Value]bool{}
				for _, l := range loads {
					parts[l] = true
					if u, isU := l.(*ssa.UnOp); isU {
						parts[u.X] = true
					}
				}
				out = append(out, beField{lo, n, x, parts})
			}
		case *ssa.Phi:
			if lo, n, ok := beFold(x, base); ok {
				parts := map[ssa.Value]bool{}
				// the slice being ranged over
				for _, e := range x.Edges {
					if bo, isB := stripIntWiden(e).(*ssa.BinOp); isB {
						for _, side := range []ssa.Value{bo.X, bo.Y} {
							if ld, isL := stripIntWiden(side).(*ssa.UnOp); isL {
								if ia, isIA := ld.X.(*ssa.IndexAddr); isIA {
									parts[ia.X] = true
								}
							}
						}
					}
				}
				out = append(out, beField{lo, n, x, parts})
			}
		}
	})
	return out
}

// storedFieldOf: the struct field that value v ends up in, following conversions, merges and single-assignment local
// variables; nil when there is none or more than one.
func storedFieldOf(v ssa.Value) *types.Var {
	var found *types.Var
	many := false
	seen := map[ssa.Value]bool{}
	var walk func(x ssa.Value, d int)
	walk = func(x ssa.Value, d int) {
		if d > 6 || seen[x] || x.Referrers() == nil {
			return
		}
		seen[x] = true
		for _, r := range *x.Referrers() {
			switch y := r.(type) {
			case *ssa.Convert:
				walk(y, d+1)
			case *ssa.ChangeType:
				walk(y, d+1)
			case *ssa.Phi:
				walk(y, d+1)
			case *ssa.Store:
				if y.Val != x {
					continue
				}
				if fv, _ := fieldVar(y.Addr); fv != nil {
					if found != nil && found != fv {
						many = true
					}
					found = fv
					continue
				}
				if a, ok := y.Addr.(*ssa.Alloc); ok && a.Referrers() != nil {
					for _, r2 := range *a.Referrers() {
						if ld, isLd := r2.(*ssa.UnOp); isLd {
							walk(ld, d+1)
						}
					}
				}
			}
		}
	}
	walk(v, 0)
	if many {
		return nil
	}
	return found
}

// constRangeOf: v is base[lo:hi] written with any nesting of constant re-slices (base[:5][3:5] = base[3:5]).
func constRangeOf(v, base ssa.Value) (lo, hi int64, ok bool) {
	sl, isSl := v.(*ssa.Slice)
	if !isSl || sl.High == nil {
		return 0, 0, false
	}
	off, okO := constSliceOffset(sl.X, base)
	if !okO {
		return 0, 0, false
	}
	l := int64(0)
	if sl.Low != nil {
		k, isK := intConst(sl.Low)
		if !isK {
			return 0, 0, false
		}
		l = k
	}
	h, isK := intConst(sl.High)
	if !isK {
		return 0, 0, false
	}
	return off + l, off + h, true
}

// beFieldOf: the field whose value v is (looking through integer conversions).
func beFieldOf(fields []beField, v ssa.Value) *beField {
	v = stripConv(v)
	for d := 0; d < 4; d++ {
		for i := range fields {
			if fields[i].Val == v {
				return &fields[i]
			}
		}
		cv, ok := v.(*ssa.Convert)
		if !ok {
			break
		}
		v = cv.X
	}
	return nil
}
