package main

import (
	"fmt"
	"go/token"
	"go/types"
	"strings"

	"golang.org/x/tools/go/ssa"
)

func init() {
	register(&PropDef{
		ID: "C12", Title: "faults tear a session down cleanly",
		Run:       runC12,
		Technique: "static analysis: must-pass-through (post-dominance on SSA CFG) for teardown calls, lockset + dominating guards for the stream table and accept queue, typestate-free counter pairing by dominance, lock-order graph, condition-variable discipline",
		Decided: "(a) every teardown path closes what it must: passiveClose/Close reach closeAll, a read or write error reaches passiveClose, closeAll closes every pooled connection, closeSession closes the accept queue and every stream's receive buffer under the table lock; " +
			"(b) nothing is registered after teardown: every insert of a live stream into the table and every send on the accept queue happens in a table-lock section in which the closed flag was re-read as false, and the queue is closed only there, so send-on-closed-channel cannot panic; " +
			"(c) the active-stream counter is incremented exactly where a live stream is inserted and decremented only after winning the CAS on that stream's closed flag; " +
			"(d) the inactivity timer closes only when the count is zero and the session is open — for every timer armed anywhere in the multiplexer, every path from its callback to a session close re-tests the count after firing —, a singleplex session closes with its stream; (e) the multiplex lock-order graph is acyclic; (f) both pipes wake their readers on every predicate change.",
		NotDecided:  "that blocked socket writers are really released by conn.Close (net semantics); timer timing; 'prefix' as a value; liveness beyond these safety-shaped preconditions.",
		Assumptions: []string{"atomic.CompareAndSwap semantics", "closing a net.Conn unblocks its pending I/O"},
	})
}

func runC12(c *Ctx) {
	c12R1(c, "C12.R1")
	c12R2(c, "C12.R2")
	c12R3(c, "C12.R3")
	c12R4(c, "C12.R4")
	c12R5(c, "C12.R5")
	c12R6(c, "C12.R6")
	lockOrderRules(c, "C12.R7", "C12.R7s", func(cl string) bool { return strings.HasPrefix(cl, "multiplex.") })
	condvarRules(c, "C12.R8")
	nestedMonitorRules(c, "C12.R9", func(cl string) bool { return strings.HasPrefix(cl, "multiplex.") })
	c12R10(c, "C12.R10")
	c12R11(c, "C12.R11")
	// imported: every stream close wakes its reader before anything that can fail ("every blocked read returns")
	c.importing = "C03"
	c03R2(c, "C03.R2")
	// a close that is abandoned half-way (closing frame refused by the encoder) leaves the count and the timer wrong
	c03R1(c, "C03.R1")
	c.importing = ""
}

type c12Anchors struct {
	streams, streamsM, acceptCh, sClosed, stClosed, recvBuf, activeCount *types.Var
	closeSession, isClosed, closeAll, passiveClose                       *ssa.Function
}

func getC12(c *Ctx, rule string) *c12Anchors {
	p := c.P
	const rel = "internal/multiplex"
	a := &c12Anchors{
		streams:      p.Field(rel, "Session", "streams"),
		streamsM:     p.Field(rel, "Session", "streamsM", "sync.Mutex"),
		acceptCh:     p.Field(rel, "Session", "acceptCh"),
		sClosed:      p.Field(rel, "Session", "closed"),
		stClosed:     p.Field(rel, "Stream", "closed"),
		recvBuf:      p.Field(rel, "Stream", "recvBuf"),
		activeCount:  p.Field(rel, "Session", "activeStreamCount"),
		closeSession: p.Func(rel, "Session.closeSession"), isClosed: p.Func(rel, "Session.IsClosed"),
		closeAll: p.Func(rel, "switchboard.closeAll"), passiveClose: p.Func(rel, "Session.passiveClose"),
	}
	if a.streams == nil || a.streamsM == nil || a.acceptCh == nil || a.sClosed == nil || a.stClosed == nil || a.recvBuf == nil || a.activeCount == nil ||
		a.closeSession == nil || a.isClosed == nil || a.closeAll == nil || a.passiveClose == nil {
		c.Undecided(rule, "anchors of multiplex.Session teardown", "-", "an anchor field or function is missing")
		return nil
	}
	return a
}

// mustPass: after instruction `from` every path to a return executes an instruction satisfying pass.
func mustPass(from ssa.Instruction, pass func(ssa.Instruction) bool) *ssa.Return {
	return reachesReturnAvoiding(from, pass)
}

func callsFn(i ssa.Instruction, f *ssa.Function) bool {
	cc := callCommon(i)
	return cc != nil && cc.StaticCallee() == f
}

// isSessionClosedFalseAtom: atom "session is not closed" (IsClosed()==false or LoadUint32(&closed)==1 false)
func (a *c12Anchors) notClosedAtom(at Atom) (ssa.Instruction, bool) {
	if at.Kind == "call" && !at.Pol && at.Call.Call.StaticCallee() == a.isClosed {
		return at.Call, true
	}
	// the flag kept in an atomic.Bool: !closed.Load()
	if at.Kind == "call" && !at.Pol && calleeName(&at.Call.Call) == "sync/atomic.LoadUint32" && len(at.Call.Call.Args) == 1 {
		if fv, _ := fieldVar(at.Call.Call.Args[0]); fv == a.sClosed {
			return at.Call, true
		}
	}
	if at.Kind == "cmp" && at.Op == token.NEQ {
		for _, side := range []ssa.Value{at.X, at.Y} {
			if call, ok := side.(*ssa.Call); ok && calleeName(&call.Call) == "sync/atomic.LoadUint32" {
				if fv, _ := fieldVar(call.Call.Args[0]); fv == a.sClosed {
					if k, isK := intConst(otherSide(at, side)); isK && k == 1 {
						return call, true
					}
				}
			}
		}
	}
	return nil, false
}

func c12R1(c *Ctx, rule string) {
	c.Rule(rule, "teardown must-pass: closeSession()==nil ⇒ closeAll on every path (passiveClose; Close on its success path); read/write error ⇒ passiveClose; closeAll closes every pooled connection", 5)
	a := getC12(c, rule)
	if a == nil {
		return
	}
	p := c.P
	// passiveClose and Close
	for _, name := range []string{"Session.passiveClose", "Session.Close"} {
		f := c.need(rule, "internal/multiplex", name)
		if f == nil {
			continue
		}
		var cs *ssa.Call
		allInstrs(f, func(i ssa.Instruction) {
			if call, ok := i.(*ssa.Call); ok && callsFn(i, a.closeSession) {
				cs = call
			}
		})
		construct := "closeAll after a won closeSession in " + shortFn(f)
		if cs == nil {
			c.Bad(rule, construct, c.atFn(f), "does not call closeSession")
			continue
		}
		// once closeSession() has been won the session IS closed and nobody else will ever close its connections
		// (closeSession refuses a second caller, so passiveClose from a failing send does nothing): every return
		// after the won call — success or error — must be preceded by closeAll (called, or deferred before the return)
		bad := ""
		for _, r := range returnsOf(f) {
			lost := false
			for _, at := range AtomsAt(r) {
				if at.Kind == "cmp" && at.Op == token.NEQ && (at.X == ssa.Value(cs) || at.Y == ssa.Value(cs)) && (isNilConst(at.X) || isNilConst(at.Y)) {
					lost = true // closeSession failed: someone else closed the session and owns the teardown
				}
			}
			if lost {
				continue
			}
			dom := false
			allInstrs(f, func(i ssa.Instruction) {
				if !instrDominates(i, r) {
					return
				}
				if callsFn(i, a.closeAll) {
					dom = true
				}
				if d, isD := i.(*ssa.Defer); isD && d.Call.StaticCallee() == a.closeAll {
					dom = true
				}
			})
			if !dom {
				bad = c.at(r)
			}
		}
		c.Check(bad == "", rule, construct, c.at(cs), "every return after the won closeSession is preceded by sb.closeAll()", "the return at "+bad+" leaves the function after closeSession() succeeded without closing the pooled connections: the session is marked closed, nothing else will close them (a second closeSession is refused), and peers, readers and blocked writers of the remaining connections stay connected")
	}
	// deplex: read error ⇒ passiveClose then return; conn.Close deferred
	if dp := c.need(rule, "internal/multiplex", "switchboard.deplex"); dp != nil {
		var rd *ssa.Call
		deferClose := false
		allInstrs(dp, func(i ssa.Instruction) {
			if call, ok := i.(*ssa.Call); ok && calleeName(&call.Call) == "(net.Conn).Read" {
				rd = call
			}
			if d, ok := i.(*ssa.Defer); ok && calleeName(&d.Call) == "(net.Conn).Close" {
				deferClose = true
			}
		})
		okPass := false
		if rd != nil {
			okPass = true
			for _, r := range returnsOf(dp) {
				dom := false
				allInstrs(dp, func(i ssa.Instruction) {
					if callsFn(i, a.passiveClose) && instrDominates(i, r) {
						dom = true
					}
				})
				if !dom {
					okPass = false
				}
			}
		}
		c.Check(okPass && deferClose, rule, "deplex: every exit passes passiveClose; conn.Close deferred", c.atFn(dp), "read error ⇒ passiveClose; defer conn.Close()", fmt.Sprintf("exit without passiveClose=%v, deferred Close=%v", !okPass, deferClose))
	}
	// send: write error ⇒ passiveClose
	if sd := c.need(rule, "internal/multiplex", "switchboard.send"); sd != nil {
		allInstrs(sd, func(i ssa.Instruction) {
			call, ok := i.(*ssa.Call)
			if !ok || calleeName(&call.Call) != "(net.Conn).Write" {
				return
			}
			// the error-branch returns must be dominated by passiveClose
			var errV ssa.Value
			for _, r := range *call.Referrers() {
				if ex, ok := r.(*ssa.Extract); ok && ex.Index == 1 {
					errV = ex
				}
			}
			bad := ""
			for _, r := range returnsOf(sd) {
				under := false
				for _, at := range AtomsAt(r) {
					if at.Kind == "cmp" && at.Op == token.NEQ && (at.X == errV || at.Y == errV) {
						under = true
					}
				}
				if !under {
					continue
				}
				dom := false
				allInstrs(sd, func(j ssa.Instruction) {
					if callsFn(j, a.passiveClose) && instrDominates(j, r) {
						dom = true
					}
				})
				if !dom {
					// not by dominance: every way from the write to this return on which the error is non-nil passes
					// passiveClose (edges that assert the error to be nil are cut — the error may be tested twice)
					ret := r
					esc := edgeSearch(sd, call, func(at Atom) bool {
						return at.Kind == "cmp" && at.Op == token.EQL && (at.X == errV || at.Y == errV) && (isNilConst(at.X) || isNilConst(at.Y))
					}, func(j ssa.Instruction) bool { return callsFn(j, a.passiveClose) }, func(j ssa.Instruction) bool { return j == ssa.Instruction(ret) })
					dom = esc == nil
				}
				if !dom {
					bad = c.at(r)
				}
			}
			c.Check(errV != nil && bad == "", rule, "send: write error ⇒ passiveClose ("+c.at(i)+")", c.at(i), "error branch passes session.passiveClose()", "a failed write returns at "+bad+" without tearing the session down")
		})
	}
	// closeAll: CAS on broken, then Close on every value of the conns range
	{
		f := a.closeAll
		cas := false
		closes := false
		allInstrs(f, func(i ssa.Instruction) {
			if isCall(i, "sync/atomic.CompareAndSwapUint32") {
				cas = true
			}
			if call, ok := i.(*ssa.Call); ok && calleeName(&call.Call) == "(*sync.Map).Range" {
				if mc, ok := call.Call.Args[1].(*ssa.MakeClosure); ok {
					if len(callsIn(mc.Fn.(*ssa.Function), "(net.Conn).Close")) > 0 {
						closes = true
					}
				} else if fn, ok := call.Call.Args[1].(*ssa.Function); ok {
					if len(callsIn(fn, "(net.Conn).Close")) > 0 {
						closes = true
					}
				}
			}
		})
		c.Check(cas && closes, rule, "closeAll closes every pooled connection once", c.atFn(f), "CAS on broken, then Range → conn.Close()", fmt.Sprintf("CAS=%v, Close in Range=%v", cas, closes))
		// the walk visits every connection: the Range callback never asks sync.Map.Range to stop, and Close is on
		// every path through it (closeAll runs once per session: a connection it skips is never closed)
		allInstrs(f, func(i ssa.Instruction) {
			call, ok := i.(*ssa.Call)
			if !ok || calleeName(&call.Call) != "(*sync.Map).Range" {
				return
			}
			var cb *ssa.Function
			if mc, ok := call.Call.Args[1].(*ssa.MakeClosure); ok {
				cb, _ = mc.Fn.(*ssa.Function)
			} else if fn, ok := call.Call.Args[1].(*ssa.Function); ok {
				cb = fn
			}
			if cb == nil {
				c.Undecided(rule, "closeAll visits every connection", c.at(i), "Range callback is not a function literal")
				return
			}
			stops := ""
			for _, r := range returnsOf(cb) {
				if b, isB := boolConst(r.Results[0]); !isB || !b {
					stops = c.at(r)
				}
			}
			isClose := func(j ssa.Instruction) bool {
				cc := callCommon(j)
				return cc != nil && calleeName(cc) == "(net.Conn).Close"
			}
			skip := entrySearch(cb, isClose, func(j ssa.Instruction) bool { _, isRet := j.(*ssa.Return); return isRet })
			c.Check(stops == "" && skip == nil, rule, "closeAll visits and closes every connection", c.at(i), "the Range callback always returns true and passes conn.Close() on every path",
				fmt.Sprintf("the walk over the pooled connections can stop early (return that is not the constant true at %q) or skip the Close (%v): one failing or already-closed connection leaves the remaining ones open for ever", stops, skip != nil))
		})
	}
	_ = p
}

func c12R2(c *Ctx, rule string) {
	c.Rule(rule, "closeSession: after the CAS, under streamsM: close(acceptCh) and recvBuf.Close() for every stream whose own CAS succeeds", 3)
	a := getC12(c, rule)
	if a == nil {
		return
	}
	f := a.closeSession
	ls := c.P.Locksets()
	var cas, closeCh, bufClose ssa.Instruction
	var streamCAS *ssa.Call
	allInstrs(f, func(i ssa.Instruction) {
		call, ok := i.(*ssa.Call)
		if !ok {
			return
		}
		switch calleeName(&call.Call) {
		case "sync/atomic.CompareAndSwapUint32":
			fv, _ := fieldVar(call.Call.Args[0])
			if fv == a.sClosed {
				cas = i
			}
			if fv == a.stClosed {
				streamCAS = call
			}
		case "builtin.close":
			if fv, _ := loadedField(call.Call.Args[0]); fv == a.acceptCh {
				closeCh = i
			}
		}
		if call.Call.IsInvoke() && call.Call.Method.Name() == "Close" {
			if fv, _ := loadedField(call.Call.Value); fv == a.recvBuf {
				bufClose = i
			}
		}
	})
	// the stream's CAS may sit in a small boolean helper (markClosed): then the guard of recvBuf.Close() is the helper call
	helperCAS := streamCAS == nil && bufClose != nil && wonCASGuard(c.P, bufClose, a.stClosed)
	if cas == nil || closeCh == nil || bufClose == nil || (streamCAS == nil && !helperCAS) {
		c.Bad(rule, "closeSession closes queue and buffers", c.atFn(f), fmt.Sprintf("missing: session CAS=%v close(acceptCh)=%v recvBuf.Close=%v stream CAS=%v", cas != nil, closeCh != nil, bufClose != nil, streamCAS != nil))
		return
	}
	okLock1, _ := lockHeldByClass(ls.MustHeld(closeCh), a.streamsM)
	okLock2, _ := lockHeldByClass(ls.MustHeld(bufClose), a.streamsM)
	c.Check(instrDominates(cas, closeCh) && okLock1, rule, "close(acceptCh) after the flag is set, under streamsM", c.at(closeCh), "dominated by the CAS, streamsM held", "accept queue closed outside the table lock or before the closed flag is set: a concurrent send can hit a closed channel")
	guarded := helperCAS
	for _, at := range AtomsAt(bufClose) {
		if at.Kind == "call" && at.Pol && streamCAS != nil && at.Call == streamCAS {
			guarded = true
		}
	}
	inLoop := false
	for _, b := range bufClose.Block().Parent().Blocks {
		for _, in := range b.Instrs {
			if _, ok := in.(*ssa.Range); ok && instrDominates(in, bufClose) {
				if fv, _ := loadedField(in.(*ssa.Range).X); fv == a.streams {
					inLoop = true
				}
			}
		}
	}
	c.Check(okLock2 && guarded && inLoop, rule, "recvBuf.Close() for every stream that wins its CAS, in the range over streams under streamsM", c.at(bufClose), "inside range sesh.streams, guarded by CAS(&stream.closed,0,1)", fmt.Sprintf("lock=%v, CAS guard=%v, in range=%v: blocked readers of some stream are never woken", okLock2, guarded, inLoop))
	// every path after a won session CAS reaches close(acceptCh)
	r := mustPass(cas, func(i ssa.Instruction) bool { return i == closeCh })
	// the losing branch returns errRepeatSessionClosing before: allow returns not guarded by CAS==true
	bad := ""
	if r != nil {
		won := false
		for _, at := range AtomsAt(r) {
			if at.Kind == "call" && at.Pol && at.Call == cas.(*ssa.Call) {
				won = true
			}
		}
		if won {
			bad = c.at(r)
		}
	}
	c.Check(bad == "", rule, "won CAS ⇒ close(acceptCh) on every path", c.at(cas), "post-dominates the success edge", "return at "+bad+" after winning the CAS without closing the accept queue: Accept blocks forever")
}

func c12R3(c *Ctx, rule string) {
	c.Rule(rule, "nothing registered after teardown: every insert of a live stream into Session.streams is in a streamsM section in which the closed flag was read as false after the lock was taken", 2)
	a := getC12(c, rule)
	if a == nil {
		return
	}
	ls := c.P.Locksets()
	for _, acc := range FieldAccesses(c.P, map[*types.Var]bool{a.streams: true}) {
		if acc.Kind != "mapupdate" {
			continue
		}
		mu := acc.Instr.(*ssa.MapUpdate)
		if isNilConst(mu.Value) {
			continue // tombstone
		}
		if strings.HasSuffix(c.P.Pos(acc.Fn.Pos()), "_fuzz.go") {
			continue
		}
		construct := "insert of a live stream in " + shortFn(acc.Fn)
		held, _ := lockHeldByClass(ls.MustHeld(mu), a.streamsM)
		var check ssa.Instruction
		for _, at := range AtomsAt(mu) {
			if ci, ok := a.notClosedAtom(at); ok {
				// the latest such check wins
				if check == nil || instrDominates(check, ci) {
					check = ci
				}
			}
		}
		if !held {
			c.Bad(rule, construct, c.at(mu), "stream table written without streamsM")
			continue
		}
		if check == nil {
			c.Bad(rule, construct, c.at(mu), "no test of the session's closed flag guards the insert: a stream registered after closeSession is never closed and its reader blocks forever")
			continue
		}
		checkHeld, _ := lockHeldByClass(ls.MustHeld(check), a.streamsM)
		unl := onPathBetween(check, mu, func(x ssa.Instruction) bool {
			k, path, ok := lockOp(x)
			return ok && k == "unlock" && len(path.Chain) > 0 && path.Chain[len(path.Chain)-1] == a.streamsM
		})
		c.Check(checkHeld && unl == nil, rule, construct, c.at(mu), "IsClosed()==false re-read at "+c.at(check)+" inside the same streamsM section as the insert",
			"the closed flag is tested at "+c.at(check)+" outside the streamsM section of the insert: closeSession can run in between, the new stream is then never closed and a Read on it blocks forever")
	}
}

func c12R4(c *Ctx, rule string) {
	c.Rule(rule, "channel discipline: every send on acceptCh is in a streamsM section with the closed flag re-read false; the only close is in closeSession; Accept maps the zero value to ErrBrokenSession", 3)
	a := getC12(c, rule)
	if a == nil {
		return
	}
	ls := c.P.Locksets()
	nSend, nClose := 0, 0
	for _, acc := range FieldAccesses(c.P, map[*types.Var]bool{a.acceptCh: true}) {
		switch acc.Kind {
		case "send":
			nSend++
			construct := "send on acceptCh in " + shortFn(acc.Fn)
			held, _ := lockHeldByClass(ls.MustHeld(acc.Instr), a.streamsM)
			var check ssa.Instruction
			for _, at := range AtomsAt(acc.Instr) {
				if ci, ok := a.notClosedAtom(at); ok {
					check = ci
				}
			}
			okCheck := false
			if check != nil {
				ch, _ := lockHeldByClass(ls.MustHeld(check), a.streamsM)
				unl := onPathBetween(check, acc.Instr, func(x ssa.Instruction) bool {
					k, path, ok := lockOp(x)
					return ok && k == "unlock" && len(path.Chain) > 0 && path.Chain[len(path.Chain)-1] == a.streamsM
				})
				okCheck = ch && unl == nil
			}
			c.Check(held && okCheck, rule, construct, c.at(acc.Instr), "under streamsM with IsClosed()==false read in the same section", fmt.Sprintf("lock held=%v, closed flag re-read in section=%v: send on a closed channel panics", held, okCheck))
		case "close":
			nClose++
			c.Check(acc.Fn == a.closeSession, rule, "close(acceptCh) in "+shortFn(acc.Fn), c.at(acc.Instr), "the only closer is closeSession (once, after its CAS)", "accept queue closed outside closeSession: double close or send-on-closed possible")
		}
	}
	if nSend == 0 || nClose == 0 {
		c.Undecided(rule, "sends/closes of acceptCh", "-", fmt.Sprintf("found %d sends, %d closes", nSend, nClose))
	}
	if acc := c.need(rule, "internal/multiplex", "Session.Accept"); acc != nil {
		okNil := false
		allInstrs(acc, func(i ssa.Instruction) {
			if u, ok := i.(*ssa.UnOp); ok && u.Op == token.ARROW {
				for _, r := range returnsOf(acc) {
					for _, at := range AtomsAt(r) {
						if at.Kind == "cmp" && at.Op == token.EQL && (at.X == ssa.Value(u) || at.Y == ssa.Value(u)) && errIsNilAt(resultValue(r, 1), r) == "nonnil" {
							okNil = true
						}
					}
				}
			}
		})
		c.Check(okNil, rule, "Accept maps a closed queue to an error", c.atFn(acc), "nil stream ⇒ ErrBrokenSession", "Accept returns a nil stream without an error when the queue is closed")
	}
}

func c12R5(c *Ctx, rule string) {
	c.Rule(rule, "counter pairing: increment only where a live stream was inserted on the same path; decrement only after winning the CAS on that stream's closed flag; no other writer of activeStreamCount", 4)
	a := getC12(c, rule)
	if a == nil {
		return
	}
	p := c.P
	// the counter's events, wherever they are written: through the dedicated helpers or as the atomic operation itself
	ev := a.counterEvents(p)
	incrSites, decrSites := ev.sites(p, ev.isIncr), ev.sites(p, ev.isDecr)
	if len(incrSites) == 0 || len(decrSites) == 0 {
		c.Undecided(rule, "increments / decrements of activeStreamCount", "-", fmt.Sprintf("found %d / %d", len(incrSites), len(decrSites)))
		return
	}
	// writers of the counter: atomic ±1 only
	for _, f := range p.RepoFuncs {
		if strings.HasSuffix(p.Pos(f.Pos()), "_test.go") {
			continue
		}
		allInstrs(f, func(i ssa.Instruction) {
			cc := callCommon(i)
			if cc == nil || len(cc.Args) == 0 {
				return
			}
			if fv, _ := fieldVar(cc.Args[0]); fv != a.activeCount {
				return
			}
			n := calleeName(cc)
			if n == "sync/atomic.LoadUint32" {
				return
			}
			ok := n == "sync/atomic.AddUint32" && len(cc.Args) == 2
			if ok {
				k, isK := intConst(cc.Args[1])
				ok = isK && (uint32(k) == 1 || uint32(k) == ^uint32(0))
			}
			c.Check(ok, rule, "writer of activeStreamCount in "+shortFn(f), c.at(i), "atomic ±1", "the stream counter is written by "+n+" with a step other than ±1 (or not atomically)")
		})
	}
	// live inserts, and for an insert made by a helper that reports it (bool / error result), the helper's outcome
	type liveInsert struct {
		acc Access
		oc  *eventOutcome
	}
	var inserts []liveInsert
	for _, acc := range FieldAccesses(p, map[*types.Var]bool{a.streams: true}) {
		if acc.Kind != "mapupdate" || isNilConst(acc.Instr.(*ssa.MapUpdate).Value) || strings.HasSuffix(p.Pos(acc.Fn.Pos()), "_fuzz.go") {
			continue
		}
		inserts = append(inserts, liveInsert{acc, outcomeOfEvent(acc.Fn, acc.Instr)})
	}
	for _, cs := range incrSites {
		f := cs.Parent()
		construct := "increment in " + shortFn(f)
		// a live insert into streams dominates the increment — directly, or through a helper whose reported outcome
		// ("inserted") is a guard of the increment
		dom := false
		for _, li := range inserts {
			if li.acc.Fn == f && (instrDominates(li.acc.Instr, cs) || guardedByFlagOf(cs, li.acc.Instr)) {
				dom = true
			}
			if li.oc != nil {
				for _, hc := range p.CallersOf(li.acc.Fn) {
					if call, ok := hc.(*ssa.Call); ok && call.Parent() == f && instrDominates(call, cs) && li.oc.at(call, cs) > 0 {
						dom = true
					}
				}
			}
		}
		c.Check(dom, rule, construct, c.at(cs), "dominated by the insert of a live stream", "counter incremented on a path that did not register a stream: the count drifts upwards and the inactivity timer never fires")
	}
	// every live insert is followed by an increment on all paths to a return
	for _, li := range inserts {
		acc := li.acc
		r := mustPass(acc.Instr, ev.isIncr)
		okPair := r == nil
		if !okPair && li.oc != nil {
			// the helper reports the insert: every caller increments on every path on which the report is not "no insert"
			callers := p.CallersOf(acc.Fn)
			okPair = len(callers) > 0
			for _, hc := range callers {
				call, isCall := hc.(*ssa.Call)
				if !isCall {
					okPair = false
					continue
				}
				miss := forwardSearch(call, ev.isIncr, func(i ssa.Instruction) bool {
					_, isRet := i.(*ssa.Return)
					return isRet && li.oc.at(call, i) >= 0
				})
				if miss != nil {
					okPair = false
				}
			}
		}
		c.Check(okPair, rule, "insert in "+shortFn(p.ownerAnchor(acc.Fn))+" is followed by an increment on every path", c.at(acc.Instr), "streamCountIncr post-dominates the insert", "a stream is registered but on some path the counter is not incremented: the session can time out under a live stream")
	}
	for _, cs := range decrSites {
		f := cs.Parent()
		construct := "decrement in " + shortFn(f)
		won := wonCASGuard(p, cs, a.stClosed)
		c.Check(won, rule, construct, c.at(cs), "guarded by a won CAS(&stream.closed,0,1)", "counter decremented without winning the stream's close CAS: a double close decrements twice and the count drifts")
	}
	// closeStream: exactly one decrement on every nil-returning path
	if cs := p.Func("internal/multiplex", "Session.closeStream"); cs != nil {
		var dec []ssa.Instruction
		allInstrs(cs, func(i ssa.Instruction) {
			if ev.isDecr(i) {
				dec = append(dec, i)
			}
		})
		okOne := len(dec) == 1
		if okOne {
			for _, r := range returnsOf(cs) {
				if isNilConst(resultValue(r, 0)) && !instrDominates(dec[0], r) {
					okOne = false
				}
			}
		}
		if len(dec) > 1 {
			// the bookkeeping tail written once per branch (a helper expanded at two tail positions): path form of the same
			// statement — no way into a nil return avoids a decrement, and after a decrement no second one is reachable
			okOne = true
			for _, rp := range retPointsOfFunc(cs) {
				if !isNilConst(rp.Vals[0]) {
					continue
				}
				at := rp.At
				if miss := entrySearch(cs, ev.isDecr, func(i ssa.Instruction) bool { return i == at }); miss != nil {
					okOne = false
				}
			}
			for _, d := range dec {
				if again := forwardSearch(d, nil, ev.isDecr); again != nil {
					okOne = false
				}
			}
		}
		c.Check(okOne, rule, "closeStream: one decrement on every nil-returning path", c.atFn(cs), "single call dominating every 'return nil'", "a successful stream close does not decrement exactly once")
	}
}

func c12R6(c *Ctx, rule string) {
	c.Rule(rule, "timer gate: checkTimeout closes only under streamCount()==0 ∧ ¬IsClosed(); closeStream re-arms the timer or closes a singleplex session when the count reaches zero; MakeSession arms the first timer; OpenStream refuses when closed", 4)
	a := getC12(c, rule)
	if a == nil {
		return
	}
	p := c.P
	ev := a.counterEvents(p)
	closeF := p.Func("internal/multiplex", "Session.Close")
	ct := c.need(rule, "internal/multiplex", "Session.checkTimeout")
	if closeF == nil || ct == nil {
		c.Undecided(rule, "anchors Close/checkTimeout", "-", "not found")
		return
	}
	for _, cl := range callsIn(ct, fnName(closeF)) {
		zero, open := false, false
		for _, at := range AtomsAt(cl) {
			if at.Kind == "cmp" && at.Op == token.EQL {
				for _, s := range []ssa.Value{at.X, at.Y} {
					if ev.isCountRead(s) {
						if k, isK := intConst(otherSide(at, s)); isK && k == 0 {
							zero = true
						}
					}
				}
			}
			if _, ok := a.notClosedAtom(at); ok {
				open = true
			}
		}
		c.Check(zero && open, rule, "checkTimeout closes only an idle, open session", c.at(cl), "guarded by streamCount()==0 and !IsClosed()", fmt.Sprintf("count test=%v, open test=%v: the timer can close a session that still has streams", zero, open))
	}
	if cs := p.Func("internal/multiplex", "Session.closeStream"); cs != nil {
		var single, rearm bool
		singleF := p.Field("internal/multiplex", "SessionConfig", "Singleplex")
		allInstrs(cs, func(i ssa.Instruction) {
			zeroGuard := false
			for _, at := range AtomsAt(i) {
				if at.Kind == "cmp" && at.Op == token.EQL {
					for _, s := range []ssa.Value{at.X, at.Y} {
						if call, ok := s.(*ssa.Call); ok && ev.isDecr(call) {
							if k, isK := intConst(otherSide(at, s)); isK && k == 0 {
								zeroGuard = true
							}
						}
					}
				}
				// the same for an unsigned count written as "not more than zero": remaining <= 0, 0 >= remaining, remaining < 1
				if at.Kind == "cmp" && (at.Op == token.LEQ || at.Op == token.LSS || at.Op == token.GEQ || at.Op == token.GTR) {
					x, y, op := at.X, at.Y, at.Op
					if op == token.GEQ || op == token.GTR { // k >= s  ≡  s <= k
						x, y = y, x
						if op == token.GEQ {
							op = token.LEQ
						} else {
							op = token.LSS
						}
					}
					if call, ok := stripConv(x).(*ssa.Call); ok && ev.isDecr(call) {
						if b, isB := call.Type().Underlying().(*types.Basic); isB && b.Info()&types.IsUnsigned != 0 {
							if k, isK := intConst(y); isK && ((op == token.LEQ && k == 0) || (op == token.LSS && k == 1)) {
								zeroGuard = true
							}
						}
					}
				}
			}
			if !zeroGuard {
				return
			}
			if callsFn(i, closeF) {
				for _, at := range AtomsAt(i) {
					if at.Kind == "bool" && at.Pol {
						if fv, _ := loadedField(at.X); fv == singleF {
							single = true
						}
					}
				}
			}
			if isCall(i, "time.AfterFunc") {
				rearm = true
			}
		})
		c.Check(single && rearm, rule, "closeStream: count reaches zero ⇒ singleplex closes, multiplex re-arms the inactivity timer", c.atFn(cs), "both branches present under decr()==0", fmt.Sprintf("singleplex close=%v, timer re-armed=%v", single, rearm))
	}
	if ms := p.Func("internal/multiplex", "MakeSession"); ms != nil {
		armed := false
		for _, call := range callsIn(ms, "time.AfterFunc") {
			for _, r := range returnsOf(ms) {
				if instrDominates(call, r) {
					armed = true
				}
			}
		}
		c.Check(armed, rule, "MakeSession arms the first inactivity timer", c.atFn(ms), "time.AfterFunc(InactivityTimeout, checkTimeout) dominates the return", "a session that never gets a stream is never closed")
	}
	if os := p.Func("internal/multiplex", "Session.OpenStream"); os != nil {
		refuses := false
		for _, r := range returnsOf(os) {
			for _, at := range AtomsAt(r) {
				if at.Kind == "call" && at.Pol && at.Call.Call.StaticCallee() == a.isClosed && errIsNilAt(resultValue(r, 1), r) == "nonnil" {
					refuses = true
				}
			}
		}
		c.Check(refuses, rule, "OpenStream refuses on a closed session", c.atFn(os), "IsClosed() ⇒ error return", "new streams are not refused after teardown")
	}
}
