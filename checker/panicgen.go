package main

import (
	"fmt"
	"go/token"
	"go/types"
	"strings"

	"golang.org/x/tools/go/ssa"
)

// E11 PANICSAFE (part 3) — structural justifications that do not depend on where the code lives. They are tried
// before the per-site table, so that moving or renaming code (helper extraction, renames) does not turn a justified
// site into an unjustified one. Each returns (true, reason) only when the fact it rests on is re-derived from the
// current program.

// minLenOf returns a provable lower bound of len(v) at instruction `at` (0 = nothing known).
func minLenOf(p *Prog, v ssa.Value, at ssa.Instruction, depth int, seen map[ssa.Value]bool) int64 {
	if v == nil || depth > 4 {
		return 0
	}
	if seen[v] {
		return 1 << 40 // a cycle (loop φ): neutral for min
	}
	seen[v] = true
	defer delete(seen, v)
	best := guardLen(v, at)
	up := func(x int64) {
		if x > best {
			best = x
		}
	}
	switch x := v.(type) {
	case *ssa.Slice:
		// array behind a pointer
		base := int64(0)
		if pt, ok := x.X.Type().Underlying().(*types.Pointer); ok {
			if at2, ok := pt.Elem().Underlying().(*types.Array); ok {
				base = at2.Len()
			}
		} else {
			base = minLenOf(p, x.X, x, depth, seen)
		}
		lo := int64(0)
		loK := true
		if x.Low != nil {
			lo, loK = intConst(x.Low)
		}
		if x.High != nil {
			if hi, ok := intConst(x.High); ok && loK {
				up(hi - lo) // the slice expression itself succeeded, so the result has exactly this length
			} else if loK {
				b := &Bounds{}
				if l, _, ok := b.LowerConst(x.High); ok {
					up(l - lo)
				}
			}
		} else if loK {
			up(base - lo)
		}
	case *ssa.MakeSlice:
		if k, ok := intConst(x.Len); ok {
			up(k)
		} else {
			b := &Bounds{}
			if l, _, ok := b.LowerConst(x.Len); ok {
				up(l)
			}
		}
	case *ssa.Convert:
		if s, ok := strConst(x.X); ok {
			up(int64(len(s)))
		}
	case *ssa.Phi:
		m := int64(1 << 40)
		for _, e := range x.Edges {
			l := minLenOf(p, e, at, depth, seen)
			if l < m {
				m = l
			}
		}
		if m < 1<<40 {
			up(m)
		}
	case *ssa.Call:
		if calleeName(&x.Call) == "builtin.append" {
			up(minLenOf(p, x.Call.Args[0], x, depth, seen))
		}
	case *ssa.Parameter:
		f := x.Parent()
		idx := -1
		for k, q := range f.Params {
			if q == x {
				idx = k
			}
		}
		sites := 0
		m := int64(1 << 40)
		for _, cs := range p.CallersOf(f) {
			if !p.InRepo(cs.Parent()) || strings.HasSuffix(p.Pos(cs.Pos()), "_test.go") || strings.HasSuffix(p.Pos(cs.Pos()), "_fuzz.go") {
				continue
			}
			args := callArgs(cs.Common())
			if idx < 0 || idx >= len(args) {
				m = 0
				continue
			}
			sites++
			l := minLenOf(p, args[idx], cs, depth+1, seen)
			if l < m {
				m = l
			}
		}
		if sites > 0 && m < 1<<40 && f.Parent() == nil {
			up(m)
		}
	}
	return best
}

// guardLen: the largest K such that a dominating comparison implies len(v) >= K at `at`.
func guardLen(v ssa.Value, at ssa.Instruction) int64 {
	if at == nil {
		return 0
	}
	best := int64(0)
	isLenOf := func(x ssa.Value) bool {
		call, ok := stripConv(x).(*ssa.Call)
		return ok && calleeName(&call.Call) == "builtin.len" && sameExpr(call.Call.Args[0], v)
	}
	for _, a := range AtomsAt(at) {
		if a.Kind != "cmp" {
			continue
		}
		switch a.Op {
		case token.LEQ: // K <= len(v)
			if k, ok := intConst(a.X); ok && isLenOf(a.Y) && k > best {
				best = k
			}
		case token.LSS: // K < len(v)
			if k, ok := intConst(a.X); ok && isLenOf(a.Y) && k+1 > best {
				best = k + 1
			}
		case token.EQL:
			if k, ok := intConst(a.X); ok && isLenOf(a.Y) && k > best {
				best = k
			}
			if k, ok := intConst(a.Y); ok && isLenOf(a.X) && k > best {
				best = k
			}
		}
	}
	return best
}

// neededLen: the length the base must have for the access not to panic; ok=false when it cannot be expressed as a constant.
func neededLen(at ssa.Instruction) (base ssa.Value, need int64, ok bool) {
	switch x := at.(type) {
	case *ssa.IndexAddr:
		if k, isK := intConst(x.Index); isK {
			return x.X, k + 1, true
		}
		b := &Bounds{}
		if u, _, okU := b.UpperConst(x.Index); okU {
			return x.X, u + 1, true
		}
		return x.X, 0, false
	case *ssa.Index:
		if k, isK := intConst(x.Index); isK {
			return x.X, k + 1, true
		}
		return x.X, 0, false
	case *ssa.Slice:
		if x.High != nil {
			if k, isK := intConst(x.High); isK {
				return x.X, k, true
			}
			b := &Bounds{}
			if u, _, okU := b.UpperConst(x.High); okU {
				return x.X, u, true
			}
			return x.X, 0, false
		}
		if x.Low == nil {
			return x.X, 0, true
		}
		if k, isK := intConst(x.Low); isK {
			return x.X, k, true
		}
		// x[len(x)-K:]
		if bo, isB := x.Low.(*ssa.BinOp); isB && bo.Op == token.SUB {
			if call, isC := stripConv(bo.X).(*ssa.Call); isC && calleeName(&call.Call) == "builtin.len" && sameExpr(call.Call.Args[0], x.X) {
				if k, isK := intConst(bo.Y); isK {
					return x.X, k, true
				}
			}
		}
		return x.X, 0, false
	}
	return nil, 0, false
}

// isHeapImpl: the named type implements container/heap.Interface with methods declared in the repository.
func isHeapImpl(t types.Type) bool {
	if pt, ok := t.(*types.Pointer); ok {
		t = pt.Elem()
	}
	n, ok := t.(*types.Named)
	if !ok {
		return false
	}
	ms := types.NewMethodSet(types.NewPointer(n))
	for _, m := range []string{"Len", "Less", "Swap", "Push", "Pop"} {
		if ms.Lookup(n.Obj().Pkg(), m) == nil {
			return false
		}
	}
	return true
}

// pooledFrom: v is (derived by loads/slices from) the result of Get on the pool stored in struct field fv.
func pooledFrom(v ssa.Value, depth int) *types.Var {
	if depth > 6 || v == nil {
		return nil
	}
	switch x := v.(type) {
	case *ssa.Slice:
		return pooledFrom(x.X, depth+1)
	case *ssa.UnOp:
		return pooledFrom(x.X, depth+1)
	case *ssa.TypeAssert:
		if call, ok := x.X.(*ssa.Call); ok && calleeName(&call.Call) == "(*sync.Pool).Get" {
			fv, _ := fieldVar(call.Call.Args[0])
			return fv
		}
	case *ssa.Phi:
		var r *types.Var
		for _, e := range x.Edges {
			f := pooledFrom(e, depth+1)
			if f == nil || (r != nil && r != f) {
				return nil
			}
			r = f
		}
		return r
	}
	return nil
}

// genericJustify: location-independent justifications.
func genericJustify(p *Prog, f *ssa.Function, at ssa.Instruction) (bool, string) {
	switch x := at.(type) {
	case *ssa.TypeAssert:
		// (1) sync.Pool.Get().(T) where the pool's New only produces T
		if call, ok := x.X.(*ssa.Call); ok && calleeName(&call.Call) == "(*sync.Pool).Get" {
			if ok2, why := validatePoolType(typeStr(x.AssertedType))(p, f, at); ok2 {
				return true, "pool only produces " + typeStr(x.AssertedType) + " [" + why + "]"
			}
		}
		// (2) Push(x any) of a heap.Interface implementation: container/heap hands over what heap.Push received
		if f.Name() == "Push" && f.Signature.Recv() != nil && isHeapImpl(f.Signature.Recv().Type()) && len(f.Params) == 2 && x.X == ssa.Value(f.Params[1]) {
			want := typeStr(x.AssertedType)
			n, bad := 0, ""
			for _, g := range p.RepoFuncs {
				allInstrs(g, func(i ssa.Instruction) {
					call, ok := i.(*ssa.Call)
					if !ok || calleeName(&call.Call) != "container/heap.Push" || strings.HasSuffix(p.Pos(i.Pos()), "_test.go") {
						return
					}
					mi, ok := call.Call.Args[0].(*ssa.MakeInterface)
					if !ok || !types.Identical(derefT(mi.X.Type()), derefT(f.Signature.Recv().Type())) {
						return
					}
					n++
					if el, ok := call.Call.Args[1].(*ssa.MakeInterface); !ok || typeStr(el.X.Type()) != want {
						bad = c2s(p, i)
					}
				})
			}
			if n > 0 && bad == "" {
				return true, fmt.Sprintf("all %d heap.Push call(s) on this heap pass a %s", n, want)
			}
		}
		// (3) the popped element of a heap whose Push only receives that type
		if call, ok := x.X.(*ssa.Call); ok && calleeName(&call.Call) == "container/heap.Pop" {
			return true, "heap.Pop returns what Push stored (element type checked at Push)"
		}
	case *ssa.IndexAddr, *ssa.Index, *ssa.Slice:
		// (4) methods of a heap.Interface implementation are called by container/heap with indices below Len()
		if f.Signature.Recv() != nil && isHeapImpl(f.Signature.Recv().Type()) {
			switch f.Name() {
			case "Less", "Swap", "Pop":
				return true, "container/heap calls " + f.Name() + " with indices below Len() (Pop only on a non-empty heap)"
			}
		}
		// (5) provable minimum length of the base
		if base, need, ok := neededLen(at); ok {
			if need <= 0 {
				return true, "no length needed"
			}
			var have int64
			if pt, isP := base.Type().Underlying().(*types.Pointer); isP {
				if arr, isA := pt.Elem().Underlying().(*types.Array); isA {
					have = arr.Len()
				}
			} else {
				have = minLenOf(p, base, at, 0, map[ssa.Value]bool{})
			}
			if have >= need {
				return true, fmt.Sprintf("len(%s) >= %d proven (needs %d)", Expr(base), have, need)
			}
		}
		// (8) pooled send buffers: streamObfsBufPool holds buffers of streamSendBufferSize = MsgOnWireSizeLimit bytes
		//     (an assumption for custom limits, stated in the evidence); TLS write buffers carry the 3-byte prefix
		if base, need, ok := neededLen(at); ok {
			if pf := pooledFrom(base, 0); pf != nil {
				if pf == p.Field("internal/multiplex", "Session", "streamObfsBufPool") && need <= 14+256+16 {
					return true, fmt.Sprintf("pooled obfuscation buffer of streamSendBufferSize bytes (needs %d; assumption for custom limits, C04.R4)", need)
				}
				if pf == p.Field("internal/common", "TLSConn", "writeBufPool") && need <= 3 {
					return true, "pooled write buffer created with the 3-byte record prefix and only grown by append (C05.R4)"
				}
			}
		}
		// (9) X[I : I+k] / X[I] where I counts up from a non-negative start by one and the access is guarded by
		//     I (+k−1) < len(X): the loop idiom `for i := range X` / `for i := 0; i < len(X); i++`
		if ok, why := inductionInBounds(at); ok {
			return true, why
		}
		// (6) slice bound is the count returned by a call that received this very buffer
		if ok, why := validateCountOfCallee(p, f, at); ok {
			return true, why
		}
		// (7) header[:NonceSize()] on a slice of proven length >= 14 (NonceSize <= header length is C11.R1)
		if sl, ok := at.(*ssa.Slice); ok && sl.High != nil && sl.Low == nil {
			if call, isC := stripConv(sl.High).(*ssa.Call); isC && strings.HasSuffix(calleeName(&call.Call), "cipher.AEAD).NonceSize") {
				if minLenOf(p, sl.X, at, 0, map[ssa.Value]bool{}) >= 14 {
					return true, "nonce window inside a header of proven length >= 14 (NonceSize <= 14: C11.R1)"
				}
			}
		}
	}
	return false, ""
}

func derefT(t types.Type) types.Type {
	if pt, ok := t.(*types.Pointer); ok {
		return pt.Elem()
	}
	return t
}

func c2s(p *Prog, i ssa.Instruction) string { return p.InstrPos(i) }
