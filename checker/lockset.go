package main

import (
	"fmt"
	"go/types"
	"sort"
	"strings"

	"golang.org/x/tools/go/ssa"
)

// E1 LOCKSET — must-hold (and may-hold) lock sets, interprocedural, access-path based.

// LockPath identifies a lock by an access path rooted at an SSA value of the current function.
type LockPath struct {
	Root  ssa.Value
	Chain []*types.Var
}

func rootID(v ssa.Value) string {
	switch x := v.(type) {
	case *ssa.Parameter:
		for i, p := range x.Parent().Params {
			if p == x {
				return fmt.Sprintf("p%d", i)
			}
		}
	case *ssa.FreeVar:
		for i, p := range x.Parent().FreeVars {
			if p == x {
				return fmt.Sprintf("fv%d", i)
			}
		}
	case *ssa.Global:
		return "g:" + x.Pkg.Pkg.Path() + "." + x.Name()
	case *ssa.Alloc:
		return "alloc:" + x.Comment + ":" + x.Name()
	}
	if v == nil {
		return "?"
	}
	return "v:" + v.Name()
}

func (l LockPath) Key() string {
	s := rootID(l.Root)
	for _, f := range l.Chain {
		s += "." + f.Name()
	}
	return s
}

func (l LockPath) String() string {
	s := strings.TrimPrefix(Expr(l.Root), "&")
	for _, f := range l.Chain {
		s += "." + f.Name()
	}
	return s
}

// Class is the schedule-independent identity of the lock: owner type + field path (or function-local variable).
func (l LockPath) Class() string {
	if len(l.Chain) == 0 {
		switch x := l.Root.(type) {
		case *ssa.Alloc:
			return shortFn(topFn(x.Parent())) + "." + x.Comment
		case *ssa.FreeVar:
			return shortFn(topFn(x.Parent())) + "." + x.Name()
		case *ssa.Global:
			return x.Pkg.Pkg.Name() + "." + x.Name()
		}
		return "local." + rootID(l.Root)
	}
	// owner = struct declaring the first field of the maximal suffix that stays inside one named struct chain
	// we use: declaring named type of Chain[k] for the lock-typed tail
	k := len(l.Chain) - 1
	// extend left while the previous field's type is sync.Cond-like wrapper (so rwCond.L stays together)
	for k > 0 {
		pt := l.Chain[k-1].Type()
		s := types.TypeString(pt, nil)
		if s == "*sync.Cond" || s == "sync.Cond" {
			k--
			continue
		}
		break
	}
	owner := ownerOfField(l, k)
	on := ownerNamedOfField(l, k)
	var names []string
	for i, f := range l.Chain[k:] {
		if i == 0 && on != nil {
			names = append(names, canonFieldName(on, f)) // the name the frozen tables know the field by
		} else {
			names = append(names, f.Name())
		}
	}
	return owner + "." + strings.Join(names, ".")
}

func ownerNamedOfField(l LockPath, k int) *types.Named {
	var t types.Type
	if k == 0 {
		t = l.Root.Type()
	} else {
		t = l.Chain[k-1].Type()
	}
	for {
		if p, ok := t.Underlying().(*types.Pointer); ok {
			t = p.Elem()
			continue
		}
		break
	}
	n, _ := t.(*types.Named)
	return n
}

func ownerOfField(l LockPath, k int) string {
	var t types.Type
	if k == 0 {
		t = l.Root.Type()
		if _, isAddr := l.Root.(*ssa.Alloc); isAddr {
			// alloc of struct: type is *T
		}
	} else {
		t = l.Chain[k-1].Type()
	}
	for {
		if p, ok := t.Underlying().(*types.Pointer); ok {
			t = p.Elem()
			continue
		}
		break
	}
	if n, ok := t.(*types.Named); ok {
		if n.Obj().Pkg() != nil {
			return n.Obj().Pkg().Name() + "." + canonTypeName(n)
		}
		return n.Obj().Name()
	}
	return typeStr(t)
}

func topFn(f *ssa.Function) *ssa.Function {
	for f.Parent() != nil {
		f = f.Parent()
	}
	return f
}

type LockEnt struct {
	Path LockPath
	Excl bool // exclusive (Lock) vs shared (RLock)
	Site ssa.Instruction
}

type lockSet map[string]LockEnt

func (s lockSet) clone() lockSet {
	n := lockSet{}
	for k, v := range s {
		n[k] = v
	}
	return n
}

func intersect(a, b lockSet) lockSet {
	n := lockSet{}
	for k, v := range a {
		if w, ok := b[k]; ok {
			if !w.Excl {
				v.Excl = false
			}
			n[k] = v
		}
	}
	return n
}

func union(a, b lockSet) lockSet {
	n := a.clone()
	for k, v := range b {
		if _, ok := n[k]; !ok {
			n[k] = v
		}
	}
	return n
}

func equalSets(a, b lockSet) bool {
	if len(a) != len(b) {
		return false
	}
	for k, v := range a {
		w, ok := b[k]
		if !ok || w.Excl != v.Excl {
			return false
		}
	}
	return true
}

// lockOp classifies an instruction as a lock operation.
// kind: "lock","rlock","unlock","runlock",""
func lockOp(i ssa.Instruction) (kind string, path LockPath, ok bool) {
	c, isCall := i.(*ssa.Call)
	if !isCall {
		return "", LockPath{}, false
	}
	n := calleeName(&c.Call)
	var recv ssa.Value
	switch n {
	case "(*sync.Mutex).Lock", "(*sync.RWMutex).Lock", "(sync.Locker).Lock":
		kind = "lock"
	case "(*sync.Mutex).Unlock", "(*sync.RWMutex).Unlock", "(sync.Locker).Unlock":
		kind = "unlock"
	case "(*sync.RWMutex).RLock":
		kind = "rlock"
	case "(*sync.RWMutex).RUnlock":
		kind = "runlock"
	case "(*sync.Mutex).TryLock", "(*sync.RWMutex).TryLock", "(*sync.RWMutex).TryRLock":
		return "", LockPath{}, false
	default:
		return "", LockPath{}, false
	}
	if c.Call.IsInvoke() {
		recv = c.Call.Value
	} else {
		recv = c.Call.Args[0]
	}
	root, chain := fieldChain(recv)
	return kind, LockPath{Root: root, Chain: chain}, true
}

// Locksets holds per-function dataflow results.
type Locksets struct {
	P     *Prog
	must  map[*ssa.Function]map[*ssa.BasicBlock]lockSet // block entry, local (relative to empty entry)
	may   map[*ssa.Function]map[*ssa.BasicBlock]lockSet
	entry map[*ssa.Function][]entrySite // per call site contributions
	top   map[*ssa.Function]bool        // entry still unknown (recursion)
	// Unbalanced lists functions that return with a different local lock set than they entered with.
	Unbalanced map[*ssa.Function]string
}

type entrySite struct {
	site     ssa.CallInstruction
	held     lockSet                  // in callee terms
	feasible map[*ssa.BasicBlock]bool // nil = all blocks
}

func NewLocksets(p *Prog) *Locksets {
	ls := &Locksets{P: p, must: map[*ssa.Function]map[*ssa.BasicBlock]lockSet{}, may: map[*ssa.Function]map[*ssa.BasicBlock]lockSet{},
		entry: map[*ssa.Function][]entrySite{}, top: map[*ssa.Function]bool{}, Unbalanced: map[*ssa.Function]string{}}
	for _, f := range p.RepoFuncs {
		if len(f.Blocks) == 0 {
			continue
		}
		ls.local(f)
	}
	ls.computeEntries()
	return ls
}

func transfer(s lockSet, i ssa.Instruction) lockSet {
	kind, path, ok := lockOp(i)
	if !ok {
		return s
	}
	n := s.clone()
	switch kind {
	case "lock":
		n[path.Key()] = LockEnt{Path: path, Excl: true, Site: i}
	case "rlock":
		n[path.Key()] = LockEnt{Path: path, Excl: false, Site: i}
	case "unlock", "runlock":
		delete(n, path.Key())
	}
	return n
}

func (ls *Locksets) local(f *ssa.Function) {
	for _, mode := range []string{"must", "may"} {
		in := map[*ssa.BasicBlock]lockSet{}
		in[f.Blocks[0]] = lockSet{}
		work := []*ssa.BasicBlock{f.Blocks[0]}
		for len(work) > 0 {
			b := work[0]
			work = work[1:]
			s := in[b]
			for _, i := range b.Instrs {
				s = transfer(s, i)
			}
			for _, succ := range b.Succs {
				if isRecoverBlock(succ) {
					continue
				}
				old, seen := in[succ]
				var nw lockSet
				if !seen {
					nw = s.clone()
				} else if mode == "must" {
					nw = intersect(old, s)
				} else {
					nw = union(old, s)
				}
				if !seen || !equalSets(old, nw) {
					in[succ] = nw
					work = append(work, succ)
				}
			}
		}
		if mode == "must" {
			ls.must[f] = in
		} else {
			ls.may[f] = in
		}
	}
	// balance check: explicit (non-deferred) lock state at returns must be releasable by defers
	deferredUnlock := map[string]bool{}
	allInstrs(f, func(i ssa.Instruction) {
		if d, ok := i.(*ssa.Defer); ok {
			n := calleeName(&d.Call)
			if strings.HasSuffix(n, ".Unlock") || strings.HasSuffix(n, ".RUnlock") {
				var recv ssa.Value
				if d.Call.IsInvoke() {
					recv = d.Call.Value
				} else if len(d.Call.Args) > 0 {
					recv = d.Call.Args[0]
				}
				root, chain := fieldChain(recv)
				deferredUnlock[LockPath{Root: root, Chain: chain}.Key()] = true
			}
		}
	})
	for _, r := range returnsOf(f) {
		s := ls.localAt(f, r, "may")
		for k := range s {
			if !deferredUnlock[k] {
				ls.Unbalanced[f] = "returns holding " + s[k].Path.String()
			}
		}
	}
}

func (ls *Locksets) localAt(f *ssa.Function, at ssa.Instruction, mode string) lockSet {
	m := ls.must[f]
	if mode == "may" {
		m = ls.may[f]
	}
	s, ok := m[at.Block()]
	if !ok {
		return lockSet{} // unreachable block
	}
	for _, i := range at.Block().Instrs {
		if i == at {
			break
		}
		s = transfer(s, i)
	}
	return s
}

// translate maps the caller's held set into the callee's terms at a call site.
func translate(held lockSet, site ssa.CallInstruction, callee *ssa.Function) lockSet {
	out := lockSet{}
	cc := site.Common()
	var actuals []ssa.Value
	var formals []ssa.Value
	// a captured variable is bound as the address of its cell; when the cell holds one value (cellValue), the closure's
	// *fv is that value, so the binding is translated as the value itself
	unspill := func(b ssa.Value, mc *ssa.MakeClosure) ssa.Value {
		if a, ok := b.(*ssa.Alloc); ok {
			if sv := cellValue(a, mc); sv != nil {
				return sv
			}
		}
		return b
	}
	if mc, ok := cc.Value.(*ssa.MakeClosure); ok && mc.Fn == ssa.Value(callee) {
		for i, b := range mc.Bindings {
			actuals = append(actuals, unspill(b, mc))
			formals = append(formals, callee.FreeVars[i])
		}
	}
	args := callArgs(cc)
	if len(args) == len(callee.Params) {
		for i, a := range args {
			actuals = append(actuals, a)
			formals = append(formals, callee.Params[i])
		}
	}
	// closures created elsewhere in the same function and called through a variable
	if len(callee.FreeVars) > 0 && callee.Parent() == site.Parent() {
		for _, r := range *ssa.Value(callee).Referrers() {
			if mc, ok := r.(*ssa.MakeClosure); ok {
				for i, b := range mc.Bindings {
					actuals = append(actuals, unspill(b, mc))
					formals = append(formals, callee.FreeVars[i])
				}
			}
		}
	}
	// lock helpers: the closure was created in P, handed to helper H = site.Parent() as an argument, and is called by H
	// while H holds a lock rooted at one of its own parameters. If, at P's call of H, that parameter's actual is a value
	// the closure also captures, the lock is the captured variable's: H.param.chain ≡ closure.freevar.chain.
	type bridge struct {
		param ssa.Value    // parameter of H
		fv    ssa.Value    // free variable of the closure
		pre   []*types.Var // fields between the captured variable and the actual
	}
	var bridges []bridge
	if h := site.Parent(); len(callee.FreeVars) > 0 && callee.Parent() != nil && callee.Parent() != h && h != nil {
		pfn := callee.Parent()
		for _, r := range *ssa.Value(callee).Referrers() {
			mc, ok := r.(*ssa.MakeClosure)
			if !ok {
				continue
			}
			allInstrs(pfn, func(i ssa.Instruction) {
				cs2, ok := i.(ssa.CallInstruction)
				if !ok || cs2.Common().StaticCallee() != h {
					return
				}
				args2 := callArgs(cs2.Common())
				passes := false
				for _, a := range args2 {
					if a == ssa.Value(mc) {
						passes = true
					}
				}
				if !passes || len(args2) != len(h.Params) {
					return
				}
				for k, a := range args2 {
					ra, ca := fieldChain(a)
					for j, b := range mc.Bindings {
						rb, cb := fieldChain(unspill(b, mc))
						if ra == rb && len(cb) == 0 && ra != nil {
							bridges = append(bridges, bridge{h.Params[k], callee.FreeVars[j], ca})
						}
					}
				}
			})
		}
	}
	for _, ent := range held {
		if g, ok := ent.Path.Root.(*ssa.Global); ok {
			out[ent.Path.Key()] = LockEnt{Path: LockPath{Root: g, Chain: ent.Path.Chain}, Excl: ent.Excl, Site: ent.Site}
			continue
		}
		translated := false
		for _, br := range bridges {
			if ent.Path.Root == br.param {
				np := LockPath{Root: br.fv, Chain: append(append([]*types.Var{}, br.pre...), ent.Path.Chain...)}
				out[np.Key()] = LockEnt{Path: np, Excl: ent.Excl, Site: ent.Site}
				translated = true
			}
		}
		for i, a := range actuals {
			ra, ca := fieldChain(a)
			if ra != ent.Path.Root || len(ca) > len(ent.Path.Chain) {
				continue
			}
			match := true
			for k := range ca {
				if ca[k] != ent.Path.Chain[k] {
					match = false
					break
				}
			}
			if !match {
				continue
			}
			np := LockPath{Root: formals[i], Chain: ent.Path.Chain[len(ca):]}
			out[np.Key()] = LockEnt{Path: np, Excl: ent.Excl, Site: ent.Site}
			translated = true
		}
		// a closure run by a lock helper that does not capture the lock's owner: keep the fact at class level
		// (opaque root of the owner's type), so that class-based queries still see the helper's lock
		if !translated && callee.Parent() != nil && callee.Parent() != site.Parent() && len(ent.Path.Chain) > 0 && ent.Path.Root != nil {
			if _, isPtr := ent.Path.Root.Type().Underlying().(*types.Pointer); isPtr {
				np := LockPath{Root: ssa.NewConst(nil, ent.Path.Root.Type()), Chain: ent.Path.Chain}
				out[np.Key()] = LockEnt{Path: np, Excl: ent.Excl, Site: ent.Site}
			}
		}
	}
	return out
}

// feasibleBlocks prunes branches on bool parameters for which the call site passes a constant.
func feasibleBlocks(site ssa.CallInstruction, callee *ssa.Function) map[*ssa.BasicBlock]bool {
	args := callArgs(site.Common())
	if len(args) != len(callee.Params) {
		return nil
	}
	consts := map[ssa.Value]bool{}
	any := false
	for i, a := range args {
		if b, ok := boolConst(a); ok {
			consts[callee.Params[i]] = b
			any = true
		}
	}
	if !any {
		return nil
	}
	reach := map[*ssa.BasicBlock]bool{callee.Blocks[0]: true}
	work := []*ssa.BasicBlock{callee.Blocks[0]}
	for len(work) > 0 {
		b := work[0]
		work = work[1:]
		succs := b.Succs
		if iff, ok := b.Instrs[len(b.Instrs)-1].(*ssa.If); ok {
			a := NormCond(iff.Cond, true)
			if a.Kind == "bool" {
				if v, ok := consts[a.X]; ok {
					if v == a.Pol {
						succs = b.Succs[:1]
					} else {
						succs = b.Succs[1:2]
					}
				}
			}
		}
		for _, s := range succs {
			if !reach[s] {
				reach[s] = true
				work = append(work, s)
			}
		}
	}
	return reach
}

func (ls *Locksets) computeEntries() {
	// iterate to a fixpoint; start optimistic (TOP) for functions with in-repo synchronous callers
	for _, f := range ls.P.RepoFuncs {
		ls.top[f] = true
	}
	for round := 0; round < 12; round++ {
		changed := false
		for _, f := range ls.P.RepoFuncs {
			if len(f.Blocks) == 0 {
				continue
			}
			var sites []entrySite
			unknown := false
			callers := ls.P.CallersOf(f)
			if len(callers) == 0 {
				sites = nil
			}
			for _, cs := range callers {
				caller := cs.Parent()
				var held lockSet
				switch cs.(type) {
				case *ssa.Go, *ssa.Defer:
					held = lockSet{}
				default:
					if !ls.P.InRepo(caller) || len(caller.Blocks) == 0 {
						held = lockSet{}
					} else {
						h, unk := ls.heldAt(cs, "must")
						if unk {
							unknown = true
							continue
						}
						held = translate(h, cs, f)
					}
				}
				sites = append(sites, entrySite{site: cs, held: held, feasible: feasibleBlocks(cs, f)})
			}
			if isEntryPoint(f) {
				sites = append(sites, entrySite{held: lockSet{}})
			}
			_ = unknown
			old := ls.entry[f]
			wasTop := ls.top[f]
			ls.entry[f] = sites
			ls.top[f] = false
			if wasTop || !sameEntry(old, sites) {
				changed = true
			}
		}
		if !changed {
			break
		}
	}
}

func sameEntry(a, b []entrySite) bool {
	if len(a) != len(b) {
		return false
	}
	for i := range a {
		if !equalSets(a[i].held, b[i].held) {
			return false
		}
	}
	return true
}

// isEntryPoint: exported functions/methods and functions whose address is taken may be called from anywhere.
func isEntryPoint(f *ssa.Function) bool {
	if f.Parent() != nil {
		return false
	}
	if f.Name() == "main" || f.Name() == "init" {
		return true
	}
	return false
}

// heldAt returns the must/may lock set at an instruction, combining local facts and entry facts.
func (ls *Locksets) heldAt(at ssa.Instruction, mode string) (lockSet, bool) {
	f := at.Parent()
	local := ls.localAt(f, at, mode)
	if mode == "may" {
		return local, false
	}
	if ls.top[f] {
		return local, true
	}
	var ent lockSet
	first := true
	for _, es := range ls.entry[f] {
		if es.feasible != nil && !es.feasible[at.Block()] {
			continue
		}
		if first {
			ent = es.held.clone()
			first = false
		} else {
			ent = intersect(ent, es.held)
		}
	}
	if first {
		return local, false
	}
	// a lock released locally is not held even if held at entry: approximate by removing entry locks that the
	// function unlocks anywhere before `at` on some path (may-unlock) — the repo has no such function; record it.
	return union(local, ent), false
}

// MustHeld is the public query.
func (ls *Locksets) MustHeld(at ssa.Instruction) lockSet {
	s, _ := ls.heldAt(at, "must")
	return s
}

func (ls *Locksets) MayHeldLocal(at ssa.Instruction) lockSet {
	s, _ := ls.heldAt(at, "may")
	return s
}

// Holds reports whether the lock reached by replacing the last n fields of the accessed path by lockChain is held.
// base: root + chain of the object that owns both the guarded field and the lock.
func holdsLock(held lockSet, base LockPath, lockChain []*types.Var, needExcl bool) (bool, string) {
	want := LockPath{Root: base.Root, Chain: append(append([]*types.Var{}, base.Chain...), lockChain...)}
	ent, ok := held[want.Key()]
	if !ok {
		return false, "lock " + want.String() + " not in must-hold set " + setString(held)
	}
	if needExcl && !ent.Excl {
		return false, "lock " + want.String() + " held only in shared (RLock) mode"
	}
	mode := "exclusively"
	if !ent.Excl {
		mode = "shared"
	}
	return true, want.String() + " held " + mode
}

func setString(s lockSet) string {
	var ks []string
	for _, e := range s {
		m := "W"
		if !e.Excl {
			m = "R"
		}
		ks = append(ks, e.Path.String()+":"+m)
	}
	sort.Strings(ks)
	return "{" + strings.Join(ks, ", ") + "}"
}
