package main

import (
	"golang.org/x/tools/go/ssa"
)

// E5 TYPESTATE — finite-state event sequences with per-function summaries.

type Typestate struct {
	P       *Prog
	NStates int
	// Event classifies an instruction: returns event id >= 0, or -1 when it is not an event.
	Event func(i ssa.Instruction) int
	// Delta[state][event] = next state
	Delta [][]int
	// FollowGo: whether `go f()` call sites apply f's summary (false: other thread, ignored)
	summ    map[*ssa.Function][]uint32
	onStack map[*ssa.Function]bool
}

func (t *Typestate) init() {
	if t.summ == nil {
		t.summ = map[*ssa.Function][]uint32{}
		t.onStack = map[*ssa.Function]bool{}
	}
}

func (t *Typestate) identity() []uint32 {
	id := make([]uint32, t.NStates)
	for s := range id {
		id[s] = 1 << uint(s)
	}
	return id
}

// Summary: for each entry state, the set (bitmask) of states possible at function return.
func (t *Typestate) Summary(f *ssa.Function) []uint32 {
	t.init()
	if s, ok := t.summ[f]; ok {
		return s
	}
	if !t.P.InRepo(f) || len(f.Blocks) == 0 || t.onStack[f] {
		return t.identity()
	}
	t.onStack[f] = true
	out := make([]uint32, t.NStates)
	for s := 0; s < t.NStates; s++ {
		_, exit := t.run(f, s)
		if exit == 0 {
			// no return reachable (infinite loop / panics): no exit states
		}
		out[s] = exit
	}
	delete(t.onStack, f)
	t.summ[f] = out
	return out
}

func (t *Typestate) apply(mask uint32, i ssa.Instruction) uint32 {
	if ev := t.Event(i); ev >= 0 {
		var n uint32
		for s := 0; s < t.NStates; s++ {
			if mask&(1<<uint(s)) != 0 {
				n |= 1 << uint(t.Delta[s][ev])
			}
		}
		return n
	}
	switch c := i.(type) {
	case *ssa.Call:
		callees := t.P.Callees(c)
		var n uint32
		any := false
		for _, g := range callees {
			if !t.P.InRepo(g) || len(g.Blocks) == 0 {
				continue
			}
			any = true
			sm := t.Summary(g)
			for s := 0; s < t.NStates; s++ {
				if mask&(1<<uint(s)) != 0 {
					n |= sm[s]
				}
			}
		}
		if any {
			// if some callee is out of repo (identity) keep the incoming states too
			for _, g := range callees {
				if !t.P.InRepo(g) || len(g.Blocks) == 0 {
					n |= mask
					break
				}
			}
			return n
		}
	}
	return mask
}

// run computes the state mask before each instruction for a given entry state, and the exit mask.
func (t *Typestate) run(f *ssa.Function, entry int) (map[ssa.Instruction]uint32, uint32) {
	in := map[*ssa.BasicBlock]uint32{f.Blocks[0]: 1 << uint(entry)}
	work := []*ssa.BasicBlock{f.Blocks[0]}
	for len(work) > 0 {
		b := work[0]
		work = work[1:]
		m := in[b]
		for _, i := range b.Instrs {
			m = t.apply(m, i)
		}
		for _, s := range b.Succs {
			if isRecoverBlock(s) {
				continue
			}
			if in[s]|m != in[s] {
				in[s] |= m
				work = append(work, s)
			} else if _, seen := in[s]; !seen {
				in[s] = m
				work = append(work, s)
			}
		}
	}
	before := map[ssa.Instruction]uint32{}
	var exit uint32
	for _, b := range f.Blocks {
		m, ok := in[b]
		if !ok || isRecoverBlock(b) {
			continue
		}
		for _, i := range b.Instrs {
			before[i] = m
			if _, isRet := i.(*ssa.Return); isRet {
				exit |= m
			}
			m = t.apply(m, i)
		}
	}
	return before, exit
}

// StatesBefore exposes the per-instruction masks for one function and entry state.
func (t *Typestate) StatesBefore(f *ssa.Function, entry int) map[ssa.Instruction]uint32 {
	t.init()
	m, _ := t.run(f, entry)
	return m
}
