package main

import (
	"fmt"
	"go/token"
	"os"
	"strings"

	"golang.org/x/tools/go/ssa"
)

func init() {
	register(&PropDef{
		ID: "C11", Title: "forged or modified frames are rejected; garbage never breaks a session",
		Run:       runC11,
		Technique: "static analysis: decoded byte ranges vs authenticated byte ranges (layout tables + AEAD argument ranges), edge-cut path search for release-after-authentication, panic-safety over everything reachable from the receive path, effect-freedom of the decode-error path",
		Decided: "(a) which header bytes the decoder acts on and which byte ranges the AEAD authenticates (nonce range, additional data, sealed region): every decoded range must lie inside — the two that do not (closing flag, extra length) are reported as the known finding; with a cipher configured no frame field is released and no success is returned on any path that has not passed a successful Open over the whole sealed region; " +
			"(b) every panic-capable instruction reachable from the receive path is proven in bounds by the compiler or justified; (c) a decode error returns before any session state is touched and does not end the read loop.",
		NotDecided:  "AEAD security itself (forgery probability); replay of whole valid frames (the sequence window is C02's concern).",
		Assumptions: []string{"AES-GCM / ChaCha20-Poly1305 authenticate nonce, ciphertext and AAD", "NonceSize() = 12 for the three constructors"},
	})
}

func runC11(c *Ctx) {
	c11R1(c, "C11.R1")
	c11R2(c, "C11.R2")
	c11R3(c, "C11.R3")
	c11R4(c, "C11.R4")
	c11R5(c, "C11.R5")
	// "under any encryption method": each configured AEAD method really builds its cipher — a method that silently
	// falls back to the plain codec authenticates nothing
	c.importing = "C04"
	c04R2(c, "C04.R2")
	c.importing = ""
}

// C11.R5 — a dropped message leaves no trace in the receive machinery's pools: an object taken from a sync.Pool is put
// back at most once on every path. A second Put hands the same object to two later takers; for the receive frame that
// means two connections' reader goroutines decode into one Frame — one valid frame is lost, another delivered twice.
func c11R5(c *Ctx, rule string) {
	c.Rule(rule, "pool discipline on the receive and send paths: every object obtained from a sync.Pool is returned at most once per path (a deferred Put excludes any explicit one)", 3)
	p := c.P
	n := 0
	for _, f := range p.RepoFuncs {
		if f.Pkg == nil || strings.HasSuffix(p.Pos(f.Pos()), "_test.go") {
			continue
		}
		rel := strings.TrimPrefix(strings.TrimPrefix(f.Pkg.Pkg.Path(), modPath), "/")
		if rel != "internal/multiplex" && rel != "internal/common" {
			continue
		}
		allInstrs(f, func(i ssa.Instruction) {
			get, ok := i.(*ssa.Call)
			if !ok || calleeName(&get.Call) != "(*sync.Pool).Get" {
				return
			}
			// the taken object: the type assertion of the result (or the raw interface value)
			var obj ssa.Value = get
			for _, r := range *get.Referrers() {
				if ta, isTA := r.(*ssa.TypeAssert); isTA {
					obj = ta
				}
			}
			isPutOf := func(cc *ssa.CallCommon) bool {
				if cc == nil || calleeName(cc) != "(*sync.Pool).Put" || len(cc.Args) < 2 {
					return false
				}
				v := cc.Args[1]
				if mi, isMI := v.(*ssa.MakeInterface); isMI {
					v = mi.X
				}
				return v == obj || v == ssa.Value(get)
			}
			var deferred, explicit []ssa.Instruction
			allInstrs(f, func(j ssa.Instruction) {
				switch x := j.(type) {
				case *ssa.Defer:
					if isPutOf(&x.Call) {
						deferred = append(deferred, j)
					}
				case *ssa.Call:
					if isPutOf(&x.Call) {
						explicit = append(explicit, j)
					}
				}
			})
			if len(deferred)+len(explicit) == 0 {
				return
			}
			n++
			construct := "object of " + strings.TrimPrefix(Expr(get.Call.Args[0]), "&") + " taken in " + shortFn(p.ownerAnchor(f))
			bad := ""
			switch {
			case len(deferred) > 1:
				bad = "two deferred Puts of the same object"
			case len(deferred) == 1 && len(explicit) > 0:
				bad = "an explicit Put at " + c.at(explicit[0]) + " in addition to the deferred Put: on that path the object is returned twice"
			default:
				for _, e1 := range explicit {
					for _, e2 := range explicit {
						if forwardSearch(e1, func(k ssa.Instruction) bool { return k == ssa.Instruction(get) }, func(k ssa.Instruction) bool { return k == e2 }) != nil {
							bad = "the Put at " + c.at(e2) + " is reachable after the Put at " + c.at(e1) + " without a new Get"
						}
					}
				}
			}
			c.Check(bad == "", rule, construct, c.at(get), "returned at most once on every path", bad+": two later takers receive the same object and overwrite each other's data")
		})
	}
	if n == 0 {
		c.Undecided(rule, "sync.Pool Get/Put pairs in multiplex and common", "-", "none found")
	}
}

func c11R1(c *Ctx, rule string) {
	c.Rule(rule, "decoded ⊆ authenticated: every header range the decoder reads lies inside the AEAD nonce range header[:NonceSize] or the additional data; the sealed region covers payload, padding and tag", 4)
	a := getMuxAnchors(c, rule)
	if a == nil {
		return
	}
	dec := a.deobfuscate
	dh, _ := headerSlice(dec, dec.Params[2])
	open := findCall(dec, "(crypto/cipher.AEAD).Open")
	if dh == nil || open == nil {
		c.Undecided(rule, "decoder header / Open call", c.atFn(dec), "not found")
		return
	}
	// authenticated header range: nonce = header[:NonceSize()] (12), AAD
	nonceHi := int64(0)
	fromStart := func(x ssa.Value) bool {
		if x == ssa.Value(dh) {
			return true
		}
		off, okO := constSliceOffset(x, dh.X) // any spelling of "the message from its first byte"
		return okO && off == 0
	}
	if sl, ok := open.Call.Args[1].(*ssa.Slice); ok && fromStart(sl.X) && sl.Low == nil && sl.High != nil {
		if isNonceSizeOf(sl.High) {
			nonceHi = 12
		} else if k, isK := intConst(sl.High); isK {
			nonceHi = k
		}
	}
	aadNil := isNilConst(open.Call.Args[3])
	aadDesc := "none"
	if !aadNil {
		aadDesc = Expr(open.Call.Args[3])
	}
	for _, e := range decoderLayout(dec, dh, dec.Params[1]) {
		construct := fmt.Sprintf("decoded header field %s [%d:%d] inside the authenticated range", e.what, e.lo, e.hi)
		inNonce := e.hi <= nonceHi
		inAAD := false
		if !aadNil {
			if sl, ok := open.Call.Args[3].(*ssa.Slice); ok && sl.X == ssa.Value(dh) {
				lo, hi := int64(0), int64(14)
				if sl.Low != nil {
					lo, _ = intConst(sl.Low)
				}
				if sl.High != nil {
					hi, _ = intConst(sl.High)
				}
				inAAD = e.lo >= lo && e.hi <= hi
			}
			if open.Call.Args[3] == ssa.Value(dh) {
				inAAD = true
			}
		}
		c.Check(inNonce || inAAD, rule, construct, c.at(e.at), fmt.Sprintf("inside nonce range [0:%d]", nonceHi),
			fmt.Sprintf("the decoder acts on header byte(s) [%d:%d] (%s) but the AEAD authenticates only header[0:%d] (nonce) and additional data %s: the header is merely stream-cipher encrypted, so flipping bits there changes this field and the frame is still accepted", e.lo, e.hi, e.what, nonceHi, aadDesc))
	}
	// MakeObfuscator guarantees NonceSize <= header length
	if mo := c.P.Func("internal/multiplex", "MakeObfuscator"); mo != nil {
		ok := false
		allInstrs(mo, func(i ssa.Instruction) {
			if iff, isIf := i.(*ssa.If); isIf {
				at := NormCond(iff.Cond, true)
				if at.Kind == "cmp" && at.Op == token.LSS && isNonceSizeOf(at.Y) {
					if k, isK := intConst(at.X); isK && k == 14 {
						ok = true
					}
				}
			}
		})
		c.Check(ok, rule, "MakeObfuscator rejects a nonce longer than the header", c.atFn(mo), "NonceSize() > frameHeaderLength ⇒ error", "a cipher with a nonce longer than 14 bytes would be accepted (header[:NonceSize] panics)")
	}
	// sealed region is the whole remainder
	whole := isSliceLowConstOf(open.Call.Args[2], dec.Params[2], 14)
	if sl, ok := open.Call.Args[2].(*ssa.Slice); ok && sl.High != nil {
		whole = false
	}
	c.Check(whole, rule, "Open covers payload, padding and tag", c.at(open), "Open(…, in[14:], …)", "the authenticated region does not span the whole remainder of the message")
}

func c11R2(c *Ctx, rule string) {
	c.Rule(rule, "release after authentication: with a cipher configured, stores into the frame and the success return are reachable only through Open's err == nil edge", 1)
	a := getMuxAnchors(c, rule)
	if a == nil {
		return
	}
	p := c.P
	dec := a.deobfuscate
	open := findCall(dec, "(crypto/cipher.AEAD).Open")
	cipherF := p.Field("internal/multiplex", "Obfuscator", "payloadCipher")
	if open == nil || cipherF == nil {
		c.Undecided(rule, "Open call / payloadCipher field", c.atFn(dec), "not found")
		return
	}
	errV := extractOf(open, 1)
	frame := ssa.Value(dec.Params[1])
	// cut: the edge "payloadCipher == nil" (plain mode) and the edge "Open err == nil" (authenticated).
	cut := func(at Atom) bool {
		if at.Kind == "cmp" && at.Op == token.EQL {
			for _, s := range []ssa.Value{at.X, at.Y} {
				if fv, _ := loadedField(s); fv == cipherF && isNilConst(otherSide(at, s)) {
					return true
				}
				if errV != nil && s == errV && isNilConst(otherSide(at, s)) {
					return true
				}
			}
		}
		return false
	}
	target := func(i ssa.Instruction) bool {
		if st, ok := i.(*ssa.Store); ok {
			if fv, base := fieldVar(st.Addr); fv != nil && base == frame {
				return true
			}
		}
		if r, ok := i.(*ssa.Return); ok && errIsNilAt(resultValue(r, 0), r) != "nonnil" {
			return true
		}
		return false
	}
	hit := edgeSearch(dec, nil, cut, nil, target)
	c.Check(hit == nil, rule, "frame fields and success only behind a successful Open (cipher configured)", c.at(open), "every path that is neither plain mode nor Open-succeeded ends in an error return without touching the frame",
		"with an AEAD configured, control reaches "+p.InstrPos(hit)+" without passing Open(...) == nil: bytes that were never authenticated under the session key are accepted as a frame")
}

var c11Justified = []panicJustification{
	{"(*multiplex.Obfuscator).deobfuscate", "NonceSize", "MakeObfuscator rejects ciphers whose NonceSize exceeds the 14-byte header (checked by C11.R1)", nil},
	{"(*multiplex.Session).recvDataFromRemote", "type assertion", "recvFramePool.New only ever produces *Frame", validatePoolType("*internal/multiplex.Frame")},
	{"(*multiplex.streamBuffer).Write", "type assertion", "only *Frame values are pushed onto the sorter heap", nil},
	{"(*multiplex.sorterHeap).Push", "type assertion", "container/heap.Push is only called with *Frame (streamBuffer.Write)", nil},
	{"(*multiplex.sorterHeap).Pop", "index", "container/heap calls Pop only on a non-empty heap (n >= 1)", nil},
	{"(multiplex.sorterHeap).Less", "index", "container/heap passes indices below Len()", nil},
	{"(multiplex.sorterHeap).Swap", "index", "container/heap passes indices below Len()", nil},
	{"(*multiplex.streamBuffer).Write", "index", "sb.sh[0] is read only under len(sb.sh) > 0", alwaysLenGuard},
	{"(*multiplex.datagramBufferedPipe).Read", "index", "pLens[0] is read only after the wait loop established len(pLens) > 0", nil},
	{"(*multiplex.datagramBufferedPipe).Read", "slice", "target[:dataLen] is guarded by len(target) >= dataLen; pLens[1:] by len(pLens) > 0", nil},
	{"(*multiplex.Session).Close", "slice", "the obfuscation buffer has streamSendBufferSize = MsgOnWireSizeLimit >= 14+256+… bytes (C04.R4 assumption for custom limits)", nil},
	{"(*multiplex.Session).Close", "type assertion", "streamObfsBufPool.New only produces *[]byte", validatePoolType("*[]byte")},
	{"(*multiplex.Session).closeStream", "slice", "the obfuscation buffer has streamSendBufferSize = MsgOnWireSizeLimit bytes (C04.R4 assumption for custom limits)", nil},
	{"(*multiplex.Session).closeStream", "type assertion", "streamObfsBufPool.New only produces *[]byte", validatePoolType("*[]byte")},
	{"(*multiplex.Obfuscator).obfuscate", "slice", "guarded by len(buf) >= usefulLen (C04.R4) and NonceSize <= 14 (C11.R1)", nil},
	{"(*multiplex.Session).Close", "index", "the obfuscation buffer has streamSendBufferSize = MsgOnWireSizeLimit bytes (C04.R4 assumption for custom limits)", nil},
	{"(*multiplex.Session).closeStream", "index", "the obfuscation buffer has streamSendBufferSize = MsgOnWireSizeLimit bytes (C04.R4 assumption for custom limits)", nil},
	{"(*multiplex.Stream).obfuscateAndSend", "slice", "the bound is the encoder's result for this very buffer, at most len(buf) by its guard (C04.R4)", validateCountOfCallee},
	{"(*common.TLSConn).Write", "type assertion", "writeBufPool.New only produces *[]byte", validatePoolType("*[]byte")},
	{"(*common.TLSConn).Write", "slice", "write buffers are created with the 3-byte record prefix and only grow by append (checked by C05.R4)", nil},
	{"(*multiplex.switchboard).pickRandConn", "type assertion", "randPool.New only produces *rand.Rand; conns only stores net.Conn values", nil},
	{"(*multiplex.switchboard).closeAll$1", "type assertion", "conns only stores net.Conn values (addConn)", nil},
	{"(*multiplex.Stream).LocalAddr", "", "addrs always holds a 2-element []net.Addr (MakeSession, AddConnection)", nil},
	{"(*multiplex.Stream).RemoteAddr", "", "addrs always holds a 2-element []net.Addr (MakeSession, AddConnection)", nil},
	{"(*multiplex.Session).Addr", "", "addrs always holds a 2-element []net.Addr (MakeSession, AddConnection)", nil},
	{"common.CryptoRandRead", "", "no peer input", nil},
	{"common.backoff", "fatal/panic call", "reached only when the system random source fails ten times in a row; no peer input is involved", nil},
	{"common.RandRead$1", "", "no peer input", nil},
	{"common.RandInt$1", "", "no peer input", nil},
}

// validatePoolType: the sync.Pool whose Get result is asserted has a New function returning only that type.
func validatePoolType(want string) func(p *Prog, f *ssa.Function, at ssa.Instruction) (bool, string) {
	return func(p *Prog, f *ssa.Function, at ssa.Instruction) (bool, string) {
		ta, ok := at.(*ssa.TypeAssert)
		if !ok {
			return false, "not a type assertion"
		}
		if got := typeStr(ta.AssertedType); got != want {
			return false, "asserted type is " + got
		}
		call, ok := ta.X.(*ssa.Call)
		if !ok || calleeName(&call.Call) != "(*sync.Pool).Get" {
			return false, "operand is not a sync.Pool.Get result"
		}
		poolField, _ := fieldVar(call.Call.Args[0])
		if poolField == nil {
			return false, "pool is not a struct field"
		}
		// every store to <pool>.New is a closure returning `want`
		n := 0
		for _, g := range p.RepoFuncs {
			bad := ""
			allInstrs(g, func(i ssa.Instruction) {
				st, isSt := i.(*ssa.Store)
				if !isSt {
					return
				}
				fa, isFA := st.Addr.(*ssa.FieldAddr)
				if !isFA {
					return
				}
				nf, base := fieldVar(fa)
				if nf == nil || nf.Name() != "New" {
					return
				}
				if pf, _ := fieldVar(base); pf != poolField {
					// composite literal stored whole: base is a local alloc later stored into the pool field
					if al, isAl := base.(*ssa.Alloc); !isAl || !allocFlowsToField(al, poolField) {
						return
					}
				}
				var fn *ssa.Function
				switch v := st.Val.(type) {
				case *ssa.MakeClosure:
					fn, _ = v.Fn.(*ssa.Function)
				case *ssa.Function:
					fn = v
				}
				if fn == nil {
					bad = "New is not a function literal"
					return
				}
				n++
				for _, r := range returnsOf(fn) {
					if mi, isMI := r.Results[0].(*ssa.MakeInterface); !isMI || typeStr(mi.X.Type()) != want {
						bad = "New returns " + Expr(r.Results[0])
					}
				}
			})
			if bad != "" {
				return false, bad
			}
		}
		if n == 0 {
			return false, "no New function found for the pool"
		}
		return true, fmt.Sprintf("%d New function(s), all returning %s", n, want)
	}
}

func allocFlowsToField(al *ssa.Alloc, fv interface{ Name() string }) bool {
	for _, r := range *al.Referrers() {
		if ld, ok := r.(*ssa.UnOp); ok {
			for _, rr := range *ld.Referrers() {
				if st, ok := rr.(*ssa.Store); ok {
					if f2, _ := fieldVar(st.Addr); f2 != nil && f2.Name() == fv.Name() {
						return true
					}
				}
			}
		}
	}
	return false
}

func c11R3(c *Ctx, rule string) {
	c.Rule(rule, "no crash on arbitrary received bytes: every panic-capable instruction reachable from Session.recvDataFromRemote is proven in bounds by the compiler or justified", 6)
	p := c.P
	entry := c.need(rule, "internal/multiplex", "Session.recvDataFromRemote")
	if entry == nil {
		return
	}
	cut := func(f *ssa.Function) bool {
		// the switchboard's own goroutines and the server/client callers are other entries; stay inside multiplex+common
		if f.Pkg != nil && f.Pkg != p.Pkg("internal/multiplex") && f.Pkg != p.Pkg("internal/common") {
			return true
		}
		return false
	}
	PanicSafetyWith(c, rule, []*ssa.Function{entry}, cut, c11Justified, os.Getenv("CLOAKCHECK_DUMP") != "")
	// the length test that makes the decoder's own slicing safe
	a := getMuxAnchors(c, rule)
	if a == nil {
		return
	}
	dec := a.deobfuscate
	b0 := dec.Blocks[0]
	ok := false
	if iff, isIf := b0.Instrs[len(b0.Instrs)-1].(*ssa.If); isIf {
		// whichever way the test is written, one branch means len(in) < K (or <= K−1) with K >= 22, and that branch
		// returns an error at once
		for _, pol := range []bool{true, false} {
			at := NormCond(iff.Cond, pol)
			if at.Kind != "cmp" || (at.Op != token.LSS && at.Op != token.LEQ) {
				continue
			}
			lc, isC := stripConv(at.X).(*ssa.Call)
			if !isC || calleeName(&lc.Call) != "builtin.len" || lc.Call.Args[0] != ssa.Value(dec.Params[2]) {
				continue
			}
			k, isK := intConst(at.Y)
			if at.Op == token.LEQ {
				k++
			}
			if !isK || k < 22 {
				continue
			}
			tb := b0.Succs[0]
			if !pol {
				tb = b0.Succs[1]
			}
			if r, isR := tb.Instrs[len(tb.Instrs)-1].(*ssa.Return); isR && errIsNilAt(resultValue(r, 0), r) == "nonnil" {
				ok = true
			}
		}
	}
	c.Check(ok, rule, "decoder rejects messages shorter than header+nonce before slicing", c.atFn(dec), "first test: len(in) < 22 ⇒ error", "the minimum-length test is not the first thing the decoder does: short messages reach the slicing")
}

func c11R4(c *Ctx, rule string) {
	c.Rule(rule, "drop without effect, keep reading: the decode-error return of recvDataFromRemote precedes every access to session state; deplex only returns on a read error", 2)
	a := getMuxAnchors(c, rule)
	if a == nil {
		return
	}
	p := c.P
	rd := c.need(rule, "internal/multiplex", "Session.recvDataFromRemote")
	dp := c.need(rule, "internal/multiplex", "switchboard.deplex")
	if rd == nil || dp == nil {
		return
	}
	var dcall *ssa.Call
	allInstrs(rd, func(i ssa.Instruction) {
		if call, ok := i.(*ssa.Call); ok && call.Call.StaticCallee() == a.deobfuscate {
			dcall = call
		}
	})
	if dcall == nil {
		c.Bad(rule, "recvDataFromRemote decodes first", c.atFn(rd), "no deobfuscate call")
		return
	}
	// everything executed before the decode call must be effect-free with respect to the session
	effect := ""
	allInstrs(rd, func(i ssa.Instruction) {
		if effect != "" || !(instrDominates(i, dcall)) {
			return
		}
		switch x := i.(type) {
		case *ssa.Call:
			n := calleeName(&x.Call)
			if n == "(*sync.Pool).Get" || n == "(*sync.Pool).Put" {
				return
			}
			effect = n + " at " + c.at(i)
		case *ssa.Store, *ssa.MapUpdate, *ssa.Send:
			effect = "state write at " + c.at(i)
		}
	})
	// and the error branch returns immediately
	direct := false
	for _, r := range returnsOf(rd) {
		for _, at := range AtomsAt(r) {
			if at.Kind == "cmp" && at.Op == token.NEQ && (at.X == ssa.Value(dcall) || at.Y == ssa.Value(dcall)) {
				// between the call and this return: only formatting
				bad := onPathBetween(dcall, r, func(i ssa.Instruction) bool {
					if call, ok := i.(*ssa.Call); ok {
						n := calleeName(&call.Call)
						return !(n == "fmt.Errorf" || strings.HasPrefix(n, "fmt.") || n == "(*sync.Pool).Put")
					}
					switch i.(type) {
					case *ssa.MapUpdate, *ssa.Send:
						return true
					}
					return false
				})
				if bad == nil && errIsNilAt(resultValue(r, 0), r) == "nonnil" {
					direct = true
				}
			}
		}
	}
	c.Check(effect == "" && direct, rule, "decode error returns before any session state is touched", c.at(dcall), "deobfuscate is the first effectful step; its error branch returns at once", fmt.Sprintf("effect before decoding: %q; immediate error return: %v", effect, direct))
	// deplex: returns only under the read error
	var rdCall *ssa.Call
	allInstrs(dp, func(i ssa.Instruction) {
		if call, ok := i.(*ssa.Call); ok && calleeName(&call.Call) == "(net.Conn).Read" {
			rdCall = call
		}
	})
	okLoop := rdCall != nil
	if okLoop {
		errV := extractOf(rdCall, 1)
		// every way from the read to a return crosses an edge on which the read's error (or a variable that only ever
		// holds nil or that error) is non-nil
		var onlyReadErr func(v ssa.Value, d int) bool
		onlyReadErr = func(v ssa.Value, d int) bool {
			if v == errV {
				return true
			}
			ph, isPhi := v.(*ssa.Phi)
			if !isPhi || d > 3 {
				return false
			}
			for _, e := range ph.Edges {
				if isNilConst(e) || e == ssa.Value(ph) {
					continue
				}
				if !onlyReadErr(e, d+1) {
					return false
				}
			}
			return true
		}
		escape := edgeSearch(dp, rdCall, func(at Atom) bool {
			if at.Kind != "cmp" || at.Op != token.NEQ {
				return false
			}
			return (isNilConst(at.Y) && onlyReadErr(at.X, 0)) || (isNilConst(at.X) && onlyReadErr(at.Y, 0))
		}, nil, func(i ssa.Instruction) bool { _, isRet := i.(*ssa.Return); return isRet })
		if escape != nil {
			okLoop = false
		}
		// and the decode error does not close the connection: no Close/passiveClose guarded by recvDataFromRemote's error
		allInstrs(dp, func(i ssa.Instruction) {
			call, ok := i.(*ssa.Call)
			if !ok {
				return
			}
			n := calleeName(&call.Call)
			if !(strings.HasSuffix(n, ".Close") || strings.HasSuffix(n, "passiveClose") || strings.HasSuffix(n, "closeAll")) {
				return
			}
			for _, at := range AtomsAt(i) {
				if at.Kind == "cmp" && at.Op == token.NEQ && strings.Contains(at.String(), "recvDataFromRemote") {
					okLoop = false
				}
			}
		})
	}
	c.Check(okLoop, rule, "deplex keeps reading after a bad frame", c.atFn(dp), "every return of the loop is under the read error; the decode error only logs", "a frame that fails to decode ends the read loop or closes the connection: garbage from the network kills the session")
	_ = p
}
