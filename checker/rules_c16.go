package main

import (
	"fmt"
	"go/token"
	"go/types"
	"sort"
	"strings"

	"golang.org/x/tools/go/ssa"
)

func init() {
	register(&PropDef{
		ID: "C16", Title: "usage charged exactly once; exhausted or expired users are cut off",
		Run:       runC16,
		Technique: "static analysis: must-pass-through for metering calls with value identity of the I/O count, role-separated value-flow (up/down chains from valve to database key, database keys modelled as fields), lockset for the queue sections, dominance for verdict branches and the termination call chain",
		Decided: "(d) every byte crossing the connection pool is metered: each successful write is followed by AddTx of that write's count, each read by AddRx of that read's count before the data is processed; " +
			"(a) upload and download chains are separate end to end (valve counter → swap → queue → status → stored credit key) with no value flow from one direction's locations to the other's, and the status is filed under the UID of the valve's owner; " +
			"(b) collection is an atomic swap-to-zero called only by the two queue-update functions, queue accumulation/insert and the snapshot-and-reset at commit are each one critical section of the queue lock, and a store into the queue map happens only on the not-found edge of a look-up of the same key (an entry holding drained, not yet uploaded usage is never replaced); " +
			"(e) TERMINATE verdicts are produced for missing bucket, credit <= 0 (both directions) and expiry, in the same transaction as the credit writes, and each TERMINATE for an active user reaches closeAllSessions, which closes every session.",
		NotDecided:  "(c) arithmetic totals at quiescence ('stored = initial − carried'), loss when UploadStatus itself fails, traffic between the final collection and closeAllSessions — these need quiescence and history reasoning.",
		Assumptions: []string{"atomic.SwapInt64/AddInt64 semantics", "bbolt Update runs its closure in one transaction"},
	})
}

func runC16(c *Ctx) {
	c16R1(c, "C16.R1")
	c16R2(c, "C16.R2")
	c16R3(c, "C16.R3")
	c16R4(c, "C16.R4")
	c16R5(c, "C16.R5")
	c16R6(c, "C16.R6")
	c16R7(c, "C16.R7")
}

// isValveCall: invoke of Valve.<method> on the switchboard's valve
func isValveCall(i ssa.Instruction, method string) (*ssa.Call, bool) {
	call, ok := i.(*ssa.Call)
	// the interface method under its current spelling (the implementation on LimitedValve is the rules' subject)
	cur := curName("internal/multiplex", "LimitedValve."+method)
	if cur == "" {
		cur = method
	}
	if !ok || !call.Call.IsInvoke() || call.Call.Method.Name() != cur {
		return nil, false
	}
	if !strings.HasSuffix(typeStr(call.Call.Value.Type()), "multiplex.Valve") {
		return nil, false
	}
	return call, true
}

// countOf: the int count (result 0) of an I/O call, looking through Extract and conversions.
func isCountOf(v ssa.Value, io *ssa.Call) bool {
	v = stripConv(v)
	if ex, ok := v.(*ssa.Extract); ok && ex.Index == 0 && ex.Tuple == ssa.Value(io) {
		return true
	}
	if ph, ok := v.(*ssa.Phi); ok {
		// named result n assigned on several branches: every edge that is an I/O count must be this call's or another write's
		for _, e := range ph.Edges {
			if isCountOf(e, io) {
				return true
			}
		}
	}
	return false
}

func c16R1(c *Ctx, rule string) {
	c.Rule(rule, "metering must-pass: every successful conn.Write in switchboard.send is followed by valve.AddTx(count of that write) before the success return; every conn.Read in deplex is followed by valve.AddRx(its count) before the data is processed or the function returns", 3)
	send := c.need(rule, "internal/multiplex", "switchboard.send")
	dp := c.need(rule, "internal/multiplex", "switchboard.deplex")
	if send == nil || dp == nil {
		return
	}
	// send
	var writes []*ssa.Call
	allInstrs(send, func(i ssa.Instruction) {
		if call, ok := i.(*ssa.Call); ok && calleeName(&call.Call) == "(net.Conn).Write" {
			writes = append(writes, call)
		}
	})
	for _, w := range writes {
		construct := "AddTx after the write at " + strings.TrimPrefix(c.at(w), "internal/multiplex/")
		// success returns reachable from this write must pass AddTx with a count that includes this write's result
		var addtx *ssa.Call
		miss := forwardSearch(w, func(i ssa.Instruction) bool {
			if call, ok := isValveCall(i, "AddTx"); ok {
				addtx = call
				return true
			}
			return false
		}, func(i ssa.Instruction) bool {
			r, ok := i.(*ssa.Return)
			return ok && errIsNilAt(resultValue(r, 1), r) != "nonnil"
		})
		okCount := false
		if addtx != nil {
			okCount = isCountOf(addtx.Call.Args[0], w)
		}
		c.Check(miss == nil && addtx != nil && okCount, rule, construct, c.at(w), "every success return after this write passes AddTx(int64(n)) with n the write's count",
			fmt.Sprintf("a success return is reachable without metering (%v) or the metered value is not this write's count (%v): sent bytes are not charged", miss != nil, !okCount))
	}
	if len(writes) == 0 {
		c.Undecided(rule, "conn.Write sites in switchboard.send", c.atFn(send), "none found")
	}
	// AddTx is not reachable before/without a write (no double counting of a failed write)
	allInstrs(send, func(i ssa.Instruction) {
		if call, ok := isValveCall(i, "AddTx"); ok {
			fromWrite := false
			for _, w := range writes {
				if isCountOf(call.Call.Args[0], w) {
					fromWrite = true
				}
			}
			c.Check(fromWrite, rule, "AddTx argument is a write count ("+strings.TrimPrefix(c.at(i), "internal/multiplex/")+")", c.at(i), "AddTx(int64(n)), n = conn.Write result", "AddTx is called with "+Expr(call.Call.Args[0])+", not the number of bytes written")
		}
	})
	// deplex
	var rd *ssa.Call
	allInstrs(dp, func(i ssa.Instruction) {
		if call, ok := i.(*ssa.Call); ok && calleeName(&call.Call) == "(net.Conn).Read" {
			rd = call
		}
	})
	if rd == nil {
		c.Undecided(rule, "conn.Read in deplex", c.atFn(dp), "not found")
		return
	}
	var addrx *ssa.Call
	miss := forwardSearch(rd, func(i ssa.Instruction) bool {
		if call, ok := isValveCall(i, "AddRx"); ok {
			addrx = call
			return true
		}
		return false
	}, func(i ssa.Instruction) bool {
		if _, ok := i.(*ssa.Return); ok {
			return true
		}
		cc := callCommon(i)
		return cc != nil && isFn(cc.StaticCallee(), "internal/multiplex", "Session.recvDataFromRemote")
	})
	okCount := addrx != nil && isCountOf(addrx.Call.Args[0], rd)
	c.Check(miss == nil && okCount, rule, "AddRx after every read in deplex", c.at(rd), "AddRx(int64(n)) with the read's own n precedes processing and the error return",
		fmt.Sprintf("received bytes can be processed or dropped unmetered (path without AddRx=%v, count is the read's=%v)", miss != nil, okCount))
}

type roleSet struct {
	name  string
	nodes []vnode
	descr []string
}

func c16Roles(c *Ctx, rule string) (up, down *roleSet) {
	p := c.P
	up, down = &roleSet{name: "UP"}, &roleSet{name: "DOWN"}
	addF := func(rs *roleSet, rel, typ, f string) {
		fv := p.Field(rel, typ, f)
		if fv == nil {
			c.Undecided(rule, "anchor "+typ+"."+f, "-", "role field not found")
			return
		}
		rs.nodes = append(rs.nodes, fieldNode{fv})
		rs.descr = append(rs.descr, typ+"."+f)
	}
	mx, sv := "internal/multiplex", "internal/server"
	addF(up, mx, "LimitedValve", "rx")
	addF(up, mx, "LimitedValve", "rxtb")
	addF(down, mx, "LimitedValve", "tx")
	addF(down, mx, "LimitedValve", "txtb")
	addF(up, sv, "usagePair", "up")
	addF(down, sv, "usagePair", "down")
	addF(up, umRel, "StatusUpdate", "UpUsage")
	addF(down, umRel, "StatusUpdate", "DownUsage")
	addF(up, umRel, "UserInfo", "UpCredit")
	addF(up, umRel, "UserInfo", "UpRate")
	addF(down, umRel, "UserInfo", "DownCredit")
	addF(down, umRel, "UserInfo", "DownRate")
	for _, k := range []string{"UpCredit", "UpRate"} {
		up.nodes = append(up.nodes, dbKeyNode{k})
		up.descr = append(up.descr, "db["+k+"]")
	}
	for _, k := range []string{"DownCredit", "DownRate"} {
		down.nodes = append(down.nodes, dbKeyNode{k})
		down.descr = append(down.descr, "db["+k+"]")
	}
	if mv := p.Func(mx, "MakeValve"); mv != nil && len(mv.Params) == 2 {
		up.nodes = append(up.nodes, mv.Params[0])
		down.nodes = append(down.nodes, mv.Params[1])
		up.descr = append(up.descr, "MakeValve#0")
		down.descr = append(down.descr, "MakeValve#1")
	}
	for _, impl := range []string{"LimitedValve.Nullify"} {
		if f := p.Func(mx, impl); f != nil {
			up.nodes = append(up.nodes, retNode{f, 0, nil})
			down.nodes = append(down.nodes, retNode{f, 1, nil})
			up.descr = append(up.descr, "Nullify#0")
			down.descr = append(down.descr, "Nullify#1")
		}
	}
	if f := p.Func(umRel, "localManager.AuthenticateUser"); f != nil {
		up.nodes = append(up.nodes, retNode{f, 0, nil})
		down.nodes = append(down.nodes, retNode{f, 1, nil})
		up.descr = append(up.descr, "AuthenticateUser#0")
		down.descr = append(down.descr, "AuthenticateUser#1")
	}
	return
}

func c16R2(c *Ctx, rule string) {
	c.Rule(rule, "role separation: no value flow between upload locations {rx, rxtb, usagePair.up, UpUsage, db[UpCredit], db[UpRate], MakeValve#0, Nullify#0, AuthenticateUser#0} and their download mirrors; each chain is connected end to end; AddRx feeds rx, AddTx feeds tx", 8)
	p := c.P
	g := p.VFlow()
	up, down := c16Roles(c, rule)
	cross := func(from, to *roleSet) {
		for k, src := range from.nodes {
			reach := g.Reach(src)
			var hits []string
			for j, dst := range to.nodes {
				if reach[dst] {
					hits = append(hits, to.descr[j]+" via "+strings.Join(g.Path(dst, map[vnode]bool{src: true}), " → "))
				}
			}
			construct := fmt.Sprintf("no flow %s %s → any %s location", from.name, from.descr[k], to.name)
			c.Check(len(hits) == 0, rule, construct, "-", "unreachable", "upload/download mix-up: "+strings.Join(hits, " ; "))
		}
	}
	cross(up, down)
	cross(down, up)
	// chain connectivity
	mx := "internal/multiplex"
	chain := func(name string, steps ...vnode) {
		for k := 0; k+1 < len(steps); k++ {
			if steps[k] == nil || steps[k+1] == nil {
				c.Undecided(rule, name+" chain step "+fmt.Sprint(k), "-", "anchor missing")
				return
			}
			ok := g.Reach(steps[k])[steps[k+1]]
			c.Check(ok, rule, fmt.Sprintf("%s chain: %s → %s", name, nodeString(steps[k]), nodeString(steps[k+1])), "-", "connected", "the usage chain is broken here: traffic in this direction is never charged to the stored credit")
		}
	}
	fn := func(rel, typ, f string) vnode {
		if fv := p.Field(rel, typ, f); fv != nil {
			return fieldNode{fv}
		}
		return nil
	}
	var addRxP, addTxP vnode
	if f := p.Func(mx, "LimitedValve.AddRx"); f != nil {
		addRxP = f.Params[1]
	}
	if f := p.Func(mx, "LimitedValve.AddTx"); f != nil {
		addTxP = f.Params[1]
	}
	chain("upload", addRxP, fn(mx, "LimitedValve", "rx"), fn("internal/server", "usagePair", "up"), fn(umRel, "StatusUpdate", "UpUsage"), dbKeyNode{"UpCredit"})
	chain("download", addTxP, fn(mx, "LimitedValve", "tx"), fn("internal/server", "usagePair", "down"), fn(umRel, "StatusUpdate", "DownUsage"), dbKeyNode{"DownCredit"})
	// credit arithmetic: new = old(same key) - usage
	if us := p.Func(umRel, "localManager.UploadStatus"); us != nil {
		for _, f := range us.AnonFuncs {
			allInstrs(f, func(i ssa.Instruction) {
				call, ok := i.(*ssa.Call)
				if !ok || !strings.HasSuffix(calleeName(&call.Call), "bbolt.Bucket).Put") {
					return
				}
				key, _ := strConst(call.Call.Args[1])
				enc, ok := call.Call.Args[2].(*ssa.Call)
				good := false
				d := ""
				if ok && len(enc.Call.Args) == 1 {
					if bo, ok := stripConv(enc.Call.Args[0]).(*ssa.BinOp); ok && bo.Op == token.SUB {
						oldKey := getKeyOf(p, bo.X)
						usage, _ := loadedField(bo.Y)
						want := map[string]string{"UpCredit": "UpUsage", "DownCredit": "DownUsage"}[key]
						good = oldKey == key && usage != nil && usage.Name() == want
						d = fmt.Sprintf("%s ← old(%s) − %v", key, oldKey, usage)
					}
				}
				c.Check(good, rule, "credit arithmetic for "+key, c.at(i), d, "stored "+key+" is not old("+key+") minus the same-direction usage: "+d)
			})
		}
	}
}

func c16R3(c *Ctx, rule string) {
	c.Rule(rule, "collect-once: Nullify swaps both counters to zero atomically and is called only by the queue-update functions; queue accumulate/insert and commit's snapshot+reset are each one usageUpdateQueueM section", 5)
	a := getSrvAnchors(c, rule)
	if a == nil {
		return
	}
	p := c.P
	ls := p.Locksets()
	if nf := c.need(rule, "internal/multiplex", "LimitedValve.Nullify"); nf != nil {
		swaps := 0
		bad := false
		allInstrs(nf, func(i ssa.Instruction) {
			if call, ok := i.(*ssa.Call); ok {
				switch calleeName(&call.Call) {
				case "sync/atomic.SwapInt64":
					if k, isK := intConst(call.Call.Args[1]); isK && k == 0 {
						swaps++
					}
				case "sync/atomic.LoadInt64", "sync/atomic.StoreInt64":
					bad = true
				}
			}
		})
		c.Check(swaps == 2 && !bad, rule, "Nullify is swap-to-zero for both counters", c.atFn(nf), "2× atomic.SwapInt64(…, 0)", "usage is collected by load-then-store (bytes counted in between are lost or charged twice)")
		callersOK := true
		var who []string
		for _, impl := range []string{"LimitedValve.Nullify", "UnlimitedValve.Nullify"} {
			if f := p.Func("internal/multiplex", impl); f != nil {
				work := []*ssa.Function{f}
				seenW := map[*ssa.Function]bool{f: true}
				for len(work) > 0 {
					g := work[0]
					work = work[1:]
					for _, cs := range p.CallersOf(g) {
						if strings.HasSuffix(p.Pos(cs.Pos()), "_test.go") {
							continue
						}
						if w := cs.Parent(); w.Synthetic != "" {
							// promoted-method wrapper of Session/SessionConfig: look at who calls the wrapper
							if !seenW[w] {
								seenW[w] = true
								work = append(work, w)
							}
							continue
						}
						n := shortFn(cs.Parent())
						who = append(who, n)
						if !strings.Contains(n, "updateUsageQueue") {
							callersOK = false
						}
					}
				}
			}
		}
		sort.Strings(who)
		who = dedupStrings(who)
		c.Check(callersOK && len(who) > 0, rule, "Nullify called only by the queue-update functions", c.atFn(nf), strings.Join(who, ", "), "usage is drained by "+strings.Join(who, ", ")+": bytes collected elsewhere never reach the queue")
	}
	CheckGuardedBy(c, ls, GuardSpec{Rule: rule, Rel: "internal/server", Type: "userPanel", Fields: []string{"usageUpdateQueue"}, LockChain: []string{a.usageUpdateQueueM.Name()}})
	// accumulation reaches the queue: when the user is already queued, the drained bytes are added *to the entry the
	// map holds* — through the pointer the map stores, or by storing the updated value back. Adding to a copy of a
	// value-typed entry loses them (Nullify has already zeroed the valve).
	for _, name := range []string{"userPanel.updateUsageQueue", "userPanel.updateUsageQueueForOne"} {
		f := p.Func("internal/server", name)
		if f == nil {
			continue
		}
		p.unitInstrs(f, func(i ssa.Instruction) {
			lk, ok := i.(*ssa.Lookup)
			if !ok || !lk.CommaOk {
				return
			}
			if fv, _ := loadedField(lk.X); fv != a.usageUpdateQueue {
				return
			}
			construct := "usage of an already queued user is added to the map's entry in " + shortFn(p.ownerAnchor(i.Parent()))
			mt, _ := lk.X.Type().Underlying().(*types.Map)
			if mt == nil {
				return
			}
			if _, isPtr := mt.Elem().Underlying().(*types.Pointer); isPtr {
				c.OK(rule, construct, c.at(i), "the map stores pointers: updates through the looked-up pointer are updates of the entry")
				return
			}
			// value-typed entries: the found branch must store back
			var okEdge ssa.Instruction
			for _, r := range *lk.Referrers() {
				if ex, isEx := r.(*ssa.Extract); isEx && ex.Index == 1 {
					for _, rr := range *ex.Referrers() {
						if iff, isIf := rr.(*ssa.If); isIf {
							okEdge = iff
						}
					}
				}
			}
			stored := false
			if okEdge != nil {
				tb := okEdge.Block().Succs[0]
				for _, in := range tb.Instrs {
					if mu, isMU := in.(*ssa.MapUpdate); isMU {
						if fv, _ := loadedField(mu.Map); fv == a.usageUpdateQueue {
							stored = true
						}
					}
				}
				if !stored {
					// anywhere dominated by the found edge
					allInstrs(i.Parent(), func(j ssa.Instruction) {
						if mu, isMU := j.(*ssa.MapUpdate); isMU && tb.Dominates(j.Block()) {
							if fv, _ := loadedField(mu.Map); fv == a.usageUpdateQueue {
								stored = true
							}
						}
					})
				}
			}
			c.Check(stored, rule, construct, c.at(i), "value-typed entry stored back on the found path", "the queue holds values, and on the 'already queued' path the updated value is never stored back into the map: the bytes just drained from the valve are lost")
		})
	}
	// commitUpdate: the range (snapshot) and the reset store are in one section
	if cu := c.need(rule, "internal/server", "userPanel.commitUpdate"); cu != nil {
		var rng, reset ssa.Instruction
		allInstrs(cu, func(i ssa.Instruction) {
			if r, ok := i.(*ssa.Range); ok {
				if fv, _ := loadedField(r.X); fv == a.usageUpdateQueue {
					rng = i
				}
			}
			if st, ok := i.(*ssa.Store); ok {
				if fv, _ := fieldVar(st.Addr); fv == a.usageUpdateQueue {
					reset = i
				}
			}
		})
		ok := rng != nil && reset != nil && instrDominates(rng, reset) && onPathBetween(rng, reset, unlockOf(a.usageUpdateQueueM)) == nil
		c.Check(ok, rule, "commitUpdate snapshots and resets the queue in one section", c.atFn(cu), "range over the queue and queue = make(...) with no unlock in between", "the queue is reset in a different critical section than the snapshot: usage added in between is lost, or the same usage is sent twice")
	}
}

func c16R4(c *Ctx, rule string) {
	c.Rule(rule, "right user: the queue entry is filed under arrUID of the user whose valve was drained; StatusUpdate.UID is the queue key; UploadStatus opens the bucket of status.UID", 4)
	a := getSrvAnchors(c, rule)
	if a == nil {
		return
	}
	p := c.P
	for _, name := range []string{"userPanel.updateUsageQueue", "userPanel.updateUsageQueueForOne"} {
		f := c.need(rule, "internal/server", name)
		if f == nil {
			continue
		}
		var nul *ssa.Call
		allInstrs(f, func(i ssa.Instruction) {
			if call, ok := i.(*ssa.Call); ok && call.Call.IsInvoke() && call.Call.Method.Name() == curName("internal/multiplex", "LimitedValve.Nullify") {
				nul = call
			}
		})
		if nul == nil {
			c.Bad(rule, "drain+file in "+shortFn(f), c.atFn(f), "does not drain a valve")
			continue
		}
		_, userBase := loadedField(nul.Call.Value) // user.valve → base = user
		okAll := true
		n := 0
		// the filing may live in a helper split off from this function (enqueueUsageLocked(arrUID, up, down)):
		// search the unit and map the helper's key parameter back to the argument passed
		p.unitInstrs(f, func(i ssa.Instruction) {
			var key ssa.Value
			switch x := i.(type) {
			case *ssa.Lookup:
				if fv, _ := loadedField(x.X); fv == a.usageUpdateQueue {
					key = x.Index
				}
			case *ssa.MapUpdate:
				if fv, _ := loadedField(x.Map); fv == a.usageUpdateQueue {
					key = x.Key
				}
			}
			if key == nil {
				return
			}
			n++
			fv, base := loadedField(p.canonIn(f, stripConv(key)))
			if !isField(fv, "internal/server", "ActiveUser", "arrUID") || base != userBase {
				okAll = false
			}
		})
		c.Check(okAll && n > 0, rule, "drain+file in "+shortFn(f), c.at(nul), "queue keyed by arrUID of the user whose valve was drained", "usage drained from one user's valve is filed under another key")
	}
	if cu := p.Func("internal/server", "userPanel.commitUpdate"); cu != nil {
		uidF := p.Field(umRel, "StatusUpdate", "UID")
		ok := false
		allInstrs(cu, func(i ssa.Instruction) {
			if st, isSt := i.(*ssa.Store); isSt {
				if fv, _ := fieldVar(st.Addr); fv == uidF {
					// value: slice of the range key copy
					if strings.Contains(Expr(st.Val), "arrUID") {
						ok = true
					}
				}
			}
		})
		c.Check(ok, rule, "StatusUpdate.UID is the queue key", c.atFn(cu), "UID: arrUID[:] of the ranged entry", "the status is not labelled with the queue key")
	}
	if us := p.Func(umRel, "localManager.UploadStatus"); us != nil {
		ok := false
		for _, f := range us.AnonFuncs {
			allInstrs(f, func(i ssa.Instruction) {
				if call, isC := i.(*ssa.Call); isC && strings.HasSuffix(calleeName(&call.Call), "bbolt.Tx).Bucket") {
					if fv, _ := loadedField(call.Call.Args[1]); fv != nil && fv.Name() == "UID" {
						ok = true
					}
					if f2, ok2 := call.Call.Args[1].(*ssa.Field); ok2 {
						if fv, _ := fieldVar(f2); fv != nil && fv.Name() == "UID" {
							ok = true
						}
					}
				}
			})
		}
		c.Check(ok, rule, "UploadStatus charges the bucket of status.UID", c.atFn(us), "tx.Bucket(status.UID)", "the credit of a different record is charged")
	}
}

func c16R5(c *Ctx, rule string) {
	c.Rule(rule, "verdicts and cut-off: TERMINATE for missing bucket / credit<=0 (both) / expiry; TERMINATE for an active user ⇒ TerminateActiveUser ⇒ queue flush, closeAllSessions (closes every session), delete", 7)
	p := c.P
	term, okT := p.Const(umRel, "TERMINATE")
	us := c.need(rule, umRel, "localManager.UploadStatus")
	if us == nil || !okT {
		c.Undecided(rule, "anchor UploadStatus / TERMINATE", "-", "not found")
		return
	}
	actionF := p.Field(umRel, "StatusResponse", "Action")
	// collect guards of every store Action=TERMINATE
	seen := map[string]bool{}
	for _, f := range nestedAnon(us) {
		allInstrs(f, func(i ssa.Instruction) {
			st, ok := i.(*ssa.Store)
			if !ok {
				return
			}
			if fv, _ := fieldVar(st.Addr); fv != actionF {
				return
			}
			if k, isK := intConst(st.Val); !isK || k != term {
				return
			}
			for _, at := range atomsWithCallSites(p, i, 0) {
				s := at.String()
				switch {
				case at.Kind == "cmp" && at.Op == token.EQL && strings.Contains(s, "Bucket(") && strings.Contains(s, "nil"):
					seen["bucket missing"] = true
				case at.Kind == "cmp" && at.Op == token.LEQ && isZero(at.Y) && strings.Contains(s, "UpUsage"):
					seen["newUp <= 0"] = true
				case at.Kind == "cmp" && at.Op == token.LEQ && isZero(at.Y) && strings.Contains(s, "DownUsage"):
					seen["newDown <= 0"] = true
				case at.Kind == "cmp" && at.Op == token.LSS && strings.Contains(s, "ExpiryTime") && strings.Contains(s, "Unix"):
					seen["now > expiry"] = true
				}
			}
		})
	}
	for _, want := range []string{"bucket missing", "newUp <= 0", "newDown <= 0", "now > expiry"} {
		c.Check(seen[want], rule, "TERMINATE verdict when "+want, c.atFn(us), "a StatusResponse{Action: TERMINATE} is appended under this condition", "no TERMINATE verdict is produced when "+want+": the user keeps its sessions")
	}
	// commitUpdate → TerminateActiveUser under Action == TERMINATE and user != nil
	tau := p.Func("internal/server", "userPanel.TerminateActiveUser")
	cu := p.Func("internal/server", "userPanel.commitUpdate")
	if tau == nil || cu == nil {
		c.Undecided(rule, "anchor commitUpdate/TerminateActiveUser", "-", "not found")
		return
	}
	called := false
	for _, call := range callsIn(cu, fnName(tau)) {
		// must NOT be additionally conditioned on anything but Action==TERMINATE and user != nil
		extra := []string{}
		okAct := false
		for _, at := range AtomsAt(call) {
			s := at.String()
			switch {
			case strings.Contains(s, "Action") && at.Kind == "cmp" && at.Op == token.EQL:
				okAct = true
			case at.Kind == "cmp" && (at.Op == token.NEQ || at.Op == token.EQL) && (isNilConst(at.X) || isNilConst(at.Y)):
				// user != nil, err == nil
			case strings.Contains(s, "len("):
			case strings.Contains(s, "next(") || at.Kind == "ok":
			default:
				extra = append(extra, s)
			}
		}
		called = called || (okAct && len(extra) == 0)
		c.Check(okAct && len(extra) == 0, rule, "TERMINATE response ⇒ TerminateActiveUser", c.at(call), "called for every response with Action==TERMINATE whose user is active", fmt.Sprintf("termination is conditioned on more than the verdict: %v (Action test=%v)", extra, okAct))
	}
	if !called && len(callsIn(cu, fnName(tau))) == 0 {
		c.Bad(rule, "TERMINATE response ⇒ TerminateActiveUser", c.atFn(cu), "commitUpdate never terminates a user: exhausted or expired users keep their sessions")
	}
	// TerminateActiveUser must-pass
	for _, step := range []string{"updateUsageQueueForOne", "closeAllSessions"} {
		miss := entrySearch(tau, func(i ssa.Instruction) bool {
			cc := callCommon(i)
			return cc != nil && cc.StaticCallee() != nil && cc.StaticCallee().Name() == step
		}, func(i ssa.Instruction) bool { _, ok := i.(*ssa.Return); return ok })
		c.Check(miss == nil, rule, "TerminateActiveUser passes "+step+" on every path", c.atFn(tau), "must-pass", "a path through TerminateActiveUser skips "+step)
	}
	if cas := p.Func("internal/server", "ActiveUser.closeAllSessions"); cas != nil {
		inRange := false
		allInstrs(cas, func(i ssa.Instruction) {
			if isCall(i, "(*internal/multiplex.Session).Close") {
				for _, b := range cas.Blocks {
					for _, in := range b.Instrs {
						if r, ok := in.(*ssa.Range); ok && instrDominates(in, i) {
							if fv, _ := loadedField(r.X); isField(fv, "internal/server", "ActiveUser", "sessions") {
								inRange = true
							}
						}
					}
				}
			}
		})
		c.Check(inRange, rule, "closeAllSessions closes every session of the user", c.atFn(cas), "Session.Close() inside range u.sessions", "not every session is closed on termination")
	}
	// both Puts happen in the same db.Update closure as the reads
	sameTx := true
	for _, f := range us.AnonFuncs {
		gets, puts := 0, 0
		allInstrs(f, func(i ssa.Instruction) {
			n := calleeName(callCommon(i))
			if strings.HasSuffix(n, "bbolt.Bucket).Get") {
				gets++
			}
			if strings.HasSuffix(n, "bbolt.Bucket).Put") {
				puts++
			}
		})
		if puts > 0 && gets == 0 {
			sameTx = false
		}
	}
	c.Check(sameTx && len(callsIn(us, "(*go.etcd.io/bbolt.DB).Update")) == 1, rule, "credit read-modify-write in one transaction", c.atFn(us), "Gets and Puts share the db.Update closure", "credit is read in one transaction and written in another")
	// both directions are charged for every status of an existing user: from the bucket lookup, every path to the next
	// iteration (or the return) on which the bucket exists passes Put("UpCredit") and Put("DownCredit")
	keyOf := func(v ssa.Value) string {
		if cv, ok := v.(*ssa.Convert); ok {
			v = cv.X
		}
		s, _ := strConst(v)
		return s
	}
	for _, f := range us.AnonFuncs {
		var lookup *ssa.Call
		allInstrs(f, func(i ssa.Instruction) {
			if call, ok := i.(*ssa.Call); ok && strings.HasSuffix(calleeName(&call.Call), "bbolt.Tx).Bucket") && lookup == nil {
				lookup = call
			}
		})
		if lookup == nil {
			continue
		}
		for _, key := range []string{"UpCredit", "DownCredit"} {
			k := key
			isPut := func(i ssa.Instruction) bool {
				call, ok := i.(*ssa.Call)
				return ok && strings.HasSuffix(calleeName(&call.Call), "bbolt.Bucket).Put") && len(call.Call.Args) >= 3 && keyOf(call.Call.Args[1]) == k
			}
			miss := edgeSearch(f, lookup, func(a Atom) bool {
				// the "user no longer exists" edge
				return a.Kind == "cmp" && a.Op == token.EQL && ((a.X == ssa.Value(lookup) && isNilConst(a.Y)) || (a.Y == ssa.Value(lookup) && isNilConst(a.X)))
			}, isPut, func(i ssa.Instruction) bool {
				_, isRet := i.(*ssa.Return)
				return isRet || i == ssa.Instruction(lookup)
			})
			where := ""
			if miss != nil {
				where = c.at(miss)
			}
			c.Check(miss == nil, rule, "every status of an existing user is charged to "+k, c.at(lookup), "every path from the bucket lookup to the next status passes Put("+k+")",
				"a path from the bucket lookup reaches "+where+" (next status / return) without Put(\""+k+"\"): that interval's usage in this direction is never charged (the panel's counters are already reset)")
		}
	}
}

func isZero(v ssa.Value) bool {
	k, ok := intConst(v)
	return ok && k == 0
}

var _ = types.Typ
