package main

import (
	"fmt"
	"go/constant"
	"go/token"
	"go/types"
	"os"
	"strings"

	"golang.org/x/tools/go/ssa"
)

func init() {
	register(&PropDef{
		ID: "C09", Title: "unauthenticated peers see only the redirect target, byte for byte",
		Run:       runC09,
		Technique: "static analysis: local offset/count pairing of every read of the first packet (value identity on SSA), dominance for redirect-before-return on every rejection branch, who-may-write on the peer connection, panic-safety = compiler's unproven-bounds-check list ∩ functions reachable before authentication minus recover frames minus a frozen table of validated justifications, deadline dominance",
		Decided: "(b) every read of the first packet lands at the current offset and the offset handed on (to the next read or to the caller) is that offset plus that read's own count, on every path including error and short-buffer returns; " +
			"(c) the redirect writes exactly buf[:consumed] to the target first and then starts both copy directions with swapped arguments; (d) every return of the dispatcher that is not behind the handshake reply is dominated by the redirect (or, only when the reader said so, a close), and nothing reachable before the reply writes to the peer's connection; " +
			"(e) every instruction that can panic and is reachable before authentication is under a recover frame on every call chain, proven in bounds by the compiler, or individually justified with a re-validated structural reason; (f) the first read is preceded by a read deadline that is reset by a defer.",
		NotDecided:  "(a) what the target answers and the byte equality itself; that net/http.ReadRequest and other library code never panic (not followed); liveness of the relay; the dial-failure path (target fault, not a peer input).",
		Assumptions: []string{"io.ReadFull returns n == len(buf) when err == nil", "the Go compiler's prove pass is sound (a bounds check it removed cannot fail)"},
	})
}

func runC09(c *Ctx) {
	c09R1(c, "C09.R1")
	c09R2(c, "C09.R2")
	c09R3(c, "C09.R3")
	c09R4(c, "C09.R4")
	c09R5(c, "C09.R5")
	// every unauthenticated peer is relayed — also the ones after a replayed hello: the replay memory's lock is
	// released on every path (a leaked lock parks all later connections before the redirect)
	c.importing = "C08"
	c08R1(c, "C08.R1")
	c.importing = ""
}

// readLike: calls that fill a sub-slice of the first-packet buffer and report a count.
func readLikeDest(p *Prog, call *ssa.Call) (dst *ssa.Slice, ok bool) {
	n := strings.ReplaceAll(calleeName(&call.Call), modPath+"/", "")
	switch n {
	case "io.ReadFull", "io.ReadAtLeast", "internal/server.connReadLine":
		if sl, isSl := call.Call.Args[1].(*ssa.Slice); isSl {
			return sl, true
		}
	}
	return nil, false
}

// derivesFromSum: v is (off + cnt), or a φ one of whose edges is, or (for ignored counts) the constant k.
func derivesFromSum(v ssa.Value, off ssa.Value, cnt ssa.Value, constSum int64, seen map[ssa.Value]bool) bool {
	v = stripConv(v)
	if seen[v] {
		return false
	}
	seen[v] = true
	if cnt == nil {
		if k, ok := intConst(v); ok && k == constSum {
			return true
		}
	}
	if bo, ok := v.(*ssa.BinOp); ok && bo.Op == token.ADD && cnt != nil {
		if (sameOff(bo.X, off) && bo.Y == cnt) || (sameOff(bo.Y, off) && bo.X == cnt) {
			return true
		}
	}
	if ph, ok := v.(*ssa.Phi); ok {
		for _, e := range ph.Edges {
			if derivesFromSum(e, off, cnt, constSum, seen) {
				return true
			}
		}
	}
	return false
}

func sameOff(a, b ssa.Value) bool {
	if a == nil || b == nil {
		ka, oka := intConst(orZero(a))
		kb, okb := intConst(orZero(b))
		return oka && okb && ka == kb
	}
	if sameValue(a, b) {
		return true
	}
	// a = c + n where n is the count of an io.ReadFull into a constant-length slice [lo:hi) and b is the
	// constant c + (hi-lo): equal whenever that ReadFull succeeded (contract: err == nil ⇒ n == len)
	kb, okb := intConst(b)
	x := a
	if !okb {
		kb, okb = intConst(a)
		x = b
	}
	if !okb {
		return false
	}
	bo, ok := stripConv(x).(*ssa.BinOp)
	if !ok || bo.Op != token.ADD {
		return false
	}
	for _, pair := range [][2]ssa.Value{{bo.X, bo.Y}, {bo.Y, bo.X}} {
		c0, isK := intConst(pair[0])
		ex, isEx := pair[1].(*ssa.Extract)
		if !isK || !isEx || ex.Index != 0 {
			continue
		}
		call, isCall := ex.Tuple.(*ssa.Call)
		if !isCall || calleeName(&call.Call) != "io.ReadFull" {
			continue
		}
		sl, isSl := call.Call.Args[1].(*ssa.Slice)
		if !isSl || sl.High == nil {
			continue
		}
		lo := int64(0)
		if sl.Low != nil {
			l, isL := intConst(sl.Low)
			if !isL {
				continue
			}
			lo = l
		}
		hi, isH := intConst(sl.High)
		if isH && c0 == lo && hi == kb {
			return true
		}
	}
	return false
}

// fullReadEnd: for an io.ReadFull into a constant slice [lo:hi) returns hi (the offset after a successful read).
func fullReadEnd(call *ssa.Call) (int64, bool) {
	if calleeName(&call.Call) != "io.ReadFull" {
		return 0, false
	}
	sl, ok := call.Call.Args[1].(*ssa.Slice)
	if !ok || sl.High == nil {
		return 0, false
	}
	return intConst(sl.High)
}

// guardedByNilErrOf: instruction at executes only when the error result of call was nil.
func guardedByNilErrOf(at ssa.Instruction, call *ssa.Call) bool {
	errV := extractOf(call, 1)
	if errV == nil {
		return false
	}
	for _, a := range AtomsAt(at) {
		if a.Kind == "cmp" && a.Op == token.EQL && (a.X == errV || a.Y == errV) && (isNilConst(a.X) || isNilConst(a.Y)) {
			return true
		}
	}
	return false
}

func orZero(v ssa.Value) ssa.Value {
	if v == nil {
		return ssa.NewConst(constant.MakeInt64(0), types.Typ[types.Int])
	}
	return v
}

func c09R1(c *Ctx, rule string) {
	c.Rule(rule, "consumed-count pairing: each read of the first packet starts at the current offset; the offset used next (next read's low bound, or the count returned) is that offset + that read's own count on every path", 4)
	p := c.P
	rfp := c.need(rule, "internal/server", "readFirstPacket")
	crl := c.need(rule, "internal/server", "connReadLine")
	if rfp == nil || crl == nil {
		return
	}
	var reads []*ssa.Call
	allInstrs(rfp, func(i ssa.Instruction) {
		if call, ok := i.(*ssa.Call); ok {
			if _, isR := readLikeDest(p, call); isR {
				reads = append(reads, call)
			}
		}
	})
	if len(reads) < 3 {
		c.Undecided(rule, "reads in readFirstPacket", c.atFn(rfp), fmt.Sprintf("found %d read calls, expected the probe byte, the record header/body and the line reader", len(reads)))
	}
	isRead := func(i ssa.Instruction) bool {
		for _, r := range reads {
			if i == ssa.Instruction(r) {
				return true
			}
		}
		return false
	}
	for _, rd := range reads {
		dst, _ := readLikeDest(p, rd)
		off := dst.Low // nil = 0
		cnt := extractOf(rd, 0)
		if cnt != nil && len(*cnt.Referrers()) == 0 {
			cnt = nil // `_, err := io.ReadFull(...)`: the count is discarded
		}
		constSum := int64(-1)
		if cnt == nil {
			// count ignored: only sound for a full read of a constant-length slice starting at a constant
			lo := int64(0)
			if off != nil {
				lo, _ = intConst(off)
			}
			if dst.High != nil {
				if hi, ok := intConst(dst.High); ok {
					constSum = hi
					_ = lo
				}
			}
		}
		construct := "read into " + Expr(dst) + " in readFirstPacket"
		bad := ""
		// explore forward from the read to the next read or return; φ-nodes are resolved along the path taken
		// (a loop-head φ stands for "offset + count of the previous iteration" only when entered via the back edge)
		type edgeKey struct{ from, to *ssa.BasicBlock }
		var visit func(b *ssa.BasicBlock, idx int, env map[*ssa.BasicBlock]*ssa.BasicBlock, seen map[edgeKey]bool)
		resolve := func(v ssa.Value, env map[*ssa.BasicBlock]*ssa.BasicBlock) ssa.Value {
			for n := 0; n < 8; n++ {
				ph, ok := stripConv(v).(*ssa.Phi)
				if !ok {
					return v
				}
				pred, has := env[ph.Block()]
				if !has {
					return v
				}
				found := false
				for k, pb := range ph.Block().Preds {
					if pb == pred {
						v = ph.Edges[k]
						found = true
						break
					}
				}
				if !found {
					return v
				}
			}
			return v
		}
		strictSum := func(v ssa.Value) bool {
			v = stripConv(v)
			if _, isPhi := v.(*ssa.Phi); isPhi {
				return false
			}
			return derivesFromSum(v, off, cnt, constSum, map[ssa.Value]bool{})
		}
		visit = func(b *ssa.BasicBlock, idx int, env map[*ssa.BasicBlock]*ssa.BasicBlock, seen map[edgeKey]bool) {
			for k := idx; k < len(b.Instrs); k++ {
				in := b.Instrs[k]
				if r, isRet := in.(*ssa.Return); isRet {
					v := resolve(resultValue(r, 0), env)
					okV := strictSum(v)
					// the very first read failing may report 0 consumed bytes
					if !okV && rd == reads[0] {
						if kk, isK := intConst(v); isK && kk == 0 && errIsNilAt(resolve(resultValue(r, 3), env), r) == "nonnil" {
							okV = true
						}
					}
					if !okV && bad == "" {
						bad = fmt.Sprintf("the return at %s reports %s consumed bytes, which is not (offset %s + this read's count): the redirect target would get a prefix that differs from what was taken off the socket", c.at(r), Expr(v), Expr(orZero(off)))
					}
					return
				}
				if isRead(in) {
					if in == ssa.Instruction(rd) && k == idx && b == rd.Block() && len(env) == 0 {
						continue
					}
					d2, _ := readLikeDest(p, in.(*ssa.Call))
					var lo2 ssa.Value = d2.Low
					if lo2 == nil {
						lo2 = ssa.NewConst(constant.MakeInt64(0), types.Typ[types.Int])
					}
					lo2 = resolve(lo2, env)
					okNext := strictSum(lo2)
					if !okNext {
						// constant start equal to the end of this full read, reached only when this read succeeded
						if end, isFull := fullReadEnd(rd); isFull {
							if k2, isK2 := intConst(lo2); isK2 && k2 == end && guardedByNilErrOf(in, rd) {
								okNext = true
							}
						}
					}
					if !okNext && bad == "" {
						bad = fmt.Sprintf("the next read at %s starts at %s, not at (offset + count) of this read: bytes are overwritten or skipped", c.at(in), Expr(lo2))
					}
					return
				}
			}
			for _, s := range b.Succs {
				ek := edgeKey{b, s}
				if seen[ek] || isRecoverBlock(s) {
					continue
				}
				seen[ek] = true
				env2 := map[*ssa.BasicBlock]*ssa.BasicBlock{}
				for kk, vv := range env {
					env2[kk] = vv
				}
				env2[s] = b
				visit(s, 0, env2, seen)
			}
		}
		visit(rd.Block(), instrIndex(rd)+1, map[*ssa.BasicBlock]*ssa.BasicBlock{}, map[edgeKey]bool{})
		if bad != "" {
			c.Bad(rule, construct, c.at(rd), bad)
		} else {
			c.OK(rule, construct, c.at(rd), "every path to the next read or return carries offset+count")
		}
	}
	// connReadLine: byte i is read into buf[i:i+1]; returns i+1 after '\n', i otherwise
	{
		var rd *ssa.Call
		allInstrs(crl, func(i ssa.Instruction) {
			if call, ok := i.(*ssa.Call); ok && calleeName(&call.Call) == "io.ReadFull" {
				rd = call
			}
		})
		ok := false
		why := "no ReadFull of a single byte"
		if rd != nil {
			sl, isSl := rd.Call.Args[1].(*ssa.Slice)
			if isSl && sl.Low != nil && sl.High != nil {
				ph, isPhi := sl.Low.(*ssa.Phi)
				hi, isAdd := sl.High.(*ssa.BinOp)
				if isPhi && isAdd && hi.Op == token.ADD && hi.X == ssa.Value(ph) && isK(hi.Y, 1) {
					// induction: φ(0, i+1)
					ind := false
					for _, e := range ph.Edges {
						if bo, isB := e.(*ssa.BinOp); isB && bo.Op == token.ADD && bo.X == ssa.Value(ph) && isK(bo.Y, 1) {
							ind = true
						}
					}
					retOK := true
					for _, r := range returnsOf(crl) {
						v := stripConv(resultValue(r, 0))
						errNil := errIsNilAt(resultValue(r, 1), r) != "nonnil"
						if errNil {
							// success: i+1
							bo, isB := v.(*ssa.BinOp)
							if !(isB && bo.Op == token.ADD && bo.X == ssa.Value(ph) && isK(bo.Y, 1)) {
								retOK = false
							}
						} else if v != ssa.Value(ph) {
							retOK = false
						}
					}
					ok = ind && retOK
					why = fmt.Sprintf("induction φ(0,i+1)=%v, returns i+1 on success and i on error=%v", ind, retOK)
				}
			}
		}
		if !ok && rd != nil {
			ok, why = connReadLineAffine(crl, rd)
		}
		c.Check(ok, rule, "connReadLine reads byte i into buf[i:i+1] and reports exactly the bytes consumed", c.atFn(crl), why, "the line reader's count does not equal the bytes it took off the socket: "+why)
	}
}

func c09R2(c *Ctx, rule string) {
	c.Rule(rule, "exact replay then relay: the redirect closure writes data == buf[:consumed] to the target before starting both common.Copy directions with swapped arguments", 2)
	p := c.P
	dc := c.need(rule, "internal/server", "dispatchConnection")
	if dc == nil {
		return
	}
	// data := buf[:i], i = readFirstPacket#0
	var data *ssa.Slice
	allInstrs(dc, func(i ssa.Instruction) {
		if sl, ok := i.(*ssa.Slice); ok && (sl.Low == nil || isK(sl.Low, 0)) && sl.High != nil {
			if ex, isEx := sl.High.(*ssa.Extract); isEx && ex.Index == 0 {
				if call, isC := ex.Tuple.(*ssa.Call); isC && strings.HasSuffix(calleeName(&call.Call), "readFirstPacket") {
					if call.Call.Args[1] == sl.X {
						data = sl
					}
				}
			}
		}
	})
	c.Check(data != nil, rule, "data = buf[:consumed] of the buffer handed to readFirstPacket", c.atFn(dc), "data := buf[:i], i = first result of readFirstPacket", "the replayed prefix is not buf[:count returned by readFirstPacket]")
	// the closure that dials and writes
	var goWeb *ssa.Function
	for _, an := range dc.AnonFuncs {
		if len(callsIn(an, "(internal/common.Dialer).Dial")) > 0 || len(callsInvoke(an, "Dial")) > 0 {
			goWeb = an
		}
	}
	if goWeb == nil {
		// the redirect written in line (a helper function expanded at every rejection site): each dial of the redirect
		// target in dispatchConnection itself is one redirect — same two obligations per dial
		dials := callsInvoke(dc, "Dial")
		if len(dials) == 0 {
			c.Bad(rule, "redirect closure", c.atFn(dc), "no closure of dispatchConnection dials the redirect target")
			return
		}
		okWriteAll, okCopiesAll := true, true
		for _, d := range dials {
			webConn := extractOf(d, 0)
			var wr *ssa.Call
			var copies []*ssa.Go
			allInstrs(dc, func(i ssa.Instruction) {
				if call, ok := i.(*ssa.Call); ok && calleeName(&call.Call) == "(net.Conn).Write" && webConn != nil && call.Call.Value == webConn {
					wr = call
				}
				if g, ok := i.(*ssa.Go); ok && strings.HasSuffix(calleeName(&g.Call), "common.Copy") && webConn != nil {
					for _, a := range g.Call.Args {
						if stripConv(a) == webConn {
							copies = append(copies, g)
						}
					}
				}
			})
			if wr == nil || data == nil || stripConv(wr.Call.Args[0]) != ssa.Value(data) {
				okWriteAll = false
			}
			okc := len(copies) == 2 && wr != nil
			if okc {
				a0, a1 := copies[0].Call.Args, copies[1].Call.Args
				okc = sameValueOrLoad(stripConv(a0[0]), stripConv(a1[1])) && sameValueOrLoad(stripConv(a0[1]), stripConv(a1[0])) && !sameValueOrLoad(stripConv(a0[0]), stripConv(a0[1])) && instrDominates(wr, copies[0]) && instrDominates(wr, copies[1])
			}
			if !okc {
				okCopiesAll = false
			}
		}
		c.Check(okWriteAll, rule, "target receives exactly the consumed prefix first", c.atFn(dc), "webConn.Write(data) after every dial", "the first bytes sent to the redirect target are not the consumed prefix buf[:i]")
		c.Check(okCopiesAll, rule, "both relay directions started after the replay", c.atFn(dc), "go Copy(webConn, conn); go Copy(conn, webConn) after every dial", "the redirect does not start both copy directions (with swapped arguments) after replaying the prefix")
		return
	}
	var wr *ssa.Call
	var copies []*ssa.Go
	allInstrs(goWeb, func(i ssa.Instruction) {
		if call, ok := i.(*ssa.Call); ok && calleeName(&call.Call) == "(net.Conn).Write" {
			wr = call
		}
		if g, ok := i.(*ssa.Go); ok && strings.HasSuffix(calleeName(&g.Call), "common.Copy") {
			copies = append(copies, g)
		}
	})
	okWrite := false
	if wr != nil && data != nil {
		// argument is the free variable bound to `data`
		arg := wr.Call.Args[0]
		if ld, ok := arg.(*ssa.UnOp); ok {
			arg = ld.X
		}
		if fv, ok := arg.(*ssa.FreeVar); ok {
			for _, r := range *ssa.Value(goWeb).Referrers() {
				if mc, isMC := r.(*ssa.MakeClosure); isMC {
					for k, b := range mc.Bindings {
						if goWeb.FreeVars[k] == fv {
							bv := b
							// binding may be the Alloc holding data
							if al, isAl := bv.(*ssa.Alloc); isAl {
								for _, rr := range *al.Referrers() {
									if st, isSt := rr.(*ssa.Store); isSt && st.Val == ssa.Value(data) {
										okWrite = true
									}
								}
							}
							if bv == ssa.Value(data) {
								okWrite = true
							}
						}
					}
				}
			}
		}
	}
	c.Check(okWrite, rule, "target receives exactly the consumed prefix first", c.atFn(goWeb), "webConn.Write(data)", "the first bytes sent to the redirect target are not the consumed prefix buf[:i]")
	okCopies := len(copies) == 2 && wr != nil
	if okCopies {
		a0, a1 := copies[0].Call.Args, copies[1].Call.Args
		okCopies = sameValueOrLoad(a0[0], a1[1]) && sameValueOrLoad(a0[1], a1[0]) && !sameValueOrLoad(a0[0], a0[1]) && instrDominates(wr, copies[0]) && instrDominates(wr, copies[1])
	}
	c.Check(okCopies, rule, "both relay directions started after the replay", c.atFn(goWeb), "go Copy(webConn, conn); go Copy(conn, webConn)", "the redirect does not start both copy directions (with swapped arguments) after replaying the prefix")
	_ = p
}

// mustReach: every path through in-repo function g executes a call that is, or must reach, target (helper wrappers).
func mustReach(p *Prog, g, target *ssa.Function, depth int) bool {
	if g == nil || !p.InRepo(g) || len(g.Blocks) == 0 || depth > 2 {
		return false
	}
	miss := entrySearch(g, func(i ssa.Instruction) bool {
		call, ok := i.(*ssa.Call)
		if !ok {
			return false
		}
		for _, h := range p.Callees(call) {
			if h == target || (h != g && mustReach(p, h, target, depth+1)) {
				return true
			}
		}
		return false
	}, func(i ssa.Instruction) bool { _, isRet := i.(*ssa.Return); return isRet })
	return miss == nil
}

// isResponderCall: dynamic call of a value with the Responder signature.
func isResponderCall(i ssa.Instruction) bool {
	call, ok := i.(*ssa.Call)
	if !ok || call.Call.IsInvoke() || call.Call.StaticCallee() != nil {
		return false
	}
	sig, ok := call.Call.Value.Type().Underlying().(interface{ Params() interface{ Len() int } })
	_ = sig
	return len(call.Call.Args) == 3 && typeStr(call.Call.Args[1].Type()) == "[32]byte"
}

func c09R3(c *Ctx, rule string) {
	c.Rule(rule, "every rejection redirects before any write: each return of dispatchConnection not behind the handshake reply is dominated by goWeb() (or conn.Close() only when the reader asked for it); nothing writes to the peer before the reply", 5)
	p := c.P
	dc := c.need(rule, "internal/server", "dispatchConnection")
	if dc == nil {
		return
	}
	var goWeb *ssa.Function
	for _, an := range dc.AnonFuncs {
		if len(callsInvoke(an, "Dial")) > 0 {
			goWeb = an
		}
	}
	var responders, webCalls, closes []ssa.Instruction
	allInstrs(dc, func(i ssa.Instruction) {
		if isResponderCall(i) {
			responders = append(responders, i)
		}
		if call, ok := i.(*ssa.Call); ok {
			if goWeb != nil {
				for _, g := range p.Callees(call) {
					if g == goWeb || mustReach(p, g, goWeb, 0) {
						webCalls = append(webCalls, i)
					}
				}
			} else if call.Call.IsInvoke() && call.Call.Method.Name() == "Dial" {
				// the redirect written in line: the dial of the redirect target is the redirect
				webCalls = append(webCalls, i)
			}
			if calleeName(&call.Call) == "(net.Conn).Close" {
				recv := call.Call.Value
				if ld, isLd := recv.(*ssa.UnOp); isLd {
					if al, isAl := ld.X.(*ssa.Alloc); isAl && al.Comment == dc.Params[0].Name() {
						recv = dc.Params[0]
					}
				}
				if recv == ssa.Value(dc.Params[0]) {
					closes = append(closes, i)
				}
			}
		}
	})
	if len(responders) == 0 || len(webCalls) == 0 {
		c.Undecided(rule, "responder calls / redirect calls in dispatchConnection", c.atFn(dc), fmt.Sprintf("%d responder calls, %d redirect calls", len(responders), len(webCalls)))
		return
	}
	for _, xp := range exitPointsOf(dc) {
		r := xp.At // the return, or — for a return that only merges several ways out — the jump of one way
		behind := false
		for _, rc := range responders {
			if instrDominates(rc, r) {
				behind = true
			}
		}
		if behind {
			continue
		}
		construct := "rejection return at " + strings.TrimPrefix(c.at(r), "internal/server/")
		// must-pass: every path from entry to this return executes goWeb(), or conn.Close() on the branch where the
		// reader said not to redirect (I/O error before a complete first record)
		isWeb := func(i ssa.Instruction) bool {
			for _, w := range webCalls {
				if w == i {
					return true
				}
			}
			return false
		}
		isAllowedClose := func(i ssa.Instruction) bool {
			for _, cl := range closes {
				if cl != i {
					continue
				}
				for _, at := range AtomsAt(cl) {
					if at.Kind == "bool" && !at.Pol && strings.Contains(Expr(at.X), "readFirstPacket") {
						return true
					}
				}
			}
			return false
		}
		ret := r
		viaWeb := entrySearch(dc, func(i ssa.Instruction) bool { return isWeb(i) }, func(i ssa.Instruction) bool { return i == ssa.Instruction(ret) }) == nil
		viaWebOrClose := entrySearch(dc, func(i ssa.Instruction) bool { return isWeb(i) || isAllowedClose(i) }, func(i ssa.Instruction) bool { return i == ssa.Instruction(ret) }) == nil
		redirected := viaWeb
		closedOnly := !viaWeb && viaWebOrClose
		// named exemption: GetSession error (peer holds valid credentials)
		exempt := false
		for _, at := range xp.Atoms {
			if at.Kind == "cmp" && at.Op == token.NEQ && strings.Contains(at.String(), "GetSession") {
				exempt = true
			}
		}
		switch {
		case redirected:
			c.OK(rule, construct, c.at(r), "dominated by goWeb()")
		case closedOnly:
			c.OK(rule, construct, c.at(r), "closed without redirect only because the reader reported an I/O error before a complete first record (redirOnErr == false)")
		case exempt:
			c.OK(rule, construct, c.at(r), "named exemption: GetSession failed for a peer that presented valid credentials (outside the property's peers)")
		default:
			if os.Getenv("CLOAKCHECK_DEBUG") != "" {
				for _, at := range AtomsAt(r) {
					fmt.Fprintln(os.Stderr, "C09.R3 debug atom:", at.String())
				}
			}
			c.Bad(rule, construct, c.at(r), "a connection that was not accepted as Cloak leaves the dispatcher without being redirected: a prober sees a close instead of the web server")
		}
	}
	// no write to the peer's connection before the reply
	funcs := append([]*ssa.Function{dc}, dc.AnonFuncs...)
	for _, n := range []string{"readFirstPacket", "connReadLine", "AuthFirstPacket"} {
		if f := p.Func("internal/server", n); f != nil {
			funcs = append(funcs, f)
		}
	}
	wrote := ""
	for _, f := range funcs {
		allInstrs(f, func(i ssa.Instruction) {
			call, ok := i.(*ssa.Call)
			if !ok || calleeName(&call.Call) != "(net.Conn).Write" {
				return
			}
			recv := call.Call.Value
			if ld, isLd := recv.(*ssa.UnOp); isLd {
				recv = ld.X
			}
			isPeer := false
			if len(f.Params) > 0 && recv == ssa.Value(f.Params[0]) {
				isPeer = true
			}
			if fv, isFV := recv.(*ssa.FreeVar); isFV && fv.Name() == dc.Params[0].Name() {
				isPeer = true
			}
			if al, isAl := recv.(*ssa.Alloc); isAl && f == dc && al.Comment == dc.Params[0].Name() {
				isPeer = true // the parameter is captured by the redirect closure, so it lives in a cell
			}
			if isPeer {
				wrote = c.at(i)
			}
		})
	}
	c.Check(wrote == "", rule, "no server-originated byte before the verdict", c.atFn(dc), "the peer's connection is only written by the handshake reply and by common.Copy(conn, webConn)", "the server writes to the unauthenticated peer at "+wrote)
}

var c09Justified = []panicJustification{
	{"server.readFirstPacket", "slice buf[:1]", "the first-packet buffer has a constant length of at least 5", callersPassConstLen(5)},
	{"server.readFirstPacket", "index buf[0]", "the first-packet buffer has a constant length of at least 5", callersPassConstLen(5)},
	{"server.readFirstPacket", "slice buf[1:5]", "the first-packet buffer has a constant length of at least 5", callersPassConstLen(5)},
	{"server.readFirstPacket", "slice buf[φ", "bufOffset never exceeds len(buf): it grows only by counts returned by reads into buf[bufOffset:], which are at most the remaining length (pairing checked by C09.R1)", nil},
	{"server.readFirstPacket", "slice buf[1:]", "the first-packet buffer has a constant length of at least 5", callersPassConstLen(5)},
	{"server.connReadLine", "slice buf[φ", "loop guard i < len(buf) dominates buf[i:i+1]", alwaysLenGuard},
	{"server.dispatchConnection", "readFirstPacket(", "i is the count returned by readFirstPacket, never more than len(buf) (pairing checked by C09.R1)", validateCountOfCallee},
	{"server.decryptClientInfo", "AESGCMDecrypt(", "a successfully opened 64-byte sealed block has a 48-byte plaintext; every use is behind err == nil and below offset 48", validateDecryptUses},
	{"common.Copy", "(net.Conn).Read(src", "nr is the count of src.Read(buf), at most len(buf) by the io.Reader contract", validateReadCountSlice},
	{"common.backoff", "fatal/panic call", "reached only when the system random source fails ten times in a row; no peer input is involved", nil},
	{"ecdh.GenerateSharedSecret", "type assertion", "only *[32]byte values are ever converted to the key interfaces that reach these parameters", validateKeyTypes},
}

// validateCountOfCallee: slice high bound is the first result of a call that received the same buffer.
func validateCountOfCallee(p *Prog, f *ssa.Function, at ssa.Instruction) (bool, string) {
	sl, ok := at.(*ssa.Slice)
	if !ok || sl.High == nil {
		return false, "not a slice with an upper bound"
	}
	ex, ok := sl.High.(*ssa.Extract)
	if !ok || ex.Index != 0 {
		return false, "upper bound is not a call's first result"
	}
	call, ok := ex.Tuple.(*ssa.Call)
	if !ok {
		return false, "upper bound is not a call's first result"
	}
	for _, a := range call.Call.Args {
		if a == sl.X {
			return true, "count returned by " + calleeName(&call.Call) + " for this very buffer"
		}
	}
	return false, "the call did not receive the sliced buffer"
}

func validateReadCountSlice(p *Prog, f *ssa.Function, at ssa.Instruction) (bool, string) {
	ok, why := validateCountOfCallee(p, f, at)
	if !ok {
		return false, why
	}
	sl := at.(*ssa.Slice)
	call := sl.High.(*ssa.Extract).Tuple.(*ssa.Call)
	if !strings.HasSuffix(calleeName(&call.Call), ").Read") {
		return false, "count does not come from a Read"
	}
	return true, why
}

func validateDecryptUses(p *Prog, f *ssa.Function, at ssa.Instruction) (bool, string) {
	var base ssa.Value
	var hi int64 = -1
	switch x := at.(type) {
	case *ssa.Slice:
		base = x.X
		if x.High != nil {
			hi, _ = intConst(x.High)
		}
	case *ssa.IndexAddr:
		base = x.X
		if k, ok := intConst(x.Index); ok {
			hi = k + 1
		}
	case *ssa.Index:
		base = x.X
		if k, ok := intConst(x.Index); ok {
			hi = k + 1
		}
	}
	ex, ok := base.(*ssa.Extract)
	if !ok || ex.Index != 0 {
		return false, "operand is not the plaintext result"
	}
	call, ok := ex.Tuple.(*ssa.Call)
	if !ok || !strings.HasSuffix(calleeName(&call.Call), "common.AESGCMDecrypt") {
		return false, "operand is not the result of AESGCMDecrypt"
	}
	// ciphertext is a slice of a [64]byte
	ctOK := false
	if sl, isSl := call.Call.Args[2].(*ssa.Slice); isSl && sl.Low == nil && sl.High == nil {
		if strings.HasSuffix(typeStr(sl.X.Type()), "[64]byte") {
			ctOK = true
		}
	}
	if !ctOK {
		return false, "ciphertext is not a whole [64]byte array"
	}
	if hi < 0 || hi > 48 {
		return false, fmt.Sprintf("access reaches offset %d, beyond the 48-byte plaintext", hi)
	}
	if !guardedByNilErrOf(at, call) {
		return false, "plaintext is used without err == nil of the decryption"
	}
	return true, fmt.Sprintf("offset <= %d <= 48, behind err == nil, ciphertext is [64]byte", hi)
}

func validateKeyTypes(p *Prog, f *ssa.Function, at ssa.Instruction) (bool, string) {
	ta, ok := at.(*ssa.TypeAssert)
	if !ok {
		return false, "not a type assertion"
	}
	g := p.VFlow()
	starts := []vnode{g.val(ta.X, nil)}
	starts = append(starts, g.clones[ta.X]...)
	back := g.BackReach(starts...)
	n := 0
	for node := range back {
		if cv, isCtx := node.(ctxVal); isCtx {
			node = cv.v
		}
		mi, ok := node.(*ssa.MakeInterface)
		if !ok {
			continue
		}
		it := typeStr(mi.Type())
		if it != "crypto.PrivateKey" && it != "crypto.PublicKey" && it != "any" && it != "interface{}" {
			continue
		}
		if strings.HasSuffix(p.Pos(mi.Pos()), "_test.go") {
			continue
		}
		if it == "any" || it == "interface{}" {
			continue
		}
		n++
		if typeStr(mi.X.Type()) != "*[32]byte" {
			return false, "a " + typeStr(mi.X.Type()) + " is converted to " + it + " at " + p.Pos(mi.Pos())
		}
	}
	if n == 0 {
		return false, "no conversion to the key interface found"
	}
	return true, fmt.Sprintf("%d conversion(s) to crypto.PrivateKey/PublicKey, all from *[32]byte", n)
}

func c09R4(c *Ctx, rule string) {
	c.Rule(rule, "panic safety before authentication: every panic-capable instruction reachable from dispatchConnection before the handshake reply is under a recover frame, proven by the compiler, or justified", 10)
	p := c.P
	dc := c.need(rule, "internal/server", "dispatchConnection")
	if dc == nil {
		return
	}
	cut := func(f *ssa.Function) bool {
		n := shortFn(f)
		if f.Pkg != nil && f.Pkg == p.Pkg("internal/multiplex") && f.Name() != "MakeObfuscator" {
			return true
		}
		for _, s := range []string{"serveSession", "GetSession", "CloseSession", "APIRouterOf", "makeResponder$1", "TerminateActiveUser", "AddConnection"} {
			if strings.HasSuffix(n, s) {
				return true
			}
		}
		return false
	}
	// functions that are cut contribute no sites: filter after enumeration by wrapping cut in PanicSafety
	PanicSafetyFiltered(c, rule, []*ssa.Function{dc}, cut, c09Justified, os.Getenv("CLOAKCHECK_DUMP") != "")
}

// PanicSafetyFiltered: like PanicSafety but the cut functions themselves are not analysed.
func PanicSafetyFiltered(c *Ctx, rule string, entries []*ssa.Function, cut func(*ssa.Function) bool, table []panicJustification, dump bool) {
	PanicSafetyWith(c, rule, entries, cut, table, dump)
}

func c09R5(c *Ctx, rule string) {
	c.Rule(rule, "deadline: SetReadDeadline(now+timeout) precedes the first read of the first packet and is reset by a deferred call", 1)
	rfp := c.need(rule, "internal/server", "readFirstPacket")
	if rfp == nil {
		return
	}
	var set ssa.Instruction
	deferred := false
	var firstRead ssa.Instruction
	allInstrs(rfp, func(i ssa.Instruction) {
		if call, ok := i.(*ssa.Call); ok {
			if calleeName(&call.Call) == "(net.Conn).SetReadDeadline" && set == nil {
				// argument derives from the timeout parameter
				if strings.Contains(Expr(call.Call.Args[0]), "timeout") || (len(rfp.Params) == 3 && valueDependsOn(call.Call.Args[0], rfp.Params[2], 0)) {
					set = i
				}
			}
			if _, isR := readLikeDest(c.P, call); isR && firstRead == nil {
				firstRead = i
			}
		}
		if d, ok := i.(*ssa.Defer); ok && calleeName(&d.Call) == "(net.Conn).SetReadDeadline" {
			deferred = true
		}
	})
	// the reset may also be explicit: every way out of the function after arming passes a SetReadDeadline that does not
	// depend on the timeout, and no read follows such a reset
	if !deferred && set != nil {
		isReset := func(i ssa.Instruction) bool {
			call, ok := i.(*ssa.Call)
			return ok && i != set && calleeName(&call.Call) == "(net.Conn).SetReadDeadline" && !(len(rfp.Params) == 3 && valueDependsOn(call.Call.Args[0], rfp.Params[2], 0))
		}
		explicit := reachesReturnAvoiding(set, isReset) == nil
		allInstrs(rfp, func(i ssa.Instruction) {
			if isReset(i) {
				if forwardSearch(i, nil, func(j ssa.Instruction) bool {
					call, ok := j.(*ssa.Call)
					if !ok {
						return false
					}
					_, isR := readLikeDest(c.P, call)
					return isR
				}) != nil {
					explicit = false
				}
			}
		})
		deferred = explicit
	}
	ok := set != nil && firstRead != nil && instrDominates(set, firstRead) && deferred
	c.Check(ok, rule, "read deadline armed before the first read and reset on exit", c.atFn(rfp), "conn.SetReadDeadline(now+timeout) dominates the first read; defer conn.SetReadDeadline(zero)", "a silent peer can hold the dispatcher goroutine forever, or the deadline leaks into the relayed connection")
}
