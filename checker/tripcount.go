package main

import (
	"go/token"

	"golang.org/x/tools/go/ssa"
)

// constTripCount: ph is the counter of a counting loop — φ(constant start, ph ± constant step) in a block that ends with
// a comparison of ph against a constant deciding whether the body runs. Returns how many times the body runs (by running
// the counter, at most 64 steps), whichever way the loop counts.
func constTripCount(ph *ssa.Phi) (int64, bool) {
	if len(ph.Edges) != 2 {
		return 0, false
	}
	start, step, haveStart, haveStep := int64(0), int64(0), false, false
	for _, e := range ph.Edges {
		if k, isK := intConst(e); isK && !haveStart {
			start, haveStart = k, true
			continue
		}
		if d := symAff(e, 0).add(affSym(ph), -1); d.isConst() && d.C != 0 {
			step, haveStep = d.C, true
		}
	}
	if !haveStart || !haveStep {
		return 0, false
	}
	blk := ph.Block()
	iff, ok := blk.Instrs[len(blk.Instrs)-1].(*ssa.If)
	if !ok || len(blk.Succs) != 2 {
		return 0, false
	}
	cmp, ok := iff.Cond.(*ssa.BinOp)
	if !ok {
		return 0, false
	}
	var bound int64
	phLeft := false
	if k, isK := intConst(cmp.Y); isK && stripIntConv(cmp.X) == ssa.Value(ph) {
		bound, phLeft = k, true
	} else if k, isK := intConst(cmp.X); isK && stripIntConv(cmp.Y) == ssa.Value(ph) {
		bound = k
	} else {
		return 0, false
	}
	// which successor is the body: the one from which the header is reachable again
	bodyOnTrue := blockReaches(blk.Succs[0], blk, false)
	bodyOnFalse := blockReaches(blk.Succs[1], blk, false)
	if bodyOnTrue == bodyOnFalse {
		return 0, false
	}
	holds := func(v int64) bool {
		a, b := v, bound
		if !phLeft {
			a, b = bound, v
		}
		switch cmp.Op {
		case token.LSS:
			return a < b
		case token.LEQ:
			return a <= b
		case token.GTR:
			return a > b
		case token.GEQ:
			return a >= b
		case token.NEQ:
			return a != b
		case token.EQL:
			return a == b
		}
		return false
	}
	v, n := start, int64(0)
	for n <= 64 {
		if holds(v) != bodyOnTrue {
			return n, true
		}
		n++
		v += step
	}
	return 0, false
}
