package main

import (
	"fmt"
	"go/types"
	"strings"

	"golang.org/x/tools/go/ssa"
)

func init() {
	register(&PropDef{
		ID: "C01", Title: "tunnelled TCP streams deliver exactly the bytes written",
		Run:       runC01,
		Technique: "static analysis: dominance + lockset for the connection-pool publication order, guarded-by for the demultiplexing table, alias/escape check of the reused receive buffer, read-n/write-n agreement of every relay site; imports the rule groups of C13, C02 and C05",
		Decided: "(g) a connection slot is stored before the count that makes it selectable is published, both under one lock (a healthy session is never torn down by a draw that misses); (e) the demultiplexing table is only touched under its lock; " +
			"(c) no alias of the reused receive buffer is retained by a receive buffer implementation (parked frames are private copies); (f) every relay site forwards exactly the bytes its own read returned and both relay directions are started; " +
			"(b)(c)(d) sequencing under the write mutex, in-order reassembly and one-read-one-record framing are imported from C13, C02 and C05.",
		NotDecided:  "(a) the equality of delivered and written byte sequences itself (run-time values under all schedules); fairness of the random spreading; kernel/socket buffering.",
		Assumptions: []string{"sync.Map and sync/atomic semantics", "rule groups C13.R1-R4, C02.R1-R5, C05.R1-R6 are evaluated as part of this property"},
	})
}

func runC01(c *Ctx) {
	c01R1(c, "C01.R1")
	if f := c01Rest; f != nil {
		f(c)
	}
}

// c01Rest is set by rules_c01b.go (R2..R5 and imports).
var c01Rest func(c *Ctx)

func c01R1(c *Ctx, rule string) {
	c.Rule(rule, "publication order: the connection slot is stored (sync.Map.Store on switchboard.conns, key = pre-increment count) before the count is raised, both inside one critical section", 1)
	p := c.P
	cnt := p.Field("internal/multiplex", "switchboard", "connsCount")
	if cnt == nil {
		// role: the switchboard field whose atomic load bounds the random draw (rename tolerance)
		for _, f := range p.FuncsOfPkg("internal/multiplex") {
			allInstrs(f, func(i ssa.Instruction) {
				if call, ok := i.(*ssa.Call); ok && strings.HasSuffix(calleeName(&call.Call), ".Uint32N") {
					if lc, ok := stripConv(call.Call.Args[len(call.Call.Args)-1]).(*ssa.Call); ok && calleeName(&lc.Call) == "sync/atomic.LoadUint32" {
						if fv, _ := fieldVar(lc.Call.Args[0]); fv != nil {
							cnt = fv
						}
					}
				}
			})
		}
	}
	conns := p.Field("internal/multiplex", "switchboard", "conns", "sync.Map")
	if cnt == nil || conns == nil {
		c.Undecided(rule, "anchor switchboard.{connsCount,conns}", "-", "field not found")
		return
	}
	ls := p.Locksets()
	n := 0
	for _, f := range p.FuncsOfPkg("internal/multiplex") {
		allInstrs(f, func(i ssa.Instruction) {
			call, ok := i.(*ssa.Call)
			if !ok {
				return
			}
			name := calleeName(&call.Call)
			if name != "sync/atomic.AddUint32" && name != "sync/atomic.StoreUint32" {
				return
			}
			if fv, _ := fieldVar(call.Call.Args[0]); fv != cnt {
				return
			}
			k, isK := intConst(call.Call.Args[1])
			if name == "sync/atomic.StoreUint32" && isK && k == 0 {
				return // reset on teardown does not publish a slot
			}
			if name == "sync/atomic.AddUint32" && isK && (k <= 0 || uint32(k) > 1<<31) {
				return
			}
			n++
			construct := "count raised in " + shortFn(f)
			// slot store dominating the raise
			var store *ssa.Call
			allInstrs(f, func(j ssa.Instruction) {
				sc, ok := j.(*ssa.Call)
				if !ok || calleeName(&sc.Call) != "(*sync.Map).Store" {
					return
				}
				if fv, _ := fieldVar(sc.Call.Args[0]); fv == conns && instrDominates(j, i) {
					store = sc
				}
			})
			if store == nil {
				c.Bad(rule, construct, c.at(i), "the count is raised before (or without) the slot being stored: a concurrent sender can draw the new index, miss, and tear down a healthy session (errBrokenSwitchboard → passiveClose)")
				return
			}
			// key = current count read before (LoadUint32 of the same field)
			key := stripConv(store.Call.Args[1])
			keyOK := false
			if kc, ok := key.(*ssa.Call); ok && calleeName(&kc.Call) == "sync/atomic.LoadUint32" {
				if fv, _ := fieldVar(kc.Call.Args[0]); fv == cnt {
					keyOK = true
				}
			}
			if ld, ok := key.(*ssa.UnOp); ok {
				if fv, _ := loadedField(ld); fv == cnt {
					keyOK = true
				}
			}
			// one critical section
			hs, hr := ls.MustHeld(store), ls.MustHeld(i)
			common := ""
			for k2, e := range hs {
				if e2, ok := hr[k2]; ok && e.Excl && e2.Excl {
					common = e.Path.String()
				}
			}
			c.Check(keyOK && common != "", rule, construct, c.at(i), "slot stored at the current count, then count raised, under "+common,
				fmt.Sprintf("slot key is pre-increment count=%v, common exclusive lock=%q: two adders could compute the same slot, or the count is visible before the slot", keyOK, common))
		})
	}
	if n == 0 {
		c.Undecided(rule, "sites raising switchboard.connsCount", "-", "none found")
	}
	// readers draw indices strictly below the published count
	pick := p.Func("internal/multiplex", "switchboard.pickRandConn")
	if pick != nil {
		okDraw := false
		allInstrs(pick, func(i ssa.Instruction) {
			if call, ok := i.(*ssa.Call); ok && strings.HasSuffix(calleeName(&call.Call), ".Uint32N") {
				arg := stripConv(call.Call.Args[len(call.Call.Args)-1])
				if lc, ok := arg.(*ssa.Call); ok && calleeName(&lc.Call) == "sync/atomic.LoadUint32" {
					if fv, _ := fieldVar(lc.Call.Args[0]); fv == cnt {
						okDraw = true
					}
				}
			}
		})
		c.Check(okDraw, rule, "reader draws an index below the published count", c.atFn(pick), "Uint32N(LoadUint32(&connsCount))", "pickRandConn does not draw from [0, published count)")
	}
	_ = types.Typ
}
