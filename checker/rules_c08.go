package main

import (
	"fmt"
	"go/token"
	"go/types"
	"strings"

	"golang.org/x/tools/go/ssa"
)

func init() {
	register(&PropDef{
		ID: "C08", Title: "a captured handshake can never be replayed",
		Run:       runC08,
		Technique: "static analysis: lockset (exclusive critical section around test-and-set), dominance (registration before decryption and heeded), constant folding of the eviction guard against 2x the timestamp tolerance, value-flow + dominance for the canonical cache key",
		Decided: "(a) the lookup and the insert of the replay memory are one exclusive critical section and the result returned is the lookup's; (b) registration dominates decryption and a positive result leads to an error return; (c) the recorded time is server time; " +
			"(d) every eviction from the replay memory is guarded by 'first seen earlier than now minus 2x tolerance' with the repository's own tolerance constant (an entry outlives the period in which its packet is acceptable), and the memory is never reset; " +
			"(e) the cache key is invariant under the one transformation of the carrier bytes that leaves shared secret, nonce and sealed block unchanged (bit 255 of the X25519 u-coordinate) or is derived from authenticated data; (f) both transports register the same 32 bytes that feed the key agreement.",
		NotDecided:  "histories as such (the statement over all interleavings of presentations and clean-ups is reduced to the constants and the critical section); memory exhaustion of the map; the 19 non-canonical encodings u >= p (an honest random key hits them with probability 2^-250).",
		Assumptions: []string{"X25519 ignores bit 255 of the peer's u-coordinate (RFC 7748 section 5)", "AES-GCM authenticates the 64-byte block; nonce = bytes 0..11 of the carrier"},
	})
}

type c08Anchors struct {
	usedRandom, usedRandomM *types.Var
	reg                     *ssa.Function // the function doing lookup+insert
	tol                     int64
}

func getC08(c *Ctx, rule string) *c08Anchors {
	p := c.P
	a := &c08Anchors{usedRandom: p.Field("internal/server", "State", "UsedRandom"), usedRandomM: p.Field("internal/server", "State", "usedRandomM", "sync.RWMutex", "sync.Mutex")}
	if a.usedRandom == nil || a.usedRandomM == nil {
		c.Undecided(rule, "anchor State.{UsedRandom,usedRandomM}", "-", "field not found")
		return nil
	}
	t, ok := p.Const("internal/server", "timestampTolerance")
	if !ok {
		c.Undecided(rule, "anchor const timestampTolerance", "-", "constant not found")
		return nil
	}
	a.tol = t
	// role: the function that inserts into UsedRandom
	for _, acc := range FieldAccesses(p, map[*types.Var]bool{a.usedRandom: true}) {
		if acc.Kind == "mapupdate" && !strings.HasSuffix(p.Pos(acc.Fn.Pos()), "_fuzz.go") {
			if a.reg != nil && a.reg != acc.Fn {
				c.Undecided(rule, "anchor: unique inserter into UsedRandom", c.at(acc.Instr), "more than one function inserts into the replay memory")
				return nil
			}
			a.reg = acc.Fn
		}
	}
	if a.reg == nil {
		c.Undecided(rule, "anchor: inserter into UsedRandom", "-", "no function inserts into the replay memory")
		return nil
	}
	return a
}

func runC08(c *Ctx) {
	c08R1(c, "C08.R1")
	c08R2(c, "C08.R2")
	c08R3(c, "C08.R3")
	c08R4(c, "C08.R4")
	c08R5(c, "C08.R5")
	c08R6(c, "C08.R6")
}

func c08MapOps(a *c08Anchors) (lookup *ssa.Lookup, update *ssa.MapUpdate) {
	allInstrs(a.reg, func(i ssa.Instruction) {
		switch x := i.(type) {
		case *ssa.Lookup:
			if fv, _ := loadedField(x.X); fv == a.usedRandom {
				lookup = x
			}
		case *ssa.MapUpdate:
			if fv, _ := loadedField(x.Map); fv == a.usedRandom {
				update = x
			}
		}
	})
	return
}

func c08R1(c *Ctx, rule string) {
	c.Rule(rule, "test-and-set of the replay memory: lookup and insert in one exclusive critical section of usedRandomM; returned value is the lookup's ok", 3)
	a := getC08(c, rule)
	if a == nil {
		return
	}
	ls := c.P.Locksets()
	CheckGuardedBy(c, ls, GuardSpec{Rule: rule, Rel: "internal/server", Type: "State", Fields: []string{"UsedRandom"}, LockChain: []string{a.usedRandomM.Name()}})
	lookup, update := c08MapOps(a)
	fn := shortFn(a.reg)
	if lookup == nil || update == nil {
		c.Bad(rule, "lookup+insert in "+fn, c.atFn(a.reg), "the function that inserts into the replay memory does not also look the key up: test and set are separated")
		return
	}
	// exclusive at both, and no unlock of the lock between them
	hl, hu := ls.MustHeld(lookup), ls.MustHeld(update)
	okL, el := lockHeldByClass(hl, a.usedRandomM)
	okU, eu := lockHeldByClass(hu, a.usedRandomM)
	between := onPathBetween(lookup, update, func(x ssa.Instruction) bool {
		k, path, ok := lockOp(x)
		return ok && (k == "unlock" || k == "runlock") && len(path.Chain) > 0 && path.Chain[len(path.Chain)-1] == a.usedRandomM
	})
	reorder := !instrDominates(lookup, update)
	c.Check(okL && okU && el.Excl && eu.Excl && between == nil && !reorder, rule, "one exclusive section around lookup→insert in "+fn, c.at(lookup),
		"usedRandomM held exclusively at both, no unlock in between", fmt.Sprintf("test-and-set not atomic: lookup excl=%v insert excl=%v unlock-between=%v lookup-first=%v — two simultaneous presentations can both see 'unused'", okL && el.Excl, okU && eu.Excl, between != nil, !reorder))
	// same key at both operations
	c.Check(sameValueOrLoad(lookup.Index, update.Key), rule, "same key looked up and inserted in "+fn, c.at(update), "key "+Expr(update.Key), "lookup key "+Expr(lookup.Index)+" differs from insert key "+Expr(update.Key))
	// returned value is the lookup's ok — when the test-and-set is a function of its own. Written in line in the
	// authenticating function there is no such result; what the verdict leads to is R2's subject.
	if res := a.reg.Signature.Results(); res.Len() != 1 || typeStr(res.At(0).Type()) != "bool" {
		c.OK(rule, "result of "+fn+" is the lookup's ok", c.atFn(a.reg), "test-and-set written in line: the lookup's ok is branched on directly (see R2)")
		return
	}
	okRet := true
	for _, r := range returnsOf(a.reg) {
		v := resultValue(r, 0)
		ex, isEx := v.(*ssa.Extract)
		if !isEx || ex.Tuple != ssa.Value(lookup) || ex.Index != 1 {
			okRet = false
		}
	}
	c.Check(okRet, rule, "result of "+fn+" is the lookup's ok", c.atFn(a.reg), "returns ok of the map lookup", "the function does not return the result of the lookup")
}

func sameValueOrLoad(a, b ssa.Value) bool {
	if sameValue(a, b) {
		return true
	}
	la, ok1 := a.(*ssa.UnOp)
	lb, ok2 := b.(*ssa.UnOp)
	if ok1 && ok2 && la.Op == token.MUL && lb.Op == token.MUL {
		return la.X == lb.X || sameAddr(la.X, lb.X)
	}
	return false
}

func c08R2(c *Ctx, rule string) {
	c.Rule(rule, "registration dominates decryption and is heeded: decryptClientInfo only when registerRandom returned false; the true branch returns an error", 2)
	a := getC08(c, rule)
	if a == nil {
		return
	}
	p := c.P
	dec := c.need(rule, "internal/server", "decryptClientInfo")
	if dec == nil {
		return
	}
	n := 0
	// the test-and-set written in line in the function that decrypts: the lookup's ok plays the part of the call's result
	if decCalls := callsIn(a.reg, fnName(dec)); len(decCalls) > 0 {
		lookup, update := c08MapOps(a)
		f := a.reg
		construct := "registration before decryption in " + shortFn(f)
		if lookup == nil || update == nil {
			c.Bad(rule, construct, c.atFn(f), "no lookup+insert of the random before decryption")
			return
		}
		verdict := func(at Atom) (seen, ok bool) {
			if at.Kind == "ok" && at.X == ssa.Value(lookup) {
				return at.Pol, true
			}
			return false, false
		}
		ok, why := true, ""
		for _, d := range decCalls {
			if !instrDominates(update, d) {
				ok, why = false, "decryption can run without (or before) registering the random"
				continue
			}
			heeded := false
			for _, at := range AtomsAt(d) {
				if seen, isV := verdict(at); isV && !seen {
					heeded = true
				}
			}
			if !heeded {
				ok, why = false, "the result of the registration is not tested before decryption"
			}
		}
		c.Check(ok, rule, construct, c.at(update), "the insert dominates decryptClientInfo, which runs only on 'not seen before'", why)
		errIdx := f.Signature.Results().Len() - 1
		okErr, found := true, false
		for _, rp := range retPointsOfFunc(f) {
			for _, at := range rp.Atoms {
				if seen, isV := verdict(at); isV && seen {
					found = true
					if errIsNilAt(rp.Vals[errIdx], rp.At) != "nonnil" {
						okErr = false
					}
				}
			}
		}
		c.Check(found && okErr, rule, "replay branch of "+shortFn(f)+" returns an error", c.at(lookup), "return under 'seen before' carries a non-nil error", "a repeated random does not lead to an error return")
		return
	}
	for _, cs := range p.CallersOf(a.reg) {
		f := cs.Parent()
		if !p.InRepo(f) || strings.HasSuffix(p.Pos(f.Pos()), "_fuzz.go") {
			continue
		}
		n++
		regCall, _ := cs.(*ssa.Call)
		decCalls := callsIn(f, fnName(dec))
		construct := "registration before decryption in " + shortFn(f)
		if regCall == nil || len(decCalls) == 0 {
			c.Bad(rule, construct, c.at(cs), "caller of the replay registration does not decrypt afterwards (or registers via go/defer)")
			continue
		}
		ok := true
		why := ""
		for _, d := range decCalls {
			if !instrDominates(regCall, d) {
				ok, why = false, "decryption can run without (or before) registering the random"
				continue
			}
			heeded := false
			for _, at := range AtomsAt(d) {
				if at.Kind == "call" && at.Call == regCall && !at.Pol {
					heeded = true
				}
			}
			if !heeded {
				ok, why = false, "the result of the registration is not tested before decryption"
			}
		}
		c.Check(ok, rule, construct, c.at(regCall), "registerRandom dominates decryptClientInfo, which runs only on 'not seen before'", why)
		// the replay branch returns a non-nil error
		errIdx := f.Signature.Results().Len() - 1
		okErr := true
		found := false
		for _, rp := range retPointsOfFunc(f) {
			for _, at := range rp.Atoms {
				if at.Kind == "call" && at.Call == regCall && at.Pol {
					found = true
					if errIsNilAt(rp.Vals[errIdx], rp.At) != "nonnil" {
						okErr = false
					}
				}
			}
		}
		c.Check(found && okErr, rule, "replay branch of "+shortFn(f)+" returns an error", c.at(regCall), "return under registerRandom()==true carries a non-nil error", "a repeated random does not lead to an error return")
	}
	if n == 0 {
		c.Undecided(rule, "callers of "+shortFn(a.reg), "-", "replay registration is never called")
	}
}

// isWorldNowCall: call of the WorldState.Now function value.
func isWorldNowCall(v ssa.Value) bool {
	call, ok := stripConv(v).(*ssa.Call)
	if !ok {
		return false
	}
	if n := calleeName(&call.Call); n == "(time.Time).UTC" || n == "(time.Time).Local" || n == "(time.Time).Round" || n == "(time.Time).Truncate" {
		return isWorldNowCall(call.Call.Args[0])
	}
	fv, _ := loadedField(call.Call.Value)
	return fv != nil && fv.Name() == "Now" && strings.HasSuffix(typeStr(fv.Type()), "func() time.Time")
}

func c08R3(c *Ctx, rule string) {
	c.Rule(rule, "the time recorded with the random is server time (WorldState.Now), not taken from the packet", 1)
	a := getC08(c, rule)
	if a == nil {
		return
	}
	_, update := c08MapOps(a)
	if update == nil {
		c.Undecided(rule, "insert into UsedRandom", "-", "not found")
		return
	}
	call, ok := stripConv(update.Value).(*ssa.Call)
	good := ok && calleeName(&call.Call) == "(time.Time).Unix" && isWorldNowCall(call.Call.Args[0])
	c.Check(good, rule, "value stored in UsedRandom by "+shortFn(a.reg), c.at(update), "WorldState.Now().Unix()", "stored time is "+Expr(update.Value)+", not the server clock")
}

// c08Threshold recognises the eviction guard and returns the offset c (ns) in "entryTime < now + c".
func c08Threshold(at Atom) (c int64, ok bool, form string) {
	durOf := func(v ssa.Value) (int64, bool) { return intConst(v) }
	nowPlus := func(v ssa.Value) (int64, bool) {
		// now, now.Add(c)
		if isWorldNowCall(v) {
			return 0, true
		}
		call, isCall := stripConv(v).(*ssa.Call)
		if isCall && calleeName(&call.Call) == "(time.Time).Add" && isWorldNowCall(call.Call.Args[0]) {
			return durOf(call.Call.Args[1])
		}
		return 0, false
	}
	isEntryTime := func(v ssa.Value) bool {
		call, isCall := stripConv(v).(*ssa.Call)
		return isCall && calleeName(&call.Call) == "time.Unix"
	}
	if at.Kind == "call" && at.Pol {
		n := calleeName(&at.Call.Call)
		args := at.Call.Call.Args
		switch n {
		case "(time.Time).Before":
			if isEntryTime(args[0]) {
				if k, ok := nowPlus(args[1]); ok {
					return k, true, "time.Unix(t,0).Before(now.Add(c))"
				}
			}
		case "(time.Time).After":
			if isEntryTime(args[1]) {
				if k, ok := nowPlus(args[0]); ok {
					return k, true, "now.Add(c).After(time.Unix(t,0))"
				}
			}
		}
	}
	if at.Kind == "cmp" && (at.Op == token.LSS || at.Op == token.LEQ) {
		// c' < now.Sub(entry)   ⇒ entry < now - c'
		if k, isK := intConst(at.X); isK {
			if call, isCall := stripConv(at.Y).(*ssa.Call); isCall && calleeName(&call.Call) == "(time.Time).Sub" && isWorldNowCall(call.Call.Args[0]) && isEntryTime(call.Call.Args[1]) {
				return -k, true, "now.Sub(time.Unix(t,0)) > c"
			}
			// seconds: c' < nowUnix - t
			if bo, isB := stripConv(at.Y).(*ssa.BinOp); isB && bo.Op == token.SUB && isNowUnix(bo.X) {
				return -k * 1e9, true, "now.Unix()-t > c"
			}
		}
		// t < nowUnix - k   /  t + k < nowUnix
		if bo, isB := stripConv(at.Y).(*ssa.BinOp); isB && bo.Op == token.SUB && isNowUnix(bo.X) {
			if k, isK := intConst(bo.Y); isK {
				return -k * 1e9, true, "t < now.Unix()-c"
			}
		}
		if bo, isB := stripConv(at.X).(*ssa.BinOp); isB && bo.Op == token.ADD && isNowUnix(at.Y) {
			if k, isK := intConst(bo.Y); isK {
				return -k * 1e9, true, "t+c < now.Unix()"
			}
		}
	}
	return 0, false, ""
}

func isNowUnix(v ssa.Value) bool {
	call, ok := stripConv(v).(*ssa.Call)
	return ok && calleeName(&call.Call) == "(time.Time).Unix" && isWorldNowCall(call.Call.Args[0])
}

func c08R4(c *Ctx, rule string) {
	c.Rule(rule, "eviction threshold: every delete from the replay memory is guarded by 'first seen < now - 2*timestampTolerance' (or older); the memory is never reset", 1)
	a := getC08(c, rule)
	if a == nil {
		return
	}
	p := c.P
	n := 0
	for _, acc := range FieldAccesses(p, map[*types.Var]bool{a.usedRandom: true}) {
		switch acc.Kind {
		case "delete":
			n++
			construct := "delete from UsedRandom in " + shortFn(acc.Fn)
			best := ""
			good := false
			for _, at := range AtomsAt(acc.Instr) {
				if k, ok, form := c08Threshold(at); ok {
					best = fmt.Sprintf("guard %s with c = %ds", form, k/1e9)
					if k <= -2*a.tol {
						good = true
					}
				}
			}
			if good {
				c.OK(rule, construct, c.at(acc.Instr), best+" ≤ -2×tolerance (-"+fmt.Sprint(2*a.tol/1e9)+"s): an entry outlives the period in which its packet is acceptable")
			} else if best != "" {
				c.Bad(rule, construct, c.at(acc.Instr), best+": entries younger than 2×tolerance ("+fmt.Sprint(2*a.tol/1e9)+"s) are evicted while their packet is still inside the acceptance window — a replay right after a clean-up is accepted")
			} else {
				c.Bad(rule, construct, c.at(acc.Instr), "delete is not guarded by a recognised age test against the server clock (accepted forms: time.Unix(t,0).Before(now.Add(c)), now.Sub(time.Unix(t,0)) > c, t < now.Unix()-c)")
			}
		case "write":
			n++
			c.Bad(rule, "store to State.UsedRandom in "+shortFn(acc.Fn), c.at(acc.Instr), "the replay memory is replaced wholesale outside the constructor: every remembered handshake becomes replayable")
		}
	}
	if n == 0 {
		c.OK(rule, "no eviction from UsedRandom", "-", "entries are never removed (trivially outlive the window)")
	}
}

func c08R5(c *Ctx, rule string) {
	c.Rule(rule, "canonical cache key: the key is invariant under clearing bit 255 of the X25519 point bytes (mask on byte 31 dominating lookup and insert), or is derived from authenticated data", 1)
	a := getC08(c, rule)
	if a == nil {
		return
	}
	p := c.P
	g := p.VFlow()
	randPub := p.Field("internal/server", "authFragments", "randPubKey")
	ctTag := p.Field("internal/server", "authFragments", "ciphertextWithTag")
	secret := p.Field("internal/server", "authFragments", "sharedSecret")
	if randPub == nil || ctTag == nil || secret == nil {
		c.Undecided(rule, "anchor authFragments fields", "-", "not found")
		return
	}
	lookup, update := c08MapOps(a)
	if lookup == nil || update == nil {
		c.Undecided(rule, "map operations on UsedRandom", "-", "not found")
		return
	}
	construct := "cache key of " + shortFn(a.reg)
	back := g.BackReach(g.val(update.Key, nil))
	if !back[fieldNode{randPub}] {
		if back[fieldNode{ctTag}] || back[fieldNode{secret}] {
			c.OK(rule, construct, c.at(update), "key is derived from authenticated data (sealed block / shared secret), not from the raw point bytes")
		} else {
			c.Undecided(rule, construct, c.at(update), "cannot determine what the cache key is derived from")
		}
		return
	}
	// the key is the raw 32 carrier bytes: require the canonicalising mask on byte 31
	keyAddr := func(v ssa.Value) ssa.Value {
		if ld, ok := v.(*ssa.UnOp); ok && ld.Op == token.MUL {
			return ld.X
		}
		return nil
	}
	ka := keyAddr(update.Key)
	masked := false
	detail := "key is the raw 32 bytes that also feed X25519; X25519 ignores bit 255 of that input while the AES-GCM nonce is bytes 0..11, so flipping the top bit of byte 31 yields a different cache key for the same accepted handshake"
	if ka != nil {
		for _, r := range *ka.Referrers() {
			ia, ok := r.(*ssa.IndexAddr)
			if !ok {
				continue
			}
			if k, isK := intConst(ia.Index); !isK || k != 31 {
				continue
			}
			for _, rr := range *ia.Referrers() {
				st, ok := rr.(*ssa.Store)
				if !ok || st.Addr != ssa.Value(ia) {
					continue
				}
				bo, ok := st.Val.(*ssa.BinOp)
				if !ok || (bo.Op != token.AND && bo.Op != token.AND_NOT) {
					continue
				}
				m, isM := intConst(bo.Y)
				if !isM && bo.Op == token.AND {
					m, isM = intConst(bo.X)
				}
				if isM && bo.Op == token.AND_NOT {
					m = ^m & 0xff // x &^ 0x80 clears exactly the bits of the constant
				}
				if isM && m&0x80 == 0 && instrDominates(st, lookup) && instrDominates(st, update) {
					masked = true
					detail = fmt.Sprintf("byte 31 masked with %#x before lookup and insert (%s)", m, c.at(st))
				}
			}
		}
	}
	c.Check(masked, rule, construct, c.at(update), detail, detail)
}

func c08R6(c *Ctx, rule string) {
	c.Rule(rule, "both transports register the 32 bytes that feed the key agreement: randPubKey is copied from the carrier and passed to ecdh.Unmarshal (once per transport, or once in a helper both share)", 1)
	p := c.P
	randPub := p.Field("internal/server", "authFragments", "randPubKey")
	um := p.Func("internal/ecdh", "Unmarshal")
	if randPub == nil || um == nil {
		c.Undecided(rule, "anchor authFragments.randPubKey / ecdh.Unmarshal", "-", "not found")
		return
	}
	for _, cs := range p.CallersOf(um) {
		f := cs.Parent()
		if f.Pkg == nil || f.Pkg != p.Pkg("internal/server") {
			continue
		}
		construct := "key-agreement input in " + shortFn(f)
		arg := cs.Common().Args[0]
		fromField := false
		if sl, ok := arg.(*ssa.Slice); ok {
			if fv, _ := fieldVar(sl.X); fv == randPub {
				fromField = true
			}
		}
		// a copy into randPubKey dominating the call
		var copied ssa.Instruction
		allInstrs(f, func(i ssa.Instruction) {
			if call, ok := i.(*ssa.Call); ok && calleeName(&call.Call) == "builtin.copy" {
				if sl, ok := call.Call.Args[0].(*ssa.Slice); ok {
					if fv, _ := fieldVar(sl.X); fv == randPub && instrDominates(i, cs) {
						copied = i
					}
				}
			}
		})
		c.Check(fromField && copied != nil, rule, construct, c.at(cs), "ecdh.Unmarshal(fragments.randPubKey[:]) after copying the carrier bytes into it", "the bytes registered against replay are not the bytes used for the key agreement")
	}
}
