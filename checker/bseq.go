package main

import (
	"fmt"
	"go/token"
	"go/types"
	"sort"
	"strings"

	"golang.org/x/tools/go/ssa"
)

// E9b BYTE-SEQUENCE EVALUATION — what bytes does this []byte value consist of, however it was put together?
// A value is evaluated to a sequence of segments: constant bytes; a symbolic slice Src[Lo:Hi] of an input (parameter,
// array); a big-endian integer of known width; random bytes; or "unknown". Understood constructions: slice and array
// literals, append chains (also with variadic bytes), make + copy / index stores / binary.BigEndian.PutUintN at constant
// offsets, local arrays filled by copy, bytes.Buffer written in straight-line order, the loop that concatenates the
// elements of a local array of slices, re-slicing with constant bounds, and calls of in-repo functions (evaluated with
// their parameters bound to the caller's arguments, scalars included). Rules compare the flattened sequence with the
// protocol template at absolute offsets, so the same rule covers a template built segment by segment, with one append
// chain, through a bytes.Buffer or with fixed arrays.

type bseg struct {
	Kind   string // const | sym | be | belen | rand | unk
	B      []int64
	Src    ssa.Value // sym: bytes Src[Lo:Hi); be: the integer; belen: the value whose length is encoded
	Lo, Hi int64     // sym only; Hi < 0: up to the end
	N      int64     // length in bytes; -1 unknown
	Origin ssa.Value // the caller-side value this segment was copied from as a whole (body of a record)
}

func (s bseg) String() string {
	switch s.Kind {
	case "const":
		return fmt.Sprintf("% x", toBytes(s.B))
	case "sym":
		if s.Hi < 0 {
			if s.Lo == 0 {
				return "⟨" + Expr(s.Src) + "⟩"
			}
			return fmt.Sprintf("⟨%s[%d:]⟩", Expr(s.Src), s.Lo)
		}
		return fmt.Sprintf("⟨%s[%d:%d]⟩", Expr(s.Src), s.Lo, s.Hi)
	case "be":
		return fmt.Sprintf("BE%d(%s)", s.N*8, Expr(s.Src))
	case "belen":
		return fmt.Sprintf("BE%d(len %s)", s.N*8, Expr(s.Src))
	case "rand":
		return fmt.Sprintf("rand(%d)", s.N)
	}
	return fmt.Sprintf("?(%d)", s.N)
}

func bseqString(q []bseg) string {
	var out []string
	for _, s := range q {
		out = append(out, s.String())
	}
	return strings.Join(out, " ‖ ")
}

type bsBind struct {
	seq   []bseg
	isSeq bool
	k     int64
	isK   bool
	val   ssa.Value // the caller's value
}

type bsEval struct {
	p *Prog
	// assumed lengths of symbolic inputs (e.g. the session id parameter is 32 bytes), keyed by value
	assume map[ssa.Value]int64
	env    map[ssa.Value]bsBind
	depth  int
}

func newBsEval(p *Prog) *bsEval {
	return &bsEval{p: p, assume: map[ssa.Value]int64{}, env: map[ssa.Value]bsBind{}}
}

func (e *bsEval) lenOf(v ssa.Value) int64 {
	if n, ok := e.assume[v]; ok {
		return n
	}
	t := v.Type()
	if pt, ok := t.Underlying().(*types.Pointer); ok {
		t = pt.Elem()
	}
	if at, ok := t.Underlying().(*types.Array); ok {
		return at.Len()
	}
	return -1
}

func seqLen(q []bseg) int64 {
	var n int64
	for _, s := range q {
		if s.N < 0 {
			return -1
		}
		n += s.N
	}
	return n
}

// intOf: a scalar as a constant, looking through parameter bindings and len() of bound sequences.
func (e *bsEval) intOf(v ssa.Value) (int64, bool) {
	v = stripConv(v)
	if k, ok := intConst(v); ok {
		return k, true
	}
	if b, ok := e.env[v]; ok && b.isK {
		return b.k, true
	}
	switch x := v.(type) {
	case *ssa.Call:
		if calleeName(&x.Call) == "builtin.len" && len(x.Call.Args) == 1 {
			if q, ok := e.eval(x.Call.Args[0]); ok {
				if n := seqLen(q); n >= 0 {
					return n, true
				}
			}
		}
	case *ssa.BinOp:
		a, ok1 := e.intOf(x.X)
		b, ok2 := e.intOf(x.Y)
		if ok1 && ok2 {
			switch x.Op {
			case token.ADD:
				return a + b, true
			case token.SUB:
				return a - b, true
			case token.MUL:
				return a * b, true
			case token.SHR:
				return a >> uint(b), true
			case token.SHL:
				return a << uint(b), true
			case token.AND:
				return a & b, true
			case token.OR:
				return a | b, true
			}
		}
	}
	return 0, false
}

// cut: bytes [lo, hi) of a sequence (hi < 0: to the end).
func cutSeq(q []bseg, lo, hi int64) ([]bseg, bool) {
	var out []bseg
	pos := int64(0)
	for _, s := range q {
		if hi >= 0 && pos >= hi {
			break
		}
		if s.N < 0 {
			// a segment of unknown length can only be taken whole, as the tail …
			if hi < 0 && pos >= lo {
				out = append(out, s)
				return out, true
			}
			// … or, for a symbolic input, by its leading bytes (x[:k] of a buffer assumed to be at least k long)
			if s.Kind == "sym" && s.Hi < 0 && hi >= 0 && pos >= lo && pos == lo {
				out = append(out, bseg{Kind: "sym", Src: s.Src, Lo: s.Lo, Hi: s.Lo + (hi - pos), N: hi - pos})
				return out, true
			}
			return out, false
		}
		a, b := pos, pos+s.N
		pos = b
		if b <= lo {
			continue
		}
		from, to := a, b
		if from < lo {
			from = lo
		}
		if hi >= 0 && to > hi {
			to = hi
		}
		if from >= to {
			continue
		}
		ns := s
		ns.N = to - from
		switch s.Kind {
		case "const":
			ns.B = s.B[from-a : to-a]
		case "sym":
			ns.Lo = s.Lo + (from - a)
			ns.Hi = s.Lo + (to - a)
		case "rand", "unk":
		default:
			if from != a || to != b {
				ns = bseg{Kind: "unk", N: to - from}
			}
		}
		if from != a || to != b {
			ns.Origin = nil
		}
		out = append(out, ns)
	}
	if hi >= 0 && pos < hi {
		return out, false // shorter than requested
	}
	return out, true
}

func (e *bsEval) eval(v ssa.Value) ([]bseg, bool) {
	e.depth++
	defer func() { e.depth-- }()
	if e.depth > 24 || v == nil {
		return nil, false
	}
	v = stripConv(v)
	if b, ok := e.env[v]; ok && b.isSeq {
		return b.seq, true
	}
	if sl, isSl := v.(*ssa.Slice); isSl {
		// a composite literal / variadic argument list of constants (not an array variable that is filled later)
		if al, isAl := sl.X.(*ssa.Alloc); isAl && (al.Comment == "slicelit" || al.Comment == "varargs") {
			if cb, ok := constBytes(v); ok {
				return []bseg{{Kind: "const", B: cb, N: int64(len(cb))}}, true
			}
		}
	}
	switch x := v.(type) {
	case *ssa.Const:
		if x.Value == nil {
			return nil, true // nil slice
		}
		if s, ok := strConst(x); ok {
			bs := make([]int64, len(s))
			for i := range s {
				bs[i] = int64(s[i])
			}
			return []bseg{{Kind: "const", B: bs, N: int64(len(bs))}}, true
		}
	case *ssa.Parameter:
		n := e.lenOf(x)
		return []bseg{{Kind: "sym", Src: x, Lo: 0, Hi: n, N: n}}, true
	case *ssa.Call:
		return e.evalCall(x)
	case *ssa.Slice:
		return e.evalSlice(x)
	case *ssa.MakeSlice:
		return e.contents(x, nil)
	case *ssa.Phi:
		return e.evalAccumulate(x)
	case *ssa.UnOp:
		if x.Op == token.MUL {
			if a, ok := x.X.(*ssa.Alloc); ok {
				if sv := cellValue(a, x); sv != nil {
					return e.eval(sv)
				}
			}
			// *p for a pointer obtained elsewhere (a pooled *[]byte): the value of the last store through p that
			// dominates this load, or — before any store — the content the pointer came with (a symbol of its own)
			if _, isAlloc := x.X.(*ssa.Alloc); !isAlloc && x.X.Referrers() != nil {
				var last *ssa.Store
				for _, r := range *x.X.Referrers() {
					st, ok := r.(*ssa.Store)
					if !ok || st.Addr != x.X {
						continue
					}
					if !instrDominates(st, x) {
						if st.Block() != x.Block() && blockReaches(st.Block(), x.Block(), false) {
							// a store on some but not all ways here: the content is not determined
							return []bseg{{Kind: "sym", Src: v, Lo: 0, Hi: -1, N: -1}}, true
						}
						continue
					}
					if last == nil || instrDominates(last, st) {
						last = st
					}
				}
				if last != nil {
					return e.eval(last.Val)
				}
				return []bseg{{Kind: "sym", Src: x.X, Lo: 0, Hi: -1, N: -1}}, true
			}
		}
	}
	return []bseg{{Kind: "sym", Src: v, Lo: 0, Hi: -1, N: -1}}, true
}

func (e *bsEval) evalCall(x *ssa.Call) ([]bseg, bool) {
	n := calleeName(&x.Call)
	switch {
	case n == "builtin.append":
		a, ok1 := e.eval(x.Call.Args[0])
		if !ok1 {
			return nil, false
		}
		out := append([]bseg{}, a...)
		for _, arg := range x.Call.Args[1:] {
			b, ok2 := e.eval(arg)
			if !ok2 {
				return nil, false
			}
			out = append(out, b...)
		}
		return out, true
	case strings.Contains(n, "bigEndian).AppendUint"):
		// binary.BigEndian.AppendUintN(b, v) = b ‖ BE_N(v)
		args := x.Call.Args
		if len(args) < 2 {
			return nil, false
		}
		base, ok := e.eval(args[len(args)-2])
		if !ok {
			return nil, false
		}
		w := int64(2)
		if strings.HasSuffix(n, "AppendUint32") {
			w = 4
		} else if strings.HasSuffix(n, "AppendUint64") {
			w = 8
		}
		val := args[len(args)-1]
		out := append([]bseg{}, base...)
		if k, isK := e.intOf(val); isK {
			bs := make([]int64, w)
			for i := int64(0); i < w; i++ {
				bs[i] = (k >> uint(8*(w-1-i))) & 0xff
			}
			return append(out, bseg{Kind: "const", B: bs, N: w}), true
		}
		if lc, isL := stripConv(val).(*ssa.Call); isL && calleeName(&lc.Call) == "builtin.len" {
			src := lc.Call.Args[0]
			if b, okB := e.env[stripConv(src)]; okB && b.val != nil {
				src = b.val
			}
			return append(out, bseg{Kind: "belen", Src: src, N: w}), true
		}
		return append(out, bseg{Kind: "be", Src: val, N: w}), true
	case n == "(*bytes.Buffer).Bytes":
		if a, ok := x.Call.Args[0].(*ssa.Alloc); ok {
			return e.evalBuffer(a, x)
		}
	}
	g := x.Call.StaticCallee()
	if g == nil || !e.p.InRepo(g) || len(g.Blocks) == 0 || g.Signature.Results().Len() != 1 {
		return []bseg{{Kind: "sym", Src: x, Lo: 0, Hi: -1, N: -1}}, true
	}
	rets := returnsOf(g)
	if len(rets) != 1 {
		return []bseg{{Kind: "sym", Src: x, Lo: 0, Hi: -1, N: -1}}, true
	}
	args := callArgs(&x.Call)
	if len(args) != len(g.Params) {
		return nil, false
	}
	child := &bsEval{p: e.p, assume: e.assume, env: map[ssa.Value]bsBind{}, depth: e.depth}
	for i, pr := range g.Params {
		b := bsBind{val: args[i]}
		if k, ok := e.intOf(args[i]); ok {
			b.k, b.isK = k, true
		}
		switch pr.Type().Underlying().(type) {
		case *types.Slice, *types.Array:
			if q, ok := e.eval(args[i]); ok {
				// mark the whole argument as one origin (the body a wrapper copies)
				q2 := append([]bseg{}, q...)
				for j := range q2 {
					q2[j].Origin = args[i]
				}
				b.seq, b.isSeq = q2, true
			}
		}
		child.env[pr] = b
	}
	return child.eval(resultValue(rets[0], 0))
}

func (e *bsEval) evalSlice(x *ssa.Slice) ([]bseg, bool) {
	lo, hi := int64(0), int64(-1)
	if x.Low != nil {
		k, ok := e.intOf(x.Low)
		if !ok {
			return []bseg{{Kind: "sym", Src: x, Lo: 0, Hi: -1, N: -1}}, true
		}
		lo = k
	}
	if x.High != nil {
		k, ok := e.intOf(x.High)
		if !ok {
			return []bseg{{Kind: "sym", Src: x, Lo: 0, Hi: -1, N: -1}}, true
		}
		hi = k
	}
	var inner []bseg
	var ok bool
	switch b := x.X.(type) {
	case *ssa.Alloc:
		inner, ok = e.contents(b, x)
	default:
		inner, ok = e.eval(x.X)
	}
	if !ok {
		return nil, false
	}
	if lo == 0 && hi < 0 {
		return inner, true
	}
	// a symbolic whole: slice of it
	if len(inner) == 1 && inner[0].Kind == "sym" && inner[0].N < 0 {
		s := inner[0]
		ns := bseg{Kind: "sym", Src: s.Src, Lo: s.Lo + lo, Hi: -1, N: -1}
		if hi >= 0 {
			ns.Hi, ns.N = s.Lo+hi, hi-lo
		}
		return []bseg{ns}, true
	}
	return cutSeq(inner, lo, hi)
}

// contents: the bytes of a local array cell or of a made slice, from the writes into it (directly, or through
// re-slices with constant bounds).
func (e *bsEval) contents(base ssa.Value, at ssa.Instruction) ([]bseg, bool) {
	total := int64(-1)
	switch b := base.(type) {
	case *ssa.Alloc:
		arr, ok := b.Type().(*types.Pointer).Elem().Underlying().(*types.Array)
		if !ok {
			return nil, false
		}
		total = arr.Len()
	case *ssa.MakeSlice:
		if k, ok := e.intOf(b.Len); ok {
			total = k
		}
	}
	type region struct {
		lo  int64
		seq []bseg
	}
	var regs []region
	bad := false
	// visit: v denotes base[off : hi) (hi < 0: to the end)
	var visit func(v ssa.Value, off, hi int64, depth int)
	visit = func(v ssa.Value, off, hi int64, depth int) {
		if v.Referrers() == nil || depth > 4 {
			return
		}
		for _, user := range *v.Referrers() {
			switch u := user.(type) {
			case *ssa.Store:
				if u.Addr == v && v == base {
					// whole-array store (an array parameter spilled to a cell)
					if q, ok := e.eval(u.Val); ok {
						regs = append(regs, region{0, q})
					} else {
						bad = true
					}
				}
			case *ssa.IndexAddr:
				if u.X != v || u.Referrers() == nil {
					continue
				}
				k, isK := e.intOf(u.Index)
				for _, r2 := range *u.Referrers() {
					st, isSt := r2.(*ssa.Store)
					if !isSt {
						continue
					}
					if !isK {
						bad = true
						continue
					}
					if b, ok := e.intOf(st.Val); ok {
						regs = append(regs, region{off + k, []bseg{{Kind: "const", B: []int64{b & 0xff}, N: 1}}})
					} else if src, sh, okB := byteOf(st.Val); okB {
						// byte k of an integer: of a length (byte(len(x)>>8), byte(len(x))) or of another value
						seg := bseg{Kind: "bebyte", Src: src, Lo: sh, N: 1}
						if lc, isL := stripConv(src).(*ssa.Call); isL && calleeName(&lc.Call) == "builtin.len" {
							a := lc.Call.Args[0]
							if bnd, okE := e.env[stripConv(a)]; okE && bnd.val != nil {
								a = bnd.val
							}
							seg = bseg{Kind: "belenbyte", Src: a, Lo: sh, N: 1}
						} else if ld, isLd := stripConv(src).(*ssa.UnOp); isLd {
							// a local variable holding len(x)
							if al, isAl := ld.X.(*ssa.Alloc); isAl {
								if sv := cellValue(al, ld); sv != nil {
									if lc, isL := stripConv(sv).(*ssa.Call); isL && calleeName(&lc.Call) == "builtin.len" {
										a := lc.Call.Args[0]
										if bnd, okE := e.env[stripConv(a)]; okE && bnd.val != nil {
											a = bnd.val
										}
										seg = bseg{Kind: "belenbyte", Src: a, Lo: sh, N: 1}
									}
								}
							}
						}
						regs = append(regs, region{off + k, []bseg{seg}})
					} else {
						regs = append(regs, region{off + k, []bseg{{Kind: "be", Src: st.Val, N: 1}}})
					}
				}
			case *ssa.Slice:
				if u.X != v {
					continue
				}
				lo, h2 := int64(0), int64(-1)
				okB := true
				if u.Low != nil {
					k, okK := e.intOf(u.Low)
					lo, okB = k, okK
				}
				if u.High != nil && okB {
					k, okK := e.intOf(u.High)
					h2, okB = off+k, okK
				}
				if !okB {
					// a slice with unknown bounds that is written through would make the contents unknown
					if sliceWrittenThrough(u) {
						bad = true
					}
					continue
				}
				if h2 < 0 {
					h2 = hi
				}
				visit(u, off+lo, h2, depth+1)
			case *ssa.Call:
				n := calleeName(&u.Call)
				args := u.Call.Args
				switch {
				case n == "builtin.copy" && len(args) == 2:
					if args[0] != v {
						continue // v is the source, or unrelated
					}
					src, okS := e.eval(args[1])
					if !okS {
						bad = true
						continue
					}
					limit := hi
					if limit < 0 {
						limit = total
					}
					if limit >= 0 {
						if n := seqLen(src); n < 0 || n > limit-off {
							c, okC := cutSeq(src, 0, limit-off)
							if !okC {
								// a source of unknown length into a destination of unknown length: the open tail
								if n < 0 && hi < 0 && total < 0 {
									regs = append(regs, region{off, src})
									continue
								}
								bad = true
								continue
							}
							src = c
						}
					}
					regs = append(regs, region{off, src})
				case strings.Contains(n, "bigEndian).PutUint"):
					w := int64(2)
					if strings.HasSuffix(n, "PutUint32") {
						w = 4
					} else if strings.HasSuffix(n, "PutUint64") {
						w = 8
					}
					if args[len(args)-2] != v {
						continue
					}
					val := args[len(args)-1]
					if k, isK := e.intOf(val); isK {
						bs := make([]int64, w)
						for i := int64(0); i < w; i++ {
							bs[i] = (k >> uint(8*(w-1-i))) & 0xff
						}
						regs = append(regs, region{off, []bseg{{Kind: "const", B: bs, N: w}}})
					} else if lc, isL := stripConv(val).(*ssa.Call); isL && calleeName(&lc.Call) == "builtin.len" {
						src := lc.Call.Args[0]
						if b, okB := e.env[stripConv(src)]; okB && b.val != nil {
							src = b.val
						}
						regs = append(regs, region{off, []bseg{{Kind: "belen", Src: src, N: w}}})
					} else {
						regs = append(regs, region{off, []bseg{{Kind: "be", Src: val, N: w}}})
					}
				case strings.HasSuffix(n, "CryptoRandRead") || n == "crypto/rand.Read" || n == "io.ReadFull":
					if args[len(args)-1] != v {
						continue
					}
					h := hi
					if h < 0 {
						h = total
					}
					if h < 0 {
						bad = true
						continue
					}
					regs = append(regs, region{off, []bseg{{Kind: "rand", N: h - off}}})
				}
			}
		}
	}
	visit(base, 0, -1, 0)
	if bad {
		return nil, false
	}
	// no visible write at all but handed to some call: a buffer filled by a callee (a read from the network). Its
	// content is an input of its own.
	if len(regs) == 0 && passedOn(base, 0) {
		return []bseg{{Kind: "sym", Src: base, Lo: 0, Hi: total, N: total}}, true
	}
	sort.SliceStable(regs, func(i, j int) bool { return regs[i].lo < regs[j].lo })
	var out []bseg
	pos := int64(0)
	for k, r := range regs {
		if pos < 0 {
			return nil, false // something after an open tail
		}
		if r.lo < pos {
			// a later write into bytes already written: the later one (in program order) wins — only the simple case of
			// a random fill over the tail of a copy is modelled
			if r.seq[0].Kind == "rand" && len(r.seq) == 1 && k > 0 {
				c, okC := cutSeq(out, 0, r.lo)
				if !okC {
					return nil, false
				}
				out = c
				pos = r.lo
			} else {
				return nil, false
			}
		}
		if r.lo > pos {
			z := make([]int64, r.lo-pos)
			out = append(out, bseg{Kind: "const", B: z, N: r.lo - pos})
			pos = r.lo
		}
		out = append(out, r.seq...)
		n := seqLen(r.seq)
		if n < 0 {
			pos = -1
			continue
		}
		pos += n
	}
	if pos >= 0 && total >= 0 && pos < total {
		z := make([]int64, total-pos)
		out = append(out, bseg{Kind: "const", B: z, N: total - pos})
	}
	if pos >= 0 && total >= 0 && pos > total {
		c, okC := cutSeq(out, 0, total)
		if !okC {
			return nil, false
		}
		out = c
	}
	// byte(len(x)>>8), byte(len(x)) side by side are one big-endian length; likewise the bytes of another integer
	var merged []bseg
	for i := 0; i < len(out); i++ {
		s := out[i]
		if (s.Kind == "belenbyte" || s.Kind == "bebyte") && s.Lo > 0 && s.Lo%8 == 0 {
			w := s.Lo/8 + 1
			run := true
			for k := int64(1); k < w; k++ {
				j := i + int(k)
				if j >= len(out) || out[j].Kind != s.Kind || !sameExpr(out[j].Src, s.Src) || out[j].Lo != s.Lo-8*k {
					run = false
				}
			}
			if run {
				kind := "belen"
				if s.Kind == "bebyte" {
					kind = "be"
				}
				merged = append(merged, bseg{Kind: kind, Src: s.Src, N: w})
				i += int(w) - 1
				continue
			}
		}
		merged = append(merged, s)
	}
	return merged, true
}

// passedOn: v (or a re-slice of it) is an argument of a call other than len/cap/copy/append.
func passedOn(v ssa.Value, depth int) bool {
	if v.Referrers() == nil || depth > 3 {
		return false
	}
	for _, r := range *v.Referrers() {
		switch u := r.(type) {
		case *ssa.Call:
			n := calleeName(&u.Call)
			if n == "builtin.len" || n == "builtin.cap" || n == "builtin.copy" || n == "builtin.append" {
				continue
			}
			return true
		case *ssa.Slice:
			if u.X == v && passedOn(u, depth+1) {
				return true
			}
		}
	}
	return false
}

// sliceWrittenThrough: a slice value is the destination of a copy / fill / index store.
func sliceWrittenThrough(s *ssa.Slice) bool {
	if s.Referrers() == nil {
		return false
	}
	for _, r := range *s.Referrers() {
		switch u := r.(type) {
		case *ssa.Call:
			n := calleeName(&u.Call)
			if n == "builtin.copy" && u.Call.Args[0] == ssa.Value(s) {
				return true
			}
			if strings.Contains(n, "PutUint") || strings.HasSuffix(n, "CryptoRandRead") || strings.HasSuffix(n, "rand.Read") {
				return true
			}
		case *ssa.IndexAddr:
			if u.Referrers() != nil {
				for _, r2 := range *u.Referrers() {
					if _, isSt := r2.(*ssa.Store); isSt {
						return true
					}
				}
			}
		}
	}
	return false
}

// evalBuffer: a local bytes.Buffer written in straight-line order before Bytes().
func (e *bsEval) evalBuffer(a *ssa.Alloc, at *ssa.Call) ([]bseg, bool) {
	if a.Referrers() == nil {
		return nil, false
	}
	var writes []*ssa.Call
	for _, r := range *a.Referrers() {
		call, ok := r.(*ssa.Call)
		if !ok {
			if _, isDbg := r.(*ssa.DebugRef); isDbg {
				continue
			}
			return nil, false
		}
		if len(call.Call.Args) == 0 || call.Call.Args[0] != ssa.Value(a) {
			return nil, false
		}
		switch calleeName(&call.Call) {
		case "(*bytes.Buffer).Write", "(*bytes.Buffer).WriteByte", "(*bytes.Buffer).WriteString":
			if !instrDominates(call, at) {
				return nil, false
			}
			writes = append(writes, call)
		case "(*bytes.Buffer).Bytes", "(*bytes.Buffer).Len", "(*bytes.Buffer).Grow":
		default:
			return nil, false
		}
	}
	sort.SliceStable(writes, func(i, j int) bool { return instrDominates(writes[i], writes[j]) })
	for i := 0; i+1 < len(writes); i++ {
		if !instrDominates(writes[i], writes[i+1]) {
			return nil, false
		}
	}
	var out []bseg
	for _, w := range writes {
		arg := w.Call.Args[1]
		if calleeName(&w.Call) == "(*bytes.Buffer).WriteByte" {
			if k, ok := e.intOf(arg); ok {
				out = append(out, bseg{Kind: "const", B: []int64{k & 0xff}, N: 1})
			} else {
				out = append(out, bseg{Kind: "be", Src: arg, N: 1})
			}
			continue
		}
		q, ok := e.eval(arg)
		if !ok {
			return nil, false
		}
		out = append(out, q...)
	}
	return out, true
}

// evalAccumulate: ret = φ(init, append(ret, arr[i]...)) over a local array of slices with constant-index stores.
func (e *bsEval) evalAccumulate(ph *ssa.Phi) ([]bseg, bool) {
	var init ssa.Value
	var app *ssa.Call
	for _, ed := range ph.Edges {
		if call, ok := ed.(*ssa.Call); ok && calleeName(&call.Call) == "builtin.append" && len(call.Call.Args) == 2 && call.Call.Args[0] == ssa.Value(ph) {
			app = call
		} else {
			if init != nil {
				return nil, false
			}
			init = ed
		}
	}
	if app == nil || init == nil {
		return nil, false
	}
	// the element: *(&arr[i]) or (*arr)[i]
	var arr *ssa.Alloc
	var ia *ssa.IndexAddr
	switch el := app.Call.Args[1].(type) {
	case *ssa.UnOp:
		if el.Op != token.MUL {
			return nil, false
		}
		x, ok := el.X.(*ssa.IndexAddr)
		if !ok {
			return nil, false
		}
		ia = x
		arr, _ = x.X.(*ssa.Alloc)
	case *ssa.Index:
		if ld, ok := el.X.(*ssa.UnOp); ok && ld.Op == token.MUL {
			arr, _ = ld.X.(*ssa.Alloc)
		}
	}
	if arr == nil || arr.Referrers() == nil {
		return nil, false
	}
	at, ok := arr.Type().(*types.Pointer).Elem().Underlying().(*types.Array)
	if !ok {
		return nil, false
	}
	elems := map[int64]ssa.Value{}
	for _, r := range *arr.Referrers() {
		ia2, ok := r.(*ssa.IndexAddr)
		if !ok || ia2 == ia || ia2.Referrers() == nil {
			continue
		}
		k, isK := intConst(ia2.Index)
		for _, r2 := range *ia2.Referrers() {
			if st, isSt := r2.(*ssa.Store); isSt {
				if !isK {
					return nil, false
				}
				if _, dup := elems[k]; dup {
					return nil, false
				}
				elems[k] = st.Val
			}
		}
	}
	out, ok := e.eval(init)
	if !ok {
		return nil, false
	}
	out = append([]bseg{}, out...)
	for k := int64(0); k < at.Len(); k++ {
		v, has := elems[k]
		if !has {
			continue // nil element: no bytes
		}
		q, ok := e.eval(v)
		if !ok {
			return nil, false
		}
		out = append(out, q...)
	}
	return out, true
}

// ---- flattened view ----

// bsAt: the segment covering absolute offset off and the offset inside it; total must be known up to there.
func bsAt(q []bseg, off int64) (bseg, int64, bool) {
	pos := int64(0)
	for _, s := range q {
		if s.N < 0 {
			return bseg{}, 0, false
		}
		if off < pos+s.N {
			return s, off - pos, true
		}
		pos += s.N
	}
	return bseg{}, 0, false
}

// bsConst: the constant bytes at [off, off+n), if all of them are constants.
func bsConst(q []bseg, off, n int64) ([]int64, bool) {
	c, ok := cutSeq(q, off, off+n)
	if !ok {
		return nil, false
	}
	var out []int64
	for _, s := range c {
		if s.Kind != "const" {
			return nil, false
		}
		out = append(out, s.B...)
	}
	return out, int64(len(out)) == n
}

// bsIsSym: bytes [off, off+n) are exactly src[lo:lo+n).
func bsIsSym(q []bseg, off, n int64, src ssa.Value, lo int64) bool {
	c, ok := cutSeq(q, off, off+n)
	if !ok {
		return false
	}
	pos := lo
	for _, s := range c {
		if s.Kind != "sym" || s.Src != src || s.Lo != pos {
			return false
		}
		pos += s.N
	}
	return pos == lo+n
}

// bsOffsetOfSym: absolute offset at which src[lo:…] starts.
func bsOffsetOfSym(q []bseg, src ssa.Value, lo int64) int64 {
	pos := int64(0)
	for _, s := range q {
		if s.Kind == "sym" && s.Src == src && s.Lo == lo {
			return pos
		}
		if s.N < 0 {
			return -1
		}
		pos += s.N
	}
	return -1
}
