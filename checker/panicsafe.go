package main

import (
	"fmt"
	"go/types"
	"sort"
	"strings"

	"golang.org/x/tools/go/ssa"
)

// E11 PANICSAFE (part 2) — every panic-capable instruction reachable from the entries is either under a recover
// frame on every call chain, or individually justified in a frozen table whose entries carry a structural validator.

type panicJustification struct {
	fn     string // shortFn of the enclosing function
	match  string // substring of the instruction description
	reason string
	// validate re-checks the structural fact the justification rests on; nil = textual reason only
	validate func(p *Prog, f *ssa.Function, at ssa.Instruction) (bool, string)
}

// guardedByLenOf: the instruction is dominated by a comparison that bounds the index/slice against len(x).
func dominatedByLenCheck(at ssa.Instruction) bool {
	for _, a := range AtomsAt(at) {
		if a.Kind == "cmp" && strings.Contains(a.String(), "len(") {
			return true
		}
	}
	return false
}

func callersPassConstLen(min int64) func(p *Prog, f *ssa.Function, at ssa.Instruction) (bool, string) {
	return func(p *Prog, f *ssa.Function, at ssa.Instruction) (bool, string) {
		// every in-repo, non-test caller passes make([]byte, K) with constant K >= min for the []byte parameter
		idx := -1
		for k, q := range f.Params {
			if typeStr(q.Type()) == "[]byte" {
				idx = k
			}
		}
		if idx < 0 {
			return false, "no []byte parameter"
		}
		n := 0
		for _, cs := range p.CallersOf(f) {
			if !p.InRepo(cs.Parent()) || strings.HasSuffix(p.Pos(cs.Pos()), "_test.go") || strings.HasSuffix(p.Pos(cs.Pos()), "_fuzz.go") {
				continue
			}
			n++
			arg := callArgs(cs.Common())[idx]
			k, isK := constLenOf(arg)
			if !isK {
				return false, "caller " + shortFn(cs.Parent()) + " passes " + Expr(arg) + " (length not a constant)"
			}
			if k < min {
				return false, fmt.Sprintf("caller %s passes a buffer of length %d (< %d)", shortFn(cs.Parent()), k, min)
			}
		}
		return n > 0, fmt.Sprintf("%d caller(s) pass make([]byte, K) with constant K >= %d", n, min)
	}
}

// constLenOf: length of make([]T, K) with constant K (go/ssa turns it into new [K]T sliced [:K]).
func constLenOf(v ssa.Value) (int64, bool) {
	switch x := v.(type) {
	case *ssa.MakeSlice:
		return intConst(x.Len)
	case *ssa.Slice:
		if x.Low == nil {
			if al, ok := x.X.(*ssa.Alloc); ok {
				if pt, ok := al.Type().Underlying().(*types.Pointer); ok {
					if at, ok := pt.Elem().Underlying().(*types.Array); ok {
						if x.High == nil {
							return at.Len(), true
						}
						return intConst(x.High)
					}
				}
			}
		}
	}
	return 0, false
}

func alwaysLenGuard(p *Prog, f *ssa.Function, at ssa.Instruction) (bool, string) {
	if dominatedByLenCheck(at) {
		return true, "dominated by a length comparison"
	}
	return false, "no dominating length comparison"
}

// PanicSafety evaluates the rule for a set of entries.
func PanicSafetyWith(c *Ctx, rule string, entries []*ssa.Function, cut func(*ssa.Function) bool, table []panicJustification, dump bool) {
	p := c.P
	b := p.BCE()
	if b.err != nil {
		c.Undecided(rule, "compiler bounds-check list", "-", b.err.Error())
		return
	}
	funcs := reachableRepo(p, entries, cut, true)
	inSet := map[*ssa.Function]bool{}
	for _, f := range funcs {
		inSet[f] = true
	}
	// covered: f has a recover frame, or every in-set synchronous caller is covered (and f is not an entry / goroutine root)
	covered := map[*ssa.Function]bool{}
	for _, f := range funcs {
		if hasRecoverFrame(f) {
			covered[f] = true
		}
	}
	isEntry := map[*ssa.Function]bool{}
	for _, e := range entries {
		isEntry[e] = true
	}
	for changed := true; changed; {
		changed = false
		for _, f := range funcs {
			if covered[f] || isEntry[f] {
				continue
			}
			callers := 0
			all := true
			for _, cs := range p.CallersOf(f) {
				g := cs.Parent()
				if !inSet[g] {
					continue
				}
				callers++
				if _, isGo := cs.(*ssa.Go); isGo || !covered[g] {
					all = false
				}
			}
			// closures: also covered when the parent is covered and the closure is only called synchronously inside it
			if callers > 0 && all {
				covered[f] = true
				changed = true
			}
		}
	}
	total, rec, just := 0, 0, 0
	for _, f := range funcs {
		if cut != nil && cut(f) {
			continue // boundary function (behind the cut): not part of this rule's scope
		}
		sites := panicCapable(p, b, f)
		sort.Slice(sites, func(i, j int) bool { return sites[i].at.Pos() < sites[j].at.Pos() })
		for _, s := range sites {
			total++
			construct := fmt.Sprintf("%s in %s", s.what, shortFn(f))
			if dump {
				fmt.Printf("PANIC-SITE %-60s %s covered=%v\n", c.at(s.at), construct, covered[f])
			}
			if covered[f] {
				rec++
				c.OK(rule, construct, c.at(s.at), "under a recover frame on every call chain from the entry")
				continue
			}
			if ok, why := genericJustify(p, f, s.at); ok {
				c.OK(rule, construct, c.at(s.at), "justified (structural): "+why)
				just++
				continue
			}
			var hit *panicJustification
			for k := range table {
				if strings.Contains(s.what, table[k].match) && justFnIs(p, table[k].fn, f) {
					hit = &table[k]
					break
				}
			}
			if hit == nil {
				c.Bad(rule, construct, c.at(s.at), "panic-capable operation reachable from "+shortFn(entries[0])+" with attacker-influenced operands: not proven in bounds by the compiler, not under a recover frame, and not in the table of justified sites — a crafted input can crash the server process (the goroutine has no recover)")
				continue
			}
			if hit.validate != nil {
				ok, why := hit.validate(p, f, s.at)
				c.Check(ok, rule, construct, c.at(s.at), "justified: "+hit.reason+" ["+why+"]", "the justification '"+hit.reason+"' no longer holds: "+why)
			} else {
				c.OK(rule, construct, c.at(s.at), "justified: "+hit.reason)
			}
			just++
		}
	}
	c.OK(rule, fmt.Sprintf("enumeration: %d function(s) reachable", len(funcs)), "-", fmt.Sprintf("%d panic-capable sites: %d under recover, %d justified", total, rec, just))
}
