package main

import (
	"fmt"
	"go/token"
	"go/types"
	"strings"

	"golang.org/x/tools/go/ssa"
)

func init() {
	register(&PropDef{
		ID: "C03", Title: "closing a stream delivers everything written before it, then end-of-stream",
		Run:       runC03,
		Technique: "static analysis: lockset + typestate (closing notice is a sequenced frame under the write mutex), post-dominance (every close path wakes the reader before anything that can fail), condition-variable discipline, guard extraction for EOF/refusal conditions",
		Decided: "(b) the closing notice is the stream's own sequenced frame, flagged before the send, sent through the same encode-and-send helper with the write mutex held; (c) the receiver reports the close only for the in-turn frame (C02.R5); " +
			"(d) every close of a stream closes its receive buffer right after winning the closed flag — before any operation that can fail or return — and both buffer implementations set closed and broadcast under their lock; session teardown does the same for every stream; " +
			"(e) both pipes return end-of-stream only when closed AND drained and still serve buffered data after close; (f) end-of-stream is mapped to the broken-stream error, Write re-reads the closed flag under the write mutex before its first send, ReadFrom re-checks after its blocking read, a close verdict from the buffer triggers the passive close.",
		NotDecided:  "(a)/(g) the equality 'reader gets exactly B' and which prefix is read under simultaneous close — run-time values depending on schedules.",
		Assumptions: []string{"sync.Cond/Mutex semantics", "C02's in-turn rules hold (imported R2)"},
	})
}

func runC03(c *Ctx) {
	c03R1(c, "C03.R1")
	c03R2(c, "C03.R2")
	condvarRules(c, "C03.R3")
	c03R4(c, "C03.R4")
	c03R5(c, "C03.R5")
	c03R6(c, "C03.R6")
	// imported: the receiver applies the close only in turn, and everything with a lower number has been handed to the
	// pipe (not merely popped) by then: deliver-in-turn, write/increment pairing and the reorder invariant
	c.importing = "C02"
	c02R1(c, "C02.R1")
	c02R2(c, "C02.R2")
	c02R3(c, "C02.R3")
	c02R5(c, "C02.R5")
	c02R6(c, "C02.R6")
	// "blocked reads return, writes fail" after a close needs the close itself to complete: no wait with a lock held
	// that Close needs (the one instance on the tree is the known finding D12)
	c.importing = "C12"
	nestedMonitorRules(c, "C12.R9", func(cl string) bool { return strings.HasPrefix(cl, "multiplex.") })
	c.importing = ""
}

func c03R1(c *Ctx, rule string) {
	c.Rule(rule, "close is sequenced: on the active path closeStream flags &s.writingFrame as closingStream, sends it through the sequencing helper, with writingM held by every caller that passes active=true", 3)
	a := getMuxAnchors(c, rule)
	if a == nil {
		return
	}
	p := c.P
	cs := c.need(rule, "internal/multiplex", "Session.closeStream")
	if cs == nil {
		return
	}
	closingStream, _ := p.Const("internal/multiplex", "closingStream")
	var flagStore *ssa.Store
	allInstrs(cs, func(i ssa.Instruction) {
		if st, ok := i.(*ssa.Store); ok {
			if fv, _ := fieldVar(st.Addr); fv == a.closing && rootedAtField(st.Addr, a.writingFrame) {
				if k, isK := intConst(st.Val); isK && k == closingStream {
					flagStore = st
				}
			}
		}
	})
	if flagStore == nil {
		c.Bad(rule, "closing flag set on the stream's own frame", c.atFn(cs), "closeStream does not mark &s.writingFrame as closingStream: the notice is not the stream's sequenced frame (it would not be ordered after the data)")
		return
	}
	c.OK(rule, "closing flag set on the stream's own frame", c.at(flagStore), "s.writingFrame.Closing = closingStream")
	// the send after the flag goes through a function that encodes &s.writingFrame and increments Seq (the sequencing helper)
	var send *ssa.Call
	allInstrs(cs, func(i ssa.Instruction) {
		call, ok := i.(*ssa.Call)
		if !ok || !instrDominates(flagStore, i) || send != nil {
			return
		}
		if g := call.Call.StaticCallee(); g != nil && p.InRepo(g) {
			encodes := false
			allInstrs(g, func(j ssa.Instruction) {
				if cj, ok := j.(*ssa.Call); ok && cj.Call.StaticCallee() == a.obfuscate && len(cj.Call.Args) >= 2 && rootedAtField(cj.Call.Args[1], a.writingFrame) {
					encodes = true
				}
			})
			if encodes {
				send = call
			}
		}
		if call.Call.StaticCallee() == a.obfuscate && len(call.Call.Args) >= 2 && rootedAtField(call.Call.Args[1], a.writingFrame) {
			send = call
		}
	})
	c.Check(send != nil, rule, "closing notice sent as the stream's next sequenced frame", c.at(flagStore), "flag store dominates the sequenced encode-and-send", "after flagging the frame nothing encodes and sends &s.writingFrame: the peer is never told, or is told with an unsequenced frame")
	// active guard and lock: the flag store is in the active==true specialisation and writingM is held there
	ls := p.Locksets()
	held, _ := lockHeldByClass(ls.MustHeld(flagStore), a.writingM)
	c.Check(held, rule, "write mutex held while the closing frame is built and sent", c.at(flagStore), "writingM ∈ must-hold set (all callers with active=true hold it)", "the closing frame is numbered without the write mutex: a concurrent Write can take the same number or be numbered after the close")
	// Stream.Close is an active close, always: whatever the stream did before (an accepted stream that never wrote a byte
	// exists on the peer all the same), the peer learns of a close only from the closing frame
	if sc := c.need(rule, "internal/multiplex", "Stream.Close"); sc != nil {
		n, okActive := 0, true
		p.unitInstrs(sc, func(i ssa.Instruction) {
			call, ok := i.(*ssa.Call)
			if !ok || call.Call.StaticCallee() != cs || len(call.Call.Args) < 3 {
				return
			}
			n++
			if b, isK := boolConst(call.Call.Args[2]); !isK || !b {
				okActive = false
			}
		})
		if n == 0 {
			c.Undecided(rule, "Stream.Close closes actively", c.atFn(sc), "no call of closeStream found in Stream.Close")
		} else {
			c.Check(okActive, rule, "Stream.Close closes actively", c.atFn(sc), "closeStream(s, true) unconditionally", "Stream.Close does not always take the active path (the flag passed to closeStream is not the constant true): on the paths where it is false the stream is closed locally and the peer is never told — its reader blocks for ever")
		}
	}
	// a closing frame always carries at least one byte of padding: the encoder refuses an empty payload (C04.R6), and a
	// refused closing frame leaves the stream/session marked closed with nothing sent and nothing torn down
	for _, f := range p.FuncsOfPkg("internal/multiplex") {
		if strings.HasSuffix(p.Pos(f.Pos()), "_test.go") {
			continue
		}
		flags := false
		allInstrs(f, func(i ssa.Instruction) {
			if st, ok := i.(*ssa.Store); ok {
				if fv, _ := fieldVar(st.Addr); fv == a.closing {
					if k, isK := intConst(st.Val); isK && k != 0 {
						flags = true
					}
				}
			}
		})
		if !flags {
			continue
		}
		allInstrs(f, func(i ssa.Instruction) {
			st, ok := i.(*ssa.Store)
			if !ok {
				return
			}
			if fv, _ := fieldVar(st.Addr); fv != a.payload {
				return
			}
			construct := "closing frame built in " + shortFn(p.ownerAnchor(f)) + " has a non-empty payload"
			sl, isSl := st.Val.(*ssa.Slice)
			if !isSl || sl.High == nil {
				c.Undecided(rule, construct, c.at(i), "payload is not a bounded slice: "+Expr(st.Val))
				return
			}
			lo := int64(0)
			if sl.Low != nil {
				k, isK := intConst(sl.Low)
				if !isK {
					c.Undecided(rule, construct, c.at(i), "payload start is not constant")
					return
				}
				lo = k
			}
			b := &Bounds{}
			hi, form, okH := b.LowerConst(sl.High)
			c.Check(okH && hi-lo >= 1, rule, construct, c.at(i), fmt.Sprintf("length >= %d (lower form of the end: %s)", hi-lo, form),
				fmt.Sprintf("cannot prove the padding of the closing frame is at least one byte (lower bound of its length: %d, ok=%v): for some draw the encoder refuses the frame with 'payload cannot be empty' and the close is abandoned half-way", hi-lo, okH))
		})
	}
}

func c03R2(c *Ctx, rule string) {
	c.Rule(rule, "every close wakes the reader: in closeStream recvBuf.Close() follows the won CAS before any instruction that can fail or return; both recvBuffer implementations' Close set closed and broadcast", 4)
	a12 := getC12(c, rule)
	if a12 == nil {
		return
	}
	p := c.P
	cs := c.need(rule, "internal/multiplex", "Session.closeStream")
	if cs == nil {
		return
	}
	var cas *ssa.Call
	var bufClose ssa.Instruction
	allInstrs(cs, func(i ssa.Instruction) {
		call, ok := i.(*ssa.Call)
		if !ok {
			return
		}
		if calleeName(&call.Call) == "sync/atomic.CompareAndSwapUint32" {
			if fv, _ := fieldVar(call.Call.Args[0]); fv == a12.stClosed {
				cas = call
			}
		}
		if call.Call.IsInvoke() && call.Call.Method.Name() == "Close" {
			if fv, _ := loadedField(call.Call.Value); fv == a12.recvBuf {
				bufClose = i
			}
		}
	})
	// `defer s.recvBuf.Close()` registered right after the CAS is equivalent: it runs at every later return
	if bufClose == nil {
		allInstrs(cs, func(i ssa.Instruction) {
			if d, ok := i.(*ssa.Defer); ok && d.Call.IsInvoke() && d.Call.Method.Name() == "Close" {
				if fv, _ := loadedField(d.Call.Value); fv == a12.recvBuf {
					bufClose = i
				}
			}
		})
	}
	if cas == nil || bufClose == nil {
		c.Bad(rule, "closeStream closes the receive buffer", c.atFn(cs), fmt.Sprintf("CAS on stream.closed found=%v, recvBuf.Close() found=%v: a stream close never wakes a blocked reader", cas != nil, bufClose != nil))
		return
	}
	// from the won-CAS edge every path reaches recvBuf.Close before any return and before any call that can fail
	// (sends, encodes): i.e. nothing but the Close may lie between.
	miss := edgeSearch(cs, cas, func(at Atom) bool { return at.Kind == "call" && at.Call == cas && !at.Pol },
		func(i ssa.Instruction) bool { return i == bufClose },
		func(i ssa.Instruction) bool {
			if _, isRet := i.(*ssa.Return); isRet {
				return true
			}
			if call, ok := i.(*ssa.Call); ok {
				if g := call.Call.StaticCallee(); g != nil && p.InRepo(g) {
					return true // an in-repo call (send path) before the buffer is closed
				}
			}
			return false
		})
	c.Check(miss == nil, rule, "recvBuf.Close() directly follows the won CAS in closeStream", c.at(bufClose), "no return and no send between winning stream.closed and closing the receive buffer",
		"after winning the closed flag control can reach "+fmt.Sprint(miss)+" at "+p.InstrPos(miss)+" before the receive buffer is closed: if that path fails or returns, readers blocked on this stream are never woken (closeSession skips streams already marked closed)")
	// implementations of recvBuffer.Close
	for _, impl := range []string{"streamBuffer", "streamBufferedPipe", "datagramBufferedPipe"} {
		f := p.Func("internal/multiplex", impl+".Close")
		if f == nil {
			c.Undecided(rule, "anchor "+impl+".Close", "-", "not found")
			continue
		}
		if impl == "streamBuffer" {
			// forwards to the pipe
			fw := len(callsIn(f, "(*internal/multiplex.streamBufferedPipe).Close")) == 1
			c.Check(fw, rule, impl+".Close forwards to its pipe", c.atFn(f), "sb.buf.Close()", "streamBuffer.Close does not close the pipe")
			continue
		}
		closedF := p.Field("internal/multiplex", impl, "closed")
		set, bc := false, false
		p.unitInstrs(f, func(i ssa.Instruction) {
			if st, ok := i.(*ssa.Store); ok {
				if fv, _ := fieldVar(st.Addr); fv == closedF {
					if b, isB := boolConst(st.Val); isB && b {
						set = true
					}
				}
			}
			if isCall(i, "(*sync.Cond).Broadcast") {
				bc = true
			}
		})
		c.Check(set && bc, rule, impl+".Close sets closed and broadcasts", c.atFn(f), "closed = true; Broadcast()", fmt.Sprintf("closed set=%v, broadcast=%v", set, bc))
	}
}

func c03R4(c *Ctx, rule string) {
	c.Rule(rule, "EOF only when closed and drained: in both pipes every 'return …, io.EOF' is guarded by closed ∧ empty, and the data path does not bail out on closed alone", 2)
	p := c.P
	for _, cp := range []struct{ typ, emptyDesc string }{{"streamBufferedPipe", "buf.Len()==0"}, {"datagramBufferedPipe", "len(pLens)==0"}} {
		f := p.Func("internal/multiplex", cp.typ+".Read")
		if f == nil {
			c.Undecided(rule, "anchor "+cp.typ+".Read", "-", "not found")
			continue
		}
		closedF := p.Field("internal/multiplex", cp.typ, "closed")
		nEOF := 0
		for _, rp := range p.unitRetPoints(f) {
			r := rp.At
			if len(rp.Vals) < 2 {
				continue
			}
			ev := rp.Vals[1]
			isEOF := false
			if ld, ok := ev.(*ssa.UnOp); ok {
				if g, ok := ld.X.(*ssa.Global); ok && g.Name() == "EOF" {
					isEOF = true
				}
			}
			if !isEOF {
				// a return that yields data or another error must not be taken merely because closed is true
				continue
			}
			nEOF++
			closed, empty := false, false
			for _, at := range rp.Atoms {
				if at.Kind == "bool" && at.Pol {
					if fv, _ := loadedField(at.X); fv == closedF {
						closed = true
					}
				}
				if at.Kind == "cmp" && at.Op == token.EQL {
					s := at.String()
					if (strings.Contains(s, "Len(") || strings.Contains(s, "len(")) && (isZero(at.X) || isZero(at.Y)) {
						empty = true
					}
				}
			}
			c.Check(closed && empty, rule, cp.typ+".Read: EOF at "+strings.TrimPrefix(c.at(r), "internal/multiplex/"), c.at(r), "guarded by closed ∧ "+cp.emptyDesc,
				fmt.Sprintf("end-of-stream reported with closed=%v, drained=%v in its guard: bytes that arrived before the close are lost to the reader (early end)", closed, empty))
		}
		if nEOF == 0 {
			c.Bad(rule, cp.typ+".Read returns EOF", c.atFn(f), "the pipe never reports end-of-stream: readers of a closed stream block forever")
		}
		// no early return on closed alone: every return guarded by closed==true is also guarded by the emptiness test
		for _, rp := range p.unitRetPoints(f) {
			r := rp.At
			closed, empty := false, false
			for _, at := range rp.Atoms {
				if at.Kind == "bool" && at.Pol {
					if fv, _ := loadedField(at.X); fv == closedF {
						closed = true
					}
				}
				if at.Kind == "cmp" && at.Op == token.EQL && (isZero(at.X) || isZero(at.Y)) {
					empty = true
				}
			}
			if closed && !empty {
				c.Bad(rule, cp.typ+".Read: return on closed alone at "+strings.TrimPrefix(c.at(r), "internal/multiplex/"), c.at(r), "a closed pipe stops serving its buffered bytes")
			}
		}
	}
	_ = types.Typ
}

func c03R5(c *Ctx, rule string) {
	c.Rule(rule, "error mapping and refusal: Stream.Read maps io.EOF to ErrBrokenStream; Stream.Write tests isClosed() with writingM held before its first send; ReadFrom re-tests after its blocking read", 3)
	a := getMuxAnchors(c, rule)
	if a == nil {
		return
	}
	p := c.P
	ls := p.Locksets()
	isClosedF := p.Func("internal/multiplex", "Stream.isClosed")
	if rd := c.need(rule, "internal/multiplex", "Stream.Read"); rd != nil {
		ok := false
		for _, r := range returnsOf(rd) {
			eofGuard := false
			for _, at := range AtomsAt(r) {
				if at.Kind == "cmp" && at.Op == token.EQL && strings.Contains(at.String(), "io.EOF") {
					eofGuard = true
				}
			}
			if eofGuard && strings.Contains(Expr(resultValue(r, 1)), "ErrBrokenStream") {
				ok = true
			}
		}
		c.Check(ok, rule, "Stream.Read maps end-of-stream to ErrBrokenStream", c.atFn(rd), "err == io.EOF ⇒ ErrBrokenStream", "the reader of a closed stream does not get the broken-stream error")
	}
	if wr := c.need(rule, "internal/multiplex", "Stream.Write"); wr != nil && isClosedF != nil {
		var sends []ssa.Instruction
		allInstrs(wr, func(i ssa.Instruction) {
			if call, ok := i.(*ssa.Call); ok {
				if g := call.Call.StaticCallee(); isFn(g, "internal/multiplex", "Stream.obfuscateAndSend") {
					sends = append(sends, i)
				}
			}
		})
		okAll := len(sends) > 0
		why := "no send found"
		for _, s := range sends {
			var chk *ssa.Call
			for _, at := range AtomsAt(s) {
				if at.Kind == "call" && !at.Pol && at.Call.Call.StaticCallee() == isClosedF {
					chk = at.Call
				}
			}
			if chk == nil {
				okAll, why = false, "the send is not guarded by isClosed()==false"
				continue
			}
			if h, _ := lockHeldByClass(ls.MustHeld(chk), a.writingM); !h {
				okAll, why = false, "isClosed() is evaluated before taking writingM: a Close that completed in between is followed by a data frame numbered after the closing frame"
			}
		}
		c.Check(okAll, rule, "Stream.Write refuses on a closed stream, tested under the write mutex", c.atFn(wr), "isClosed()==false evaluated with writingM held dominates every send", why)
	}
	if rf := c.need(rule, "internal/multiplex", "Stream.ReadFrom"); rf != nil && isClosedF != nil {
		var rd ssa.Instruction
		allInstrs(rf, func(i ssa.Instruction) {
			if isCall(i, "(io.Reader).Read") {
				rd = i
			}
		})
		ok := false
		if rd != nil {
			allInstrs(rf, func(i ssa.Instruction) {
				if call, isC := i.(*ssa.Call); isC {
					if g := call.Call.StaticCallee(); isFn(g, "internal/multiplex", "Stream.obfuscateAndSend") {
						for _, at := range AtomsAt(i) {
							if at.Kind == "call" && !at.Pol && at.Call.Call.StaticCallee() == isClosedF && instrDominates(rd, at.Call) {
								ok = true
							}
						}
					}
				}
			})
		}
		c.Check(ok, rule, "Stream.ReadFrom re-checks isClosed() after its blocking read", c.atFn(rf), "isClosed()==false between r.Read and the send", "data read after a Close is still sent")
	}
}

func c03R6(c *Ctx, rule string) {
	c.Rule(rule, "passive close path: in Stream.recvFrame a close verdict from the receive buffer leads to passiveClose()", 1)
	p := c.P
	rf := c.need(rule, "internal/multiplex", "Stream.recvFrame")
	if rf == nil {
		return
	}
	var w *ssa.Call
	allInstrs(rf, func(i ssa.Instruction) {
		if call, ok := i.(*ssa.Call); ok && call.Call.IsInvoke() && call.Call.Method.Name() == "Write" && strings.HasSuffix(typeStr(call.Call.Value.Type()), "recvBuffer") {
			w = call
		}
	})
	if w == nil {
		c.Bad(rule, "recvFrame hands the frame to the receive buffer", c.atFn(rf), "no recvBuf.Write call")
		return
	}
	tbc := extractOf(w, 0)
	pc := p.Func("internal/multiplex", "Stream.passiveClose")
	ok := false
	// the passive close: Stream.passiveClose(), or what it stands for, session.closeStream(s, false)
	closeStreamF := p.Func("internal/multiplex", "Session.closeStream")
	isPassive := func(i ssa.Instruction) bool {
		if pc != nil && callsFn(i, pc) {
			return true
		}
		if closeStreamF != nil && callsFn(i, closeStreamF) {
			args := callArgs(callCommon(i))
			if len(args) == 3 {
				if b, isB := boolConst(args[2]); isB && !b {
					return true
				}
			}
		}
		return false
	}
	if tbc != nil && (pc != nil || closeStreamF != nil) {
		allInstrs(rf, func(call ssa.Instruction) {
			if !isPassive(call) {
				return
			}
			for _, at := range AtomsAt(call) {
				if at.Kind == "bool" && at.Pol && at.X == tbc {
					ok = true
				}
			}
		})
		// and no path with toBeClosed==true that skips it
		if ok {
			miss := edgeSearch(rf, w, func(at Atom) bool { return at.Kind == "bool" && !at.Pol && at.X == tbc },
				isPassive, func(i ssa.Instruction) bool { _, r := i.(*ssa.Return); return r })
			// miss explores only the toBeClosed==true side (false edge cut); it must not reach a return without passiveClose
			// but paths where the If is not on tbc at all would also count: acceptable (conservative)
			if miss != nil {
				// is that return on the true side? check its atoms
				for _, at := range AtomsAt(miss) {
					if at.Kind == "bool" && at.Pol && at.X == tbc {
						ok = false
					}
				}
			}
		}
	}
	c.Check(ok, rule, "close verdict ⇒ passiveClose", c.at(w), "toBeClosed == true ⇒ s.passiveClose()", "the receiver ignores the peer's close: its reader is never told, its writes keep going")
}
