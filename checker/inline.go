package main

import (
	"bytes"
	"fmt"
	"go/ast"
	"go/parser"
	"go/token"
	"go/types"
	"os"
	"sort"
	"strings"

	"golang.org/x/tools/go/packages"
)

// NORMALISATION BY INLINING — a function that the frozen table (sigs_table.go) does not know is code that was split off
// from a known function after the rules were written. Rules are stated against the known functions; so before the rules
// run, calls to such novel helpers are expanded in place, at the source level, and the program is type-checked and built
// again from the expanded source (go/packages overlay; nothing is written to /repo). Only call sites of a shape whose
// expansion is exact are expanded:
//
//	h(a)                    →  { var p = a; body }                       returns become `break L`
//	return h(a)[, lit…]     →  { var p = a; body }                       `return e` becomes `return e[, lit…]`
//	x, y := h(a)            →  var r0, r1; { …; r0, r1 = e0, e1 } x, y := r0, r1
//	if [!]h(a) {A} else {B} →  { …; body }                               `return e` becomes `if e {A} else {B}` (A or B alone
//	                                                                     when e is the constant true/false)
//	if x := h(a); c {A}…    →  { temporaries as for := ; if c {A} … }
//
// Everything declared inside the helper is renamed with a per-site suffix, so nothing is captured in either direction.
// Helpers containing defer, recover, goto, labels or recursion, variadic or generic helpers, and call sites of any other
// shape are left alone (the rules then see the call, as before). `//line` directives keep reported positions on the
// original files. When every reference to a helper was expanded, its declaration is blanked out.

type inlineNote struct {
	Helper string
	Site   string
}

type srcEdit struct {
	start, end int
	text       string
}

func applyEdits(src []byte, base int, edits []srcEdit) string {
	sort.Slice(edits, func(i, j int) bool { return edits[i].start < edits[j].start })
	var b strings.Builder
	at := base
	for _, e := range edits {
		if e.start < at {
			continue // overlapping (nested) edit: the outer one wins
		}
		b.Write(src[at-0 : e.start])
		b.WriteString(e.text)
		at = e.end
	}
	return b.String()
}

type inliner struct {
	p           *Prog
	overlay     map[string][]byte
	src         map[string][]byte
	pkgs        []*packages.Package
	novel       map[*types.Func]*ast.FuncDecl
	declPkg     map[*types.Func]*packages.Package
	counter     int
	notes       []inlineNote
	curPos      token.Pos // call site being expanded (scope for name resolution checks)
	lastImports map[string]string
	rejected    []string // expansions dropped because the package did not type-check with them
	// addImports: file → name → path, imports an expansion needs in the caller's file
	addImports map[string]map[string]string
}

func (in *inliner) content(filename string) []byte {
	if b, ok := in.src[filename]; ok {
		return b
	}
	if b, ok := in.overlay[filename]; ok {
		in.src[filename] = b
		return b
	}
	b, _ := os.ReadFile(filename)
	in.src[filename] = b
	return b
}

func (in *inliner) off(pos token.Pos) int { return in.p.Fset.PositionFor(pos, false).Offset }
func (in *inliner) file(pos token.Pos) string {
	return in.p.Fset.PositionFor(pos, false).Filename
}
func (in *inliner) text(n ast.Node) string {
	return string(in.content(in.file(n.Pos()))[in.off(n.Pos()):in.off(n.End())])
}
func (in *inliner) lineDirective(pos token.Pos) string {
	ps := in.p.Fset.Position(pos) // adjusted: honours earlier //line directives
	return fmt.Sprintf("\n//line %s:%d\n", ps.Filename, ps.Line)
}

// planInline computes, for the loaded program, an overlay in which novel helpers are expanded. nil if nothing to do.
func planInline(p *Prog, prev map[string][]byte, round int) (overlay map[string][]byte, overlayKeep map[string][]byte, notes []inlineNote) {
	in := &inliner{p: p, overlay: prev, src: map[string][]byte{}, novel: map[*types.Func]*ast.FuncDecl{}, declPkg: map[*types.Func]*packages.Package{}, counter: round * 1000, addImports: map[string]map[string]string{}}
	packages.Visit(p.Roots, nil, func(pk *packages.Package) {
		if pk.PkgPath == modPath || strings.HasPrefix(pk.PkgPath, modPath+"/") {
			in.pkgs = append(in.pkgs, pk)
		}
	})
	sort.Slice(in.pkgs, func(i, j int) bool { return in.pkgs[i].PkgPath < in.pkgs[j].PkgPath })
	// novel named functions and their declarations
	novelObj := map[types.Object]bool{}
	for _, f := range p.RepoFuncs {
		if f.Parent() == nil && f.Synthetic == "" && p.isNovelFunc(f) {
			if o, ok := f.Object().(*types.Func); ok && o != nil {
				novelObj[o] = true
			}
		}
	}
	if len(novelObj) == 0 {
		return nil, nil, nil
	}
	for _, pk := range in.pkgs {
		for _, file := range pk.Syntax {
			for _, d := range file.Decls {
				fd, ok := d.(*ast.FuncDecl)
				if !ok || fd.Body == nil {
					continue
				}
				if o, _ := pk.TypesInfo.Defs[fd.Name].(*types.Func); o != nil && novelObj[o] && in.inlinable(pk, fd, o) {
					in.novel[o] = fd
					in.declPkg[o] = pk
				}
			}
		}
	}
	if len(in.novel) == 0 {
		return nil, nil, nil
	}
	// call sites per file
	fileEdits := map[string][]srcEdit{}
	expanded := map[*ast.Ident]bool{} // callee identifiers of expanded calls
	expandedInto := map[*types.Func]map[string]bool{}
	for _, pk := range in.pkgs {
		for _, file := range pk.Syntax {
			fname := in.file(file.Pos())
			if strings.HasSuffix(fname, "_test.go") {
				continue
			}
			sites := in.findSites(pk, file)
			sort.Slice(sites, func(i, j int) bool { return sites[i].stmt.Pos() < sites[j].stmt.Pos() })
			var lastEnd token.Pos
			for _, s := range sites {
				if s.stmt.Pos() < lastEnd {
					continue // nested in a site expanded in this round: next round
				}
				// never expand inside the body of a helper that is itself being expanded this round (its text is copied)
				if in.insideNovelBody(pk, file, s.stmt.Pos()) {
					continue
				}
				txt, ok := in.expand(pk, file, s)
				if !ok {
					continue
				}
				// validate this expansion on its own: the package must still type-check with it (and with what was
				// accepted before); an expansion that does not is dropped, the call stays a call
				ed := srcEdit{in.off(s.stmt.Pos()), in.off(s.end()), txt}
				trialImports := map[string]string{}
				for n, path := range in.addImports[fname] {
					trialImports[n] = path
				}
				for n, path := range in.lastImports {
					trialImports[n] = path
				}
				trial := map[string][]byte{}
				for _, f2 := range pk.Syntax {
					n2 := in.file(f2.Pos())
					es := append([]srcEdit{}, fileEdits[n2]...)
					imps := in.addImports[n2]
					if n2 == fname {
						es = append(es, ed)
						imps = trialImports
					}
					if len(es) == 0 && len(imps) == 0 {
						continue
					}
					trial[n2] = in.render(n2, f2, es, imps)
				}
				if err := in.checkPkg(pk, trial); err != nil {
					in.rejected = append(in.rejected, fmt.Sprintf("%s at %s: %v", s.callee.Name(), p.Pos(s.stmt.Pos()), err))
					p.InlineRejected = append(p.InlineRejected, in.rejected[len(in.rejected)-1])
					continue
				}
				in.addImports[fname] = trialImports
				fileEdits[fname] = append(fileEdits[fname], ed)
				lastEnd = s.end()
				expanded[s.calleeIdent] = true
				if expandedInto[s.callee] == nil {
					expandedInto[s.callee] = map[string]bool{}
				}
				expandedInto[s.callee][fname] = true
				in.notes = append(in.notes, inlineNote{Helper: s.callee.FullName(), Site: p.Pos(s.stmt.Pos())})
			}
		}
	}
	if len(fileEdits) == 0 {
		return nil, nil, nil
	}
	// helpers all of whose references were expanded are blanked out
	refs := map[*types.Func]int{}
	refsExpanded := map[*types.Func]int{}
	for _, pk := range in.pkgs {
		for id, o := range pk.TypesInfo.Uses {
			if f, ok := o.(*types.Func); ok && in.novel[f] != nil {
				refs[f]++
				if expanded[id] {
					refsExpanded[f]++
				}
			}
		}
	}
	delEdits := map[string][]srcEdit{}
	for f, fd := range in.novel {
		if refs[f] > 0 && refs[f] == refsExpanded[f] {
			fname := in.file(fd.Pos())
			start := fd.Pos()
			if fd.Doc != nil {
				start = fd.Doc.Pos()
			}
			old := in.content(fname)[in.off(start):in.off(fd.End())]
			delEdits[fname] = append(delEdits[fname], srcEdit{in.off(start), in.off(fd.End()), strings.Repeat("\n", bytes.Count(old, []byte("\n")))})
		}
	}
	// an import that only the blanked declarations used becomes a blank import (keeps the file compiling)
	for _, pk := range in.pkgs {
		for _, file := range pk.Syntax {
			fname := in.file(file.Pos())
			dels := delEdits[fname]
			if len(dels) == 0 {
				continue
			}
			deleted := func(pos token.Pos) bool {
				o := in.off(pos)
				for _, d := range dels {
					if o >= d.start && o < d.end {
						// the body lives on in this very file when the helper was expanded into it
						for f, fd := range in.novel {
							if in.file(fd.Pos()) == fname && in.off(fd.Pos()) <= o && o < in.off(fd.End()) && expandedInto[f][fname] {
								return false
							}
						}
						return true
					}
				}
				return false
			}
			for _, spec := range file.Imports {
				var pn types.Object
				if spec.Name != nil {
					if spec.Name.Name == "_" || spec.Name.Name == "." {
						continue
					}
					pn = pk.TypesInfo.Defs[spec.Name]
				} else {
					pn = pk.TypesInfo.Implicits[spec]
				}
				if pn == nil {
					continue
				}
				left := 0
				for id, o := range pk.TypesInfo.Uses {
					if o == pn && in.file(id.Pos()) == fname && !deleted(id.Pos()) {
						left++
					}
				}
				if left > 0 {
					continue
				}
				if spec.Name != nil {
					delEdits[fname] = append(delEdits[fname], srcEdit{in.off(spec.Name.Pos()), in.off(spec.Name.End()), "_"})
				} else {
					delEdits[fname] = append(delEdits[fname], srcEdit{in.off(spec.Path.Pos()), in.off(spec.Path.Pos()), "_ "})
				}
			}
		}
	}
	build := func(withDel bool) map[string][]byte {
		out := map[string][]byte{}
		for k, v := range prev {
			out[k] = v
		}
		names := map[string]bool{}
		for f := range fileEdits {
			names[f] = true
		}
		if withDel {
			for f := range delEdits {
				names[f] = true
			}
		}
		for f := range names {
			es := append([]srcEdit{}, fileEdits[f]...)
			if withDel {
				es = append(es, delEdits[f]...)
			}
			out[f] = in.render(f, in.fileAST(f), es, in.addImports[f])
		}
		return out
	}
	return build(true), build(false), in.notes
}

func (in *inliner) fileAST(fname string) *ast.File {
	for _, pk := range in.pkgs {
		for _, f := range pk.Syntax {
			if in.file(f.Pos()) == fname {
				return f
			}
		}
	}
	return nil
}

// render: the text of a file with the edits applied and the additional imports declared right after the package clause
// (on the same line, so that no line number moves).
func (in *inliner) render(fname string, file *ast.File, edits []srcEdit, imps map[string]string) []byte {
	es := append([]srcEdit{}, edits...)
	if len(imps) > 0 && file != nil {
		var names []string
		for n := range imps {
			names = append(names, n)
		}
		sort.Strings(names)
		txt := ""
		for _, n := range names {
			txt += fmt.Sprintf("; import %s %q", n, imps[n])
		}
		at := in.off(file.Name.End())
		es = append(es, srcEdit{at, at, txt})
	}
	src := in.content(fname)
	body := applyEdits(src, 0, es)
	last := 0
	for _, e := range es {
		if e.end > last {
			last = e.end
		}
	}
	return []byte(body + string(src[last:]))
}

// checkPkg type-checks one package with some of its files replaced (imports come from the loaded program).
func (in *inliner) checkPkg(pk *packages.Package, texts map[string][]byte) error {
	fset := token.NewFileSet()
	var files []*ast.File
	for _, f := range pk.Syntax {
		name := in.file(f.Pos())
		var src interface{}
		if b, ok := texts[name]; ok {
			src = b
		} else {
			src = in.content(name)
		}
		pf, err := parser.ParseFile(fset, name, src, parser.SkipObjectResolution)
		if err != nil {
			return err
		}
		files = append(files, pf)
	}
	var first error
	conf := types.Config{
		Importer: importerFunc(func(path string) (*types.Package, error) {
			if path == "unsafe" {
				return types.Unsafe, nil
			}
			if ip := pk.Imports[path]; ip != nil && ip.Types != nil {
				return ip.Types, nil
			}
			return nil, fmt.Errorf("import %q not available", path)
		}),
		Error: func(err error) {
			if first == nil {
				first = err
			}
		},
	}
	conf.Check(pk.PkgPath, fset, files, nil)
	return first
}

type importerFunc func(path string) (*types.Package, error)

func (f importerFunc) Import(path string) (*types.Package, error) { return f(path) }

// inlinable: shape restrictions on the helper itself.
func (in *inliner) inlinable(pk *packages.Package, fd *ast.FuncDecl, o *types.Func) bool {
	sig := o.Type().(*types.Signature)
	if sig.Variadic() || sig.TypeParams() != nil || sig.RecvTypeParams() != nil {
		return false
	}
	if strings.HasPrefix(fd.Name.Name, "init") || fd.Name.Name == "main" {
		return false
	}
	ok := true
	topDefer := map[*ast.DeferStmt]bool{}
	for _, st := range fd.Body.List {
		if d, isD := st.(*ast.DeferStmt); isD && in.stableDefer(pk, fd, d) {
			topDefer[d] = true
		}
	}
	ast.Inspect(fd.Body, func(n ast.Node) bool {
		switch x := n.(type) {
		case *ast.DeferStmt:
			// a deferred call at the top level of the body whose operands cannot change is modelled as a call at every
			// exit of the body (differs only while a panic unwinds; helpers that recover are never expanded)
			if !topDefer[x] {
				ok = false
			}
		case *ast.LabeledStmt:
			ok = false
		case *ast.BranchStmt:
			if x.Tok == token.GOTO || x.Label != nil {
				ok = false
			}
		case *ast.CallExpr:
			if id, isId := x.Fun.(*ast.Ident); isId && id.Name == "recover" {
				ok = false
			}
			var callee *ast.Ident
			switch f := x.Fun.(type) {
			case *ast.Ident:
				callee = f
			case *ast.SelectorExpr:
				callee = f.Sel
			}
			if callee != nil && pk.TypesInfo.Uses[callee] == types.Object(o) {
				ok = false // recursion
			}
		}
		return ok
	})
	// results need printable types only at the call sites; checked there
	return ok
}

// stableDefer: `defer recv.path.M(args)` / `defer f(args)` where every operand is a parameter or receiver of the helper
// that the body never assigns (or a field path / constant built from those), so evaluating it at the exits instead of
// at the defer statement yields the same call.
func (in *inliner) stableDefer(pk *packages.Package, fd *ast.FuncDecl, d *ast.DeferStmt) bool {
	params := map[types.Object]bool{}
	addList := func(fl *ast.FieldList) {
		if fl == nil {
			return
		}
		for _, f := range fl.List {
			for _, nm := range f.Names {
				if o := pk.TypesInfo.Defs[nm]; o != nil {
					params[o] = true
				}
			}
		}
	}
	addList(fd.Recv)
	addList(fd.Type.Params)
	assigned := map[types.Object]bool{}
	ast.Inspect(fd.Body, func(n ast.Node) bool {
		switch x := n.(type) {
		case *ast.AssignStmt:
			for _, l := range x.Lhs {
				if id, ok := l.(*ast.Ident); ok {
					if o := pk.TypesInfo.Uses[id]; o != nil {
						assigned[o] = true
					}
				}
			}
		case *ast.IncDecStmt:
			if id, ok := x.X.(*ast.Ident); ok {
				if o := pk.TypesInfo.Uses[id]; o != nil {
					assigned[o] = true
				}
			}
		case *ast.UnaryExpr:
			if x.Op == token.AND {
				if id, ok := x.X.(*ast.Ident); ok {
					if o := pk.TypesInfo.Uses[id]; o != nil {
						assigned[o] = true
					}
				}
			}
		}
		return true
	})
	var stable func(e ast.Expr) bool
	stable = func(e ast.Expr) bool {
		switch x := e.(type) {
		case *ast.Ident:
			o := pk.TypesInfo.Uses[x]
			if o == nil {
				return false
			}
			if _, isConst := o.(*types.Const); isConst {
				return true
			}
			if _, isNil := o.(*types.Nil); isNil {
				return true
			}
			return params[o] && !assigned[o]
		case *ast.BasicLit:
			return true
		case *ast.SelectorExpr:
			if s := pk.TypesInfo.Selections[x]; s != nil && s.Kind() == types.FieldVal {
				return stable(x.X)
			}
			return false
		case *ast.ParenExpr:
			return stable(x.X)
		case *ast.StarExpr:
			return stable(x.X)
		case *ast.UnaryExpr:
			return x.Op == token.AND && stable(x.X)
		}
		return false
	}
	call := d.Call
	for _, a := range call.Args {
		if !stable(a) {
			return false
		}
	}
	switch f := call.Fun.(type) {
	case *ast.SelectorExpr:
		if s := pk.TypesInfo.Selections[f]; s != nil && s.Kind() == types.MethodVal {
			return stable(f.X)
		}
		// pkg.Func
		if id, ok := f.X.(*ast.Ident); ok {
			if _, isPkg := pk.TypesInfo.Uses[id].(*types.PkgName); isPkg {
				return true
			}
		}
	case *ast.Ident:
		_, isFunc := pk.TypesInfo.Uses[f].(*types.Func)
		return isFunc
	}
	return false
}

func (in *inliner) insideNovelBody(pk *packages.Package, file *ast.File, pos token.Pos) bool {
	for _, d := range file.Decls {
		if fd, ok := d.(*ast.FuncDecl); ok && fd.Body != nil && fd.Pos() <= pos && pos < fd.End() {
			if o, _ := pk.TypesInfo.Defs[fd.Name].(*types.Func); o != nil && in.novel[o] != nil {
				return true
			}
		}
	}
	return false
}

type inlineSiteT struct {
	form        string // stmt | tail | assign | decl | if | ifinit
	stmt        ast.Stmt
	call        *ast.CallExpr
	callee      *types.Func
	calleeIdent *ast.Ident
	neg         bool
	// error-check absorption (assign / ifinit forms)
	absorb bool
	errIdx int
	errEq  bool        // the test is `err == nil`
	follow *ast.IfStmt // assign form: the if statement that follows and is consumed
}

func (s inlineSiteT) end() token.Pos {
	if s.follow != nil {
		return s.follow.End()
	}
	return s.stmt.End()
}

func (in *inliner) calleeOf(pk *packages.Package, call *ast.CallExpr) (*types.Func, *ast.Ident) {
	var id *ast.Ident
	switch f := call.Fun.(type) {
	case *ast.Ident:
		id = f
	case *ast.SelectorExpr:
		id = f.Sel
	default:
		return nil, nil
	}
	o, _ := pk.TypesInfo.Uses[id].(*types.Func)
	if o == nil || in.novel[o] == nil {
		return nil, nil
	}
	// method expressions / interface calls are not handled
	if sel, ok := call.Fun.(*ast.SelectorExpr); ok {
		if s := pk.TypesInfo.Selections[sel]; s != nil && s.Kind() != types.MethodVal {
			return nil, nil
		}
		if s := pk.TypesInfo.Selections[sel]; s != nil {
			if _, isIface := s.Recv().Underlying().(*types.Interface); isIface {
				return nil, nil
			}
			if len(s.Index()) > 1 {
				return nil, nil // promoted through embedding: receiver expression would need the path
			}
		}
	}
	return o, id
}

func (in *inliner) findSites(pk *packages.Package, file *ast.File) []inlineSiteT {
	var out []inlineSiteT
	var stack []ast.Node
	inList := func(k int) bool { // is stack[k] an element of a statement list?
		if k < 1 {
			return false
		}
		switch stack[k-1].(type) {
		case *ast.BlockStmt, *ast.CaseClause, *ast.CommClause:
			return true
		}
		return false
	}
	ast.Inspect(file, func(n ast.Node) bool {
		if n == nil {
			stack = stack[:len(stack)-1]
			return true
		}
		stack = append(stack, n)
		call, ok := n.(*ast.CallExpr)
		if !ok {
			return true
		}
		callee, id := in.calleeOf(pk, call)
		if callee == nil {
			return true
		}
		k := len(stack) - 1
		if k < 1 {
			return true
		}
		nres := callee.Type().(*types.Signature).Results().Len()
		before := len(out)
		defer func() {
			// the call sits inside a larger expression: hoist it in front of its statement when that cannot change the
			// order of calls (no other call or receive lexically before it in the statement, not under && / ||, not in a
			// function literal or a loop header)
			if len(out) != before || nres != 1 {
				return
			}
			if st, okH := hoistable(stack, k, inList); okH {
				out = append(out, inlineSiteT{form: "hoist", stmt: st, call: call, callee: callee, calleeIdent: id})
			}
		}()
		switch par := stack[k-1].(type) {
		case *ast.GoStmt:
			// `go helper(args)` is `go func(params) { body }(args)`: the goroutine written as a function literal
			if par.Call == call {
				out = append(out, inlineSiteT{form: "go", stmt: par, call: call, callee: callee, calleeIdent: id})
			}
		case *ast.ExprStmt:
			if inList(k-1) || isElseOrBody(stack, k-1) {
				out = append(out, inlineSiteT{form: "stmt", stmt: par, call: call, callee: callee, calleeIdent: id})
			}
		case *ast.ReturnStmt:
			okTail := false
			if len(par.Results) == 1 {
				okTail = true
			} else if nres == 1 {
				okTail = true
				for _, r := range par.Results {
					if r != ast.Expr(call) && !isPureLiteral(pk, r) {
						okTail = false
					}
				}
			}
			if okTail {
				out = append(out, inlineSiteT{form: "tail", stmt: par, call: call, callee: callee, calleeIdent: id})
			}
		case *ast.AssignStmt:
			if len(par.Rhs) != 1 || par.Rhs[0] != ast.Expr(call) || nres != len(par.Lhs) || (par.Tok != token.DEFINE && par.Tok != token.ASSIGN) {
				break
			}
			sig := callee.Type().(*types.Signature)
			if k >= 2 {
				if iff, isIf := stack[k-2].(*ast.IfStmt); isIf && iff.Init == ast.Stmt(par) {
					st := inlineSiteT{form: "ifinit", stmt: iff, call: call, callee: callee, calleeIdent: id}
					if idx, eq, okE := errCheckShape(iff.Cond, par.Lhs, sig); okE {
						st.absorb, st.errIdx, st.errEq = true, idx, eq
					}
					out = append(out, st)
					break
				}
			}
			if inList(k - 1) {
				st := inlineSiteT{form: "assign", stmt: par, call: call, callee: callee, calleeIdent: id}
				// `x, err := h(); if err != nil { … }`: the test is absorbed into the expansion, so that each return of the
				// helper continues on the branch its own error value selects (no merged error value in between)
				var list []ast.Stmt
				switch l := stack[k-2].(type) {
				case *ast.BlockStmt:
					list = l.List
				case *ast.CaseClause:
					list = l.Body
				case *ast.CommClause:
					list = l.Body
				}
				for i, s := range list {
					if s == ast.Stmt(par) && i+1 < len(list) {
						if iff, isIf := list[i+1].(*ast.IfStmt); isIf && iff.Init == nil {
							if idx, eq, okE := errCheckShape(iff.Cond, par.Lhs, sig); okE {
								st.absorb, st.errIdx, st.errEq, st.follow = true, idx, eq, iff
							}
						}
					}
				}
				out = append(out, st)
			}
		case *ast.IfStmt:
			if par.Cond == ast.Expr(call) && nres == 1 {
				out = append(out, inlineSiteT{form: "if", stmt: par, call: call, callee: callee, calleeIdent: id})
			}
		case *ast.ForStmt:
			if par.Cond == ast.Expr(call) && nres == 1 && k >= 2 {
				if _, labelled := stack[k-2].(*ast.LabeledStmt); !labelled {
					out = append(out, inlineSiteT{form: "for", stmt: par, call: call, callee: callee, calleeIdent: id})
				}
			}
		case *ast.UnaryExpr:
			if par.Op == token.NOT && k >= 2 && nres == 1 {
				if iff, isIf := stack[k-2].(*ast.IfStmt); isIf && iff.Cond == ast.Expr(par) {
					out = append(out, inlineSiteT{form: "if", stmt: iff, call: call, callee: callee, calleeIdent: id, neg: true})
				}
				if fs, isFor := stack[k-2].(*ast.ForStmt); isFor && fs.Cond == ast.Expr(par) && k >= 3 {
					if _, labelled := stack[k-3].(*ast.LabeledStmt); !labelled {
						out = append(out, inlineSiteT{form: "for", stmt: fs, call: call, callee: callee, calleeIdent: id, neg: true})
					}
				}
			}
		}
		return true
	})
	return out
}

// hoistable: stack[k] is a call nested in an expression of a statement that stands in a statement list; returns that
// statement when evaluating the call just before the statement is indistinguishable from evaluating it in place.
func hoistable(stack []ast.Node, k int, inList func(int) bool) (ast.Stmt, bool) {
	call := stack[k].(*ast.CallExpr)
	j := k - 1
	for ; j >= 1; j-- {
		switch x := stack[j].(type) {
		case *ast.FuncLit:
			return nil, false
		case *ast.BinaryExpr:
			if (x.Op == token.LAND || x.Op == token.LOR) && stack[j+1] == ast.Node(x.Y) {
				return nil, false // evaluated only conditionally
			}
		case *ast.KeyValueExpr, *ast.CompositeLit, *ast.ParenExpr, *ast.UnaryExpr, *ast.StarExpr, *ast.SelectorExpr, *ast.IndexExpr, *ast.SliceExpr, *ast.TypeAssertExpr, *ast.CallExpr:
		case ast.Stmt:
			goto found
		default:
			return nil, false
		}
	}
	return nil, false
found:
	if !inList(j) {
		return nil, false
	}
	st := stack[j].(ast.Stmt)
	var scope ast.Node
	switch x := st.(type) {
	case *ast.ExprStmt, *ast.ReturnStmt, *ast.SendStmt, *ast.GoStmt, *ast.DeferStmt:
		scope = st
	case *ast.AssignStmt:
		// the call must be on the right-hand side
		onRhs := false
		for _, r := range x.Rhs {
			if r.Pos() <= call.Pos() && call.End() <= r.End() {
				onRhs = true
			}
		}
		if !onRhs {
			return nil, false
		}
		scope = st
	case *ast.IfStmt:
		if x.Init != nil || !(x.Cond.Pos() <= call.Pos() && call.End() <= x.Cond.End()) {
			return nil, false
		}
		scope = x.Cond
	case *ast.DeclStmt:
		scope = st
	default:
		return nil, false
	}
	// no other call or receive completely before this one in the statement
	okOrder := true
	ast.Inspect(scope, func(n ast.Node) bool {
		switch y := n.(type) {
		case *ast.FuncLit:
			return false
		case *ast.CallExpr:
			if y.End() <= call.Pos() {
				okOrder = false
			}
		case *ast.UnaryExpr:
			if y.Op == token.ARROW && y.End() <= call.Pos() {
				okOrder = false
			}
		}
		return okOrder
	})
	// go f(h(x)) / defer f(h(x)): the arguments are evaluated at the statement, the call itself is not
	switch x := st.(type) {
	case *ast.GoStmt:
		if x.Call == call {
			return nil, false
		}
	case *ast.DeferStmt:
		if x.Call == call {
			return nil, false
		}
	}
	return st, okOrder
}

// isElseOrBody: statement positions other than list elements where a block may stand (else branch, labelled).
func isElseOrBody(stack []ast.Node, k int) bool { return false }

// errCheckShape: cond is `v != nil` / `v == nil` where v names the left-hand side that receives an error result.
func errCheckShape(cond ast.Expr, lhs []ast.Expr, sig *types.Signature) (idx int, eq bool, ok bool) {
	be, isB := cond.(*ast.BinaryExpr)
	if !isB || (be.Op != token.NEQ && be.Op != token.EQL) {
		return 0, false, false
	}
	x, y := be.X, be.Y
	if id, isId := x.(*ast.Ident); isId && id.Name == "nil" {
		x, y = y, x
	}
	yi, isId := y.(*ast.Ident)
	if !isId || yi.Name != "nil" {
		return 0, false, false
	}
	xi, isId := x.(*ast.Ident)
	if !isId || xi.Name == "_" {
		return 0, false, false
	}
	for i, l := range lhs {
		if li, isL := l.(*ast.Ident); isL && li.Name == xi.Name && i < sig.Results().Len() && types.TypeString(sig.Results().At(i).Type(), nil) == "error" {
			return i, be.Op == token.EQL, true
		}
	}
	return 0, false, false
}

// errNilness: what a returned error expression is known to be, lexically: "nil", "nonnil", or "".
func errNilness(info *types.Info, body *ast.BlockStmt, ret *ast.ReturnStmt, e ast.Expr) string {
	switch x := e.(type) {
	case *ast.Ident:
		if x.Name == "nil" {
			return "nil"
		}
		obj := info.Uses[x]
		if obj == nil {
			return ""
		}
		if v, ok := obj.(*types.Var); ok && v.Pkg() != nil && v.Parent() == v.Pkg().Scope() {
			return "nonnil" // sentinel error of this package
		}
		// innermost enclosing `if x != nil { … ret … }` without a later write to x
		res := ""
		var stack []ast.Node
		ast.Inspect(body, func(n ast.Node) bool {
			if n == nil {
				stack = stack[:len(stack)-1]
				return true
			}
			stack = append(stack, n)
			if n != ast.Node(ret) {
				return true
			}
			for k := len(stack) - 2; k >= 1; k-- {
				iff, isIf := stack[k-1].(*ast.IfStmt)
				if !isIf || stack[k] != ast.Node(iff.Body) {
					continue
				}
				be, isB := iff.Cond.(*ast.BinaryExpr)
				if !isB || be.Op != token.NEQ {
					continue
				}
				a, b := be.X, be.Y
				if id, ok := a.(*ast.Ident); ok && id.Name == "nil" {
					a, b = b, a
				}
				ai, okA := a.(*ast.Ident)
				bi, okB := b.(*ast.Ident)
				if !okA || !okB || bi.Name != "nil" || info.Uses[ai] != obj {
					continue
				}
				// no write to x inside this if body
				written := false
				ast.Inspect(iff.Body, func(m ast.Node) bool {
					switch y := m.(type) {
					case *ast.AssignStmt:
						for _, l := range y.Lhs {
							if li, ok := l.(*ast.Ident); ok && (info.Uses[li] == obj || info.Defs[li] == obj) {
								written = true
							}
						}
					case *ast.UnaryExpr:
						if y.Op == token.AND {
							if li, ok := y.X.(*ast.Ident); ok && info.Uses[li] == obj {
								written = true
							}
						}
					}
					return !written
				})
				if !written {
					res = "nonnil"
				}
				break
			}
			return false
		})
		return res
	case *ast.CallExpr:
		if sel, ok := x.Fun.(*ast.SelectorExpr); ok {
			if pid, isId := sel.X.(*ast.Ident); isId {
				if pn, isPkg := info.Uses[pid].(*types.PkgName); isPkg {
					full := pn.Imported().Path() + "." + sel.Sel.Name
					if full == "errors.New" || full == "fmt.Errorf" {
						return "nonnil"
					}
				}
			}
		}
	case *ast.SelectorExpr:
		// package-level error variables of other packages (io.EOF, io.ErrShortBuffer …): sentinel errors, never nil
		if v, ok := info.Uses[x.Sel].(*types.Var); ok && !v.IsField() && v.Pkg() != nil && v.Parent() == v.Pkg().Scope() {
			return "nonnil"
		}
	}
	return ""
}

func isPureLiteral(pk *packages.Package, e ast.Expr) bool {
	switch x := e.(type) {
	case *ast.BasicLit:
		return true
	case *ast.Ident:
		if x.Name == "nil" || x.Name == "true" || x.Name == "false" {
			return true
		}
		if _, isConst := pk.TypesInfo.Uses[x].(*types.Const); isConst {
			return true
		}
	case *ast.SelectorExpr:
		if _, isConst := pk.TypesInfo.Uses[x.Sel].(*types.Const); isConst {
			return true
		}
		// package-level error variables etc. are not literals
	}
	return false
}

// hasFreeBreak: an unlabelled break that would bind to a statement outside n.
func hasFreeBreak(n ast.Node) bool {
	found := false
	var walk func(n ast.Node, depth int)
	walk = func(n ast.Node, depth int) {
		ast.Inspect(n, func(m ast.Node) bool {
			if m == nil || found {
				return false
			}
			switch x := m.(type) {
			case *ast.FuncLit:
				return false
			case *ast.ForStmt, *ast.RangeStmt, *ast.SwitchStmt, *ast.TypeSwitchStmt, *ast.SelectStmt:
				if m != n {
					return false // breaks inside bind to it
				}
			case *ast.BranchStmt:
				if x.Tok == token.BREAK && x.Label == nil {
					found = true
				}
			}
			return true
		})
	}
	walk(n, 0)
	return found
}

func hasLabel(n ast.Node) bool {
	found := false
	ast.Inspect(n, func(m ast.Node) bool {
		if _, ok := m.(*ast.LabeledStmt); ok {
			found = true
		}
		return !found
	})
	return found
}

// qualifierFor: how the caller's file names a package; "" fails (ok=false) when it does not import it.
func (in *inliner) typeString(t types.Type, pk *packages.Package, file *ast.File) (string, bool) {
	ok := true
	s := types.TypeString(t, func(other *types.Package) string {
		if other == pk.Types {
			return ""
		}
		for _, imp := range file.Imports {
			path := strings.Trim(imp.Path.Value, `"`)
			if path != other.Path() {
				continue
			}
			if imp.Name != nil {
				if imp.Name.Name == "." || imp.Name.Name == "_" {
					ok = false
					return other.Name()
				}
				return imp.Name.Name
			}
			return other.Name()
		}
		ok = false
		return other.Name()
	})
	// every name in the type must mean, at the call site, what it means at package level (a parameter called like a
	// type shadows the type there)
	if ok && in.curPos.IsValid() {
		sc := pk.Types.Scope().Innermost(in.curPos)
		var walk func(t types.Type, d int)
		walk = func(t types.Type, d int) {
			if d > 8 || !ok || sc == nil {
				return
			}
			switch x := t.(type) {
			case *types.Named:
				if o := x.Obj(); o != nil && o.Pkg() == pk.Types {
					if _, found := sc.LookupParent(o.Name(), in.curPos); found != types.Object(o) {
						ok = false
					}
				} else if o != nil && o.Pkg() != nil {
					for _, imp := range file.Imports {
						if strings.Trim(imp.Path.Value, `"`) == o.Pkg().Path() {
							name := o.Pkg().Name()
							if imp.Name != nil {
								name = imp.Name.Name
							}
							if _, found := sc.LookupParent(name, in.curPos); found != nil {
								if _, isPkg := found.(*types.PkgName); !isPkg {
									ok = false
								}
							}
						}
					}
				}
				if ta := x.TypeArgs(); ta != nil {
					for i := 0; i < ta.Len(); i++ {
						walk(ta.At(i), d+1)
					}
				}
			case *types.Pointer:
				walk(x.Elem(), d+1)
			case *types.Slice:
				walk(x.Elem(), d+1)
			case *types.Array:
				walk(x.Elem(), d+1)
			case *types.Chan:
				walk(x.Elem(), d+1)
			case *types.Map:
				walk(x.Key(), d+1)
				walk(x.Elem(), d+1)
			case *types.Signature:
				for i := 0; i < x.Params().Len(); i++ {
					walk(x.Params().At(i).Type(), d+1)
				}
				for i := 0; i < x.Results().Len(); i++ {
					walk(x.Results().At(i).Type(), d+1)
				}
			case *types.Struct:
				for i := 0; i < x.NumFields(); i++ {
					walk(x.Field(i).Type(), d+1)
				}
			}
		}
		walk(t, 0)
	}
	return s, ok
}

// expand produces the replacement text of one call site.
func (in *inliner) expand(pk *packages.Package, file *ast.File, s inlineSiteT) (txtOut string, okOut bool) {
	needImports := map[string]string{}
	in.curPos = s.stmt.Pos()
	fd := in.novel[s.callee]
	hpk := in.declPkg[s.callee]
	if hpk != pk {
		return "", false // cross-package helper: unexported names would not resolve
	}
	sig := s.callee.Type().(*types.Signature)
	in.counter++
	suffix := fmt.Sprintf("ˑ%d", in.counter)
	hfile := in.file(fd.Pos())
	hsrc := in.content(hfile)
	// the helper's file and the caller's file must agree on the package names the body uses
	var hAst *ast.File
	for _, f := range hpk.Syntax {
		if in.file(f.Pos()) == hfile {
			hAst = f
		}
	}
	if hAst == nil {
		return "", false
	}
	okPkgs := true
	callScope := pk.Types.Scope().Innermost(s.stmt.Pos())
	ast.Inspect(fd.Body, func(n ast.Node) bool {
		// names of the package, of imports and of the universe that the body uses must not be shadowed at the call site
		id, ok := n.(*ast.Ident)
		if !ok || callScope == nil {
			return true
		}
		o := hpk.TypesInfo.Uses[id]
		if o == nil {
			return true
		}
		outer := o.Parent() == hpk.Types.Scope() || o.Parent() == types.Universe
		if _, isPkgName := o.(*types.PkgName); isPkgName {
			outer = false // checked against the caller's imports below
		}
		if outer {
			if _, found := callScope.LookupParent(id.Name, s.stmt.Pos()); found != o {
				okPkgs = false
			}
		}
		return true
	})
	ast.Inspect(fd, func(n ast.Node) bool {
		id, ok := n.(*ast.Ident)
		if !ok {
			return true
		}
		if pn, isPkg := hpk.TypesInfo.Uses[id].(*types.PkgName); isPkg {
			found := false
			for _, imp := range file.Imports {
				if strings.Trim(imp.Path.Value, `"`) == pn.Imported().Path() {
					name := pn.Imported().Name()
					if imp.Name != nil {
						name = imp.Name.Name
					}
					if name == id.Name {
						found = true
					}
				}
			}
			if !found {
				// the caller's file does not import the package under that name: add the import, when the name is free
				// in the file and the package
				free := pk.Types.Scope().Lookup(id.Name) == nil
				for _, imp := range file.Imports {
					name := ""
					if imp.Name != nil {
						name = imp.Name.Name
					} else if o := pk.TypesInfo.Implicits[imp]; o != nil {
						name = o.Name()
					}
					if name == id.Name {
						free = false
					}
				}
				// a local of the caller with that name would shadow the package inside the expansion
				if free {
					ast.Inspect(file, func(m ast.Node) bool {
						if x, isId := m.(*ast.Ident); isId && x.Name == id.Name {
							if _, isPkgName := pk.TypesInfo.Uses[x].(*types.PkgName); !isPkgName {
								free = false
							}
						}
						return free
					})
				}
				if free {
					needImports[id.Name] = pn.Imported().Path()
				} else {
					okPkgs = false
				}
			}
		}
		return true
	})
	if !okPkgs {
		return "", false
	}
	defer func() {
		in.lastImports = nil
		if okOut {
			in.lastImports = needImports // merged by the caller once the expansion has been validated
		}
	}()
	if s.form == "go" {
		return in.expandGo(pk, file, s, fd, hsrc)
	}
	// rename everything declared inside the helper
	local := func(o types.Object) bool {
		if o == nil || o.Pos() == token.NoPos {
			return false
		}
		if _, isField := o.(*types.Var); isField && o.(*types.Var).IsField() {
			return false
		}
		return fd.Pos() <= o.Pos() && o.Pos() < fd.End() && o != types.Object(s.callee)
	}
	var renames []srcEdit
	newName := func(id *ast.Ident) string {
		if id.Name == "_" {
			return "_"
		}
		return id.Name + suffix
	}
	ast.Inspect(fd, func(n ast.Node) bool {
		if ts, isTS := n.(*ast.TypeSwitchStmt); isTS {
			// the symbolic variable of `switch x := v.(type)` has no Defs entry; its uses resolve to implicit objects
			if as, isAs := ts.Assign.(*ast.AssignStmt); isAs && as.Tok == token.DEFINE && len(as.Lhs) == 1 {
				if id, isId := as.Lhs[0].(*ast.Ident); isId && id.Name != "_" {
					renames = append(renames, srcEdit{in.off(id.Pos()), in.off(id.End()), newName(id)})
				}
			}
		}
		id, ok := n.(*ast.Ident)
		if !ok || id.Name == "_" {
			return true
		}
		o := hpk.TypesInfo.Defs[id]
		if o == nil {
			o = hpk.TypesInfo.Uses[id]
		}
		if local(o) {
			renames = append(renames, srcEdit{in.off(id.Pos()), in.off(id.End()), newName(id)})
		}
		return true
	})
	// implicit objects (type switch symbolic variables) are covered through Defs of the clause identifiers: a
	// `switch x := v.(type)` binds x per clause in Implicits; uses resolve to those — handle by position
	for node, o := range hpk.TypesInfo.Implicits {
		_ = node
		_ = o
	}
	render := func(from, to token.Pos) string {
		a, b := in.off(from), in.off(to)
		var es []srcEdit
		for _, r := range renames {
			if r.start >= a && r.end <= b {
				es = append(es, r)
			}
		}
		out := applyEdits(hsrc, a, es)
		last := a
		for _, e := range es {
			if e.end > last {
				last = e.end
			}
		}
		return out + string(hsrc[last:b])
	}
	// type-switch symbolic variables: uses resolve to implicit objects declared at the clause; their Pos is the
	// defining identifier in the switch header, inside fd → local() is true for them as well (Uses gives the implicit
	// object whose Pos() is the header identifier). Nothing more to do.

	// parameters and receiver
	var pre strings.Builder
	args := s.call.Args
	if sig.Params().Len() != len(args) {
		return "", false // f(g()) with a tuple
	}
	if sig.Recv() != nil {
		sel, ok := s.call.Fun.(*ast.SelectorExpr)
		if !ok {
			return "", false
		}
		rt, okT := in.typeString(sig.Recv().Type(), pk, file)
		if !okT {
			return "", false
		}
		recvExpr := in.text(sel.X)
		xt := pk.TypesInfo.TypeOf(sel.X)
		_, wantPtr := sig.Recv().Type().(*types.Pointer)
		_, havePtr := xt.(*types.Pointer)
		if xt == nil {
			return "", false
		}
		if _, isNamedPtr := xt.Underlying().(*types.Pointer); isNamedPtr && !havePtr {
			return "", false
		}
		switch {
		case wantPtr && !havePtr:
			recvExpr = "&(" + recvExpr + ")"
		case !wantPtr && havePtr:
			recvExpr = "*(" + recvExpr + ")"
		}
		name := "_"
		if fd.Recv != nil && len(fd.Recv.List) == 1 && len(fd.Recv.List[0].Names) == 1 {
			name = newName(fd.Recv.List[0].Names[0])
		}
		fmt.Fprintf(&pre, "var %s %s = %s; ", name, rt, recvExpr)
		if name != "_" {
			fmt.Fprintf(&pre, "_ = %s; ", name)
		}
	}
	var litEdits []srcEdit
	retLits := map[types.Object]*ast.FuncLit{}
	ai := 0
	for _, fl := range fd.Type.Params.List {
		names := fl.Names
		if len(names) == 0 {
			names = []*ast.Ident{{Name: "_"}}
		}
		for _, nm := range names {
			pt, okT := in.typeString(sig.Params().At(ai).Type(), pk, file)
			if !okT {
				return "", false
			}
			name := "_"
			if nm.Name != "_" {
				name = nm.Name + suffix
			}
			// a function literal handed to a parameter that the helper only ever calls as a statement is substituted for
			// those calls (the literal's body runs exactly where the helper says f())
			if lit, isLit := args[ai].(*ast.FuncLit); isLit && nm.Name != "_" {
				if calls, okS := in.onlyCalledAsStmt(hpk, fd, hpk.TypesInfo.Defs[nm]); okS && (lit.Type.Results == nil || lit.Type.Results.NumFields() == 0) && !hasLabel(lit.Body) {
					// the literal's own parameters become variables initialised with the arguments of f(…)
					var lnames, ltypes []string
					for _, lf := range lit.Type.Params.List {
						ns := lf.Names
						if len(ns) == 0 {
							ns = []*ast.Ident{{Name: "_"}}
						}
						for _, ln := range ns {
							lnames = append(lnames, ln.Name)
							ltypes = append(ltypes, in.text(lf.Type))
						}
					}
					okArity := true
					for _, cs := range calls {
						if len(cs.X.(*ast.CallExpr).Args) != len(lnames) {
							okArity = false
						}
					}
					if okArity {
						for k, cs := range calls {
							lbl := fmt.Sprintf("Bˑ%d%s", k, suffix)
							decl := ""
							for j, a := range cs.X.(*ast.CallExpr).Args {
								if lnames[j] == "_" {
									decl += "_ = " + render(a.Pos(), a.End()) + "; "
								} else {
									decl += fmt.Sprintf("var %s %s = %s; _ = %s; ", lnames[j], ltypes[j], render(a.Pos(), a.End()), lnames[j])
								}
							}
							litEdits = append(litEdits, srcEdit{in.off(cs.Pos()), in.off(cs.End()), "{ " + decl + in.litBody(lit, lbl) + "\n}" + in.lineDirective(cs.End())})
						}
						ai++
						continue
					}
				}
				// a literal with results that the helper only ever returns the result of (`return fn()`): its body
				// stands for that return (see expandRetLit)
				if lit.Type.Results != nil && lit.Type.Results.NumFields() > 0 && !hasLabel(lit.Body) && in.onlyReturned(hpk, fd, hpk.TypesInfo.Defs[nm]) {
					named := false
					for _, rf := range lit.Type.Results.List {
						if len(rf.Names) > 0 {
							named = true
						}
					}
					if !named {
						retLits[hpk.TypesInfo.Defs[nm]] = lit
						ai++
						continue
					}
				}
			}
			fmt.Fprintf(&pre, "var %s %s = %s; ", name, pt, in.text(args[ai]))
			if name != "_" {
				fmt.Fprintf(&pre, "_ = %s; ", name)
			}
			ai++
		}
	}
	// named results
	var namedRes []string
	if fd.Type.Results != nil {
		ri := 0
		for _, fl := range fd.Type.Results.List {
			for _, nm := range fl.Names {
				rt, okT := in.typeString(sig.Results().At(ri).Type(), pk, file)
				if !okT {
					return "", false
				}
				if nm.Name == "_" {
					return "", false
				}
				fmt.Fprintf(&pre, "var %s %s; _ = %s; ", nm.Name+suffix, rt, nm.Name+suffix)
				namedRes = append(namedRes, nm.Name+suffix)
				ri++
			}
			if len(fl.Names) == 0 {
				ri++
			}
		}
	}
	nres := sig.Results().Len()
	label := "Lˑ" + suffix[2:]
	usedLabel := false
	// caller-side pieces
	var before, after string // statements before / after the expanded block
	var tmps []string
	csrcText := func(n ast.Node) string { return in.text(n) }
	var thenTxt, elseTxt, initTxt, condTxt, lhsTxt, errLhs, forLabel, forHead string
	switch s.form {
	case "assign", "ifinit":
		var as *ast.AssignStmt
		if s.form == "assign" {
			as = s.stmt.(*ast.AssignStmt)
		} else {
			as = s.stmt.(*ast.IfStmt).Init.(*ast.AssignStmt)
		}
		var lhs []string
		if s.absorb {
			// the left-hand sides are assigned directly at each return of the helper; variables the statement declares
			// are declared up front
			for i, l := range as.Lhs {
				lhs = append(lhs, csrcText(l))
				id, isId := l.(*ast.Ident)
				if !isId || id.Name == "_" || as.Tok != token.DEFINE || pk.TypesInfo.Defs[id] == nil {
					continue
				}
				clash := false
				for _, a := range s.call.Args {
					ast.Inspect(a, func(n ast.Node) bool {
						if x, ok := n.(*ast.Ident); ok && x.Name == id.Name {
							clash = true
						}
						return !clash
					})
				}
				if sel, ok := s.call.Fun.(*ast.SelectorExpr); ok {
					ast.Inspect(sel.X, func(n ast.Node) bool {
						if x, ok := n.(*ast.Ident); ok && x.Name == id.Name {
							clash = true
						}
						return !clash
					})
				}
				rt, okT := in.typeString(sig.Results().At(i).Type(), pk, file)
				if !okT || clash {
					return "", false
				}
				before += fmt.Sprintf("var %s %s; _ = %s; ", id.Name, rt, id.Name)
			}
			lhsTxt = strings.Join(lhs, ", ")
			errLhs = lhs[s.errIdx]
			iff := s.follow
			if s.form == "ifinit" {
				iff = s.stmt.(*ast.IfStmt)
			}
			if hasFreeBreak(iff.Body) || hasLabel(iff) || (iff.Else != nil && hasFreeBreak(iff.Else)) {
				return "", false
			}
			thenTxt = csrcText(iff.Body)
			if iff.Else != nil {
				elseTxt = csrcText(iff.Else)
				if _, isIf := iff.Else.(*ast.IfStmt); isIf {
					elseTxt = "{ " + elseTxt + " }"
				}
			}
			if s.errEq {
				thenTxt, elseTxt = elseTxt, thenTxt
			}
			break
		}
		for i, l := range as.Lhs {
			rt, okT := in.typeString(sig.Results().At(i).Type(), pk, file)
			if !okT {
				return "", false
			}
			t := fmt.Sprintf("rˑ%d%s", i, suffix)
			tmps = append(tmps, t)
			before += fmt.Sprintf("var %s %s; ", t, rt)
			lhs = append(lhs, csrcText(l))
		}
		after = strings.Join(lhs, ", ") + " " + as.Tok.String() + " " + strings.Join(tmps, ", ")
		if s.form == "ifinit" {
			iff := s.stmt.(*ast.IfStmt)
			if hasLabel(iff) {
				return "", false
			}
			after += "; if " + csrcText(iff.Cond) + " " + csrcText(iff.Body)
			if iff.Else != nil {
				after += " else " + csrcText(iff.Else)
			}
		}
	case "hoist":
		// tmp := h(a); S[h(a) ↦ tmp]
		rt, okT := in.typeString(sig.Results().At(0).Type(), pk, file)
		if !okT {
			return "", false
		}
		t := fmt.Sprintf("rˑ0%s", suffix)
		tmps = append(tmps, t)
		before += fmt.Sprintf("var %s %s; ", t, rt)
		fname := in.file(s.stmt.Pos())
		src := in.content(fname)
		a, b2 := in.off(s.stmt.Pos()), in.off(s.stmt.End())
		ca, cb := in.off(s.call.Pos()), in.off(s.call.End())
		after = string(src[a:ca]) + t + string(src[cb:b2])
	case "for":
		// for h(a) { B }  ≡  Lf: for { if h(a) { B } else { break Lf } }
		fs := s.stmt.(*ast.ForStmt)
		if hasFreeBreak(fs.Body) || hasLabel(fs) {
			return "", false
		}
		forLabel = "Fˑ" + suffix[2:]
		forHead = "for "
		if fs.Init != nil || fs.Post != nil {
			if fs.Init != nil {
				forHead += csrcText(fs.Init)
			}
			forHead += "; ; "
			if fs.Post != nil {
				forHead += csrcText(fs.Post) + " "
			}
		}
		thenTxt = csrcText(fs.Body)
		elseTxt = "{ break " + forLabel + " }"
		if s.neg {
			thenTxt, elseTxt = elseTxt, thenTxt
		}
	case "if":
		iff := s.stmt.(*ast.IfStmt)
		if hasFreeBreak(iff.Body) || hasLabel(iff) || (iff.Else != nil && hasFreeBreak(iff.Else)) {
			return "", false
		}
		if iff.Init != nil {
			initTxt = csrcText(iff.Init) + "; "
		}
		thenTxt = csrcText(iff.Body)
		if iff.Else != nil {
			elseTxt = csrcText(iff.Else)
			if _, isIf := iff.Else.(*ast.IfStmt); isIf {
				elseTxt = "{ " + elseTxt + " }"
			}
		}
		if s.neg {
			thenTxt, elseTxt = elseTxt, thenTxt
		}
		_ = condTxt
	}
	// returns of the helper
	var edits []srcEdit
	edits = append(edits, litEdits...)
	var lastStmt ast.Stmt
	if n := len(fd.Body.List); n > 0 {
		lastStmt = fd.Body.List[n-1]
	}
	// top-level defers (inlinable admitted only stable ones, in result-less helpers): run at every exit, last first
	var defers []*ast.DeferStmt
	for _, st := range fd.Body.List {
		if d, isD := st.(*ast.DeferStmt); isD {
			defers = append(defers, d)
			edits = append(edits, srcEdit{in.off(d.Pos()), in.off(d.End()), ""})
		}
	}
	// with results, the deferred calls run after the result expressions have been evaluated and assigned: only the
	// forms that assign the results to variables first can say that
	if len(defers) > 0 && s.form != "stmt" && s.form != "assign" && s.form != "ifinit" && s.form != "hoist" && s.form != "tail" {
		return "", false
	}
	deferredAt := func(pos token.Pos) string {
		var calls []string
		for k := len(defers) - 1; k >= 0; k-- {
			if defers[k].End() <= pos {
				calls = append(calls, render(defers[k].Call.Pos(), defers[k].Call.End()))
			}
		}
		return strings.Join(calls, "; ")
	}
	// retLitOf: ret is `return fn(args)` with fn a parameter bound to a function literal of the call site
	retLitOf := func(ret *ast.ReturnStmt) (*ast.FuncLit, []ast.Expr) {
		if len(ret.Results) != 1 {
			return nil, nil
		}
		call, ok := ret.Results[0].(*ast.CallExpr)
		if !ok {
			return nil, nil
		}
		id, ok := call.Fun.(*ast.Ident)
		if !ok {
			return nil, nil
		}
		if lit := retLits[hpk.TypesInfo.Uses[id]]; lit != nil {
			return lit, call.Args
		}
		return nil, nil
	}
	type genRetFn func(exprs []string, results []ast.Expr, info *types.Info, body *ast.BlockStmt, retStmt *ast.ReturnStmt, isLast bool, dpos token.Pos) (string, bool)
	// expandRetLit: the literal's body in place of `return fn(args)`: its parameters are bound to the arguments, each
	// of its returns is rewritten like a return of the helper (text of the caller's file, so nothing is renamed)
	expandRetLit := func(lit *ast.FuncLit, largs []ast.Expr, ret *ast.ReturnStmt, helperLast bool, gen genRetFn) (string, bool) {
		decl := ""
		k := 0
		for _, lf := range lit.Type.Params.List {
			ns := lf.Names
			if len(ns) == 0 {
				ns = []*ast.Ident{{Name: "_"}}
			}
			for _, ln := range ns {
				if k >= len(largs) {
					return "", false
				}
				a := largs[k]
				if ln.Name == "_" {
					decl += "_ = " + render(a.Pos(), a.End()) + "; "
				} else {
					decl += fmt.Sprintf("var %s %s = %s; _ = %s; ", ln.Name, in.text(lf.Type), render(a.Pos(), a.End()), ln.Name)
				}
				k++
			}
		}
		if k != len(largs) {
			return "", false
		}
		var litLast ast.Stmt
		if n := len(lit.Body.List); n > 0 {
			litLast = lit.Body.List[n-1]
		}
		fname := in.file(lit.Pos())
		src := in.content(fname)
		var es []srcEdit
		okAll := true
		ast.Inspect(lit.Body, func(m ast.Node) bool {
			if fl, isLit := m.(*ast.FuncLit); isLit && fl != lit {
				return false
			}
			lr, isRet := m.(*ast.ReturnStmt)
			if !isRet {
				return true
			}
			var exprs []string
			for _, r := range lr.Results {
				exprs = append(exprs, in.text(r))
			}
			t, okG := gen(exprs, lr.Results, pk.TypesInfo, lit.Body, lr, helperLast && ast.Stmt(lr) == litLast, ret.Pos())
			if !okG {
				okAll = false
				return false
			}
			t = "{ " + t + " }"
			if strings.Contains(t, "\n") {
				t += in.lineDirective(lr.End())
			}
			es = append(es, srcEdit{in.off(lr.Pos()), in.off(lr.End()), t})
			return false
		})
		if !okAll {
			return "", false
		}
		a, b := in.off(lit.Body.Lbrace)+1, in.off(lit.Body.Rbrace)
		body := applyEdits(src, a, es)
		last := a
		for _, e := range es {
			if e.end > last {
				last = e.end
			}
		}
		body += string(src[last:b])
		return decl + in.lineDirective(lit.Body.Lbrace) + body + "\n", true
	}
	var retOf func(n ast.Node)
	bad := false
	retOf = func(n ast.Node) {
		ast.Inspect(n, func(m ast.Node) bool {
			if _, isLit := m.(*ast.FuncLit); isLit {
				return false
			}
			ret, ok := m.(*ast.ReturnStmt)
			if !ok {
				return true
			}
			var exprs []string
			for _, r := range ret.Results {
				exprs = append(exprs, render(r.Pos(), r.End()))
			}
			if len(ret.Results) == 0 && nres > 0 {
				exprs = append([]string{}, namedRes...)
				if len(exprs) != nres {
					bad = true
				}
			}
			isLast := ast.Stmt(ret) == lastStmt
			// genRet: the text that replaces one `return` — of the helper, or of a function literal the helper returns
			// the result of — for this call site's form
			genRet := func(exprs []string, results []ast.Expr, info *types.Info, body *ast.BlockStmt, retStmt *ast.ReturnStmt, isLast bool, dpos token.Pos) (string, bool) {
				brk := ""
				if !isLast {
					brk = "; break " + label
				}
				var txt string
				switch s.form {
				case "stmt":
					switch {
					case len(exprs) == 0:
						txt = ""
					case len(results) == 1 && nres > 1:
						txt = strings.TrimSuffix(strings.Repeat("_, ", nres), ", ") + " = " + exprs[0]
					default:
						txt = strings.TrimSuffix(strings.Repeat("_, ", len(exprs)), ", ") + " = " + strings.Join(exprs, ", ")
					}
					if dq := deferredAt(dpos); dq != "" {
						if txt != "" {
							txt += "; "
						}
						txt += dq
					}
					if !isLast {
						if txt != "" {
							txt += "; "
						}
						txt += "break " + label
						usedLabel = true
					}
					if txt == "" {
						txt = "{}"
					}
				case "tail":
					rs := s.stmt.(*ast.ReturnStmt)
					if dq := deferredAt(dpos); dq != "" {
						// the results are evaluated, then the deferred calls run, then the function returns
						if len(rs.Results) != 1 || len(exprs) != nres {
							return "", false
						}
						var names []string
						for i := range exprs {
							rt, okT := in.typeString(sig.Results().At(i).Type(), pk, file)
							if !okT {
								return "", false
							}
							name := fmt.Sprintf("tˑ%d%s", i, suffix)
							txt += fmt.Sprintf("var %s %s = %s; ", name, rt, exprs[i])
							names = append(names, name)
						}
						txt += dq + "; return " + strings.Join(names, ", ")
					} else if len(rs.Results) == 1 {
						txt = "return " + strings.Join(exprs, ", ")
					} else {
						if len(exprs) != 1 {
							return "", false
						}
						var ops []string
						for _, r := range rs.Results {
							if r == ast.Expr(s.call) {
								ops = append(ops, exprs[0])
							} else {
								ops = append(ops, csrcText(r))
							}
						}
						txt = "return " + strings.Join(ops, ", ")
					}
				case "assign", "ifinit", "hoist":
					if s.absorb {
						nilness := ""
						switch {
						case len(results) == 1 && nres > 1:
							txt = lhsTxt + " = " + exprs[0]
						case len(exprs) == nres:
							txt = lhsTxt + " = " + strings.Join(exprs, ", ")
							if len(results) == nres {
								nilness = errNilness(info, body, retStmt, results[s.errIdx])
							}
						default:
							return "", false
						}
						if dq := deferredAt(dpos); dq != "" {
							txt += "; " + dq
						}
						switch nilness {
						case "nil":
							if elseTxt != "" {
								txt += "; " + elseTxt
							}
						case "nonnil":
							if thenTxt != "" {
								txt += "; " + thenTxt
							}
						default:
							txt += "; if " + errLhs + " != nil " + orEmpty(thenTxt)
							if elseTxt != "" {
								txt += " else " + elseTxt
							}
						}
						if !isLast {
							txt += brk
							usedLabel = true
						}
						break
					}
					if len(results) == 1 && nres > 1 {
						txt = strings.Join(tmps, ", ") + " = " + exprs[0]
					} else if len(exprs) == nres {
						txt = strings.Join(tmps, ", ") + " = " + strings.Join(exprs, ", ")
					} else {
						return "", false
					}
					if dq := deferredAt(dpos); dq != "" {
						txt += "; " + dq
					}
					if !isLast {
						txt += brk
						usedLabel = true
					}
				case "if", "for":
					if len(exprs) != 1 {
						return "", false
					}
					e := strings.TrimSpace(exprs[0])
					isTrue, isFalse := false, false
					if id, isId := results[0].(*ast.Ident); len(results) == 1 && isId {
						if c, isC := info.Uses[id].(*types.Const); isC && c.Parent() == types.Universe {
							isTrue, isFalse = id.Name == "true", id.Name == "false"
						}
					}
					switch {
					case isTrue:
						txt = thenTxt
					case isFalse:
						txt = elseTxt
					default:
						txt = "if " + e + " " + orEmpty(thenTxt)
						if elseTxt != "" {
							txt += " else " + elseTxt
						}
					}
					if txt == "" {
						txt = "{}"
					}
					if !isLast {
						txt += brk
						usedLabel = true
					}
				}
				return txt, true
			}
			var txt string
			if lit, litArgs := retLitOf(ret); lit != nil {
				// `return fn(args)` with fn bound to a function literal of the call site: the literal's body stands here,
				// each of its returns becoming a return of the helper
				t, okL := expandRetLit(lit, litArgs, ret, isLast, genRet)
				if !okL {
					bad = true
					return false
				}
				txt = t
			} else {
				t, okG := genRet(exprs, ret.Results, hpk.TypesInfo, fd.Body, ret, isLast, ret.Pos())
				if !okG {
					bad = true
					return false
				}
				txt = t
			}
			txt = "{ " + txt + " }"
			if strings.Contains(txt, "\n") {
				txt += in.lineDirective(ret.End())
			}
			edits = append(edits, srcEdit{in.off(ret.Pos()), in.off(ret.End()), txt})
			return false
		})
	}
	retOf(fd.Body)
	if bad {
		return "", false
	}
	// renames outside the replaced returns
	for _, r := range renames {
		if r.start < in.off(fd.Body.Lbrace)+1 || r.end > in.off(fd.Body.Rbrace) {
			continue
		}
		inside := false
		for _, e := range edits {
			if r.start >= e.start && r.end <= e.end {
				inside = true
			}
		}
		if !inside {
			edits = append(edits, r)
		}
	}
	bodyStart, bodyEnd := in.off(fd.Body.Lbrace)+1, in.off(fd.Body.Rbrace)
	body := applyEdits(hsrc, bodyStart, edits)
	last := bodyStart
	for _, e := range edits {
		if e.end > last {
			last = e.end
		}
	}
	body += string(hsrc[last:bodyEnd])
	if _, endsInReturn := lastStmt.(*ast.ReturnStmt); !endsInReturn && len(defers) > 0 {
		body += "\n" + deferredAt(fd.Body.Rbrace)
	}

	var b strings.Builder
	wrapAll := s.form != "assign" && s.form != "hoist"
	if s.form == "ifinit" && s.absorb {
		if init := s.stmt.(*ast.IfStmt); init != nil {
			_ = init
		}
	}
	if wrapAll {
		b.WriteString("{ ")
	}
	b.WriteString(initTxt)
	b.WriteString(before)
	if s.form == "for" {
		if strings.Contains(body, "break "+forLabel) {
			b.WriteString(forLabel + ": ")
		}
		b.WriteString(forHead + "{ ")
	}
	b.WriteString("{ ")
	b.WriteString(pre.String())
	if usedLabel {
		b.WriteString(label + ": switch { default: ")
	}
	b.WriteString(in.lineDirective(fd.Body.Lbrace))
	b.WriteString(body)
	b.WriteString("\n")
	if usedLabel {
		b.WriteString("} ")
	}
	b.WriteString("}")
	if s.form == "for" {
		b.WriteString(" }")
	}
	if after != "" {
		if s.form == "hoist" {
			b.WriteString(";" + in.lineDirective(s.stmt.Pos()) + after)
		} else {
			b.WriteString("; " + after)
		}
	}
	if wrapAll {
		b.WriteString(" }")
	}
	b.WriteString(in.lineDirective(s.end()))
	return b.String(), true
}

// onlyCalledAsStmt: every use of the parameter in the helper's body is a statement `f()`; returns those statements.
func (in *inliner) onlyCalledAsStmt(pk *packages.Package, fd *ast.FuncDecl, param types.Object) ([]*ast.ExprStmt, bool) {
	if param == nil {
		return nil, false
	}
	var calls []*ast.ExprStmt
	accounted := map[*ast.Ident]bool{}
	ast.Inspect(fd.Body, func(n ast.Node) bool {
		if es, ok := n.(*ast.ExprStmt); ok {
			if call, isC := es.X.(*ast.CallExpr); isC && !call.Ellipsis.IsValid() {
				if id, isId := call.Fun.(*ast.Ident); isId && pk.TypesInfo.Uses[id] == param {
					calls = append(calls, es)
					accounted[id] = true
				}
			}
		}
		return true
	})
	ok := len(calls) > 0
	ast.Inspect(fd.Body, func(n ast.Node) bool {
		if id, isId := n.(*ast.Ident); isId && pk.TypesInfo.Uses[id] == param && !accounted[id] {
			ok = false
		}
		return true
	})
	// a call inside a function literal or a go/defer statement of the helper is not "where the helper says f()"
	ast.Inspect(fd.Body, func(n ast.Node) bool {
		switch x := n.(type) {
		case *ast.FuncLit:
			ast.Inspect(x.Body, func(m ast.Node) bool {
				if id, isId := m.(*ast.Ident); isId && pk.TypesInfo.Uses[id] == param {
					ok = false
				}
				return true
			})
			return false
		}
		return true
	})
	return calls, ok
}

// onlyReturned: every use of the parameter in the helper's body is `return param(args…)`.
func (in *inliner) onlyReturned(pk *packages.Package, fd *ast.FuncDecl, param types.Object) bool {
	if param == nil {
		return false
	}
	accounted := map[*ast.Ident]bool{}
	n := 0
	ast.Inspect(fd.Body, func(m ast.Node) bool {
		if _, isLit := m.(*ast.FuncLit); isLit {
			return false
		}
		if ret, ok := m.(*ast.ReturnStmt); ok && len(ret.Results) == 1 {
			if call, isC := ret.Results[0].(*ast.CallExpr); isC && !call.Ellipsis.IsValid() {
				if id, isId := call.Fun.(*ast.Ident); isId && pk.TypesInfo.Uses[id] == param {
					accounted[id] = true
					n++
				}
			}
		}
		return true
	})
	ok := n > 0
	ast.Inspect(fd.Body, func(m ast.Node) bool {
		if id, isId := m.(*ast.Ident); isId && pk.TypesInfo.Uses[id] == param && !accounted[id] {
			ok = false
		}
		return true
	})
	return ok
}

// litBody: the statements of a parameterless, resultless function literal, as a block body: a `return` of the literal
// leaves the block.
func (in *inliner) litBody(lit *ast.FuncLit, label string) string {
	fname := in.file(lit.Pos())
	src := in.content(fname)
	var edits []srcEdit
	ast.Inspect(lit.Body, func(n ast.Node) bool {
		if _, isLit := n.(*ast.FuncLit); isLit && n != ast.Node(lit) {
			return false
		}
		if r, ok := n.(*ast.ReturnStmt); ok {
			edits = append(edits, srcEdit{in.off(r.Pos()), in.off(r.End()), "break " + label})
		}
		return true
	})
	a, b := in.off(lit.Body.Lbrace)+1, in.off(lit.Body.Rbrace)
	body := applyEdits(src, a, edits)
	last := a
	for _, e := range edits {
		if e.end > last {
			last = e.end
		}
	}
	body += string(src[last:b])
	body = in.lineDirective(lit.Body.Lbrace) + body
	if len(edits) > 0 {
		return label + ": switch { default: " + body + "\n}"
	}
	return body
}

func orEmpty(s string) string {
	if s == "" {
		return "{}"
	}
	return s
}
