package main

import (
	"fmt"
	"go/token"
	"go/types"
	"os"
	"path/filepath"
	"sort"
	"strings"
	"time"

	"golang.org/x/tools/go/callgraph"
	"golang.org/x/tools/go/callgraph/cha"
	"golang.org/x/tools/go/callgraph/vta"
	"golang.org/x/tools/go/packages"
	"golang.org/x/tools/go/ssa"
	"golang.org/x/tools/go/ssa/ssautil"
)

// modPath is the module under analysis (the self-test points it at the positive-control module).
var modPath = "github.com/cbeuw/Cloak"

const goToolchain = "/root/go/pkg/mod/golang.org/toolchain@v0.0.1-go1.24.2.linux-amd64"

// Config selects one build configuration of /repo.
type Config struct {
	GOOS, GOARCH string
	Tags         string
	Ctl          bool // positive-control module (self-test): no Cloak anchor packages expected
}

func (c Config) String() string {
	s := c.GOOS + "/" + c.GOARCH
	if c.Tags != "" {
		s += " tags=" + c.Tags
	}
	return s
}

// Prog is the resolved program: type-checked packages, SSA, call graph.
type Prog struct {
	Repo     string
	Cfg      Config
	Fset     *token.FileSet
	Roots    []*packages.Package
	NPkgs    int
	SSA      *ssa.Program
	pkgByRel map[string]*ssa.Package // "internal/multiplex" -> ssa package
	CG       *callgraph.Graph
	CHA      *callgraph.Graph
	AllFuncs map[*ssa.Function]bool
	// RepoFuncs: every function (incl. anonymous and synthetic wrappers with source) defined in the module.
	RepoFuncs    []*ssa.Function
	callees      map[ssa.CallInstruction][]*ssa.Function
	callers      map[*ssa.Function][]ssa.CallInstruction
	NInstr       int
	LoadS        float64
	VTARounds    int
	NotAnalysed  []string
	ls           *Locksets
	lo           *LockOrder
	vf           *VFlow
	bce          *BCE
	units        map[*ssa.Function]map[*ssa.Function]bool
	renamedKnown map[string]map[*ssa.Function]bool // per package: known functions found under a new name
	fnCache      map[string]*ssa.Function
	// Inlined: call sites of novel helpers that were expanded before the analysis (inline.go)
	Inlined      []inlineNote
	InlineFailed string
	// InlineRejected: expansions that were dropped because the package did not type-check with them
	InlineRejected []string
	condAlias      map[string]string
	canonT         map[*types.Named]string
	canonF         map[*types.Var]string
}

func loadEnv(cfg Config) []string {
	env := []string{}
	for _, kv := range os.Environ() {
		k := kv[:strings.IndexByte(kv+"=", '=')]
		switch k {
		case "GOWORK", "GOFLAGS", "GOPROXY", "GOSUMDB", "GOTOOLCHAIN", "GOOS", "GOARCH", "CGO_ENABLED", "PATH":
			continue
		}
		env = append(env, kv)
	}
	path := os.Getenv("PATH")
	if _, err := os.Stat(goToolchain + "/bin/go"); err == nil {
		path = goToolchain + "/bin:" + path
	}
	env = append(env, "PATH="+path, "GOWORK=off", "GOFLAGS=-mod=mod", "GOPROXY=off", "GOSUMDB=off", "GOTOOLCHAIN=local", "CGO_ENABLED=0")
	if cfg.GOOS != "" {
		env = append(env, "GOOS="+cfg.GOOS)
	}
	if cfg.GOARCH != "" {
		env = append(env, "GOARCH="+cfg.GOARCH)
	}
	return env
}

// Load type-checks /repo, builds SSA for the whole program and the iterated VTA call graph.
func Load(repo string, cfg Config) (*Prog, error) {
	p, err := loadOnce(repo, cfg, nil)
	if err != nil || cfg.Ctl || os.Getenv("CLOAKCHECK_NOINLINE") != "" {
		return p, err
	}
	// normalisation: expand calls to helpers the frozen table does not know (inline.go) and analyse the expanded source
	var overlay map[string][]byte
	var notes []inlineNote
	var rej []string
	for round := 1; round <= 6; round++ {
		ovDel, ovKeep, ns := planInline(p, overlay, round)
		if ovDel == nil {
			// no helper left to expand: loops over small literal tables (unroll.go)
			ovU, nsU := planUnroll(p, overlay, round)
			if ovU == nil {
				break
			}
			ovDel, ovKeep, ns = ovU, ovU, nsU
		}
		used := ovDel
		p2, err2 := loadOnce(repo, cfg, ovDel)
		if err2 != nil {
			used = ovKeep
			p2, err2 = loadOnce(repo, cfg, ovKeep)
		}
		if err2 != nil {
			msg := err2.Error()
			if i := strings.Index(msg, "\n  "); i >= 0 {
				if j := strings.Index(msg[i+3:], "\n"); j >= 0 {
					msg = msg[:i+3+j]
				}
			}
			if os.Getenv("CLOAKCHECK_INLINE_DEBUG") != "" {
				for f, b := range ovKeep {
					os.WriteFile("/tmp/inline_debug_"+strings.ReplaceAll(strings.TrimPrefix(f, repo+"/"), "/", "_"), b, 0o644)
				}
			}
			p.InlineFailed = "expanded source did not type-check, helpers are analysed as calls: " + msg
			break
		}
		if os.Getenv("CLOAKCHECK_INLINE_DEBUG") == "all" {
			for f, b := range used {
				os.WriteFile("/tmp/inline_debug_"+strings.ReplaceAll(strings.TrimPrefix(f, repo+"/"), "/", "_"), b, 0o644)
			}
		}
		rej = append(rej, p.InlineRejected...)
		overlay, p = used, p2
		notes = append(notes, ns...)
	}
	p.Inlined = notes
	p.InlineRejected = append(rej, p.InlineRejected...)
	curProg = p
	return p, nil
}

func loadOnce(repo string, cfg Config, overlay map[string][]byte) (*Prog, error) {
	t0 := time.Now()
	pc := &packages.Config{
		Mode:    packages.LoadAllSyntax,
		Dir:     repo,
		Tests:   false,
		Env:     loadEnv(cfg),
		Overlay: overlay,
	}
	if cfg.Tags != "" {
		pc.BuildFlags = []string{"-tags=" + cfg.Tags}
	}
	roots, err := packages.Load(pc, "./...")
	if err != nil {
		return nil, fmt.Errorf("packages.Load: %v", err)
	}
	if len(roots) == 0 {
		return nil, fmt.Errorf("no packages loaded from %s", repo)
	}
	var errs []string
	n := 0
	packages.Visit(roots, nil, func(p *packages.Package) {
		n++
		for _, e := range p.Errors {
			errs = append(errs, e.Error())
		}
	})
	if len(errs) > 0 {
		sort.Strings(errs)
		if len(errs) > 8 {
			errs = errs[:8]
		}
		return nil, fmt.Errorf("type-check/load errors (tree is not analysed optimistically):\n  %s", strings.Join(errs, "\n  "))
	}
	p := &Prog{Repo: repo, Cfg: cfg, Roots: roots, NPkgs: n, pkgByRel: map[string]*ssa.Package{}}
	p.Fset = roots[0].Fset
	prog, _ := ssautil.AllPackages(roots, ssa.InstantiateGenerics)
	prog.Build()
	p.SSA = prog
	for _, sp := range prog.AllPackages() {
		path := sp.Pkg.Path()
		if path == modPath || strings.HasPrefix(path, modPath+"/") {
			rel := strings.TrimPrefix(strings.TrimPrefix(path, modPath), "/")
			p.pkgByRel[rel] = sp
		}
	}
	for _, need := range []string{"internal/multiplex", "internal/server", "internal/server/usermanager", "internal/client", "internal/common", "internal/ecdh", "cmd/ck-client", "cmd/ck-server"} {
		if cfg.Ctl {
			break
		}
		if p.pkgByRel[need] == nil {
			return nil, fmt.Errorf("anchor package %s not loaded", need)
		}
	}
	p.AllFuncs = ssautil.AllFunctions(prog)
	for f := range p.AllFuncs {
		if p.InRepo(f) {
			p.RepoFuncs = append(p.RepoFuncs, f)
			for _, b := range f.Blocks {
				p.NInstr += len(b.Instrs)
			}
		}
	}
	sort.Slice(p.RepoFuncs, func(i, j int) bool { return p.RepoFuncs[i].String() < p.RepoFuncs[j].String() })

	// iterated VTA over a CHA seed, until the in-repo edge count stops shrinking
	p.CHA = cha.CallGraph(prog)
	g := p.CHA
	prev := -1
	for round := 1; round <= 4; round++ {
		g = vta.CallGraph(p.AllFuncs, g)
		cnt := p.repoEdgeCount(g)
		p.VTARounds = round
		if cnt == prev {
			break
		}
		prev = cnt
	}
	p.CG = g
	p.indexCG()
	p.checkNoReflectUnsafe()
	p.LoadS = time.Since(t0).Seconds()
	curProg = p
	return p, nil
}

func (p *Prog) repoEdgeCount(g *callgraph.Graph) int {
	n := 0
	for f, node := range g.Nodes {
		if f == nil || !p.InRepo(f) {
			continue
		}
		n += len(node.Out)
	}
	return n
}

func (p *Prog) indexCG() {
	p.callees = map[ssa.CallInstruction][]*ssa.Function{}
	p.callers = map[*ssa.Function][]ssa.CallInstruction{}
	for f, node := range p.CG.Nodes {
		if f == nil {
			continue
		}
		for _, e := range node.Out {
			if e.Site == nil || e.Callee == nil || e.Callee.Func == nil {
				continue
			}
			p.callees[e.Site] = appendUniqueFn(p.callees[e.Site], e.Callee.Func)
			p.callers[e.Callee.Func] = append(p.callers[e.Callee.Func], e.Site)
		}
	}
	for k := range p.callees {
		fs := p.callees[k]
		sort.Slice(fs, func(i, j int) bool { return fs[i].String() < fs[j].String() })
	}
}

func appendUniqueFn(s []*ssa.Function, f *ssa.Function) []*ssa.Function {
	for _, x := range s {
		if x == f {
			return s
		}
	}
	return append(s, f)
}

// checkNoReflectUnsafe records files outside the analysis' soundness envelope.
func (p *Prog) checkNoReflectUnsafe() {
	for _, r := range p.Roots {
		for imp := range r.Imports {
			if imp == "unsafe" || imp == "reflect" || imp == "C" {
				p.NotAnalysed = append(p.NotAnalysed, r.PkgPath+" imports "+imp)
			}
		}
	}
	p.NotAnalysed = append(p.NotAnalysed, "cmd/ck-client/log_android.go, cmd/ck-client/protector_android.go (android+cgo build tag; outside every property's anchors)")
}

// InRepo reports whether f is defined in the module under analysis.
func (p *Prog) InRepo(f *ssa.Function) bool {
	if f == nil {
		return false
	}
	pkg := f.Pkg
	if pkg == nil {
		if f.Parent() != nil {
			return p.InRepo(f.Parent())
		}
		if o := f.Origin(); o != nil && o != f {
			return p.InRepo(o)
		}
		// wrappers/thunks/bound methods: use the declared object
		if f.Object() != nil && f.Object().Pkg() != nil {
			pp := f.Object().Pkg().Path()
			return (pp == modPath || strings.HasPrefix(pp, modPath+"/")) && f.Synthetic == ""
		}
		return false
	}
	pp := pkg.Pkg.Path()
	return pp == modPath || strings.HasPrefix(pp, modPath+"/")
}

func (p *Prog) Pkg(rel string) *ssa.Package { return p.pkgByRel[rel] }

// Callees returns the resolved callee set of a call instruction (VTA graph).
func (p *Prog) Callees(c ssa.CallInstruction) []*ssa.Function {
	if sc := c.Common().StaticCallee(); sc != nil {
		return []*ssa.Function{sc}
	}
	return p.callees[c]
}

// CallersOf returns all call sites whose callee set contains f.
func (p *Prog) CallersOf(f *ssa.Function) []ssa.CallInstruction {
	cs := p.callers[f]
	sort.Slice(cs, func(i, j int) bool { return cs[i].Pos() < cs[j].Pos() })
	return cs
}

// Func finds a function or method by package-relative path and name: "makeStream", "Stream.Write",
// "TLS.processFirstPacket". Anonymous functions: "dispatchConnection$1".
func (p *Prog) Func(rel, name string) *ssa.Function {
	sp := p.pkgByRel[rel]
	if sp == nil {
		return nil
	}
	anon := ""
	if i := strings.IndexByte(name, '$'); i >= 0 {
		anon = name[i:]
		name = name[:i]
	}
	var fn *ssa.Function
	if i := strings.IndexByte(name, '.'); i >= 0 {
		tn, mn := name[:i], name[i+1:]
		named := p.Named(rel, tn)
		if named == nil {
			return nil
		}
		for _, T := range []types.Type{named, types.NewPointer(named)} {
			ms := p.SSA.MethodSets.MethodSet(T)
			for i := 0; i < ms.Len(); i++ {
				sel := ms.At(i)
				if sel.Obj().Name() == mn {
					// only methods declared directly on the type (not promoted)
					if len(sel.Index()) == 1 {
						f := p.SSA.MethodValue(sel)
						if f != nil && f.Synthetic == "" {
							fn = f
						}
					}
				}
			}
			if fn != nil {
				break
			}
		}
	} else {
		fn = sp.Func(name)
	}
	if fn == nil {
		fn = p.funcBySignature(rel, name)
	}
	if fn == nil || anon == "" {
		return fn
	}
	want := fn.Name() + anon
	var find func(f *ssa.Function) *ssa.Function
	find = func(f *ssa.Function) *ssa.Function {
		for _, a := range f.AnonFuncs {
			if a.Name() == want {
				return a
			}
			if r := find(a); r != nil {
				return r
			}
		}
		return nil
	}
	return find(fn)
}

// Named looks up a named type.
func (p *Prog) Named(rel, name string) *types.Named {
	sp := p.pkgByRel[rel]
	if sp == nil {
		return nil
	}
	obj := sp.Pkg.Scope().Lookup(name)
	if obj == nil {
		return p.namedByShape(rel, name)
	}
	n, _ := obj.Type().(*types.Named)
	return n
}

// Field resolves a struct field by name; if absent, by unique type string within the struct (rename tolerance).
func (p *Prog) Field(rel, typ, name string, fallbackType ...string) *types.Var {
	n := p.Named(rel, typ)
	if n == nil {
		return nil
	}
	st, ok := n.Underlying().(*types.Struct)
	if !ok {
		return nil
	}
	for i := 0; i < st.NumFields(); i++ {
		if st.Field(i).Name() == name {
			return st.Field(i)
		}
	}
	for _, ft := range fallbackType {
		var hit *types.Var
		cnt := 0
		for i := 0; i < st.NumFields(); i++ {
			if types.TypeString(st.Field(i).Type(), nil) == ft {
				hit = st.Field(i)
				cnt++
			}
		}
		if cnt == 1 {
			return hit
		}
	}
	return p.fieldByFrozenType(rel, typ, name, st, n)
}

// Const evaluates a package-level constant to int64.
func (p *Prog) Const(rel, name string) (int64, bool) {
	sp := p.pkgByRel[rel]
	if sp == nil {
		return 0, false
	}
	c, ok := sp.Pkg.Scope().Lookup(name).(*types.Const)
	if !ok {
		return p.constByValue(rel, name)
	}
	return constInt64(c.Val())
}

func (p *Prog) Pos(pos token.Pos) string {
	if !pos.IsValid() {
		return "-"
	}
	ps := p.Fset.Position(pos)
	rel, err := filepath.Rel(p.Repo, ps.Filename)
	if err != nil || strings.HasPrefix(rel, "..") {
		rel = ps.Filename
	}
	return fmt.Sprintf("%s:%d", rel, ps.Line)
}

// InstrPos gives the best source position of an instruction (falls back to the enclosing function).
func (p *Prog) InstrPos(i ssa.Instruction) string {
	if i == nil {
		return "-"
	}
	if i.Pos().IsValid() {
		return p.Pos(i.Pos())
	}
	if v, ok := i.(ssa.Value); ok {
		for _, r := range *v.Referrers() {
			if r.Pos().IsValid() {
				return p.Pos(r.Pos())
			}
		}
	}
	// nearest positioned instruction in the block
	b := i.Block()
	for _, x := range b.Instrs {
		if x.Pos().IsValid() {
			return p.Pos(x.Pos()) + "~"
		}
	}
	return p.Pos(i.Parent().Pos()) + "~"
}

// FuncsOfPkg lists all functions (incl. anonymous) of one repo package, sorted.
func (p *Prog) FuncsOfPkg(rel string) []*ssa.Function {
	sp := p.pkgByRel[rel]
	var out []*ssa.Function
	for _, f := range p.RepoFuncs {
		q := f
		for q.Parent() != nil {
			q = q.Parent()
		}
		if q.Pkg == sp && sp != nil {
			out = append(out, f)
		}
	}
	return out
}
