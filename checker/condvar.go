package main

import (
	"fmt"
	"go/types"
	"sort"
	"strings"

	"golang.org/x/tools/go/ssa"
)

// E10 CONDVAR — wait-predicate discipline for types that block on a sync.Cond.

var condPipes = []struct {
	typ   string
	preds []string // frozen predicate fields (confirmed by reading); the loop-derived set must be a subset
}{
	{"streamBufferedPipe", []string{"buf", "closed", "rDeadline"}},
	{"datagramBufferedPipe", []string{"pLens", "buf", "closed", "rDeadline"}},
}

var nonMutatingBufMethods = map[string]bool{"Len": true, "Cap": true, "String": true, "Bytes": true, "Available": true}

func condvarRules(c *Ctx, rule string) {
	c.Rule(rule, "cond-var discipline: every write to a wait-predicate field of a pipe holds rwCond.L and is followed by Broadcast/Signal on every path before the function returns", 8)
	p := c.P
	ls := p.Locksets()
	const rel = "internal/multiplex"
	for _, cp := range condPipes {
		named := p.Named(rel, cp.typ)
		if named == nil {
			c.Undecided(rule, "anchor type "+cp.typ, "-", "not found")
			continue
		}
		condF := p.Field(rel, cp.typ, "rwCond", "*sync.Cond")
		if condF == nil {
			c.Undecided(rule, "anchor "+cp.typ+".rwCond", "-", "no *sync.Cond field")
			continue
		}
		var lockL *types.Var
		if st := derefStruct(condF.Type()); st != nil {
			for i := 0; i < st.NumFields(); i++ {
				if st.Field(i).Name() == "L" {
					lockL = st.Field(i)
				}
			}
		}
		// the condition's lock may be a mutex the struct owns itself: rwCond = sync.NewCond(&p.mu) makes p.mu and
		// p.rwCond.L the same lock
		aliasM := condLockAliases(p, rel, condF)
		isCondLock := func(e LockEnt) bool {
			n := len(e.Path.Chain)
			if n >= 2 && e.Path.Chain[n-1] == lockL && e.Path.Chain[n-2] == condF {
				return true
			}
			return n >= 1 && aliasM[e.Path.Chain[n-1]]
		}
		preds := map[*types.Var]bool{}
		for _, n := range cp.preds {
			if fv := p.Field(rel, cp.typ, n); fv != nil {
				preds[fv] = true
			} else {
				c.Undecided(rule, "anchor "+cp.typ+"."+n, "-", "predicate field not found")
			}
		}
		// methods of the type
		var methods []*ssa.Function
		for _, f := range p.FuncsOfPkg(rel) {
			if f.Signature.Recv() != nil && namedOf(f.Signature.Recv().Type()) == named && f.Synthetic == "" {
				methods = append(methods, f)
				// closures of the method (bodies run by a lock helper) belong to it
				var nest func(g *ssa.Function)
				nest = func(g *ssa.Function) {
					for _, a := range g.AnonFuncs {
						methods = append(methods, a)
						nest(a)
					}
				}
				nest(f)
			}
		}
		// the object the method works on: its receiver, or the receiver captured by a closure of the method
		isOwnerRoot := func(f *ssa.Function, root ssa.Value) bool {
			if len(f.Params) > 0 && f.Signature.Recv() != nil && root == ssa.Value(f.Params[0]) {
				return true
			}
			if fvr, ok := root.(*ssa.FreeVar); ok {
				return namedOf(fvr.Type()) == named
			}
			return false
		}
		// derive predicate fields from wait loops and check they are in the frozen set
		for _, f := range methods {
			allInstrs(f, func(i ssa.Instruction) {
				if !isCall(i, "(*sync.Cond).Wait") {
					return
				}
				loop := loopBlocks(i.Block())
				var derived []string
				for b := range loop {
					for _, in := range b.Instrs {
						if fa, ok := in.(*ssa.FieldAddr); ok {
							fv, base := fieldVar(fa)
							if root, _ := fieldChain(base); isOwnerRoot(f, root) && fv != condF && namedOf(base.Type()) == named {
								if !preds[fv] && fv.Name() != "timeoutTimer" && fv.Name() != "wtTimeout" {
									derived = append(derived, fv.Name())
								}
							}
						}
					}
				}
				sort.Strings(derived)
				derived = dedupStrings(derived)
				c.Check(len(derived) == 0, rule, "wait loop of "+shortFn(f)+" reads only known predicate fields", c.at(i), "predicate fields ⊆ {"+strings.Join(cp.preds, ",")+"}",
					"the wait loop also depends on {"+strings.Join(derived, ",")+"}, which the discipline table does not cover")
				// Wait is called with the lock held
				held := ls.MustHeld(i)
				okL := false
				for _, e := range held {
					if isCondLock(e) {
						okL = true
					}
				}
				c.Check(okL, rule, "Wait in "+shortFn(f)+" holds rwCond.L", c.at(i), "lock held", "sync.Cond.Wait called without holding its lock")
			})
		}
		isWake := func(i ssa.Instruction) bool {
			return isCall(i, "(*sync.Cond).Broadcast", "(*sync.Cond).Signal")
		}
		for _, f := range methods {
			type w struct {
				at   ssa.Instruction
				what string
			}
			var writes []w
			allInstrs(f, func(i ssa.Instruction) {
				switch x := i.(type) {
				case *ssa.Store:
					if fv, base := fieldVar(x.Addr); fv != nil && preds[fv] {
						if root, _ := fieldChain(base); isOwnerRoot(f, root) {
							writes = append(writes, w{i, "store " + fv.Name()})
						}
					}
				case *ssa.Call:
					if x.Call.IsInvoke() || x.Call.StaticCallee() == nil || len(x.Call.Args) == 0 {
						return
					}
					fv, _ := loadedField(x.Call.Args[0])
					if fv == nil || !preds[fv] {
						return
					}
					m := x.Call.StaticCallee().Name()
					recv := x.Call.StaticCallee().Signature.Recv()
					if recv == nil {
						return // plain function taking the value (time.Until(p.rDeadline))
					}
					if _, isPtr := recv.Type().Underlying().(*types.Pointer); !isPtr {
						return // value receiver cannot mutate the field
					}
					if nonMutatingBufMethods[m] {
						return
					}
					writes = append(writes, w{i, fv.Name() + "." + m + "()"})
				}
			})
			for _, wr := range writes {
				construct := fmt.Sprintf("%s in %s", wr.what, shortFn(f))
				held := ls.MustHeld(wr.at)
				okL := false
				for _, e := range held {
					if isCondLock(e) && e.Excl {
						okL = true
					}
				}
				miss := reachesReturnAvoiding(wr.at, isWake)
				switch {
				case !okL:
					c.Bad(rule, construct, c.at(wr.at), "predicate field written without rwCond.L: "+setString(held))
				case miss != nil:
					c.Bad(rule, construct, c.at(wr.at), "a path from this write reaches the return at "+c.at(miss)+" without Broadcast/Signal: a reader blocked in Wait is never woken (lost wake-up)")
				default:
					c.OK(rule, construct, c.at(wr.at), "under rwCond.L and followed by Broadcast on every path")
				}
			}
		}
	}
}

// loopBlocks: blocks on a cycle through b (b's strongly connected neighbourhood), or just b.
func loopBlocks(b *ssa.BasicBlock) map[*ssa.BasicBlock]bool {
	fwd := map[*ssa.BasicBlock]bool{}
	var walk func(x *ssa.BasicBlock)
	walk = func(x *ssa.BasicBlock) {
		for _, s := range x.Succs {
			if !fwd[s] {
				fwd[s] = true
				walk(s)
			}
		}
	}
	walk(b)
	bwd := map[*ssa.BasicBlock]bool{}
	var back func(x *ssa.BasicBlock)
	back = func(x *ssa.BasicBlock) {
		for _, s := range x.Preds {
			if !bwd[s] {
				bwd[s] = true
				back(s)
			}
		}
	}
	back(b)
	out := map[*ssa.BasicBlock]bool{b: true}
	for x := range fwd {
		if bwd[x] {
			out[x] = true
		}
	}
	return out
}
