package main

import (
	"go/token"
	"go/types"
	"sort"
	"strings"

	"golang.org/x/tools/go/ssa"
)

// UNIT — the code that implements an anchored function today. Rules are written against named functions
// ("streamBufferedPipe.Read", "Session.closeStream"). Maintenance moves parts of such a function into helpers: a new
// method (readLocked), a closure run by a lock helper (p.locked(func(){…})), a bound method value handed to a
// higher-order helper. unitOf(anchor) is the anchor plus every function that
//   - is reachable from it through synchronous static calls, closures it creates, or function values it passes on,
//   - lives in the same package, and
//   - is NOT one of the functions the rules already knew when they were written (the frozen table of sigs_table.go,
//     after rename resolution) — i.e. it is new code split off from a known function — or is anonymous.
// Known functions keep their own identity: they are other rules' anchors or established callees.

func (p *Prog) isNovelFunc(f *ssa.Function) bool {
	if f == nil || !p.InRepo(f) || len(f.Blocks) == 0 {
		return false
	}
	if f.Parent() != nil {
		return true // anonymous function / closure
	}
	if f.Synthetic != "" || f.Pkg == nil {
		return false
	}
	rel := strings.TrimPrefix(strings.TrimPrefix(f.Pkg.Pkg.Path(), modPath), "/")
	if _, known := anchorSigs[anchorKey(rel, f)]; known {
		return false
	}
	// a known function under a new name is still the known function
	if p.renamedKnown == nil {
		p.renamedKnown = map[string]map[*ssa.Function]bool{}
	}
	rk, ok := p.renamedKnown[rel]
	if !ok {
		rk = map[*ssa.Function]bool{}
		for k := range anchorSigs {
			if !strings.HasPrefix(k, rel+"|") {
				continue
			}
			name := k[len(rel)+1:]
			if p.funcByExactName(rel, name) != nil {
				continue
			}
			if g := p.funcBySignature(rel, name); g != nil {
				rk[g] = true
			}
		}
		p.renamedKnown[rel] = rk
	}
	return !rk[f]
}

// funcByExactName: lookup without any rename fallback.
func (p *Prog) funcByExactName(rel, name string) *ssa.Function {
	sp := p.pkgByRel[rel]
	if sp == nil {
		return nil
	}
	if i := strings.IndexByte(name, '.'); i >= 0 {
		tn, mn := name[:i], name[i+1:]
		for _, f := range p.declaredFuncs(rel) {
			if recvName(f) == tn && f.Name() == mn {
				return f
			}
		}
		return nil
	}
	return sp.Func(name)
}

func (p *Prog) unitOf(anchor *ssa.Function) map[*ssa.Function]bool {
	if anchor == nil {
		return nil
	}
	if p.units == nil {
		p.units = map[*ssa.Function]map[*ssa.Function]bool{}
	}
	if u, ok := p.units[anchor]; ok {
		return u
	}
	lo := p.LockOrder()
	u := map[*ssa.Function]bool{anchor: true}
	work := []*ssa.Function{anchor}
	for len(work) > 0 {
		f := work[0]
		work = work[1:]
		add := func(g *ssa.Function) {
			if g == nil || u[g] || !p.isNovelFunc(g) {
				return
			}
			if topFn(g).Pkg != nil && topFn(anchor).Pkg != nil && topFn(g).Pkg != topFn(anchor).Pkg {
				return
			}
			u[g] = true
			work = append(work, g)
		}
		for _, a := range f.AnonFuncs {
			add(a)
		}
		allInstrs(f, func(i ssa.Instruction) {
			ci, ok := i.(ssa.CallInstruction)
			if !ok {
				return
			}
			if _, isGo := ci.(*ssa.Go); isGo {
				return
			}
			cc := ci.Common()
			if g := cc.StaticCallee(); g != nil {
				add(g)
			}
			for _, a := range callArgs(cc) {
				if g := lo.funcOfValue(a); g != nil {
					add(g)
				}
			}
		})
	}
	p.units[anchor] = u
	return u
}

// unitInstrs iterates over the instructions of the anchor and of the code split off from it, in a stable order.
func (p *Prog) unitInstrs(anchor *ssa.Function, fn func(ssa.Instruction)) {
	u := p.unitOf(anchor)
	var fs []*ssa.Function
	for f := range u {
		fs = append(fs, f)
	}
	sort.Slice(fs, func(i, j int) bool {
		if fs[i] == anchor || fs[j] == anchor {
			return fs[i] == anchor && fs[j] != anchor
		}
		return fs[i].String() < fs[j].String()
	})
	for _, f := range fs {
		allInstrs(f, fn)
	}
}

// inUnit reports whether f belongs to the unit of anchor.
func (p *Prog) inUnit(anchor, f *ssa.Function) bool {
	return anchor != nil && p.unitOf(anchor)[f]
}

// canonIn maps a value used inside code split off from the anchor back to the anchor's own terms: a parameter of a helper
// in the unit becomes the argument passed at the helper's (single) call site inside the unit, a free variable of a
// closure becomes the captured variable's value; applied repeatedly. Values that cannot be mapped are returned as is.
func (p *Prog) canonIn(anchor *ssa.Function, v ssa.Value) ssa.Value {
	u := p.unitOf(anchor)
	for depth := 0; depth < 6; depth++ {
		switch x := v.(type) {
		case *ssa.Parameter:
			g := x.Parent()
			if g == anchor || !u[g] {
				return v
			}
			idx := -1
			for k, q := range g.Params {
				if q == x {
					idx = k
				}
			}
			var arg ssa.Value
			n := 0
			for _, cs := range p.CallersOf(g) {
				if !u[cs.Parent()] {
					continue
				}
				args := callArgs(cs.Common())
				if idx >= 0 && idx < len(args) {
					arg = args[idx]
					n++
				}
			}
			if n != 1 {
				return v
			}
			v = arg
		case *ssa.FreeVar:
			g := x.Parent()
			if !u[g] {
				return v
			}
			idx := -1
			for k, q := range g.FreeVars {
				if q == x {
					idx = k
				}
			}
			var bound ssa.Value
			if refs := ssa.Value(g).Referrers(); refs != nil {
				for _, r := range *refs {
					if mc, ok := r.(*ssa.MakeClosure); ok && idx >= 0 && idx < len(mc.Bindings) {
						bound = mc.Bindings[idx]
					}
				}
			}
			if bound == nil {
				return v
			}
			v = bound
		case *ssa.UnOp:
			// load of a captured variable cell: *cell where cell is the closure's view of a spilled parameter
			if x.Op != token.MUL {
				return v
			}
			inner := p.canonIn(anchor, x.X)
			if al, ok := inner.(*ssa.Alloc); ok {
				// the value stored into the cell at function entry (a spilled parameter)
				for _, r := range *al.Referrers() {
					if st, isSt := r.(*ssa.Store); isSt && st.Addr == ssa.Value(al) {
						if prm, isP := st.Val.(*ssa.Parameter); isP {
							return p.canonIn(anchor, prm)
						}
					}
				}
			}
			return v
		default:
			return v
		}
	}
	return v
}

// unitFindCall: first call in the unit whose callee name ends in suffix.
func (p *Prog) unitFindCall(anchor *ssa.Function, suffix string) *ssa.Call {
	var out *ssa.Call
	p.unitInstrs(anchor, func(i ssa.Instruction) {
		if call, ok := i.(*ssa.Call); ok && out == nil && strings.HasSuffix(calleeName(&call.Call), suffix) {
			out = call
		}
	})
	return out
}

// curProg is the program under analysis (set by Load); isFn compares a callee with a rule subject resolved by object
// (rename tolerant), instead of comparing spelled names.
var curProg *Prog

func isFn(g *ssa.Function, rel, name string) bool {
	if g == nil || curProg == nil {
		return false
	}
	if curProg.fnCache == nil {
		curProg.fnCache = map[string]*ssa.Function{}
	}
	k := rel + "|" + name
	f, ok := curProg.fnCache[k]
	if !ok {
		f = curProg.Func(rel, name)
		curProg.fnCache[k] = f
	}
	return f != nil && f == g
}

// ownerAnchor: the function the rules know that fn belongs to — fn itself when it is a known (possibly renamed)
// declaration, the enclosing declaration for a closure, or the unique known function whose unit contains a helper that
// was split off from it. Used to name constructs stably (known-finding keys survive helper extraction).
func (p *Prog) ownerAnchor(fn *ssa.Function) *ssa.Function {
	if fn == nil {
		return nil
	}
	top := topFn(fn)
	if !p.isNovelFunc(top) {
		return top
	}
	var owner *ssa.Function
	n := 0
	for _, cs := range p.CallersOf(top) {
		if topFn(cs.Parent()) == top || p.isNovelFunc(topFn(cs.Parent())) {
			continue // only one level: helpers of helpers keep their own name
		}
		k := p.ownerAnchor(cs.Parent())
		if k != nil && k != owner {
			owner = k
			n++
		}
	}
	if n == 1 {
		return owner
	}
	return top
}

// isField: fv is the struct field the rules know as rel.typ.name (resolved by object, rename tolerant).
func isField(fv *types.Var, rel, typ, name string) bool {
	if fv == nil || curProg == nil {
		return false
	}
	return curProg.Field(rel, typ, name) == fv
}

// curName: the current spelling of a function the rules know as rel.name ("" if it cannot be resolved).
func curName(rel, name string) string {
	if curProg == nil {
		return ""
	}
	if curProg.fnCache == nil {
		curProg.fnCache = map[string]*ssa.Function{}
	}
	k := rel + "|" + name
	f, ok := curProg.fnCache[k]
	if !ok {
		f = curProg.Func(rel, name)
		curProg.fnCache[k] = f
	}
	if f != nil {
		return f.Name()
	}
	return ""
}

// unitReturns: the return instructions of the anchor and of the code split off from it. When a body was moved into a
// helper verbatim, the helper's returns carry the guards the rules look for.
func (p *Prog) unitReturns(anchor *ssa.Function) []*ssa.Return {
	var out []*ssa.Return
	p.unitInstrs(anchor, func(i ssa.Instruction) {
		if r, ok := i.(*ssa.Return); ok && !isRecoverBlock(r.Block()) {
			out = append(out, r)
		}
	})
	return out
}
