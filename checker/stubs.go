package main

func (p *Prog) Locksets() *Locksets {
	if p.ls == nil {
		p.ls = NewLocksets(p)
	}
	return p.ls
}

func (p *Prog) LockOrder() *LockOrder {
	if p.lo == nil {
		p.lo = BuildLockOrder(p, p.Locksets())
	}
	return p.lo
}

func (p *Prog) VFlow() *VFlow {
	if p.vf == nil {
		p.vf = BuildVFlow(p)
	}
	return p.vf
}
