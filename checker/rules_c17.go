package main

import (
	"fmt"
	"go/token"
	"go/types"
	"sort"
	"strings"

	"golang.org/x/tools/go/ssa"
)

func init() {
	register(&PropDef{
		ID: "C17", Title: "user bookkeeping never deadlocks and never loses a live session",
		Run:       runC17,
		Technique: "static analysis: class-level lock-order graph from interprocedural may-locksets over the VTA call graph (cycle = SCC), common-lock check over the writers of the two ownership maps",
		Decided: "(a) the lock-order graph over every lock class of the repository (server bookkeeping locks, multiplex locks reached through Session.Close/SetTerminalMsg, client locks) is acyclic, has no self re-acquisition and no nested read-lock — necessary for deadlock freedom and, for code whose only blocking while holding these locks is lock acquisition, sufficient; " +
			"(b) no network I/O or session close is reachable while activeUsersM or usageUpdateQueueM is held; " +
			"(c) every pair (insert into ActiveUser.sessions, delete from userPanel.activeUsers) — the two writes that can falsify 'a live session is owned by the registered record' — shares a lock and the delete re-checks emptiness under it.",
		NotDecided:  "deadlocks that are not lock cycles (a goroutine waiting for I/O forever, channel waits); the ownership invariant as a run-time fact; fairness of sync.RWMutex.",
		Assumptions: []string{"external blocking primitives (bbolt, ratelimit, sockets) are leaves of the order graph", "library call-backs are followed through at most 5 library frames"},
	})
}

type srvAnchors struct {
	activeUsersM, usageUpdateQueueM, activeUsers, usageUpdateQueue *types.Var
	sessionsM, sessions                                            *types.Var
}

func getSrvAnchors(c *Ctx, rule string) *srvAnchors {
	p := c.P
	a := &srvAnchors{
		activeUsersM:      p.Field("internal/server", "userPanel", "activeUsersM", "sync.RWMutex"),
		usageUpdateQueueM: p.Field("internal/server", "userPanel", "usageUpdateQueueM", "sync.Mutex"),
		activeUsers:       p.Field("internal/server", "userPanel", "activeUsers"),
		usageUpdateQueue:  p.Field("internal/server", "userPanel", "usageUpdateQueue"),
		sessionsM:         p.Field("internal/server", "ActiveUser", "sessionsM", "sync.RWMutex"),
		sessions:          p.Field("internal/server", "ActiveUser", "sessions"),
	}
	if a.activeUsersM == nil || a.usageUpdateQueueM == nil || a.activeUsers == nil || a.usageUpdateQueue == nil || a.sessionsM == nil || a.sessions == nil {
		c.Undecided(rule, "anchor fields userPanel.{activeUsersM,usageUpdateQueueM,activeUsers,usageUpdateQueue} ActiveUser.{sessionsM,sessions}", "-", "anchor field missing")
		return nil
	}
	return a
}

func runC17(c *Ctx) {
	lockOrderRules(c, "C17.R1", "C17.R2", nil)
	c17R3(c, "C17.R3")
	c17R4(c, "C17.R4")
	c17R5(c, "C17.R5")
	// imported: "the user's single active record" needs lookup-or-create of the record (and of its sessions) to be one
	// exclusive critical section — two first connections must not build two records
	c.importing = "C15"
	c15R1(c, "C15.R1")
	c.importing = ""
}

// lockOrderRules evaluates acyclicity (ruleCycle) and self-edges (ruleSelf) on the class-level lock-order graph.
// If restrict != nil only edges whose both ends satisfy it are judged (all edges still participate in cycles).
func lockOrderRules(c *Ctx, ruleCycle, ruleSelf string, restrict func(class string) bool) {
	c.Rule(ruleCycle, "lock-order graph over lock classes is acyclic (one obligation per edge: the edge lies on no cycle)", 6)
	c.Rule(ruleSelf, "no lock class is acquired while a lock of the same class is held (self re-acquisition, nested read-lock)", 1)
	p := c.P
	ls := p.Locksets()
	lo := p.LockOrder()
	for f, why := range ls.Unbalanced {
		c.Undecided(ruleCycle, "lock balance of "+shortFn(f), c.atFn(f), "function "+why+": lock sets of its callers are not modelled")
	}
	sccs, self := lo.Cycles()
	inCycle := map[string][]string{}
	for _, comp := range sccs {
		for _, n := range comp {
			inCycle[n] = comp
		}
	}
	reported := map[string]bool{}
	for _, e := range lo.Edges {
		if e.From == e.To {
			continue
		}
		if restrict != nil && !(restrict(e.From) || restrict(e.To)) {
			continue
		}
		comp := inCycle[e.From]
		if comp != nil && inCycle[e.To] != nil && sameStrings(comp, inCycle[e.To]) {
			key := "lock-order cycle {" + strings.Join(comp, ", ") + "}"
			if reported[key] {
				continue
			}
			reported[key] = true
			// describe the cycle edges
			var parts []string
			for _, e2 := range lo.Edges {
				if e2.From != e2.To && inCycle[e2.From] != nil && sameStrings(inCycle[e2.From], comp) && inCycle[e2.To] != nil && sameStrings(inCycle[e2.To], comp) {
					parts = append(parts, e2.describe(p))
				}
			}
			c.Bad(ruleCycle, key, p.InstrPos(e.Site), "ABBA deadlock possible between: "+strings.Join(parts, "  ||  "))
			continue
		}
		c.OK(ruleCycle, "edge "+e.From+" → "+e.To, p.InstrPos(e.Site), "on no cycle; witness "+e.Via)
	}
	if len(self) == 0 {
		c.OK(ruleSelf, "no class self-edge among "+fmt.Sprint(len(lo.Edges))+" edges", "-", "no lock is acquired while one of its own class is held")
	}
	for _, e := range self {
		if restrict != nil && !restrict(e.From) {
			continue
		}
		what := "a lock of class " + e.From + " is acquired while another of the same class is held (two objects: ABBA hazard)"
		if e.SamePath {
			what = "the same lock " + e.From + " is re-acquired while held"
		}
		if !e.FromExcl && !e.ToExcl {
			what += " [nested read-lock: deadlocks with a pending writer]"
		}
		c.Bad(ruleSelf, "self-edge "+e.From, p.InstrPos(e.Site), what+"; "+e.describe(p))
	}
}

func sameStrings(a, b []string) bool {
	if len(a) != len(b) {
		return false
	}
	for i := range a {
		if a[i] != b[i] {
			return false
		}
	}
	return true
}

type mapWrite struct {
	kind    string // insert | delete
	at      ssa.Instruction
	fn      *ssa.Function
	classes map[string]bool
	held    lockSet
}

func mapWriters(c *Ctx, fv *types.Var) []mapWrite {
	p := c.P
	ls := p.Locksets()
	var out []mapWrite
	for _, a := range FieldAccesses(p, map[*types.Var]bool{fv: true}) {
		var kind string
		switch a.Kind {
		case "mapupdate":
			kind = "insert"
		case "delete":
			kind = "delete"
		default:
			continue
		}
		held := ls.MustHeld(a.Instr)
		cl := map[string]bool{}
		for _, h := range held {
			if h.Excl {
				cl[h.Path.Class()] = true
			}
		}
		out = append(out, mapWrite{kind: kind, at: a.Instr, fn: a.Fn, classes: cl, held: held})
	}
	return out
}

func c17R3(c *Ctx, rule string) {
	c.Rule(rule, "ownership invariant activeUsers⇄sessions: every (insert into sessions, delete from activeUsers) pair shares an exclusive lock, and the delete re-checks that the record has no session", 1)
	a := getSrvAnchors(c, rule)
	if a == nil {
		return
	}
	ins := mapWriters(c, a.sessions)
	del := mapWriters(c, a.activeUsers)
	n := 0
	for _, i := range ins {
		if i.kind != "insert" {
			continue
		}
		for _, d := range del {
			if d.kind != "delete" {
				continue
			}
			n++
			construct := fmt.Sprintf("pair insert sessions@%s / delete activeUsers@%s", shortFn(c.P.ownerAnchor(i.fn)), shortFn(c.P.ownerAnchor(d.fn)))
			var common []string
			for cl := range i.classes {
				if d.classes[cl] {
					common = append(common, cl)
				}
			}
			sort.Strings(common)
			if len(common) == 0 {
				c.Bad(rule, construct, c.at(d.at), fmt.Sprintf("no common lock: insert holds %s, delete holds %s — a session can be created on a record that is concurrently removed (orphaned live session)", setString(i.held), setString(d.held)))
				continue
			}
			// delete must be guarded by len(sessions)==0 of the same record
			rechecked := false
			for _, at := range AtomsAt(d.at) {
				if at.Kind == "cmp" && at.Op == token.EQL {
					for _, side := range []ssa.Value{at.X, at.Y} {
						if call, ok := side.(*ssa.Call); ok && calleeName(&call.Call) == "builtin.len" {
							if fv, _ := loadedField(call.Call.Args[0]); fv == a.sessions {
								rechecked = true
							}
						}
					}
				}
			}
			c.Check(rechecked, rule, construct, c.at(d.at), "common lock "+strings.Join(common, ",")+" and emptiness re-checked before the delete",
				"common lock "+strings.Join(common, ",")+" but the delete is not guarded by a re-check that the record has no session")
		}
	}
	if n == 0 {
		c.Undecided(rule, "writers of activeUsers/sessions", "-", "no insert/delete pair found")
	}
}

// c17R5: TerminateActiveUser removes the map entry by UID, not by identity. The record handed to it must therefore be
// the one the map currently holds for that UID: the caller's own record (a method of ActiveUser passing its receiver) or
// the result of a lookup in userPanel.activeUsers with no manager round trip in between. A record remembered from before
// a blocking call may have been replaced by a new record for the same UID; terminating the stale one deletes the live one.
func c17R5(c *Ctx, rule string) {
	c.Rule(rule, "the record passed to TerminateActiveUser is current: the caller's own receiver, or a value looked up in userPanel.activeUsers after the last user-manager call on the path", 2)
	a := getSrvAnchors(c, rule)
	if a == nil {
		return
	}
	p := c.P
	tau := p.Func("internal/server", "userPanel.TerminateActiveUser")
	if tau == nil {
		c.Undecided(rule, "anchor userPanel.TerminateActiveUser", "-", "not found")
		return
	}
	// if the delete is by identity (guarded by activeUsers[uid] == user) a stale record is harmless
	byIdentity := false
	allInstrs(tau, func(i ssa.Instruction) {
		if call, ok := i.(*ssa.Call); ok && calleeName(&call.Call) == "builtin.delete" {
			for _, at := range AtomsAt(i) {
				if at.Kind == "cmp" && at.Op == token.EQL && (at.X == ssa.Value(tau.Params[1]) || at.Y == ssa.Value(tau.Params[1])) {
					byIdentity = true
				}
			}
		}
	})
	if byIdentity {
		c.OK(rule, "TerminateActiveUser deletes by identity", c.atFn(tau), "delete guarded by activeUsers[uid] == user")
		c.OK(rule, "TerminateActiveUser deletes by identity (callers not constrained)", c.atFn(tau), "stale records cannot remove a live one")
		return
	}
	isManagerCall := func(i ssa.Instruction) bool {
		cc := callCommon(i)
		if cc == nil || !cc.IsInvoke() {
			return false
		}
		return strings.HasSuffix(typeStr(cc.Value.Type()), "usermanager.UserManager")
	}
	n := 0
	for _, site := range p.CallersOf(tau) {
		f := site.Parent()
		if strings.HasSuffix(p.Pos(site.Pos()), "_test.go") {
			continue
		}
		cc := site.Common()
		if len(cc.Args) < 2 {
			continue
		}
		n++
		arg := cc.Args[1]
		// the receiver captured by a closure of the caller lives in a cell assigned once: the load is the receiver
		if ld, isLd := arg.(*ssa.UnOp); isLd {
			if cell, isA := ld.X.(*ssa.Alloc); isA {
				if sv := cellValue(cell, ld); sv != nil {
					arg = sv
				}
			}
		}
		construct := "record passed to TerminateActiveUser in " + shortFn(f)
		if prm, ok := arg.(*ssa.Parameter); ok && f.Signature.Recv() != nil && len(f.Params) > 0 && prm == f.Params[0] {
			c.OK(rule, construct, c.at(site), "the caller's own receiver")
			continue
		}
		v := arg
		if ex, ok := v.(*ssa.Extract); ok {
			v = ex.Tuple
		}
		lk, ok := v.(*ssa.Lookup)
		fresh := false
		if ok {
			if fv, _ := loadedField(lk.X); fv == a.activeUsers {
				fresh = true
			}
		}
		if !fresh {
			c.Bad(rule, construct, c.at(site), "the record is "+Expr(arg)+", not a lookup in userPanel.activeUsers: if the user's last session closed and the same UID reconnected in the meantime, terminating this stale record closes nothing and deletes the new record by UID — its live sessions become unreachable (never metered, never terminated)")
			continue
		}
		between := onPathBetween(lk, site, isManagerCall)
		c.Check(between == nil, rule, construct, c.at(site), "looked up in activeUsers after the last user-manager call", "a user-manager round trip lies between the lookup and the termination: the record may have been replaced meanwhile")
	}
	if n == 0 {
		c.Undecided(rule, "call sites of TerminateActiveUser", c.atFn(tau), "none found")
	}
}

// c17R4: nothing that can block on the network is reachable while a panel lock is held.
func c17R4(c *Ctx, rule string) {
	c.Rule(rule, "while activeUsersM or usageUpdateQueueM is held no call can reach network I/O, a dial, or Session.Close (which sends a frame)", 3)
	a := getSrvAnchors(c, rule)
	if a == nil {
		return
	}
	p := c.P
	ls := p.Locksets()
	lo := p.LockOrder()
	// blocking seeds
	isBlockingCall := func(i ssa.Instruction) string {
		cc := callCommon(i)
		if cc == nil {
			return ""
		}
		n := calleeName(cc)
		switch n {
		case "(net.Conn).Write", "(net.Conn).Read", "(io.Reader).Read", "(io.Writer).Write", "(common.Dialer).Dial", "(*net.Dialer).Dial", "(net.Listener).Accept":
			return n
		}
		n = strings.ReplaceAll(n, modPath+"/", "")
		switch n {
		case "(*internal/multiplex.Session).Close", "(*internal/multiplex.switchboard).send", "(*internal/multiplex.Stream).Write", "(internal/common.Dialer).Dial":
			return n
		}
		return ""
	}
	blocking := map[*ssa.Function]string{}
	calls := map[*ssa.Function][]*ssa.Function{}
	for _, f := range p.RepoFuncs {
		allInstrs(f, func(i ssa.Instruction) {
			if _, isGo := i.(*ssa.Go); isGo {
				return
			}
			if b := isBlockingCall(i); b != "" && blocking[f] == "" {
				blocking[f] = shortFn(f) + " → " + b
			}
			if ci, ok := i.(ssa.CallInstruction); ok {
				calls[f] = append(calls[f], lo.calleesCtx(f, ci)...)
			}
		})
	}
	for changed := true; changed; {
		changed = false
		for _, f := range p.RepoFuncs {
			if blocking[f] != "" {
				continue
			}
			for _, g := range calls[f] {
				if blocking[g] != "" {
					blocking[f] = shortFn(f) + " → " + blocking[g]
					changed = true
					break
				}
			}
		}
	}
	for _, f := range p.FuncsOfPkg("internal/server") {
		allInstrs(f, func(i ssa.Instruction) {
			ci, ok := i.(ssa.CallInstruction)
			if !ok {
				return
			}
			if _, isGo := i.(*ssa.Go); isGo {
				return
			}
			if _, _, isLock := lockOp(i); isLock {
				return
			}
			held := ls.MayHeldLocal(i)
			var panelLocks []string
			for _, h := range held {
				if n := len(h.Path.Chain); n > 0 && (h.Path.Chain[n-1] == a.activeUsersM || h.Path.Chain[n-1] == a.usageUpdateQueueM) {
					panelLocks = append(panelLocks, h.Path.Class())
				}
			}
			if len(panelLocks) == 0 {
				return
			}
			sort.Strings(panelLocks)
			name := calleeName(ci.Common())
			if name == "" {
				name = Expr(ci.Common().Value)
			}
			name = strings.ReplaceAll(name, modPath+"/", "")
			if strings.HasPrefix(name, "builtin.") || strings.HasPrefix(name, "sync/atomic.") {
				return
			}
			construct := fmt.Sprintf("call %s in %s under %s", name, shortFn(f), strings.Join(panelLocks, "+"))
			why := isBlockingCall(i)
			if why == "" {
				for _, g := range lo.repoCallees(ci) {
					if blocking[g] != "" {
						why = blocking[g]
						break
					}
				}
			}
			c.Check(why == "", rule, construct, c.at(i), "cannot reach network I/O or Session.Close", "bookkeeping lock held across a call that can block on the network: "+why)
		})
	}
}
