package main

import (
	"go/token"
	"go/types"
	"strings"

	"golang.org/x/tools/go/ssa"
)

// C02.R6 — unread bytes are never discarded: the byte buffers of the two receive pipes are only appended to by the
// pipe's Write and consumed by the pipe's Read. Replacing the buffer object, or calling one of bytes.Buffer's discarding
// methods, is allowed only in a constructor or when the same buffer's Len() was just compared equal to 0.
// (A reader that is slower than the peer leaves a backlog in this buffer; dropping it is a hole in the stream.)

var bufReadOnlyMethods = map[string]bool{"Len": true, "Cap": true, "Available": true, "Grow": true, "String": true, "Bytes": true, "AvailableBuffer": true}

func c02R6(c *Ctx, rule string) {
	c.Rule(rule, "no unread byte is discarded: the receive pipes' byte buffers are replaced or truncated only in constructors or under a Len()==0 guard; they are appended to only by the pipe's Write and consumed only by its Read", 4)
	p := c.P
	const rel = "internal/multiplex"
	for _, typ := range []string{"streamBufferedPipe", "datagramBufferedPipe"} {
		bufF := p.Field(rel, typ, "buf", "*bytes.Buffer")
		rd, wr := p.Func(rel, typ+".Read"), p.Func(rel, typ+".Write")
		if bufF == nil || rd == nil || wr == nil {
			c.Undecided(rule, "anchors "+typ+".{buf,Read,Write}", "-", "anchor missing")
			continue
		}
		emptyGuard := func(i ssa.Instruction) bool {
			for _, at := range AtomsAt(i) {
				if at.Kind != "cmp" {
					continue
				}
				for _, pair := range [][2]ssa.Value{{at.X, at.Y}, {at.Y, at.X}} {
					k, isK := intConst(pair[1])
					if !isK {
						continue
					}
					call, ok := stripConv(pair[0]).(*ssa.Call)
					if !ok || call.Call.StaticCallee() == nil || call.Call.StaticCallee().Name() != "Len" || len(call.Call.Args) == 0 {
						continue
					}
					if fv, _ := loadedField(call.Call.Args[0]); fv != bufF {
						continue
					}
					// Len() == 0, Len() <= 0, Len() < 1
					if (at.Op == token.EQL && k == 0) || (at.Op == token.LEQ && pair[0] == at.X && k == 0) || (at.Op == token.LSS && pair[0] == at.X && k == 1) {
						return true
					}
				}
			}
			return false
		}
		for _, st := range FieldStores(p, bufF) {
			if strings.HasSuffix(p.Pos(st.Pos()), "_test.go") {
				continue
			}
			root, _ := fieldChain(st.Addr)
			_, ctor := root.(*ssa.Alloc)
			construct := "store to " + typ + ".buf in " + shortFn(st.Parent())
			switch {
			case ctor:
				c.OK(rule, construct, c.at(st), "constructor")
			case emptyGuard(st):
				c.OK(rule, construct, c.at(st), "replaced only when empty")
			default:
				c.Bad(rule, construct, c.at(st), "the pipe's byte buffer is replaced without a dominating Len()==0 test: bytes that were received but not yet read are dropped (hole in the stream / early end)")
			}
		}
		nR, nW := 0, 0
		for _, f := range p.RepoFuncs {
			allInstrs(f, func(i ssa.Instruction) {
				call, ok := i.(*ssa.Call)
				if !ok || len(call.Call.Args) == 0 {
					return
				}
				g := call.Call.StaticCallee()
				if g == nil || g.Signature.Recv() == nil || !isBytesBuffer(g.Signature.Recv().Type()) {
					return
				}
				if fv, _ := loadedField(call.Call.Args[0]); fv != bufF {
					// the buffer may be a value field of the pipe: the receiver is its address
					if fa, _ := fieldVar(stripConv(call.Call.Args[0])); fa != bufF {
						return
					}
				}
				name := g.Name()
				construct := typ + ".buf." + name + " in " + shortFn(f)
				switch {
				case bufReadOnlyMethods[name]:
				case name == "Read" && (topFn(f) == rd || p.inUnit(rd, f)):
					nR++
					c.OK(rule, construct, c.at(i), "consumed by the pipe's Read")
				case name == "Next" && (topFn(f) == rd || p.inUnit(rd, f)) && deliveredByCopy(call, rd):
					// buf.Next(n) hands out the next n unread bytes; they are delivered when the slice is only ever the
					// source of a copy into the reader's own buffer
					nR++
					c.OK(rule, construct, c.at(i), "consumed by the pipe's Read (Next copied into the reader's buffer)")
				case name == "Write" && (topFn(f) == wr || p.inUnit(wr, f)):
					nW++
					c.OK(rule, construct, c.at(i), "appended by the pipe's Write")
				case (name == "Reset" || name == "Truncate") && emptyGuard(i):
					c.OK(rule, construct, c.at(i), "only when empty")
				default:
					c.Bad(rule, construct, c.at(i), "bytes.Buffer."+name+" on the pipe's byte buffer outside its Read/Write pair: unread bytes are consumed or discarded behind the reader's back")
				}
			})
		}
		if nR == 0 || nW == 0 {
			c.Undecided(rule, typ+": buf.Read in Read and buf.Write in Write", c.atFn(rd), "the pipe's own read/append not found")
		}
	}
}

// deliveredByCopy: every use of the slice returned by call is as the source of copy(dst, ·) with dst a (slice of the)
// target parameter of the pipe's Read.
func deliveredByCopy(call *ssa.Call, rd *ssa.Function) bool {
	if call.Referrers() == nil || len(rd.Params) < 2 {
		return false
	}
	n := 0
	for _, r := range *call.Referrers() {
		if _, isDbg := r.(*ssa.DebugRef); isDbg {
			continue
		}
		cp, ok := r.(*ssa.Call)
		if !ok || calleeName(&cp.Call) != "builtin.copy" || cp.Call.Args[1] != ssa.Value(call) {
			return false
		}
		dst := cp.Call.Args[0]
		for d := 0; d < 4; d++ {
			if sl, isSl := dst.(*ssa.Slice); isSl {
				dst = sl.X
				continue
			}
			break
		}
		tgt := ssa.Value(rd.Params[1])
		if dst != tgt {
			// a helper split off from Read receives the target as an argument
			if pr, isP := dst.(*ssa.Parameter); !isP || !strings.Contains(typeStr(pr.Type()), "[]byte") {
				return false
			}
		}
		n++
	}
	return n > 0
}

func isBytesBuffer(t types.Type) bool {
	if pt, ok := t.(*types.Pointer); ok {
		t = pt.Elem()
	}
	n, ok := t.(*types.Named)
	return ok && n.Obj().Pkg() != nil && n.Obj().Pkg().Path() == "bytes" && n.Obj().Name() == "Buffer"
}
