package main

import (
	"fmt"
	"go/token"
	"go/types"
	"strings"

	"golang.org/x/tools/go/ssa"
)

func init() {
	register(&PropDef{
		ID: "C02", Title: "stream reassembly is independent of arrival order",
		Run:       runC02,
		Technique: "static analysis: two-predicate abstraction dataflow (heap empty / heap head is the owed frame) proving the inductive invariant of the reorder buffer at every return, typestate for write/increment pairing, comparison normalisation for in-turn delivery, heap-order shape check",
		Decided: "the inductive invariant of the reorder state machine and the per-step facts that imply in-order delivery by induction: (b) at every return of the buffer's Write nothing deliverable stays parked (heap empty or its minimum is not the owed sequence number); " +
			"(c) a payload is appended to the pipe only from the frame whose Seq equals the owed number, each append is followed by exactly one +1 before the function returns and the counter has no other writer; (d) the heap is a min-heap on Seq with standard Push/Pop/Swap; " +
			"(e) frames below the owed number are rejected before being parked and parked frames are private copies; (f) the close verdict is returned only for the in-turn frame with the closing flag.",
		NotDecided:  "the delivered bytes as values; unbounded memory of the heap; the pipe's own behaviour (C03); sequence-number wrap-around at 2^64.",
		Assumptions: []string{"container/heap maintains the min-heap given Less/Swap/Push/Pop contracts", "recvM serialises Write (checked by C01.R2/C12)"},
	})
}

func runC02(c *Ctx) {
	c02R1(c, "C02.R1")
	c02R2(c, "C02.R2")
	c02R3(c, "C02.R3")
	c02R4(c, "C02.R4")
	c02R5(c, "C02.R5")
	c02R6(c, "C02.R6")
}

type c02Anchors struct {
	write        *ssa.Function
	next, sh     *types.Var
	pipeWrite    *ssa.Function
	seq, closing *types.Var
	payload      *types.Var
}

func getC02(c *Ctx, rule string) *c02Anchors {
	p := c.P
	const rel = "internal/multiplex"
	a := &c02Anchors{
		write: p.Func(rel, "streamBuffer.Write"), next: p.Field(rel, "streamBuffer", "nextRecvSeq", "uint64"), sh: p.Field(rel, "streamBuffer", "sh"),
		pipeWrite: p.Func(rel, "streamBufferedPipe.Write"), seq: p.Field(rel, "Frame", "Seq"), closing: p.Field(rel, "Frame", "Closing"), payload: p.Field(rel, "Frame", "Payload"),
	}
	if a.write == nil || a.next == nil || a.sh == nil || a.pipeWrite == nil || a.seq == nil || a.closing == nil || a.payload == nil {
		c.Undecided(rule, "anchors streamBuffer.{Write,nextRecvSeq,sh} / streamBufferedPipe.Write / Frame fields", "-", "anchor missing")
		return nil
	}
	return a
}

func (a *c02Anchors) isNextLoad(v ssa.Value) bool {
	fv, _ := loadedField(v)
	return fv == a.next
}

// isHeadSeq: load of sb.sh[0].Seq
func (a *c02Anchors) isHeadSeq(v ssa.Value) bool {
	ld, ok := stripConv(v).(*ssa.UnOp)
	if !ok || ld.Op != token.MUL {
		return false
	}
	fa, ok := ld.X.(*ssa.FieldAddr)
	if !ok {
		return false
	}
	if fv, _ := fieldVar(fa); fv != a.seq {
		return false
	}
	// base: load of IndexAddr(load sb.sh, 0)
	el, ok := fa.X.(*ssa.UnOp)
	if !ok {
		return false
	}
	ia, ok := el.X.(*ssa.IndexAddr)
	if !ok {
		return false
	}
	if k, isK := intConst(ia.Index); !isK || k != 0 {
		return false
	}
	fv, _ := loadedField(ia.X)
	return fv == a.sh
}

func (a *c02Anchors) isLenSh(v ssa.Value) bool {
	call, ok := stripConv(v).(*ssa.Call)
	if !ok || calleeName(&call.Call) != "builtin.len" {
		return false
	}
	fv, _ := loadedField(call.Call.Args[0])
	return fv == a.sh
}

// frameOfSeqLoad: for a load X.Seq returns X (the frame pointer value)
func (a *c02Anchors) frameOfField(v ssa.Value, f *types.Var) ssa.Value {
	ld, ok := stripConv(v).(*ssa.UnOp)
	if !ok || ld.Op != token.MUL {
		return nil
	}
	fa, ok := ld.X.(*ssa.FieldAddr)
	if !ok {
		return nil
	}
	if fv, _ := fieldVar(fa); fv != f {
		return nil
	}
	return fa.X
}

func isHeapCall(i ssa.Instruction, name string, shField *types.Var) bool {
	call, ok := i.(*ssa.Call)
	if !ok || calleeName(&call.Call) != "container/heap."+name {
		return false
	}
	fv, _ := fieldVar(stripConv(call.Call.Args[0]))
	return fv == shField
}

// ---- R1: two-predicate abstraction ----
// state = set of (E,T) combinations, bit index = E*2+T, E: len(sh)==0, T: sh[0].Seq==nextRecvSeq
const (
	c02All  = 0b1111
	c02Inv  = 0b1101 // all but (E=0,T=1)
	c02E1   = 0b1100
	c02E0   = 0b0011
	c02T1   = 0b1010
	c02T0   = 0b0101
	c02Viol = 0b0010
)

func (a *c02Anchors) transfer(m uint8, i ssa.Instruction) uint8 {
	if m == 0 {
		return 0
	}
	switch x := i.(type) {
	case *ssa.Call:
		if isHeapCall(i, "Push", a.sh) {
			return 0b0011 // E=0, T unknown
		}
		if isHeapCall(i, "Pop", a.sh) || isHeapCall(i, "Remove", a.sh) || isHeapCall(i, "Fix", a.sh) || isHeapCall(i, "Init", a.sh) {
			return c02All
		}
		// any other call receiving &sb.sh
		for _, arg := range x.Call.Args {
			if fv, _ := fieldVar(stripConv(arg)); fv == a.sh {
				return c02All
			}
		}
	case *ssa.Store:
		fv, _ := fieldVar(x.Addr)
		if fv == a.next {
			// T becomes unknown, E unchanged
			var n uint8
			if m&c02E1 != 0 {
				n |= c02E1
			}
			if m&c02E0 != 0 {
				n |= c02E0
			}
			return n
		}
		if fv == a.sh {
			return c02All
		}
	}
	return m
}

// refine narrows the state along an If edge.
func (a *c02Anchors) refine(m uint8, cond ssa.Value, pol bool) uint8 {
	at := NormCond(cond, pol)
	if at.Kind != "cmp" {
		return m
	}
	zero := func(v ssa.Value) bool { k, ok := intConst(v); return ok && k == 0 }
	one := func(v ssa.Value) bool { k, ok := intConst(v); return ok && k == 1 }
	switch {
	case at.Op == token.EQL && ((a.isLenSh(at.X) && zero(at.Y)) || (a.isLenSh(at.Y) && zero(at.X))):
		return m & c02E1
	case at.Op == token.NEQ && ((a.isLenSh(at.X) && zero(at.Y)) || (a.isLenSh(at.Y) && zero(at.X))):
		return m & c02E0
	case at.Op == token.LSS && zero(at.X) && a.isLenSh(at.Y): // 0 < len
		return m & c02E0
	case at.Op == token.LEQ && one(at.X) && a.isLenSh(at.Y): // 1 <= len
		return m & c02E0
	case at.Op == token.LEQ && a.isLenSh(at.X) && zero(at.Y): // len <= 0
		return m & c02E1
	case at.Op == token.LSS && a.isLenSh(at.X) && one(at.Y): // len < 1
		return m & c02E1
	case at.Op == token.EQL && ((a.isHeadSeq(at.X) && a.isNextLoad(at.Y)) || (a.isHeadSeq(at.Y) && a.isNextLoad(at.X))):
		return m & c02T1
	case at.Op == token.NEQ && ((a.isHeadSeq(at.X) && a.isNextLoad(at.Y)) || (a.isHeadSeq(at.Y) && a.isNextLoad(at.X))):
		return m & c02T0
	}
	return m
}

// condFresh: the loads feeding cond are not followed by a state write before the branch.
func (a *c02Anchors) condFresh(b *ssa.BasicBlock) bool {
	for k := len(b.Instrs) - 1; k >= 0; k-- {
		in := b.Instrs[k]
		if a.transfer(c02Inv, in) != c02Inv {
			// a write in the condition block: be conservative only if it is after a relevant load
			for j := 0; j < k; j++ {
				if ld, ok := b.Instrs[j].(*ssa.UnOp); ok && ld.Op == token.MUL {
					if fv, _ := loadedField(ld); fv == a.sh || fv == a.next {
						return false
					}
				}
			}
		}
	}
	return true
}

func c02R1(c *Ctx, rule string) {
	c.Rule(rule, "inductive invariant I ≡ (heap empty ∨ heap head ≠ owed seq) holds at every non-closing return of streamBuffer.Write, assuming I at entry (predicate-abstraction dataflow over {E,T})", 2)
	a := getC02(c, rule)
	if a == nil {
		return
	}
	f := a.write
	// edgeState: the abstract state on the edge b → b.Succs[k], given the state m at the end of b
	edgeState := func(b *ssa.BasicBlock, k int, m uint8) uint8 {
		iff, _ := b.Instrs[len(b.Instrs)-1].(*ssa.If)
		out := m
		if iff != nil && len(b.Succs) == 2 && a.condFresh(b) {
			out = a.refine(m, iff.Cond, k == 0)
			// a && / || materialised as φ(c, false): the branch outcome also fixes c, evaluated in a predecessor
			// that (checked) does not touch the reorder state
			for _, g := range shortCircuitGuards(iff.Cond, k == 0, iff, 0) {
				if gi, ok := g.Cond.(ssa.Instruction); ok && gi.Block() != nil {
					pure := true
					for _, in2 := range gi.Block().Instrs {
						if a.transfer(c02Inv, in2) != c02Inv {
							pure = false
						}
					}
					if pure && containsBlock(b.Preds, gi.Block()) {
						out = a.refine(out, g.Cond, g.Pol)
					}
				}
			}
		}
		return out
	}
	endState := func(b *ssa.BasicBlock, m uint8) uint8 {
		for _, i := range b.Instrs {
			m = a.transfer(m, i)
		}
		return m
	}
	in := map[*ssa.BasicBlock]uint8{f.Blocks[0]: c02Inv}
	work := []*ssa.BasicBlock{f.Blocks[0]}
	for len(work) > 0 {
		b := work[0]
		work = work[1:]
		m := endState(b, in[b])
		for k, s := range b.Succs {
			if isRecoverBlock(s) {
				continue
			}
			out := edgeState(b, k, m)
			if in[s]|out != in[s] {
				in[s] |= out
				work = append(work, s)
			}
		}
	}
	n := 0
	for _, r := range returnsOf(f) {
		// a return of a merged verdict (`return toBeClosed, nil` after `toBeClosed = true; break`) stands for one way
		// out per incoming edge: each is judged with the state of its own edge
		for _, rp := range retPointsOf(r) {
			m := in[r.Block()]
			where := ssa.Instruction(r)
			if rp.At != ssa.Instruction(r) && rp.At.Block() != nil {
				pb := rp.At.Block()
				for k, s := range pb.Succs {
					if s == r.Block() {
						m = edgeState(pb, k, endState(pb, in[pb]))
						where = rp.At
					}
				}
			}
			for _, i := range r.Block().Instrs {
				if i == ssa.Instruction(r) {
					break
				}
				m = a.transfer(m, i)
			}
			closing := false
			if b, ok := boolConst(rp.Vals[0]); ok && b {
				closing = true
			}
			construct := "return at " + strings.TrimPrefix(c.at(where), "internal/multiplex/")
			if closing {
				c.OK(rule, construct+" (close verdict)", c.at(where), "stream is being closed; invariant not required")
				continue
			}
			n++
			c.Check(m&c02Viol == 0, rule, construct, c.at(where), fmt.Sprintf("abstract state %04b ⊆ I: nothing deliverable stays parked", m),
				fmt.Sprintf("abstract state %04b admits (heap non-empty ∧ head == owed seq): a frame that is next in line can stay parked forever (e.g. fast path taken while frames are parked)", m))
		}
	}
	if n == 0 {
		c.Undecided(rule, "non-closing returns of streamBuffer.Write", c.atFn(f), "none found")
	}
}

// inTurnAtom: among the guards of instruction i, is there `X.Seq == sb.nextRecvSeq` for frame X (param) or sh[0] (popped)?
func (a *c02Anchors) inTurnFor(i ssa.Instruction, frame ssa.Value) (bool, string) {
	return a.inTurnAtoms(AtomsAt(i), frame)
}

func (a *c02Anchors) inTurnAtoms(atoms []Atom, frame ssa.Value) (bool, string) {
	f := a.write
	for _, at := range atoms {
		if at.Kind != "cmp" || at.Op != token.EQL {
			continue
		}
		for _, pair := range [][2]ssa.Value{{at.X, at.Y}, {at.Y, at.X}} {
			if !a.isNextLoad(pair[1]) {
				continue
			}
			if fr := a.frameOfField(pair[0], a.seq); fr != nil && fr == frame {
				return true, at.String()
			}
			// popped frame: guard on the heap head, frame is the Pop result
			if a.isHeadSeq(pair[0]) && isPopResult(frame, a.sh) {
				return true, at.String()
			}
		}
	}
	_ = f
	return false, ""
}

func isPopResult(v ssa.Value, sh *types.Var) bool {
	v = stripConv(v)
	if ta, ok := v.(*ssa.TypeAssert); ok {
		v = ta.X
	}
	if ph, ok := v.(*ssa.Phi); ok {
		for _, e := range ph.Edges {
			if isPopResult(e, sh) {
				return true
			}
		}
		return false
	}
	call, ok := v.(*ssa.Call)
	return ok && isHeapCall(call, "Pop", sh)
}

// onlyPopResult: v is exactly the popped frame (not a phi mixing the parameter in)
func frameIdentity(v ssa.Value) ssa.Value { return stripConv(v) }

func c02R2(c *Ctx, rule string) {
	c.Rule(rule, "deliver-in-turn: every append to the pipe takes the payload of the frame whose Seq was compared equal to the owed number on the way there", 2)
	a := getC02(c, rule)
	if a == nil {
		return
	}
	n := 0
	allInstrs(a.write, func(i ssa.Instruction) {
		call, ok := i.(*ssa.Call)
		if !ok || call.Call.StaticCallee() != a.pipeWrite {
			return
		}
		n++
		construct := "pipe write at " + strings.TrimPrefix(c.at(i), "internal/multiplex/")
		fr := a.frameOfField(call.Call.Args[1], a.payload)
		if fr == nil {
			c.Bad(rule, construct, c.at(i), "the bytes appended ("+Expr(call.Call.Args[1])+") are not the Payload of a frame")
			return
		}
		ok2, at := a.inTurnFor(i, fr)
		// a phi of (param f | popped) happens when the loop variable is reused: each edge must be in turn
		if !ok2 {
			if ph, isPhi := fr.(*ssa.Phi); isPhi {
				ok2 = true
				for _, e := range ph.Edges {
					if o, s := a.inTurnFor(i, e); !o {
						ok2 = false
					} else {
						at = s
					}
				}
			}
		}
		c.Check(ok2, rule, construct, c.at(i), "guarded by "+at, "payload of "+Expr(fr)+" is appended without a dominating test that its Seq equals the owed number: out-of-order bytes reach the reader")
		// a closing frame's payload is random padding (closeStream fills it): it must never be appended
		notClosing := false
		for _, g := range AtomsAt(i) {
			if g.Kind != "cmp" || g.Op != token.EQL {
				continue
			}
			for _, pair := range [][2]ssa.Value{{g.X, g.Y}, {g.Y, g.X}} {
				if k, isK := intConst(pair[1]); isK && k == 0 {
					if x := a.frameOfField(pair[0], a.closing); x != nil && x == fr {
						notClosing = true
					}
				}
			}
		}
		c.Check(notClosing, rule, "closing frame's padding is not delivered: "+construct, c.at(i), "append guarded by Closing == closingNothing of the same frame",
			"the payload of "+Expr(fr)+" is appended without a dominating test that the frame is not a closing frame: the closing notice's random padding reaches the reader as stream data")
	})
	if n == 0 {
		c.Undecided(rule, "pipe writes in streamBuffer.Write", c.atFn(a.write), "none found")
	}
}

func c02R3(c *Ctx, rule string) {
	c.Rule(rule, "write⇄increment pairing: in streamBuffer.Write pipe-write (W) and nextRecvSeq+=1 (I) strictly alternate W I, balanced at every return; the counter has no other store and the store is old+1", 3)
	a := getC02(c, rule)
	if a == nil {
		return
	}
	p := c.P
	isW := func(i ssa.Instruction) bool {
		call, ok := i.(*ssa.Call)
		return ok && call.Call.StaticCallee() == a.pipeWrite
	}
	isI := func(i ssa.Instruction) bool {
		st, ok := i.(*ssa.Store)
		if !ok {
			return false
		}
		fv, _ := fieldVar(st.Addr)
		return fv == a.next
	}
	ts := &Typestate{P: p, NStates: 3, Event: func(i ssa.Instruction) int {
		if isW(i) {
			return 0
		}
		if isI(i) {
			return 1
		}
		return -1
	}, Delta: [][]int{{1, 2}, {2, 0}, {2, 2}}} // 0 balanced, 1 written-awaiting-increment, 2 error
	before := ts.StatesBefore(a.write, 0)
	bad := ""
	var badAt ssa.Instruction
	allInstrs(a.write, func(i ssa.Instruction) {
		if bad != "" {
			return
		}
		m := before[i]
		if _, isRet := i.(*ssa.Return); isRet && m&0b110 != 0 {
			if m&0b010 != 0 {
				bad = "a return is reachable after a pipe write without the increment: the next frame with the same number is delivered again / later frames stall"
			} else {
				bad = "write/increment out of step on some path"
			}
			badAt = i
		}
		if isI(i) && m&0b001 != 0 {
			bad = "the owed number is incremented on a path that did not deliver a frame: that frame's bytes are skipped"
			badAt = i
		}
		if isW(i) && m&0b010 != 0 {
			bad = "two pipe writes without an increment in between"
			badAt = i
		}
	})
	if bad != "" {
		c.Bad(rule, "W/I alternation in streamBuffer.Write", c.at(badAt), bad)
	} else {
		c.OK(rule, "W/I alternation in streamBuffer.Write", c.atFn(a.write), "on every path each pipe write is followed by exactly one increment before the next write or return")
	}
	// every accepted frame is either parked or delivered: each path from entry to a (false, nil) return passes
	// heap.Push or the increment (a frame that is silently dropped leaves a hole that blocks the stream for ever)
	for _, r := range returnsOf(a.write) {
		if b, ok := boolConst(resultValue(r, 0)); !ok || b {
			continue
		}
		if errIsNilAt(resultValue(r, 1), r) == "nonnil" {
			continue
		}
		ret := r
		skip := entrySearch(a.write, func(i ssa.Instruction) bool { return isI(i) || isHeapCall(i, "Push", a.sh) }, func(i ssa.Instruction) bool { return i == ssa.Instruction(ret) })
		c.Check(skip == nil, rule, "accepted frame is parked or delivered before the return at "+strings.TrimPrefix(c.at(r), "internal/multiplex/"), c.at(r),
			"every path to this success return passes heap.Push or nextRecvSeq+=1", "a path reaches this success return without parking the frame or consuming its number: the frame is dropped and the stream stalls at that number")
	}
	for _, st := range FieldStores(p, a.next) {
		if strings.HasSuffix(p.Pos(st.Pos()), "_test.go") {
			continue
		}
		root, _ := fieldChain(st.Addr)
		_, ctor := root.(*ssa.Alloc)
		switch {
		case st.Parent() == a.write:
			c.Check(isOldPlusOne(st), rule, "store to nextRecvSeq at "+strings.TrimPrefix(c.at(st), "internal/multiplex/"), c.at(st), "old+1", "owed number changed by "+Expr(st.Val)+", not old+1")
		case ctor:
			c.OK(rule, "store to nextRecvSeq in constructor "+shortFn(st.Parent()), c.at(st), "initialisation")
		default:
			c.Bad(rule, "store to nextRecvSeq in "+shortFn(st.Parent()), c.at(st), "the owed sequence number is written outside streamBuffer.Write")
		}
	}
	// the whole function runs under recvM
	ls := p.Locksets()
	recvM := p.Field("internal/multiplex", "streamBuffer", "recvM", "sync.Mutex")
	okLock := recvM != nil
	if okLock {
		allInstrs(a.write, func(i ssa.Instruction) {
			if isW(i) || isI(i) || isHeapCall(i, "Push", a.sh) || isHeapCall(i, "Pop", a.sh) {
				if h, e := lockHeldByClass(ls.MustHeld(i), recvM); !h || !e.Excl {
					okLock = false
				}
			}
		})
	}
	c.Check(okLock, rule, "reorder state only changes under recvM", c.atFn(a.write), "recvM held at every write/increment/push/pop", "the reorder state is modified without its mutex")
}

func c02R4(c *Ctx, rule string) {
	c.Rule(rule, "heap order: sorterHeap.Less compares Seq of elements i and j with <; Push appends; Pop removes the last element; Swap exchanges", 4)
	p := c.P
	a := getC02(c, rule)
	if a == nil {
		return
	}
	less := c.need(rule, "internal/multiplex", "sorterHeap.Less")
	if less != nil {
		ok := false
		d := ""
		for _, r := range returnsOf(less) {
			bo, isB := r.Results[0].(*ssa.BinOp)
			if !isB {
				continue
			}
			idxOf := func(v ssa.Value) ssa.Value {
				// load of (load IndexAddr(sh, k)).Seq
				ld, ok := v.(*ssa.UnOp)
				if !ok {
					return nil
				}
				fa, ok := ld.X.(*ssa.FieldAddr)
				if !ok {
					return nil
				}
				if fv, _ := fieldVar(fa); fv != a.seq {
					return nil
				}
				el, ok := fa.X.(*ssa.UnOp)
				if !ok {
					return nil
				}
				switch ia := el.X.(type) {
				case *ssa.IndexAddr:
					return ia.Index
				}
				return nil
			}
			ix, iy := idxOf(bo.X), idxOf(bo.Y)
			if ix == nil || iy == nil || len(less.Params) < 3 {
				continue
			}
			pi, pj := ssa.Value(less.Params[1]), ssa.Value(less.Params[2])
			d = Expr(bo)
			if (bo.Op == token.LSS && ix == pi && iy == pj) || (bo.Op == token.GTR && ix == pj && iy == pi) {
				ok = true
			}
		}
		c.Check(ok, rule, "Less(i,j) ⇔ sh[i].Seq < sh[j].Seq", c.atFn(less), d, "heap is not ordered by ascending sequence number ("+d+"): the drain loop inspects the wrong element")
	}
	if push := c.need(rule, "internal/multiplex", "sorterHeap.Push"); push != nil {
		ok := len(callsIn(push, "builtin.append")) == 1
		c.Check(ok, rule, "Push appends", c.atFn(push), "*sh = append(*sh, x)", "Push does not append exactly one element")
	}
	if pop := c.need(rule, "internal/multiplex", "sorterHeap.Pop"); pop != nil {
		// returns old[n-1] and stores old[0:n-1]
		retLast, sliceLast := false, false
		allInstrs(pop, func(i ssa.Instruction) {
			switch x := i.(type) {
			case *ssa.IndexAddr:
				if bo, ok := x.Index.(*ssa.BinOp); ok && bo.Op == token.SUB {
					if k, isK := intConst(bo.Y); isK && k == 1 {
						retLast = true
					}
				}
			case *ssa.Slice:
				if bo, ok := x.High.(*ssa.BinOp); ok && bo.Op == token.SUB {
					lo, loK := int64(0), true
					if x.Low != nil {
						lo, loK = intConst(x.Low)
					}
					if k, isK := intConst(bo.Y); isK && k == 1 && loK && lo == 0 {
						sliceLast = true
					}
				}
			}
		})
		c.Check(retLast && sliceLast, rule, "Pop removes and returns the last element", c.atFn(pop), "x = old[n-1]; *sh = old[0:n-1]", "Pop does not follow container/heap's contract")
	}
	if sw := c.need(rule, "internal/multiplex", "sorterHeap.Swap"); sw != nil {
		n := 0
		allInstrs(sw, func(i ssa.Instruction) {
			if _, ok := i.(*ssa.Store); ok {
				n++
			}
		})
		c.Check(n == 2, rule, "Swap exchanges two elements", c.atFn(sw), "two stores", "Swap does not exchange exactly two elements")
	}
	_ = p
}

func c02R5(c *Ctx, rule string) {
	c.Rule(rule, "stale reject, private copy, close-in-turn: heap.Push is dominated by ¬(f.Seq < owed) and pushes a frame whose Payload was freshly allocated and copied; every close verdict is returned only for the in-turn frame carrying a closing flag", 3)
	a := getC02(c, rule)
	if a == nil {
		return
	}
	f := a.write
	nPush := 0
	allInstrs(f, func(i ssa.Instruction) {
		if !isHeapCall(i, "Push", a.sh) {
			return
		}
		nPush++
		call := i.(*ssa.Call)
		// stale reject
		notStale := false
		for _, at := range AtomsAt(i) {
			if at.Kind == "cmp" && at.Op == token.LEQ && a.isNextLoad(at.X) {
				if fr := a.frameOfField(at.Y, a.seq); fr != nil && fr == ssa.Value(f.Params[1]) {
					notStale = true
				}
			}
		}
		c.Check(notStale, rule, "stale frames are rejected before parking", c.at(i), "heap.Push dominated by owed <= f.Seq", "a frame below the owed number can be parked: it becomes the heap minimum and blocks every later frame")
		// private copy: pushed value is an Alloc whose Payload field's last store is a make() that is the dst of a copy from f.Payload
		pushed := stripConv(call.Call.Args[1])
		al, isAlloc := pushed.(*ssa.Alloc)
		okCopy := false
		why := "the parked frame is " + Expr(pushed) + ", not a private struct copy"
		if isAlloc {
			for _, r := range *al.Referrers() {
				fa, ok := r.(*ssa.FieldAddr)
				if !ok {
					continue
				}
				if fv, _ := fieldVar(fa); fv != a.payload {
					continue
				}
				st := lastStoreBefore(fa, i)
				if st == nil {
					// several FieldAddr instructions for the same field: search all stores
					continue
				}
				if mk, ok := st.Val.(*ssa.MakeSlice); ok {
					// a copy(dst, f.Payload) with dst loaded from the same field, between the store and the push
					allInstrs(f, func(j ssa.Instruction) {
						if cc, ok := j.(*ssa.Call); ok && calleeName(&cc.Call) == "builtin.copy" && instrDominates(st, j) && instrDominates(j, i) {
							dstF, dstBase := loadedField(cc.Call.Args[0])
							srcFrame := a.frameOfField(cc.Call.Args[1], a.payload)
							if dstF == a.payload && dstBase == ssa.Value(al) && srcFrame == ssa.Value(f.Params[1]) {
								okCopy = true
							}
						}
					})
					_ = mk
					if !okCopy {
						why = "the parked frame's Payload is freshly allocated but never filled from the incoming frame"
					}
				} else if ap, ok := st.Val.(*ssa.Call); ok && calleeName(&ap.Call) == "builtin.append" && len(ap.Call.Args) == 2 {
					// append([]byte(nil), f.Payload...) / append(make([]byte, 0, n), f.Payload...): a fresh array filled from the frame
					base := stripConv(ap.Call.Args[0])
					l, isK := constLenOf(base)
					fresh := isNilConst(base) || (isK && l == 0)
					if mk, isMk := base.(*ssa.MakeSlice); isMk {
						if k, ok := intConst(mk.Len); ok && k == 0 {
							fresh = true
						}
					}
					srcFrame := a.frameOfField(ap.Call.Args[1], a.payload)
					if fresh && srcFrame == ssa.Value(f.Params[1]) {
						okCopy = true
					} else {
						why = "the parked frame's Payload is " + Expr(st.Val) + ": not a fresh copy of the incoming frame's payload"
					}
				} else {
					why = "the parked frame's Payload is " + Expr(st.Val) + ": an alias of the reused receive buffer, overwritten by the next read"
				}
			}
			if !okCopy && why == "the parked frame is "+Expr(pushed)+", not a private struct copy" {
				// fall back: look for any store of a MakeSlice into saved.Payload dominating the push
				allInstrs(f, func(j ssa.Instruction) {
					if st, ok := j.(*ssa.Store); ok && instrDominates(j, i) {
						if fv, base := fieldVar(st.Addr); fv == a.payload && base == ssa.Value(al) {
							if _, isMk := st.Val.(*ssa.MakeSlice); isMk {
								why = "payload allocated; copy not found"
							} else {
								why = "the parked frame's Payload is " + Expr(st.Val) + ": an alias of the reused receive buffer"
							}
						}
					}
				})
				if strings.HasPrefix(why, "the parked frame is") {
					why = "the parked frame keeps the incoming frame's Payload slice (struct copy only): an alias of the reused receive buffer, overwritten by the next read"
				}
			}
		}
		c.Check(okCopy, rule, "parked frame owns a private copy of the payload", c.at(i), "saved.Payload = make(len); copy(saved.Payload, f.Payload) before heap.Push(&saved)", why)
	})
	if nPush == 0 {
		c.Undecided(rule, "heap.Push in streamBuffer.Write", c.atFn(f), "not found")
	}
	// a frame is refused (error return) only because it is stale: every error return is behind f.Seq < owed.
	// Any other reason for refusing — a window on how far ahead a frame may be, a size cap — drops a frame that a
	// correct peer may legitimately send (every number up to 2^64−1 is valid), and the stream stalls at that number.
	for _, r := range returnsOf(f) {
		if len(r.Results) != 2 || errIsNilAt(resultValue(r, 1), r) != "nonnil" {
			continue
		}
		stale := false
		for _, at := range AtomsAt(r) {
			if at.Kind == "cmp" && at.Op == token.LSS && a.isNextLoad(at.Y) {
				if fr := a.frameOfField(at.X, a.seq); fr != nil && fr == ssa.Value(f.Params[1]) {
					stale = true
				}
			}
		}
		c.Check(stale, rule, "frames are refused only when stale: error return at "+strings.TrimPrefix(c.at(r), "internal/multiplex/"), c.at(r), "behind f.Seq < owed",
			"this error return is not (only) behind 'f.Seq < owed': a frame that is not stale can be refused — its bytes are lost and everything after it stays parked")
	}
	// close verdicts (a return of a merged verdict is judged per incoming way, retpoints.go)
	nClose := 0
	for _, r0 := range returnsOf(f) {
		for _, rp := range retPointsOf(r0) {
			r := rp.At
			b, ok := boolConst(rp.Vals[0])
			if !ok || !b {
				if !ok {
					c.Undecided(rule, "return value at "+c.at(r), c.at(r), "close verdict is not a constant; cannot classify")
				}
				continue
			}
			nClose++
			// find the frame whose Closing flag is tested (≠ closingNothing) among the guards
			var fr ssa.Value
			for _, at := range rp.Atoms {
				if at.Kind == "cmp" && at.Op == token.NEQ {
					for _, pair := range [][2]ssa.Value{{at.X, at.Y}, {at.Y, at.X}} {
						if k, isK := intConst(pair[1]); isK && k == 0 {
							if x := a.frameOfField(pair[0], a.closing); x != nil {
								fr = x
							}
						}
					}
				}
			}
			construct := "close verdict at " + strings.TrimPrefix(c.at(r), "internal/multiplex/")
			if fr == nil {
				c.Bad(rule, construct, c.at(r), "close verdict not conditioned on a frame's closing flag")
				continue
			}
			inTurn, at := a.inTurnAtoms(rp.Atoms, fr)
			if !inTurn {
				if ph, isPhi := fr.(*ssa.Phi); isPhi {
					inTurn = true
					for _, e := range ph.Edges {
						if o, s := a.inTurnAtoms(rp.Atoms, e); !o {
							inTurn = false
						} else {
							at = s
						}
					}
				}
			}
			c.Check(inTurn, rule, construct, c.at(r), "closing frame is in turn: "+at, "the close takes effect for a frame that is not next in line: data with lower numbers still in flight is lost")
		}
	}
	if nClose == 0 {
		c.Undecided(rule, "close verdicts of streamBuffer.Write", c.atFn(f), "no 'return true' found")
	}
}
