package main

import (
	"fmt"
	"os"
	"testing"

	"golang.org/x/tools/go/ssa"
)

func TestDbg(t *testing.T) {
	repo := os.Getenv("DBG_REPO")
	if repo == "" {
		t.Skip()
	}
	os.Setenv("PATH", goToolchain+"/bin:"+os.Getenv("PATH"))
	p, err := Load(repo, Config{GOOS: "linux", GOARCH: "amd64"})
	if err != nil {
		t.Fatal(err)
	}
	f := p.Func(os.Getenv("DBG_REL"), os.Getenv("DBG_FN"))
	if f == nil {
		t.Fatal("fn not found")
	}
	allInstrs(f, func(i ssa.Instruction) {
		if _, ok := i.(*ssa.Call); ok {
			fmt.Println(p.InstrPos(i), i.String())
			for _, a := range AtomsAt(i) {
				fmt.Println("     ", a.Kind, a.String())
			}
		}
	})
}
