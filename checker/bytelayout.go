package main

import (
	"fmt"
	"go/token"
	"sort"

	"golang.org/x/tools/go/ssa"
)

// Byte-level recognisers shared by the layout extractors: the same wire field can be written with encoding/binary or
// with manual shifts (byte(x>>24), byte(x>>16), …), and read with binary.BigEndian.UintN or with an OR of shifted bytes.

// byteOf: v is byte(X >> k), byte(X & 0xff), byte(X) → (X, k).
func byteOf(v ssa.Value) (src ssa.Value, shift int64, ok bool) {
	cv, isC := v.(*ssa.Convert)
	if !isC {
		return nil, 0, false
	}
	if t := typeStr(cv.Type()); t != "byte" && t != "uint8" {
		return nil, 0, false
	}
	x := cv.X
	for {
		if bo, isB := x.(*ssa.BinOp); isB && bo.Op == token.AND {
			if k, isK := intConst(bo.Y); isK && k == 255 {
				x = bo.X
				continue
			}
		}
		break
	}
	if bo, isB := x.(*ssa.BinOp); isB && bo.Op == token.SHR {
		if k, isK := intConst(bo.Y); isK {
			return stripIntWiden(bo.X), k, true
		}
		return nil, 0, false
	}
	return stripIntWiden(x), 0, true
}

// stripIntWiden removes widening integer conversions (uint32 → uint64 …) that do not change the value.
func stripIntWiden(v ssa.Value) ssa.Value {
	for {
		cv, ok := v.(*ssa.Convert)
		if !ok {
			return v
		}
		from, to := typeStr(cv.X.Type()), typeStr(cv.Type())
		w := map[string]int{"uint8": 1, "byte": 1, "uint16": 2, "uint32": 4, "uint64": 8, "uint": 8, "int": 8, "int32": 4, "int64": 8, "int16": 2}
		if w[from] == 0 || w[to] == 0 || w[to] < w[from] {
			return v
		}
		v = cv.X
	}
}

type byteStore struct {
	off int64
	val ssa.Value
	at  ssa.Instruction
}

// groupBigEndian folds runs of single-byte stores that together write one value big-endian into one entry.
// name(src) gives the description of the value written.
func groupBigEndian(stores []byteStore, name func(ssa.Value) string) (fields []layoutEntry, rest []byteStore) {
	sort.Slice(stores, func(i, j int) bool { return stores[i].off < stores[j].off })
	used := map[int]bool{}
	for i := 0; i < len(stores); i++ {
		if used[i] {
			continue
		}
		src, sh, ok := byteOf(stores[i].val)
		if !ok || sh == 0 || sh%8 != 0 {
			continue
		}
		n := sh/8 + 1
		if n != 2 && n != 4 && n != 8 {
			continue
		}
		run := []int{i}
		for k := int64(1); k < n; k++ {
			j := i + int(k)
			if j >= len(stores) || used[j] || stores[j].off != stores[i].off+k {
				break
			}
			s2, sh2, ok2 := byteOf(stores[j].val)
			if !ok2 || !sameExpr(s2, src) || sh2 != sh-8*k {
				break
			}
			run = append(run, j)
		}
		if int64(len(run)) != n {
			continue
		}
		for _, j := range run {
			used[j] = true
		}
		fields = append(fields, layoutEntry{stores[i].off, stores[i].off + n, fmt.Sprintf("BE%d", n*8), name(src), stores[i].at})
	}
	for i, s := range stores {
		if !used[i] {
			rest = append(rest, s)
		}
	}
	return
}

// beRead: v is an OR/ADD of shifted bytes base[lo], base[lo+1], … in big-endian order → (lo, n).
// The loads that take part are returned so that the caller does not also report them as single-byte fields.
func beRead(v ssa.Value, base ssa.Value) (lo, n int64, loads []ssa.Value, ok bool) {
	type term struct {
		idx, shift int64
		ld         ssa.Value
	}
	var terms []term
	bad := false
	var walk func(x ssa.Value, shift int64)
	walk = func(x ssa.Value, shift int64) {
		x = stripIntWiden(x)
		switch b := x.(type) {
		case *ssa.BinOp:
			switch b.Op {
			case token.OR, token.ADD, token.XOR:
				walk(b.X, shift)
				walk(b.Y, shift)
				return
			case token.SHL:
				if k, isK := intConst(b.Y); isK {
					walk(b.X, shift+k)
					return
				}
			}
		case *ssa.UnOp:
			if b.Op == token.MUL {
				if ia, isIA := b.X.(*ssa.IndexAddr); isIA {
					if off, okO := constSliceOffset(ia.X, base); okO {
						if k, isK := intConst(ia.Index); isK {
							terms = append(terms, term{off + k, shift, b})
							return
						}
					}
				}
			}
		}
		bad = true
	}
	walk(v, 0)
	if bad || (len(terms) != 2 && len(terms) != 4 && len(terms) != 8) {
		return 0, 0, nil, false
	}
	sort.Slice(terms, func(i, j int) bool { return terms[i].idx < terms[j].idx })
	cnt := int64(len(terms))
	for k, t := range terms {
		if t.idx != terms[0].idx+int64(k) || t.shift != 8*(cnt-1-int64(k)) {
			return 0, 0, nil, false
		}
		loads = append(loads, t.ld)
	}
	return terms[0].idx, cnt, loads, true
}

// beFold: ph is the accumulator of a big-endian fold loop over base[lo:hi]:
//
//	v := 0; for _, b := range base[lo:hi] { v = v<<8 | T(b) }      (φ(0, (φ<<8) | T(*&S[i])) with S = base[lo:hi])
func beFold(ph *ssa.Phi, base ssa.Value) (lo, n int64, ok bool) {
	zero, step := false, ssa.Value(nil)
	for _, e := range ph.Edges {
		if k, isK := intConst(e); isK && k == 0 {
			zero = true
			continue
		}
		if step != nil {
			return 0, 0, false
		}
		step = e
	}
	if !zero || step == nil {
		return 0, 0, false
	}
	bo, isB := stripIntWiden(step).(*ssa.BinOp)
	if !isB || (bo.Op != token.OR && bo.Op != token.ADD) {
		return 0, 0, false
	}
	var shifted, byteTerm ssa.Value
	for _, side := range []ssa.Value{bo.X, bo.Y} {
		if sh, isS := stripIntWiden(side).(*ssa.BinOp); isS && sh.Op == token.SHL {
			if k, isK := intConst(sh.Y); isK && k == 8 && stripIntWiden(sh.X) == ssa.Value(ph) {
				shifted = side
				continue
			}
		}
		byteTerm = side
	}
	if shifted == nil || byteTerm == nil {
		return 0, 0, false
	}
	ld, isL := stripIntWiden(byteTerm).(*ssa.UnOp)
	if !isL || ld.Op != token.MUL {
		return 0, 0, false
	}
	ia, isIA := ld.X.(*ssa.IndexAddr)
	if !isIA {
		return 0, 0, false
	}
	if _, constIdx := intConst(ia.Index); constIdx {
		return 0, 0, false
	}
	sl, isSl := ia.X.(*ssa.Slice)
	if !isSl || sl.X != base || sl.Low == nil || sl.High == nil {
		return 0, 0, false
	}
	l, okL := intConst(sl.Low)
	h, okH := intConst(sl.High)
	if !okL || !okH || (h-l != 2 && h-l != 4 && h-l != 8) {
		return 0, 0, false
	}
	return l, h - l, true
}

// beDescLoopStore: st is header[i] = byte(v) inside `for i := hi; i >= lo; i-- { …; v >>= 8 }` with v starting as src:
// the bytes of src, least significant last — big-endian in header[lo : hi+1].
func beDescLoopStore(st *ssa.Store, ia *ssa.IndexAddr) (lo, n int64, src ssa.Value, ok bool) {
	pi, isPhi := stripIntConv(ia.Index).(*ssa.Phi)
	if !isPhi || len(pi.Edges) != 2 {
		return 0, 0, nil, false
	}
	hi, haveHi, dec := int64(0), false, false
	for _, e := range pi.Edges {
		if k, isK := intConst(e); isK {
			hi, haveHi = k, true
			continue
		}
		if d := symAff(e, 0).add(affSym(pi), -1); d.isConst() && d.C == -1 {
			dec = true
		}
	}
	if !haveHi || !dec {
		return 0, 0, nil, false
	}
	lowOK := false
	for _, a := range AtomsAt(st) {
		if a.Kind == "cmp" && a.Op == token.LEQ && stripIntConv(a.Y) == ssa.Value(pi) {
			if k, isK := intConst(a.X); isK {
				lo, lowOK = k, true
			}
		}
		if a.Kind == "cmp" && a.Op == token.LSS && stripIntConv(a.Y) == ssa.Value(pi) {
			if k, isK := intConst(a.X); isK {
				lo, lowOK = k+1, true
			}
		}
	}
	if !lowOK || hi < lo {
		return 0, 0, nil, false
	}
	v, sh, okB := byteOf(st.Val)
	if !okB || sh != 0 {
		return 0, 0, nil, false
	}
	pv, isPhiV := v.(*ssa.Phi)
	if !isPhiV || len(pv.Edges) != 2 {
		return 0, 0, nil, false
	}
	shifts := false
	for _, e := range pv.Edges {
		if bo, isB := stripIntWiden(e).(*ssa.BinOp); isB && bo.Op == token.SHR && stripIntWiden(bo.X) == ssa.Value(pv) {
			if k, isK := intConst(bo.Y); isK && k == 8 {
				shifts = true
				continue
			}
		}
		src = stripIntWiden(e)
	}
	n = hi - lo + 1
	if !shifts || src == nil || (n != 2 && n != 4 && n != 8) {
		return 0, 0, nil, false
	}
	return lo, n, src, true
}

// beLoopStore: st is header[K+i] = byte(src >> (8*(n-1-i))) inside a loop i = 0 … n-1 (i < n guard, i starts at 0).
func beLoopStore(st *ssa.Store, ia *ssa.IndexAddr) (lo, n int64, src ssa.Value, ok bool) {
	idx := symAff(ia.Index, 0)
	if len(idx.Terms) != 1 {
		return 0, 0, nil, false
	}
	var iv ssa.Value
	step := int64(1)
	for s, k := range idx.Terms {
		if k != 1 && k != -1 {
			return 0, 0, nil, false
		}
		iv, step = s, k
	}
	if step == -1 {
		// header[K-i] = byte(src >> (8*i)), i = 0 … n-1: least significant byte last, big-endian in header[K-n+1 : K+1]
		return beLoopStoreDown(st, idx.C, iv)
	}
	ph, isPhi := iv.(*ssa.Phi)
	if !isPhi {
		return 0, 0, nil, false
	}
	startsAtZero := false
	for _, e := range ph.Edges {
		if k, isK := intConst(e); isK && k == 0 {
			startsAtZero = true
		}
	}
	cv, isC := st.Val.(*ssa.Convert)
	if !isC {
		return 0, 0, nil, false
	}
	sh, isS := cv.X.(*ssa.BinOp)
	if !isS || sh.Op != token.SHR {
		return 0, 0, nil, false
	}
	amt := symAff(sh.Y, 0)
	if len(amt.Terms) != 1 || amt.Terms[iv] != -8 || amt.C%8 != 0 {
		return 0, 0, nil, false
	}
	n = amt.C/8 + 1
	if n != 2 && n != 4 && n != 8 {
		return 0, 0, nil, false
	}
	bounded := false
	for _, a := range AtomsAt(st) {
		if a.Kind == "cmp" && a.Op == token.LSS && stripIntConv(a.X) == iv {
			if k, isK := intConst(a.Y); isK && k == n {
				bounded = true
			}
		}
	}
	if !startsAtZero || !bounded {
		return 0, 0, nil, false
	}
	return idx.C, n, stripIntWiden(sh.X), true
}

func beLoopStoreDown(st *ssa.Store, top int64, iv ssa.Value) (lo, n int64, src ssa.Value, ok bool) {
	ph, isPhi := iv.(*ssa.Phi)
	if !isPhi {
		return 0, 0, nil, false
	}
	startsAtZero := false
	for _, e := range ph.Edges {
		if k, isK := intConst(e); isK && k == 0 {
			startsAtZero = true
		} else if d := symAff(e, 0).add(affSym(ph), -1); !d.isConst() || d.C != 1 {
			return 0, 0, nil, false
		}
	}
	cv, isC := st.Val.(*ssa.Convert)
	if !isC {
		return 0, 0, nil, false
	}
	sh, isS := cv.X.(*ssa.BinOp)
	if !isS || sh.Op != token.SHR {
		return 0, 0, nil, false
	}
	amt := symAff(sh.Y, 0)
	if len(amt.Terms) != 1 || amt.Terms[iv] != 8 || amt.C != 0 {
		return 0, 0, nil, false
	}
	for _, a := range AtomsAt(st) {
		if a.Kind == "cmp" && a.Op == token.LSS && stripIntConv(a.X) == iv {
			if k, isK := intConst(a.Y); isK {
				n = k
			}
		}
	}
	if !startsAtZero || (n != 2 && n != 4 && n != 8) || top-n+1 < 0 {
		return 0, 0, nil, false
	}
	return top - n + 1, n, stripIntWiden(sh.X), true
}

// absByte: one byte of a buffer under construction — a constant, byte k (from the least significant) of a value, or the
// whole of a slice appended with `...`.
type absByte struct {
	isConst bool
	k       int64     // constant value
	src     ssa.Value // byte (shift/8) of src; or the spread slice
	shift   int64
	spread  bool
}

func (b absByte) String() string {
	switch {
	case b.isConst:
		return fmt.Sprintf("%#02x", b.k)
	case b.spread:
		return Expr(b.src) + "..."
	}
	return fmt.Sprintf("byte(%s>>%d)", Expr(b.src), b.shift)
}

func absOfByteValue(e ssa.Value) absByte {
	if k, ok := intConst(e); ok {
		return absByte{isConst: true, k: k & 0xff}
	}
	if src, sh, ok := byteOf(e); ok {
		if k, isK := intConst(src); isK {
			return absByte{isConst: true, k: (k >> uint(sh)) & 0xff}
		}
		return absByte{src: src, shift: sh}
	}
	return absByte{src: e}
}

// absAppend: call is append(base, e1, e2, …), append(base, s...), or binary.BigEndian.AppendUintN(base, v).
func absAppend(call *ssa.Call) (base ssa.Value, bytes []absByte, ok bool) {
	n := calleeName(&call.Call)
	args := call.Call.Args
	switch {
	case n == "builtin.append" && len(args) == 2:
		base = args[0]
		sl, isSl := args[1].(*ssa.Slice)
		if isSl {
			if al, isAl := sl.X.(*ssa.Alloc); isAl && al.Comment == "varargs" {
				els := map[int64]ssa.Value{}
				for _, r := range *al.Referrers() {
					if ia, ok := r.(*ssa.IndexAddr); ok {
						k, _ := intConst(ia.Index)
						for _, rr := range *ia.Referrers() {
							if st, ok := rr.(*ssa.Store); ok {
								els[k] = st.Val
							}
						}
					}
				}
				for k := int64(0); k < int64(len(els)); k++ {
					bytes = append(bytes, absOfByteValue(els[k]))
				}
				return base, bytes, true
			}
		}
		return base, []absByte{{src: args[1], spread: true}}, true
	case len(args) == 3 && (stringsHasSuffix(n, "bigEndian).AppendUint16") || stringsHasSuffix(n, "bigEndian).AppendUint32") || stringsHasSuffix(n, "bigEndian).AppendUint64")):
		w := int64(2)
		if stringsHasSuffix(n, "32") {
			w = 4
		} else if stringsHasSuffix(n, "64") {
			w = 8
		}
		v := args[2]
		if k, isK := intConst(v); isK {
			for i := w - 1; i >= 0; i-- {
				bytes = append(bytes, absByte{isConst: true, k: (k >> uint(8*i)) & 0xff})
			}
			return args[1], bytes, true
		}
		src := stripConv(v)
		for i := w - 1; i >= 0; i-- {
			bytes = append(bytes, absByte{src: src, shift: 8 * i})
		}
		return args[1], bytes, true
	}
	return nil, nil, false
}

func stringsHasSuffix(s, suf string) bool { return len(s) >= len(suf) && s[len(s)-len(suf):] == suf }

// constSliceOffset: x is base itself or base[k1:…][k2:…]… with constant lower bounds; returns the offset of x[0] in base.
func constSliceOffset(x, base ssa.Value) (int64, bool) {
	off := int64(0)
	for depth := 0; depth < 6; depth++ {
		if x == base {
			return off, true
		}
		sl, ok := x.(*ssa.Slice)
		if !ok {
			return 0, false
		}
		if sl.Low != nil {
			k, isK := intConst(sl.Low)
			if !isK {
				return 0, false
			}
			off += k
		}
		x = sl.X
	}
	return 0, false
}
