package main

import (
	"fmt"
	"go/token"
	"go/types"
	"strings"

	"golang.org/x/tools/go/ssa"
)

// E6 VFLOW — whole-program value-flow graph (field-based, flow-insensitive, reference types unified,
// leaf helpers cloned per call site).

type vnode interface{}

type fieldNode struct{ v *types.Var }
type retNode struct {
	f   *ssa.Function
	idx int
	ctx ssa.CallInstruction
}
type ctxVal struct {
	v   ssa.Value
	ctx ssa.CallInstruction
}
type mapKeyNode struct{ m vnode }
type dbKeyNode struct{ key string }

type VFlow struct {
	P       *Prog
	out     map[vnode][]vnode
	in      map[vnode][]vnode
	helpers map[*ssa.Function]bool
	clones  map[ssa.Value][]vnode
	nEdges  int
}

// ReachesValue: v itself or any per-call-site clone of v is in the set.
func (g *VFlow) ReachesValue(set map[vnode]bool, v ssa.Value) bool {
	if set[v] {
		return true
	}
	for _, c := range g.clones[v] {
		if set[c] {
			return true
		}
	}
	return false
}

func (g *VFlow) edge(a, b vnode) {
	if a == nil || b == nil || a == b {
		return
	}
	for _, x := range g.out[a] {
		if x == b {
			return
		}
	}
	g.out[a] = append(g.out[a], b)
	g.in[b] = append(g.in[b], a)
	g.nEdges++
}

func isRefType(t types.Type) bool {
	switch t.Underlying().(type) {
	case *types.Pointer, *types.Slice, *types.Map, *types.Chan:
		return true
	}
	return false
}

// flow adds a→b and, for reference-typed values, b→a (aliases share their content).
func (g *VFlow) flow(a, b vnode, t types.Type) {
	g.edge(a, b)
	if t != nil && isRefType(t) {
		g.edge(b, a)
	}
}

func (g *VFlow) val(v ssa.Value, ctx ssa.CallInstruction) vnode {
	switch x := v.(type) {
	case *ssa.Const:
		return nil
	case *ssa.Global:
		return x
	case *ssa.Function:
		return x
	case *ssa.Builtin:
		return nil
	}
	if ctx != nil {
		if in, ok := v.(interface{ Parent() *ssa.Function }); ok && g.helpers[in.Parent()] {
			n := ctxVal{v, ctx}
			found := false
			for _, c := range g.clones[v] {
				if c == vnode(n) {
					found = true
				}
			}
			if !found {
				g.clones[v] = append(g.clones[v], n)
			}
			return n
		}
	}
	return v
}

// mem returns the node standing for the memory an address denotes.
func (g *VFlow) mem(addr ssa.Value, ctx ssa.CallInstruction) vnode {
	switch x := addr.(type) {
	case *ssa.FieldAddr:
		fv, _ := fieldVar(x)
		return fieldNode{fv}
	case *ssa.IndexAddr:
		// element of array/slice: collapse into the container
		return g.container(x.X, ctx)
	case *ssa.Alloc, *ssa.Global:
		return g.val(addr, ctx)
	}
	// pointer value (loaded from somewhere): content travels with the (unified) pointer
	return g.val(addr, ctx)
}

// container: the node holding the content of a slice/array expression.
func (g *VFlow) container(v ssa.Value, ctx ssa.CallInstruction) vnode {
	for {
		switch x := v.(type) {
		case *ssa.Slice:
			v = x.X
			continue
		case *ssa.Convert:
			v = x.X
			continue
		case *ssa.ChangeType:
			v = x.X
			continue
		case *ssa.FieldAddr:
			fv, _ := fieldVar(x)
			return fieldNode{fv}
		case *ssa.UnOp:
			if x.Op == token.MUL {
				if fa, ok := x.X.(*ssa.FieldAddr); ok {
					fv, _ := fieldVar(fa)
					return fieldNode{fv}
				}
			}
		}
		break
	}
	return g.val(v, ctx)
}

func BuildVFlow(p *Prog) *VFlow {
	g := &VFlow{P: p, out: map[vnode][]vnode{}, in: map[vnode][]vnode{}, helpers: map[*ssa.Function]bool{}, clones: map[ssa.Value][]vnode{}}
	g.findHelpers()
	for _, f := range p.RepoFuncs {
		if len(f.Blocks) == 0 || g.helpers[f] {
			continue
		}
		g.addFunc(f, nil)
	}
	return g
}

// findHelpers: small in-repo leaf functions without side effects on non-local memory; cloned per call site.
func (g *VFlow) findHelpers() {
	for _, f := range g.P.RepoFuncs {
		if len(f.Blocks) == 0 || f.Parent() != nil || len(f.FreeVars) > 0 {
			continue
		}
		n := 0
		ok := true
		allInstrs(f, func(i ssa.Instruction) {
			n++
			switch x := i.(type) {
			case *ssa.Store:
				root, _ := fieldChain(x.Addr)
				switch r := root.(type) {
				case *ssa.Alloc:
				case *ssa.IndexAddr:
					if _, isMk := r.X.(*ssa.MakeSlice); !isMk {
						ok = false
					}
				default:
					ok = false
				}
			case *ssa.Call:
				if sc := x.Call.StaticCallee(); sc != nil && g.P.InRepo(sc) {
					ok = false
				}
				if x.Call.StaticCallee() == nil && !x.Call.IsInvoke() {
					if _, isB := x.Call.Value.(*ssa.Builtin); !isB {
						ok = false
					}
				}
				if x.Call.IsInvoke() {
					ok = false
				}
			case *ssa.Go, *ssa.Defer, *ssa.MapUpdate, *ssa.Send, *ssa.MakeClosure:
				ok = false
			}
		})
		if ok && n <= 40 && f.Signature.Results().Len() > 0 {
			g.helpers[f] = true
		}
	}
}

func (g *VFlow) addFunc(f *ssa.Function, ctx ssa.CallInstruction) {
	allInstrs(f, func(i ssa.Instruction) { g.addInstr(f, i, ctx) })
}

func (g *VFlow) addInstr(f *ssa.Function, i ssa.Instruction, ctx ssa.CallInstruction) {
	V := func(v ssa.Value) vnode { return g.val(v, ctx) }
	switch x := i.(type) {
	case *ssa.Store:
		g.flow(V(x.Val), g.mem(x.Addr, ctx), x.Val.Type())
	case *ssa.UnOp:
		switch x.Op {
		case token.MUL:
			g.flow(g.mem(x.X, ctx), V(x), x.Type())
		case token.ARROW:
			g.flow(V(x.X), V(x), nil)
		default:
			g.edge(V(x.X), V(x))
		}
	case *ssa.BinOp:
		g.edge(V(x.X), V(x))
		g.edge(V(x.Y), V(x))
	case *ssa.Convert:
		g.flow(V(x.X), V(x), x.Type())
	case *ssa.ChangeType:
		g.flow(V(x.X), V(x), x.Type())
	case *ssa.MakeInterface:
		g.flow(V(x.X), V(x), x.X.Type())
	case *ssa.ChangeInterface:
		g.flow(V(x.X), V(x), types.NewPointer(types.Typ[types.Int]))
	case *ssa.TypeAssert:
		g.flow(V(x.X), V(x), x.AssertedType)
	case *ssa.SliceToArrayPointer:
		g.flow(V(x.X), V(x), x.Type())
	case *ssa.Slice:
		// slicing an array through its address or a slice/string value
		g.flow(g.container(x.X, ctx), V(x), types.NewSlice(types.Typ[types.Byte]))
		if _, isStr := x.X.Type().Underlying().(*types.Basic); isStr {
			g.edge(V(x.X), V(x))
		}
	case *ssa.FieldAddr:
		// address of a field: denotes the field node
		fv, _ := fieldVar(x)
		g.flow(fieldNode{fv}, V(x), x.Type())
	case *ssa.Field:
		fv, _ := fieldVar(x)
		g.flow(fieldNode{fv}, V(x), x.Type())
		g.edge(V(x.X), V(x))
	case *ssa.IndexAddr:
		g.flow(g.container(x.X, ctx), V(x), x.Type())
	case *ssa.Index:
		g.edge(V(x.X), V(x))
	case *ssa.Lookup:
		g.flow(V(x.X), V(x), nil)
		if _, isStr := x.X.Type().Underlying().(*types.Basic); !isStr {
			g.edge(V(x.X), V(x))
		}
	case *ssa.MapUpdate:
		g.edge(V(x.Value), V(x.Map))
		g.edge(V(x.Key), mapKeyNode{V(x.Map)})
	case *ssa.Extract:
		if call, ok := x.Tuple.(*ssa.Call); ok {
			g.callResult(call, x, x.Index, ctx)
		} else {
			g.edge(V(x.Tuple), V(x))
		}
	case *ssa.Phi:
		for _, e := range x.Edges {
			g.flow(V(e), V(x), x.Type())
		}
	case *ssa.MakeClosure:
		fn := x.Fn.(*ssa.Function)
		for k, b := range x.Bindings {
			g.flow(V(b), g.val(fn.FreeVars[k], nil), b.Type())
		}
		g.edge(fn, V(x))
	case *ssa.Range:
		g.edge(V(x.X), V(x))
	case *ssa.Next:
		g.edge(V(x.Iter), V(x))
	case *ssa.Send:
		g.edge(V(x.X), V(x.Chan))
	case *ssa.Return:
		for k, r := range x.Results {
			g.flow(V(r), retNode{f, k, ctx}, r.Type())
		}
	case *ssa.Call:
		g.addCall(x, ctx)
		if x.Type() != nil {
			if _, isTuple := x.Type().(*types.Tuple); !isTuple {
				g.callResult(x, x, 0, ctx)
			}
		}
	case *ssa.Go:
		g.addCall(x, ctx)
	case *ssa.Defer:
		g.addCall(x, ctx)
	}
}

// addCall links actuals to formals (or applies library summaries).
func (g *VFlow) addCall(c ssa.CallInstruction, ctx ssa.CallInstruction) {
	cc := c.Common()
	V := func(v ssa.Value) vnode { return g.val(v, ctx) }
	if b, ok := cc.Value.(*ssa.Builtin); ok {
		switch b.Name() {
		case "copy":
			g.edge(g.container(cc.Args[1], ctx), g.container(cc.Args[0], ctx))
			g.edge(V(cc.Args[1]), g.container(cc.Args[0], ctx))
		case "append":
			if v, ok := c.(ssa.Value); ok {
				g.flow(V(cc.Args[0]), V(v), v.Type())
				for _, a := range cc.Args[1:] {
					g.edge(V(a), V(v))
					g.edge(g.container(a, ctx), V(v))
				}
			}
		case "len", "cap":
			// lengths are derived data: keep the flow (used by count rules), marked by BinOp-like edge
			if v, ok := c.(ssa.Value); ok {
				g.edge(V(cc.Args[0]), V(v))
			}
		case "delete":
			g.edge(V(cc.Args[1]), mapKeyNode{V(cc.Args[0])})
		}
		return
	}
	callees := g.P.Callees(c)
	args := callArgs(cc)
	anyRepo := false
	for _, callee := range callees {
		if !g.P.InRepo(callee) || len(callee.Blocks) == 0 {
			continue
		}
		anyRepo = true
		if g.helpers[callee] {
			// clone the helper body for this call site
			g.addFunc(callee, c)
			if len(args) == len(callee.Params) {
				for k, a := range args {
					g.flow(V(a), ctxVal{callee.Params[k], c}, a.Type())
				}
			}
			continue
		}
		if len(args) == len(callee.Params) {
			for k, a := range args {
				g.flow(V(a), g.val(callee.Params[k], nil), a.Type())
			}
		}
		if mc, ok := cc.Value.(*ssa.MakeClosure); ok {
			_ = mc
		}
	}
	if !anyRepo {
		g.libSummary(c, ctx)
	}
}

// callResult connects the idx-th result of the callee(s) to the value dst.
func (g *VFlow) callResult(c *ssa.Call, dst ssa.Value, idx int, ctx ssa.CallInstruction) {
	D := g.val(dst, ctx)
	callees := g.P.Callees(c)
	anyRepo := false
	for _, callee := range callees {
		if !g.P.InRepo(callee) || len(callee.Blocks) == 0 {
			continue
		}
		anyRepo = true
		if g.helpers[callee] {
			g.flow(retNode{callee, idx, c}, D, dst.Type())
		} else {
			g.flow(retNode{callee, idx, nil}, D, dst.Type())
		}
	}
	if !anyRepo && strings.HasSuffix(calleeName(c.Common()), "bbolt.Bucket).Get") {
		if k, ok := strConst(c.Call.Args[1]); ok {
			// database values are keyed like fields: Get("K") reads what Put("K", v) wrote
			g.flow(dbKeyNode{k}, D, dst.Type())
			return
		}
	}
	if !anyRepo {
		// library: every argument may flow into every result
		for _, a := range callArgs(c.Common()) {
			g.edge(g.val(a, ctx), D)
			if isRefType(a.Type()) {
				g.edge(g.container(a, ctx), D)
			}
		}
		if !c.Call.IsInvoke() && c.Call.StaticCallee() == nil {
			g.edge(g.val(c.Call.Value, ctx), D)
		}
	}
}

// libSummary: side effects of library calls on their reference arguments.
func (g *VFlow) libSummary(c ssa.CallInstruction, ctx ssa.CallInstruction) {
	cc := c.Common()
	n := calleeName(cc)
	if n == "" {
		// dynamic call through a function value (e.g. var u64 = binary.BigEndian.Uint64)
		for _, f := range g.P.Callees(c) {
			n = fnName(f)
		}
	}
	args := callArgs(cc)
	V := func(v ssa.Value) vnode { return g.val(v, ctx) }
	C := func(v ssa.Value) vnode { return g.container(v, ctx) }
	switch {
	case strings.Contains(n, "bigEndian).PutUint") || strings.Contains(n, "littleEndian).PutUint"):
		if len(args) >= 3 {
			g.edge(V(args[2]), C(args[1]))
		} else if len(args) == 2 {
			g.edge(V(args[1]), C(args[0]))
		}
	case n == "sync/atomic.AddInt64" || n == "sync/atomic.AddUint32" || n == "sync/atomic.AddUint64" || n == "sync/atomic.StoreUint32" || n == "sync/atomic.StoreInt64" || n == "sync/atomic.SwapInt64":
		g.edge(V(args[1]), g.mem(args[0], ctx))
	case n == "io.ReadFull" || n == "io.ReadAtLeast":
		g.edge(V(args[0]), C(args[1]))
	case strings.HasSuffix(n, ").Read") && len(args) == 2:
		g.edge(V(args[0]), C(args[1]))
	case strings.HasSuffix(n, ".XORKeyStream"):
		// dst, src, nonce, key
		for _, a := range args[1:] {
			g.edge(C(a), C(args[0]))
		}
	case n == "(crypto/cipher.AEAD).Seal" || n == "(crypto/cipher.AEAD).Open":
		// recv, dst, nonce, plaintext, aad → dst
		if len(args) >= 5 {
			for _, a := range args[2:] {
				g.edge(C(a), C(args[1]))
			}
		}
	case strings.HasSuffix(n, "bbolt.Bucket).Put"):
		if k, ok := strConst(args[1]); ok {
			g.edge(V(args[2]), dbKeyNode{k})
			g.edge(C(args[2]), dbKeyNode{k})
		} else {
			g.edge(V(args[2]), V(args[0]))
		}
	case n == "encoding/json.Unmarshal" || strings.HasSuffix(n, "json.Decoder).Decode"):
		if len(args) >= 2 {
			g.edge(V(args[0]), g.mem(args[len(args)-1], ctx))
		}
	default:
		// generic: scalar/content arguments may be stored into reference-typed receivers (setters, Write, Put, Store)
		if len(args) >= 2 && isRefType(args[0].Type()) && (cc.IsInvoke() || (cc.StaticCallee() != nil && cc.StaticCallee().Signature.Recv() != nil)) {
			for _, a := range args[1:] {
				g.edge(V(a), V(args[0]))
			}
		}
	}
}

// Reach computes forward reachability from the given sources.
func (g *VFlow) Reach(srcs ...vnode) map[vnode]bool {
	seen := map[vnode]bool{}
	var work []vnode
	for _, s := range srcs {
		if s != nil && !seen[s] {
			seen[s] = true
			work = append(work, s)
		}
	}
	for len(work) > 0 {
		n := work[len(work)-1]
		work = work[:len(work)-1]
		for _, m := range g.out[n] {
			if !seen[m] {
				seen[m] = true
				work = append(work, m)
			}
		}
	}
	return seen
}

// BackReach computes the set of nodes from which dst is reachable.
func (g *VFlow) BackReach(dsts ...vnode) map[vnode]bool {
	seen := map[vnode]bool{}
	var work []vnode
	for _, s := range dsts {
		if s != nil && !seen[s] {
			seen[s] = true
			work = append(work, s)
		}
	}
	for len(work) > 0 {
		n := work[len(work)-1]
		work = work[:len(work)-1]
		for _, m := range g.in[n] {
			if !seen[m] {
				seen[m] = true
				work = append(work, m)
			}
		}
	}
	return seen
}

// Path returns one witness path from any source in srcs to dst (for reports).
func (g *VFlow) Path(dst vnode, srcs map[vnode]bool) []string {
	prev := map[vnode]vnode{}
	seen := map[vnode]bool{dst: true}
	work := []vnode{dst}
	var hit vnode
	for len(work) > 0 && hit == nil {
		n := work[0]
		work = work[1:]
		if srcs[n] {
			hit = n
			break
		}
		for _, m := range g.in[n] {
			if !seen[m] {
				seen[m] = true
				prev[m] = n
				work = append(work, m)
			}
		}
	}
	if hit == nil {
		return nil
	}
	var out []string
	for n := hit; n != nil; n = prev[n] {
		out = append(out, nodeString(n))
		if n == dst {
			break
		}
	}
	return out
}

func nodeString(n vnode) string {
	switch x := n.(type) {
	case fieldNode:
		return "field " + x.v.Name()
	case retNode:
		return fmt.Sprintf("ret%d(%s)", x.idx, shortFn(x.f))
	case ctxVal:
		return Expr(x.v) + "@call"
	case mapKeyNode:
		return "key-of(" + nodeString(x.m) + ")"
	case dbKeyNode:
		return "db[" + x.key + "]"
	case ssa.Value:
		return Expr(x)
	}
	return fmt.Sprint(n)
}

// FieldStores lists Store instructions whose address is the given field.
func FieldStores(p *Prog, fv *types.Var) []*ssa.Store {
	var out []*ssa.Store
	for _, f := range p.RepoFuncs {
		allInstrs(f, func(i ssa.Instruction) {
			if st, ok := i.(*ssa.Store); ok {
				if v, _ := fieldVar(st.Addr); v == fv {
					out = append(out, st)
				}
			}
		})
	}
	return out
}
