package main

import (
	"golang.org/x/tools/go/ssa"
)

// RETURN POINTS — a `return` whose operands are φ-nodes stands for several ways of leaving the function: one per
// incoming edge of the merge (a single `return n, err` after `n, err = 0, io.EOF` on one branch and `n, err = k, nil` on
// another). Rules about "what is returned under which condition" are stated per way: retPointsOf splits a return along
// the edges of the φ-nodes among its operands (operands that are φ-nodes of the same block are resolved together, edge
// by edge) and collects, for every way, the operand values and the conditions in force: those of the return itself,
// those of the predecessor block the edge comes from, and the condition of the edge.
type retPoint struct {
	Ret   *ssa.Return
	Vals  []ssa.Value
	Atoms []Atom
	// At: the last instruction of the block the deciding edge leaves (the return itself when nothing was split)
	At ssa.Instruction
}

func retPointsOf(r *ssa.Return) []retPoint {
	var out []retPoint
	var split func(vals []ssa.Value, atoms []Atom, at ssa.Instruction, depth int)
	split = func(vals []ssa.Value, atoms []Atom, at ssa.Instruction, depth int) {
		var ph *ssa.Phi
		if depth < 4 && len(out) < 64 {
			for _, v := range vals {
				if x, ok := v.(*ssa.Phi); ok {
					ph = x
					break
				}
			}
		}
		if ph == nil {
			out = append(out, retPoint{Ret: r, Vals: vals, Atoms: atoms, At: at})
			return
		}
		for k := range ph.Edges {
			pred := ph.Block().Preds[k]
			last := pred.Instrs[len(pred.Instrs)-1]
			nv := make([]ssa.Value, len(vals))
			for i, v := range vals {
				if x, ok := v.(*ssa.Phi); ok && x.Block() == ph.Block() {
					nv[i] = x.Edges[k]
				} else {
					nv[i] = v
				}
			}
			as := append([]Atom{}, atoms...)
			for _, g := range GuardsOf(pred) {
				as = append(as, NormCond(g.Cond, g.Pol))
			}
			if ifi, isIf := last.(*ssa.If); isIf && len(pred.Succs) == 2 && pred.Succs[0] != pred.Succs[1] {
				pol := pred.Succs[0] == ph.Block()
				as = append(as, NormCond(ifi.Cond, pol))
				for _, g := range shortCircuitGuards(ifi.Cond, pol, ifi, 0) {
					as = append(as, NormCond(g.Cond, g.Pol))
				}
			}
			split(nv, as, last, depth+1)
		}
	}
	vals := make([]ssa.Value, len(r.Results))
	for i := range r.Results {
		vals[i] = resultValue(r, i)
	}
	split(vals, AtomsAt(r), r, 0)
	return out
}

// unitRetPoints: the return points of the anchor and of the code split off from it.
func (p *Prog) unitRetPoints(anchor *ssa.Function) []retPoint {
	var out []retPoint
	for _, r := range p.unitReturns(anchor) {
		out = append(out, retPointsOf(r)...)
	}
	return out
}
