package main

import (
	"go/constant"
	"go/token"
	"go/types"
	"sync"

	"golang.org/x/tools/go/ssa"
)

// RETURN POINTS — a `return` whose operands are φ-nodes stands for several ways of leaving the function: one per
// incoming edge of the merge (a single `return n, err` after `n, err = 0, io.EOF` on one branch and `n, err = k, nil` on
// another). Rules about "what is returned under which condition" are stated per way: retPointsOf splits a return along
// the edges of the φ-nodes among its operands (operands that are φ-nodes of the same block are resolved together, edge
// by edge) and collects, for every way, the operand values and the conditions in force: those of the return itself,
// those of the predecessor block the edge comes from, and the condition of the edge.
type retPoint struct {
	Ret   *ssa.Return
	Vals  []ssa.Value
	Atoms []Atom
	// At: the last instruction of the block the deciding edge leaves (the return itself when nothing was split)
	At ssa.Instruction
}

func retPointsOf(r *ssa.Return) []retPoint {
	var out []retPoint
	var split func(vals []ssa.Value, atoms []Atom, at ssa.Instruction, depth int)
	split = func(vals []ssa.Value, atoms []Atom, at ssa.Instruction, depth int) {
		var ph *ssa.Phi
		if depth < 4 && len(out) < 64 {
			for _, v := range vals {
				if x, ok := v.(*ssa.Phi); ok {
					ph = x
					break
				}
			}
		}
		if ph == nil {
			out = append(out, retPoint{Ret: r, Vals: vals, Atoms: atoms, At: at})
			return
		}
		for k := range ph.Edges {
			pred := ph.Block().Preds[k]
			last := pred.Instrs[len(pred.Instrs)-1]
			nv := make([]ssa.Value, len(vals))
			for i, v := range vals {
				if x, ok := v.(*ssa.Phi); ok && x.Block() == ph.Block() {
					nv[i] = x.Edges[k]
				} else {
					nv[i] = v
				}
			}
			as := append([]Atom{}, atoms...)
			for _, g := range GuardsOf(pred) {
				as = append(as, NormCond(g.Cond, g.Pol))
			}
			if ifi, isIf := last.(*ssa.If); isIf && len(pred.Succs) == 2 && pred.Succs[0] != pred.Succs[1] {
				pol := pred.Succs[0] == ph.Block()
				as = append(as, NormCond(ifi.Cond, pol))
				for _, g := range shortCircuitGuards(ifi.Cond, pol, ifi, 0) {
					as = append(as, NormCond(g.Cond, g.Pol))
				}
			}
			split(nv, as, last, depth+1)
		}
	}
	vals := make([]ssa.Value, len(r.Results))
	for i := range r.Results {
		vals[i] = resultValue(r, i)
	}
	// named results of a function with defer live in cells and the return loads them: split by the predecessors of the
	// return block, each with the one value that reaches the end of that predecessor (when there is exactly one)
	if cellSplit := retCellSplit(r, vals); len(cellSplit) > 0 {
		for _, cs := range cellSplit {
			split(cs.Vals, cs.Atoms, cs.At, 1)
		}
		return out
	}
	split(vals, AtomsAt(r), r, 0)
	return out
}

// retCellSplit: see retPointsOf. Returns nil when no operand of the return is a load of a result cell or when the
// return block has a single predecessor chain that already determines the values.
func retCellSplit(r *ssa.Return, vals []ssa.Value) []retPoint {
	f := r.Parent()
	blk := r.Block()
	cells := map[int]*ssa.Alloc{}
	for i, v := range vals {
		ld, ok := v.(*ssa.UnOp)
		if !ok || ld.Op != token.MUL {
			continue
		}
		a, ok := ld.X.(*ssa.Alloc)
		if !ok || a.Parent() != f || !plainCell(a) {
			continue
		}
		cells[i] = a
	}
	if len(cells) == 0 || len(blk.Preds) < 2 {
		return nil
	}
	reach := map[*ssa.Alloc]map[*ssa.BasicBlock]map[ssa.Value]bool{}
	for _, a := range cells {
		if reach[a] == nil {
			reach[a] = cellReach(f, a)
		}
	}
	var out []retPoint
	for _, pred := range blk.Preds {
		last := pred.Instrs[len(pred.Instrs)-1]
		nv := append([]ssa.Value{}, vals...)
		for i, a := range cells {
			// stores in the return block itself before the return (other than the identity store) would override
			overridden := false
			for _, in := range blk.Instrs {
				if st, ok := in.(*ssa.Store); ok && st.Addr == ssa.Value(a) && !isSelfStore(st) {
					nv[i] = st.Val
					overridden = true
				}
			}
			if overridden {
				continue
			}
			set := reach[a][pred]
			if len(set) == 1 {
				for v := range set {
					nv[i] = v
				}
			}
		}
		as := append([]Atom{}, AtomsAt(r)...)
		for _, g := range GuardsOf(pred) {
			as = append(as, NormCond(g.Cond, g.Pol))
		}
		if ifi, isIf := last.(*ssa.If); isIf && len(pred.Succs) == 2 && pred.Succs[0] != pred.Succs[1] {
			pol := pred.Succs[0] == blk
			as = append(as, NormCond(ifi.Cond, pol))
			for _, g := range shortCircuitGuards(ifi.Cond, pol, ifi, 0) {
				as = append(as, NormCond(g.Cond, g.Pol))
			}
		}
		out = append(out, retPoint{Ret: r, Vals: nv, Atoms: as, At: last})
	}
	return out
}

func isSelfStore(st *ssa.Store) bool {
	ld, ok := st.Val.(*ssa.UnOp)
	return ok && ld.Op == token.MUL && ld.X == st.Addr
}

// plainCell: the cell is only stored to and loaded from (no address escapes, no closure captures it).
func plainCell(a *ssa.Alloc) bool {
	if a.Referrers() == nil {
		return false
	}
	for _, r := range *a.Referrers() {
		switch x := r.(type) {
		case *ssa.Store:
			if x.Addr != ssa.Value(a) {
				return false
			}
		case *ssa.UnOp:
			if x.Op != token.MUL {
				return false
			}
		case *ssa.DebugRef:
		default:
			return false
		}
	}
	return true
}

// cellReach: for every block, the set of values the cell can hold at the end of the block (reaching stores; the zero
// value of the cell's type stands for "never stored").
func cellReach(f *ssa.Function, a *ssa.Alloc) map[*ssa.BasicBlock]map[ssa.Value]bool {
	zero := zeroValueOf(a.Type().Underlying().(*types.Pointer).Elem())
	gen := map[*ssa.BasicBlock]ssa.Value{}
	for _, b := range f.Blocks {
		for _, in := range b.Instrs {
			if st, ok := in.(*ssa.Store); ok && st.Addr == ssa.Value(a) && !isSelfStore(st) {
				gen[b] = st.Val
			}
		}
	}
	out := map[*ssa.BasicBlock]map[ssa.Value]bool{}
	for _, b := range f.Blocks {
		out[b] = map[ssa.Value]bool{}
	}
	changed := true
	for changed {
		changed = false
		for _, b := range f.Blocks {
			ns := map[ssa.Value]bool{}
			if v, ok := gen[b]; ok {
				ns[v] = true
			} else {
				if b == f.Blocks[0] || b == a.Block() {
					ns[zero] = true
				}
				for _, p := range b.Preds {
					for v := range out[p] {
						ns[v] = true
					}
				}
			}
			if len(ns) != len(out[b]) {
				out[b] = ns
				changed = true
			}
		}
	}
	return out
}

var zeroConsts = map[string]*ssa.Const{}

var zeroConstsMu sync.Mutex

func zeroValueOf(t types.Type) ssa.Value {
	zeroConstsMu.Lock()
	defer zeroConstsMu.Unlock()
	k := types.TypeString(t, nil)
	if c, ok := zeroConsts[k]; ok {
		return c
	}
	var c *ssa.Const
	if b, ok := t.Underlying().(*types.Basic); ok && b.Info()&types.IsBoolean != 0 {
		c = ssa.NewConst(constant.MakeBool(false), t)
	} else if ok && b.Info()&types.IsNumeric != 0 {
		c = ssa.NewConst(constant.MakeInt64(0), t)
	} else {
		c = ssa.NewConst(nil, t)
	}
	zeroConsts[k] = c
	return c
}

// exitPoint: one way out of a function. A `return` in a block that only merges (several unconditional jumps into a
// block that does nothing but run the deferred calls and return — what `break L … }` at the end of an expanded helper
// produces) stands for one exit per incoming jump; At is the jump, and conditions / dominance are those of the jump.
type exitPoint struct {
	Ret *ssa.Return
	At  ssa.Instruction
	// Atoms: the conditions in force on this way out (those at At, plus the branch taken when At is a conditional)
	Atoms []Atom
}

func exitPointsOf(f *ssa.Function) []exitPoint {
	var out []exitPoint
	pureMerge := func(b *ssa.BasicBlock) bool {
		for _, in := range b.Instrs {
			switch x := in.(type) {
			case *ssa.Return, *ssa.RunDefers, *ssa.Phi, *ssa.Jump, *ssa.DebugRef:
			case *ssa.UnOp:
				if x.Op != token.MUL {
					return false
				}
			case *ssa.Store:
				if !isSelfStore(x) {
					return false
				}
			default:
				return false
			}
		}
		return true
	}
	for _, r := range returnsOf(f) {
		var expand func(b *ssa.BasicBlock, depth int) []exitPoint
		expand = func(b *ssa.BasicBlock, depth int) []exitPoint {
			if depth > 4 || len(b.Preds) < 1 || !pureMerge(b) || (len(b.Preds) < 2 && depth == 0) {
				return nil
			}
			var res []exitPoint
			for _, p := range b.Preds {
				last := p.Instrs[len(p.Instrs)-1]
				switch x := last.(type) {
				case *ssa.Jump:
					if len(p.Instrs) == 1 {
						// an empty forwarding block: look further up
						if up := expand(p, depth+1); up != nil {
							res = append(res, up...)
							continue
						}
					}
					res = append(res, exitPoint{r, last, AtomsAt(last)})
				case *ssa.If:
					// a conditional edge straight into the merge (`if c { break L }` after jump threading): the ways up to
					// the branch are the same for both edges, the edge adds its condition
					if len(p.Succs) != 2 || p.Succs[0] == p.Succs[1] {
						return nil
					}
					pol := p.Succs[0] == b
					as := append(AtomsAt(last), NormCond(x.Cond, pol))
					for _, g := range shortCircuitGuards(x.Cond, pol, x, 0) {
						as = append(as, NormCond(g.Cond, g.Pol))
					}
					res = append(res, exitPoint{r, last, as})
				default:
					return nil
				}
			}
			return res
		}
		if xs := expand(r.Block(), 0); len(xs) > 0 {
			out = append(out, xs...)
		} else {
			out = append(out, exitPoint{r, r, AtomsAt(r)})
		}
	}
	return out
}

// unitRetPoints: the return points of the anchor and of the code split off from it.
func (p *Prog) unitRetPoints(anchor *ssa.Function) []retPoint {
	var out []retPoint
	for _, r := range p.unitReturns(anchor) {
		out = append(out, retPointsOf(r)...)
	}
	return out
}
