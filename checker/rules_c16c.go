package main

import (
	"go/token"

	"golang.org/x/tools/go/ssa"
)

// C16.R7 — insert only when absent.  The usage queue accumulates between two uploads: a user's entry may already hold
// bytes that are out of a valve and not yet charged (filed by updateUsageQueueForOne when the user's last session
// closed; the same UID may be active again, with a fresh valve, before the next round).  A store into the queue map is
// therefore allowed only where the key is known to be absent — on the not-found edge of a look-up of the same key in
// the same map; anywhere else it replaces an entry and the bytes it held are never charged ("exactly once" becomes
// "less than once").  Seed C16-h: the accumulate-or-insert branch collapsed into an unconditional store.
func c16R7(c *Ctx, rule string) {
	c.Rule(rule, "insert only when absent: every store into the usage queue map is dominated by the not-found edge of a look-up of the same key", 2)
	p := c.P
	a := getSrvAnchors(c, rule)
	if a == nil {
		return
	}
	n := 0
	for _, f := range p.FuncsOfPkg("internal/server") {
		allInstrs(f, func(i ssa.Instruction) {
			mu, ok := i.(*ssa.MapUpdate)
			if !ok {
				return
			}
			if fv, _ := loadedField(mu.Map); fv != a.usageUpdateQueue {
				return
			}
			n++
			proof := ""
			allInstrs(f, func(j ssa.Instruction) {
				iff, isIf := j.(*ssa.If)
				if !isIf || proof != "" {
					return
				}
				lk, absentOnTrue := absentTest(iff.Cond)
				if lk == nil {
					return
				}
				if fv, _ := loadedField(lk.X); fv != a.usageUpdateQueue {
					return
				}
				if !sameValueOrLoad(stripConv(lk.Index), stripConv(mu.Key)) {
					return
				}
				s := iff.Block().Succs[1]
				if absentOnTrue {
					s = iff.Block().Succs[0]
				}
				if len(s.Preds) == 1 && s.Dominates(mu.Block()) {
					proof = "not-found edge of the look-up at " + c.at(lk)
				}
			})
			c.Check(proof != "", rule, "store into userPanel.usageUpdateQueue in "+shortFn(p.ownerAnchor(f)), c.at(mu), proof,
				"the entry for "+Expr(mu.Key)+" is stored without the key being known absent: an entry that already holds drained, not yet uploaded usage (filed when the user's previous last session closed) is replaced and those bytes are never charged")
		})
	}
	if n < 2 {
		c.Undecided(rule, "stores into the usage queue map", "-", "fewer than the two confirmed insert sites (updateUsageQueue, updateUsageQueueForOne) found")
	}
}

// absentTest: cond decides whether a map look-up found its key.  Returns the look-up and whether the key is absent on
// the true edge.  Forms: ok of v, ok := m[k]; !ok; m[k] == nil / != nil (pointer-, map-, slice- or interface-typed
// entries, with or without comma-ok).
func absentTest(cond ssa.Value) (*ssa.Lookup, bool) {
	switch x := cond.(type) {
	case *ssa.Extract:
		if lk, ok := x.Tuple.(*ssa.Lookup); ok && lk.CommaOk && x.Index == 1 {
			return lk, false
		}
	case *ssa.UnOp:
		if x.Op == token.NOT {
			if lk, abs := absentTest(x.X); lk != nil {
				return lk, !abs
			}
		}
	case *ssa.BinOp:
		if x.Op != token.EQL && x.Op != token.NEQ {
			return nil, false
		}
		v, other := x.X, x.Y
		if isNilConst(v) {
			v, other = other, v
		}
		if !isNilConst(other) {
			return nil, false
		}
		var lk *ssa.Lookup
		switch y := v.(type) {
		case *ssa.Lookup:
			if !y.CommaOk {
				lk = y
			}
		case *ssa.Extract:
			if l, ok := y.Tuple.(*ssa.Lookup); ok && l.CommaOk && y.Index == 0 {
				lk = l
			}
		}
		if lk == nil {
			return nil, false
		}
		return lk, x.Op == token.EQL
	}
	return nil, false
}
